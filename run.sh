#!/bin/sh
# usage: run.sh <property-id> [quick|thorough]
# Decides the property on /repo's current working tree by static analysis
# (nothing under /repo is executed). Rebuilds the checker if sources changed.
set -u
export GOFLAGS=-mod=mod GOPROXY=off GOSUMDB=off GOTOOLCHAIN=local
unset GOWORK
DIR=$(cd "$(dirname "$0")" && pwd)
BIN="$DIR/bin/ipcheck"
if [ ! -x "$BIN" ] || [ -n "$(find "$DIR/checker" -name '*.go' -newer "$BIN" 2>/dev/null | head -1)" ]; then
  (cd "$DIR/checker" && go build -o "$BIN" .) || { echo "cannot build checker" >&2; exit 2; }
fi
TIER=${2:-${VERIF_TIER:-quick}}
exec "$BIN" -property "$1" -tier "$TIER" -root "${VERIF_REPO:-/repo}" -verif "$DIR"
