#!/bin/sh
# usage: selftest.sh <property-id>   — runs every in-memory mutant of the property
export GOFLAGS=-mod=mod GOPROXY=off GOSUMDB=off GOTOOLCHAIN=local; unset GOWORK
cd /verif/checker && go build -o ../bin/ipcheck . || exit 2
for m in $(../bin/ipcheck -list | awk -v p="$1" '$1==p{on=1;next} /^C[0-9]/{on=0} on&&$1=="mutant"{print $2}'); do
  ../bin/ipcheck -property $1 -mutant $m | grep -E 'MUTANT-(CAUGHT|MISSED|SKIPPED)' &
done; wait
