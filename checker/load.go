package main

import (
	"fmt"
	"go/ast"
	"go/token"
	"go/types"
	"os"
	"path/filepath"
	"sort"
	"strings"

	"golang.org/x/tools/go/callgraph"
	"golang.org/x/tools/go/callgraph/cha"
	"golang.org/x/tools/go/callgraph/vta"
	"golang.org/x/tools/go/packages"
	"golang.org/x/tools/go/ssa"
	"golang.org/x/tools/go/ssa/ssautil"
)

const modPath = "github.com/cnotch/ipchub"

// Program is the resolved program rebuilt from the repository on every run.
type Program struct {
	Root      string
	Pkgs      []*packages.Package
	All       map[string]*packages.Package
	Fset      *token.FileSet
	SSA       *ssa.Program
	NPkgs     int
	NModFuncs int
	callSites map[*ssa.Function][]*ssa.Call
	fieldOwner map[*types.Var]*types.Named
	otherRefs map[*ssa.Function]int
	cg        *callgraph.Graph
	allFuncs  map[*ssa.Function]bool
	modFuncs  []*ssa.Function
	edgeCache map[*ssa.Function][]Edge
}

func loadProgram(root string, overlay map[string][]byte) (*Program, error) {
	env := append(os.Environ(), "GOFLAGS=-mod=mod", "GOPROXY=off", "GOSUMDB=off", "GOTOOLCHAIN=local", "GOWORK=off")
	cfg := &packages.Config{
		Mode:       packages.LoadAllSyntax,
		Dir:        root,
		Env:        env,
		Tests:      false,
		BuildFlags: []string{"-tags=verif"},
		Overlay:    overlay,
	}
	pkgs, err := packages.Load(cfg, "./...")
	if err != nil {
		return nil, err
	}
	if len(pkgs) == 0 {
		return nil, fmt.Errorf("no packages loaded from %s", root)
	}
	p := &Program{Root: root, Pkgs: pkgs, All: map[string]*packages.Package{}}
	var errs []string
	packages.Visit(pkgs, nil, func(pk *packages.Package) {
		p.All[pk.PkgPath] = pk
		if strings.HasPrefix(pk.PkgPath, modPath) {
			for _, e := range pk.Errors {
				errs = append(errs, e.Error())
			}
		}
	})
	if len(errs) > 0 {
		return nil, fmt.Errorf("load/type errors in module packages: %s", strings.Join(errs, "; "))
	}
	p.NPkgs = len(pkgs)
	p.Fset = pkgs[0].Fset
	prog, _ := ssautil.AllPackages(pkgs, ssa.InstantiateGenerics)
	prog.Build()
	p.SSA = prog
	p.allFuncs = ssautil.AllFunctions(prog)
	for f := range p.allFuncs {
		if p.InModule(f) {
			p.modFuncs = append(p.modFuncs, f)
		}
	}
	sort.Slice(p.modFuncs, func(i, j int) bool { return p.modFuncs[i].String() < p.modFuncs[j].String() })
	p.NModFuncs = len(p.modFuncs)
	return p, nil
}

// CG returns the VTA call graph (built lazily).
func (p *Program) CG() *callgraph.Graph {
	if p.cg == nil {
		p.cg = vta.CallGraph(p.allFuncs, cha.CallGraph(p.SSA))
	}
	return p.cg
}

func (p *Program) InModule(f *ssa.Function) bool {
	if f == nil {
		return false
	}
	pk := f.Package()
	if pk == nil {
		if f.Parent() != nil {
			return p.InModule(f.Parent())
		}
		if o := f.Origin(); o != nil && o != f {
			return p.InModule(o)
		}
		// wrappers/bound methods: use the object
		if f.Object() != nil && f.Object().Pkg() != nil {
			return strings.HasPrefix(f.Object().Pkg().Path(), modPath)
		}
		return false
	}
	return strings.HasPrefix(pk.Pkg.Path(), modPath)
}

func funcPkgPath(f *ssa.Function) string {
	for f != nil {
		if f.Package() != nil {
			return f.Package().Pkg.Path()
		}
		if f.Object() != nil && f.Object().Pkg() != nil {
			return f.Object().Pkg().Path()
		}
		if f.Parent() != nil {
			f = f.Parent()
			continue
		}
		if o := f.Origin(); o != nil && o != f {
			f = o
			continue
		}
		return ""
	}
	return ""
}

// Pkg returns the module package with relative path rel ("" = root).
func (p *Program) Pkg(rel string) *ssa.Package {
	path := modPath
	if rel != "" {
		path += "/" + rel
	}
	for _, sp := range p.SSA.AllPackages() {
		if sp.Pkg.Path() == path {
			return sp
		}
	}
	return nil
}

// ExtPkg returns any loaded package by full import path.
func (p *Program) ExtPkg(path string) *ssa.Package {
	for _, sp := range p.SSA.AllPackages() {
		if sp.Pkg.Path() == path {
			return sp
		}
	}
	return nil
}

// Func resolves "Name", "T.Name" or "(*T).Name" in module package rel.
// A trailing "$N" selects the N-th anonymous function.
func (p *Program) Func(rel, name string) *ssa.Function {
	sp := p.Pkg(rel)
	if sp == nil {
		return nil
	}
	if fn := lookupFunc(p.SSA, sp, name); fn != nil {
		return fn
	}
	// renamed private function recognised by the normalisation pre-pass
	key := sp.Pkg.Path() + "." + strings.NewReplacer("(*", "", ")", "").Replace(name)
	if nn, ok := funcAlias[key]; ok {
		alt := name
		if i := strings.LastIndex(name, "."); i >= 0 {
			alt = name[:i+1] + nn
		} else {
			alt = nn
		}
		return lookupFunc(p.SSA, sp, alt)
	}
	return nil
}

func lookupFunc(prog *ssa.Program, sp *ssa.Package, name string) *ssa.Function {
	anon := ""
	if i := strings.Index(name, "$"); i >= 0 {
		anon = name[i:]
		name = name[:i]
	}
	var fn *ssa.Function
	if strings.Contains(name, ".") {
		ptr := false
		s := name
		if strings.HasPrefix(s, "(*") {
			ptr = true
			s = strings.TrimPrefix(s, "(*")
			s = strings.Replace(s, ")", "", 1)
		}
		parts := strings.SplitN(s, ".", 2)
		tobj := sp.Pkg.Scope().Lookup(parts[0])
		if tobj == nil {
			return nil
		}
		named, ok := tobj.Type().(*types.Named)
		if !ok {
			return nil
		}
		var recv types.Type = named
		if ptr {
			recv = types.NewPointer(named)
		}
		sel := prog.MethodSets.MethodSet(recv).Lookup(sp.Pkg, parts[1])
		if sel == nil {
			// try the other receiver kind
			sel = prog.MethodSets.MethodSet(types.NewPointer(named)).Lookup(sp.Pkg, parts[1])
			if sel == nil {
				return nil
			}
		}
		// resolve to the declared method (not a wrapper)
		if mf, ok := sel.Obj().(*types.Func); ok {
			fn = prog.FuncValue(mf)
		}
	} else {
		fn = sp.Func(name)
	}
	if fn == nil || anon == "" {
		return fn
	}
	for _, a := range fn.AnonFuncs {
		if strings.HasSuffix(a.Name(), anon) {
			return a
		}
	}
	return nil
}

// Named returns the named type rel.name.
func (p *Program) Named(rel, name string) *types.Named {
	sp := p.Pkg(rel)
	if sp == nil {
		return nil
	}
	o := sp.Pkg.Scope().Lookup(name)
	if o == nil {
		return nil
	}
	n, _ := o.Type().(*types.Named)
	return n
}

// FieldVar returns the *types.Var of field in struct type rel.typ.
func (p *Program) FieldVar(rel, typ, field string) *types.Var {
	n := p.Named(rel, typ)
	if n == nil {
		return nil
	}
	st, ok := n.Underlying().(*types.Struct)
	if !ok {
		return nil
	}
	for i := 0; i < st.NumFields(); i++ {
		if st.Field(i).Name() == field {
			return st.Field(i)
		}
	}
	// renamed private field: the only field of the struct that the baseline does not know and that has
	// the type the baseline recorded for the missing one
	key := n.Obj().Pkg().Path() + "." + n.Obj().Name() + "." + field
	if wantT, ok := baselineFields[key]; ok {
		var cands []*types.Var
		for i := 0; i < st.NumFields(); i++ {
			f := st.Field(i)
			k2 := n.Obj().Pkg().Path() + "." + n.Obj().Name() + "." + f.Name()
			if _, known := baselineFields[k2]; known {
				continue
			}
			if types.TypeString(f.Type(), func(p *types.Package) string { return p.Path() }) == wantT {
				cands = append(cands, f)
			}
		}
		// several renamed fields of one type: keep declaration order among the missing ones
		var missing []string
		for k, t := range baselineFields {
			if strings.HasPrefix(k, n.Obj().Pkg().Path()+"."+n.Obj().Name()+".") && t == wantT {
				name := k[strings.LastIndex(k, ".")+1:]
				found := false
				for i := 0; i < st.NumFields(); i++ {
					if st.Field(i).Name() == name {
						found = true
					}
				}
				if !found {
					missing = append(missing, k)
				}
			}
		}
		if len(cands) == len(missing) && len(cands) > 0 {
			sort.Slice(missing, func(i, j int) bool { return baselineFieldOrder[missing[i]] < baselineFieldOrder[missing[j]] })
			for i, k := range missing {
				if k == key {
					return cands[i]
				}
			}
		}
	}
	return nil
}

// baselineFields: pkg.Type.field -> type string; baselineFieldOrder: declaration index.
var baselineFields = map[string]string{}
var baselineFieldOrder = map[string]int{}

// Global returns the package-level variable rel.name.
func (p *Program) Global(rel, name string) *ssa.Global {
	sp := p.Pkg(rel)
	if sp == nil {
		return nil
	}
	g, _ := sp.Members[name].(*ssa.Global)
	return g
}

// ModFuncs returns every function (incl. closures) of the module.
func (p *Program) ModFuncs() []*ssa.Function { return p.modFuncs }

// FuncsInPkg returns module functions (incl. closures and methods) of package rel.
func (p *Program) FuncsInPkg(rel string) []*ssa.Function {
	path := modPath
	if rel != "" {
		path += "/" + rel
	}
	var out []*ssa.Function
	for _, f := range p.modFuncs {
		if funcPkgPath(f) == path && f.Synthetic == "" {
			out = append(out, f)
		}
	}
	return out
}

func (p *Program) Pos(pos token.Pos) string {
	if !pos.IsValid() {
		return ""
	}
	ps := p.Fset.Position(pos)
	rel, err := filepath.Rel(p.Root, ps.Filename)
	if err != nil || strings.HasPrefix(rel, "..") {
		rel = ps.Filename
	}
	return fmt.Sprintf("%s:%d", rel, ps.Line)
}

// InstrPos returns the best position for an instruction.
func (p *Program) InstrPos(ins ssa.Instruction) string {
	if ins == nil {
		return ""
	}
	if ins.Pos().IsValid() {
		return p.Pos(ins.Pos())
	}
	// fall back to any positioned instruction in the block, then the function
	if b := ins.Block(); b != nil {
		for _, i := range b.Instrs {
			if i.Pos().IsValid() {
				return p.Pos(i.Pos())
			}
		}
	}
	if ins.Parent() != nil {
		return p.Pos(ins.Parent().Pos())
	}
	return ""
}

// SyntaxOf returns the parsed package for module-relative path rel.
func (p *Program) SyntaxOf(rel string) *packages.Package {
	path := modPath
	if rel != "" {
		path += "/" + rel
	}
	return p.All[path]
}

// FuncDecl finds the AST declaration of a source function.
func (p *Program) FuncDecl(fn *ssa.Function) *ast.FuncDecl {
	if fn == nil {
		return nil
	}
	if d, ok := fn.Syntax().(*ast.FuncDecl); ok {
		return d
	}
	return nil
}

// fname is a stable printable name for a function relative to the module.
func fname(f *ssa.Function) string {
	if f == nil {
		return "<nil>"
	}
	s := f.String()
	s = strings.ReplaceAll(s, modPath+"/", "")
	s = strings.ReplaceAll(s, modPath+".", "")
	return s
}

// baseFieldName returns the name the baseline symbol table knows a (possibly renamed) private
// struct field by; for every other field its own name.
func (p *Program) baseFieldName(f *types.Var) string {
	if f == nil {
		return ""
	}
	if len(baselineFields) == 0 || f.Pkg() == nil || !strings.HasPrefix(f.Pkg().Path(), modPath) {
		return f.Name()
	}
	if p.fieldOwner == nil {
		p.fieldOwner = map[*types.Var]*types.Named{}
		for _, pk := range p.All {
			if pk.Types == nil || !strings.HasPrefix(pk.PkgPath, modPath) {
				continue
			}
			sc := pk.Types.Scope()
			for _, nm := range sc.Names() {
				tn, ok := sc.Lookup(nm).(*types.TypeName)
				if !ok {
					continue
				}
				named, ok := tn.Type().(*types.Named)
				if !ok {
					continue
				}
				st, ok := named.Underlying().(*types.Struct)
				if !ok {
					continue
				}
				for i := 0; i < st.NumFields(); i++ {
					p.fieldOwner[st.Field(i)] = named
				}
			}
		}
	}
	owner := p.fieldOwner[f]
	if owner == nil {
		return f.Name()
	}
	prefix := owner.Obj().Pkg().Path() + "." + owner.Obj().Name() + "."
	if _, known := baselineFields[prefix+f.Name()]; known {
		return f.Name()
	}
	rel := strings.TrimPrefix(strings.TrimPrefix(owner.Obj().Pkg().Path(), modPath), "/")
	for k := range baselineFields {
		if !strings.HasPrefix(k, prefix) {
			continue
		}
		name := strings.TrimPrefix(k, prefix)
		if strings.Contains(name, ".") {
			continue
		}
		if p.FieldVar(rel, owner.Obj().Name(), name) == f {
			return name
		}
	}
	return f.Name()
}
