package main

import (
	"fmt"
	"go/token"
	"strings"

	"golang.org/x/tools/go/ssa"
)

func init() {
	register(&PropertyDef{
		ID: "C20",
		Explanation: "Static analysis of the on-demand pull client. Decided: (1) R-READ-HAS-DEADLINE - every blocking read of the camera connection (ReadResponse in the handshake, receive in the play loop) is dominated in its function by SetReadDeadline on that connection with a time derived from time.Now() and the configured timeout; (2) R-OPEN-FAIL-DISCONNECTS - Open registers, before connecting, a deferred closure that disconnects when the named error result is non-nil; every step's error is stored in that result and a non-nil error ends Open before the next step; (3) R-PLAY-EXIT-CLEANS - the play goroutine registers, before registering the stream or counting the connection, a deferred closure that on every path releases the connection counter, unregisters the stream and disconnects; (4) R-AUTH-RETRIES-BOUNDED - requestWithResponse has no loop and is on no call cycle: at most three requests per step; an unsuccessful final status is returned as an error; (5) R-FACTORY-FAILS-CLOSED - the factory returns no stream when the client cannot be created or opened, and GetOrCreate returns nil then; (6) R-SDP-FORMAT-GUARDED - every read of an SDP media section's first format is guarded by a length test (camera-supplied SDP).",
		NotDecided: "What the camera observes on the wire, single registration under racing first requests (schedule-level), counts at quiescence.",
		Rules: []*RuleDoc{
			{Name: "R-READ-HAS-DEADLINE", Text: "Handshake and play-loop reads are dominated by SetReadDeadline(now + configured timeout).", Run: ruleReadHasDeadline},
			{Name: "R-OPEN-FAIL-DISCONNECTS", Text: "Open: defer{if err != nil {disconnect}} before connect; a failing step ends Open.", Run: ruleOpenFailDisconnects},
			{Name: "R-PLAY-EXIT-CLEANS", Text: "playStream's deferred closure: Release, Unregist, disconnect on every path; registered before Regist/Add.", Run: rulePlayExitCleans},
			{Name: "R-AUTH-RETRIES-BOUNDED", Text: "requestWithResponse: no loop, no recursion, <= 3 requests; non-2xx final status is an error.", Run: ruleAuthRetriesBounded},
			{Name: "R-FACTORY-FAILS-CLOSED", Text: "Create returns (nil, err) on failure; GetOrCreate returns nil when no stream was created.", Run: ruleFactoryFailsClosed},
			{Name: "R-SDP-FORMAT-GUARDED", Text: "media.Format[0] only under len(media.Format) > 0.", Run: ruleSDPFormatGuarded},
		},
	})
	// rules shared across properties whose statements overlap (each rule decides one structural clause;
	// the clause is a necessary condition of every property listed here)
	share := func(prop string, r *RuleDoc) {
		if p := properties[prop]; p != nil {
			for _, x := range p.Rules {
				if x.Name == r.Name {
					return
				}
			}
			p.Rules = append(p.Rules, r)
		}
	}
	// C01 "each packet at most once ... byte-identical": join atomicity (no duplicate at attach) and untorn frames
	share("C01", &RuleDoc{Name: "R-JOIN-ATOMIC", Text: "(shared with C02) cache+broadcast and snapshot+register are mutually atomic: a joiner never receives a packet both from the replay and live.", Run: ruleJoinAtomic})
	share("C01", &RuleDoc{Name: "R-WRITE-LOCKED", Text: "(shared with C13) every write to a consumer's connection holds the session write lock: frames are not spliced with responses.", Run: ruleWriteLocked})
	// C02 "FLV variant presents the replayed headers ... on copies"
	share("C02", &RuleDoc{Name: "R-PUBLISHED-IMMUTABLE", Text: "(shared with C01) replayed FLV headers are restamped on per-consumer copies, never in place.", Run: rulePublishedImmutable})
	share("C02", &RuleDoc{Name: "R-KEYFRAME-CONSTS", Text: "(shared with C08) the caches' key-frame classification constants equal the codec constants and agree with the sibling implementations.", Run: ruleKeyframeConsts})
	// C04 "dropping begins and ends only at the start of a key frame" depends on the classification constants
	share("C04", &RuleDoc{Name: "R-KEYFRAME-CONSTS", Text: "(shared with C08) the key-frame classification constants (IDR / IRAP range) agree across caches and packetisers.", Run: ruleKeyframeConsts})
	// the SDP guard is also part of C07 (malformed SDP contained)
	if p7 := properties["C07"]; p7 != nil {
		p7.Rules = append(p7.Rules, &RuleDoc{Name: "R-SDP-FORMAT-GUARDED", Text: "media.Format[0] only under len(media.Format) > 0.", Run: ruleSDPFormatGuarded})
	}
	addMutants(
		&Mutant{Prop: "C20", Name: "c20-handshake-no-deadline", File: "service/rtsp/pull_client.go",
			Old: "\tif timeout := config.NetTimeout(); timeout > 0 {\n\t\tif err = c.conn.SetReadDeadline(time.Now().Add(timeout)); err != nil {\n\t\t\treturn nil, err\n\t\t}\n\t}\n", New: "", Expect: "R-READ-HAS-DEADLINE"},
		&Mutant{Prop: "C20", Name: "c20-open-leaks-on-setup-error", File: "service/rtsp/pull_client.go",
			Old: "\t// 设置通讯通道\n\terr = c.requestSetup()\n\tif err != nil {\n\t\treturn err\n\t}", New: "\t// 设置通讯通道\n\tif e := c.requestSetup(); e != nil {\n\t\tc.logger.Error(e.Error())\n\t\treturn nil\n\t}", Expect: "R-OPEN-FAIL-DISCONNECTS"},
		&Mutant{Prop: "C20", Name: "c20-play-exit-keeps-registration", File: "service/rtsp/pull_client.go",
			Old: "\t\tmedia.Unregist(c.stream)  // 从媒体中心取消注册\n", New: "\t\tif !c.closed {\n\t\t\tmedia.Unregist(c.stream)\n\t\t}\n", Expect: "R-PLAY-EXIT-CLEANS"},
		&Mutant{Prop: "C20", Name: "c20-auth-retry-loop", File: "service/rtsp/pull_client.go",
			Old: "\tif !(resp.StatusCode >= 200 && resp.StatusCode <= 300) {\n\t\treturn resp, errors.New(resp.Status)\n\t}\n\n\treturn resp, nil", New: "\tif resp.StatusCode == StatusUnauthorized {\n\t\treturn c.requestWithResponse(r)\n\t}\n\tif !(resp.StatusCode >= 200 && resp.StatusCode <= 300) {\n\t\treturn resp, errors.New(resp.Status)\n\t}\n\n\treturn resp, nil", Expect: "R-AUTH-RETRIES-BOUNDED"},
		&Mutant{Prop: "C20", Name: "c20-factory-returns-half-open", File: "service/rtsp/pull_stream_factory.go",
			Old: "\terr = client.Open()\n\tif err != nil {\n\t\treturn nil, err\n\t}", New: "\terr = client.Open()\n\tif err != nil && client.stream == nil {\n\t\treturn nil, err\n\t}", Expect: "R-FACTORY-FAILS-CLOSED"},
		&Mutant{Prop: "C20", Name: "c20-format-unguarded", File: "service/rtsp/pull_client.go",
			Old: "\t\t\tif len(media.Format) > 0 { // 非 RTP 的媒体描述(如 `m=video 0 udp x`)没有格式列表\n\t\t\t\tc.vCodec = media.Format[0].Name\n\t\t\t}", New: "\t\t\tc.vCodec = media.Format[0].Name", Expect: "R-SDP-FORMAT-GUARDED"},
		&Mutant{Prop: "C20", Name: "c20-error-status-accepted", File: "service/rtsp/pull_client.go",
			Old: "\tif !(resp.StatusCode >= 200 && resp.StatusCode <= 300) {\n\t\treturn resp, errors.New(resp.Status)\n\t}\n\n\treturn resp, nil", New: "\treturn resp, nil", Expect: "R-AUTH-RETRIES-BOUNDED"},
	)
}

func isPullConnCall(ins ssa.Instruction, method string) bool {
	cc := callCommon(ins)
	if cc == nil || cc.StaticCallee() == nil || baseFuncName(cc.StaticCallee()) != method || len(cc.Args) == 0 {
		return false
	}
	f, base, ok := fieldLoad(cc.Args[0])
	return ok && theProgram.baseFieldName(f) == "conn" && typeIs(base.Type(), modRel("service/rtsp"), "PullClient")
}

func ruleReadHasDeadline(c *Ctx) {
	p := c.P
	n := 0
	for _, fn := range p.FuncsInPkg("service/rtsp") {
		if fn.Signature.Recv() == nil || !typeIs(fn.Signature.Recv().Type(), modRel("service/rtsp"), "PullClient") {
			root := fn
			for root.Parent() != nil {
				root = root.Parent()
			}
			if root.Signature.Recv() == nil || !typeIs(root.Signature.Recv().Type(), modRel("service/rtsp"), "PullClient") {
				continue
			}
		}
		instrs(fn, func(ins ssa.Instruction) {
			cc := callCommon(ins)
			if cc == nil {
				return
			}
			name := ""
			if cal := cc.StaticCallee(); cal != nil {
				name = cal.Name()
			} else if u, ok := cc.Value.(*ssa.UnOp); ok {
				if g, ok := u.X.(*ssa.Global); ok {
					name = g.Name()
				}
			}
			if name != "ReadResponse" && name != "receive" && name != "ReadRequest" && name != "ReadPacket" {
				return
			}
			n++
			c.sites++
			c.touched(fname(fn))
			// a dominating SetReadDeadline on c.conn whose argument derives from time.Now and a configured timeout
			good := false
			instrs(fn, func(i2 ssa.Instruction) {
				if !isPullConnCall(i2, "SetReadDeadline") {
					return
				}
				if !dominatesInstr(i2, ins) {
					// accepted idiom: `if timeout := config.X(); timeout > 0 { SetReadDeadline(...) }` directly before the read:
					// the deadline is armed whenever a timeout is configured
					blk := i2.Block()
					okCond := false
					if len(blk.Preds) == 1 {
						pr := blk.Preds[0]
						if ifi, ok := pr.Instrs[len(pr.Instrs)-1].(*ssa.If); ok && pr.Succs[0] == blk && pr.Dominates(ins.Block()) {
							if bo, ok := ifi.Cond.(*ssa.BinOp); ok && bo.Op == token.GTR {
								if k, ok := evalInt(bo.Y); ok && k == 0 {
									if call, ok := origin(bo.X).(*ssa.Call); ok && call.Call.StaticCallee() != nil && strings.HasPrefix(funcPkgPath(call.Call.StaticCallee()), modPath+"/config") {
										okCond = true
									}
								}
							}
						}
					}
					if !okCond {
						return
					}
				}
				now, conf := false, false
				walkDeps(callCommon(i2).Args[1], func(x ssa.Value) bool {
					if call, ok := x.(*ssa.Call); ok {
						nm := calleeName(&call.Call)
						if nm == "time.Now" {
							now = true
						}
						if call.Call.StaticCallee() != nil && strings.HasPrefix(funcPkgPath(call.Call.StaticCallee()), modPath+"/config") {
							conf = true
						}
					}
					return true
				})
				if now && conf {
					good = true
				}
			})
			c.Decide(good, "read-deadline:"+name+"@"+fname(fn), p.InstrPos(ins), "read preceded by SetReadDeadline(now + configured timeout)", "a blocking read of the camera connection ("+name+") is not preceded by a read deadline derived from the configured timeout: a camera that accepts the connection and stays silent blocks the requester forever")
		})
	}
	c.Floor("blocking reads of the pull connection", n, 2)
}

func ruleOpenFailDisconnects(c *Ctx) {
	p := c.P
	fn := p.Func("service/rtsp", "(*PullClient).Open")
	dis := p.Func("service/rtsp", "(*PullClient).disconnect")
	if fn == nil || dis == nil {
		c.Lost("rtsp.PullClient.Open/disconnect", "not found")
		return
	}
	c.touched(fname(fn))
	var conn ssa.Instruction
	steps := map[string]ssa.Instruction{}
	order := []string{"connect", "requestHandshake", "requestSDP", "requestSetup", "requestPlay"}
	tableOrder := true
	instrs(fn, func(ins ssa.Instruction) {
		cc := callCommon(ins)
		if cc == nil {
			return
		}
		var callees []*ssa.Function
		if cc.StaticCallee() != nil {
			callees = []*ssa.Function{cc.StaticCallee()}
		} else if _, isCall := ins.(*ssa.Call); isCall {
			// table-driven form: the steps are called through a local array of method values in range order
			callees = tableCallees(cc)
			for i, f := range callees {
				if i >= len(order) || baseFuncName(f) != order[i] {
					tableOrder = false
				}
			}
		}
		for _, f := range callees {
			switch baseFuncName(f) {
			case "connect":
				conn = ins
				steps["connect"] = ins
			case "requestHandshake", "requestSDP", "requestSetup", "requestPlay":
				steps[baseFuncName(f)] = ins
			}
		}
	})
	if !tableOrder {
		c.Bad("open:step-order", p.Pos(fn.Pos()), "the table of handshake steps is not connect, OPTIONS, DESCRIBE, SETUP, PLAY in this order")
	}
	if conn == nil || len(steps) != 5 {
		c.Lost("Open.steps", fmt.Sprintf("expected connect + 4 handshake steps, found %d", len(steps)))
		return
	}
	// the err result cell
	var errCell *ssa.Alloc
	if len(fn.Blocks) > 0 {
		for _, ins := range fn.Blocks[0].Instrs {
			if al, ok := ins.(*ssa.Alloc); ok && al.Comment == "err" {
				errCell = al
			}
		}
	}
	var good *ssa.Defer
	instrs(fn, func(ins ssa.Instruction) {
		d, ok := ins.(*ssa.Defer)
		if !ok || !dominatesInstr(d, conn) {
			return
		}
		df := deferredFunc(d)
		if df == nil {
			return
		}
		// closure: disconnect called exactly on the `err != nil` edge where err is the captured result
		okc := false
		instrs(df, func(i2 ssa.Instruction) {
			if !callsFunc(i2, dis) {
				return
			}
			blk := i2.Block()
			if len(blk.Preds) != 1 {
				return
			}
			pr := blk.Preds[0]
			ifi, ok := pr.Instrs[len(pr.Instrs)-1].(*ssa.If)
			if !ok {
				return
			}
			bo, ok := ifi.Cond.(*ssa.BinOp)
			if !ok || !(isNilConst(bo.Y) || isNilConst(bo.X)) {
				return
			}
			v := bo.X
			if isNilConst(v) {
				v = bo.Y
			}
			u, ok := v.(*ssa.UnOp)
			if !ok {
				return
			}
			if _, isFV := u.X.(*ssa.FreeVar); !isFV {
				return
			}
			if bo.Op == token.NEQ && pr.Succs[0] == blk || bo.Op == token.EQL && pr.Succs[1] == blk {
				okc = true
			}
		})
		// and the tested value is the free variable bound to the result cell
		bound := false
		if mc, ok := d.Call.Value.(*ssa.MakeClosure); ok {
			for _, b := range mc.Bindings {
				if b == ssa.Value(errCell) {
					bound = true
				}
			}
		}
		if okc && bound {
			good = d
		}
	})
	c.Decide(good != nil, "open:defer-disconnect", p.Pos(fn.Pos()), "deferred disconnect-on-error registered before connect", "Open does not register, before connecting, a deferred closure that disconnects when its error result is non-nil")
	// every step's error goes into the result cell, and is tested before the next step
	for name, ins := range steps {
		call := ins.(*ssa.Call)
		stored := false
		for _, r := range referrersOf(call) {
			if st, ok := r.(*ssa.Store); ok && st.Addr == ssa.Value(errCell) {
				stored = true
			}
		}
		c.Decide(stored, "open:step-error-in-result:"+name, p.InstrPos(ins), "step error assigned to the result the deferred cleanup inspects", "the error of "+name+" is not assigned to Open's named error result: when this step fails the deferred cleanup sees a nil error and the camera connection (and half-built client state) is leaked")
	}
	for i := 0; i+1 < len(order); i++ {
		a, b := steps[order[i]], steps[order[i+1]]
		// b must be reachable only through the nil-error edge after a: a's block ends in an If on err != nil whose true edge does not reach b
		okEdge := false
		ab := a.Block()
		if ifi, ok := ab.Instrs[len(ab.Instrs)-1].(*ssa.If); ok {
			if bo, ok := ifi.Cond.(*ssa.BinOp); ok && (bo.Op == token.NEQ || bo.Op == token.EQL) && (isNilConst(bo.X) || isNilConst(bo.Y)) {
				errSide := ab.Succs[0]
				if bo.Op == token.EQL {
					errSide = ab.Succs[1]
				}
				if errSide != b.Block() && !reachableBlocks(errSide)[b.Block()] {
					okEdge = true
				}
			}
		}
		c.Decide(okEdge && (a == b || dominatesInstr(a, b)), "open:stops-at-first-error:"+order[i], p.InstrPos(a), "a failing step ends Open", "after "+order[i]+" fails Open continues with "+order[i+1])
	}
}

func rulePlayExitCleans(c *Ctx) {
	p := c.P
	fn := p.Func("service/rtsp", "(*PullClient).playStream")
	dis := p.Func("service/rtsp", "(*PullClient).disconnect")
	unreg := p.Func("media", "Unregist")
	reg := p.Func("media", "Regist")
	if fn == nil || dis == nil || unreg == nil || reg == nil {
		c.Lost("rtsp.PullClient.playStream", "not found")
		return
	}
	c.touched(fname(fn))
	var d0 *ssa.Defer
	instrs(fn, func(ins ssa.Instruction) {
		if d, ok := ins.(*ssa.Defer); ok && d0 == nil {
			d0 = d
		}
	})
	if d0 == nil {
		c.Bad("play-exit:defer", p.Pos(fn.Pos()), "playStream registers no deferred cleanup")
		return
	}
	df := deferredFunc(d0)
	c.touched(fname(df))
	for _, want := range []struct {
		name string
		pred func(ssa.Instruction) bool
	}{
		{"Unregist", func(i ssa.Instruction) bool { return callsFunc(i, unreg) }},
		{"disconnect", func(i ssa.Instruction) bool { return callsFunc(i, dis) }},
		{"Release", func(i ssa.Instruction) bool { return counterCall(i, "Release") != nil }},
	} {
		ex, n := countPaths(df, want.pred, nil)
		c.paths += n
		ok := len(ex) > 0
		for _, sts := range ex {
			for _, s := range sts {
				if s.N != 1 {
					ok = false
				}
			}
		}
		c.Decide(ok, "play-exit:"+want.name, p.Pos(df.Pos()), want.name+" on every exit path", "a path of the play goroutine's cleanup does not call "+want.name+" exactly once: after the camera disconnects the stream stays registered / the connection or its count is leaked")
	}
	// defer precedes Regist and the counter Add
	instrs(fn, func(ins ssa.Instruction) {
		if callsFunc(ins, reg) || counterCall(ins, "Add") != nil {
			if _, isDefer := ins.(*ssa.Defer); isDefer {
				return
			}
			what := "Regist"
			if counterCall(ins, "Add") != nil {
				what = "Conns.Add"
			}
			c.Decide(dominatesInstr(d0, ins), "play-exit:defer-before-"+what, p.InstrPos(ins), "cleanup registered first", what+" happens before the cleanup is registered")
		}
	})
	// Unregist's argument is the client's own stream
	instrs(df, func(ins ssa.Instruction) {
		if callsFunc(ins, unreg) {
			f, _, ok := fieldLoad(callCommon(ins).Args[0])
			c.Decide(ok && theProgram.baseFieldName(f) == "stream", "play-exit:unregist-own-stream", p.InstrPos(ins), "unregisters its own stream", "the cleanup unregisters something other than the client's own stream")
		}
	})
}

func ruleAuthRetriesBounded(c *Ctx) {
	p := c.P
	fn := p.Func("service/rtsp", "(*PullClient).requestWithResponse")
	req := p.Func("service/rtsp", "(*PullClient).request")
	if fn == nil || req == nil {
		c.Lost("rtsp.PullClient.requestWithResponse", "not found")
		return
	}
	c.touched(fname(fn))
	loop := false
	for _, b := range fn.Blocks {
		if reachableBlocks(b)[b] {
			loop = true
		}
	}
	c.Decide(!loop, "auth-retries:no-loop", p.Pos(fn.Pos()), "no loop", "requestWithResponse contains a loop: a camera that keeps answering 401 is retried without bound")
	r := p.Reach([]*ssa.Function{fn}, nil)
	rec := false
	for f := range r.Funcs {
		for _, e := range p.OutEdges(f) {
			if e.Callee == fn {
				rec = true
			}
		}
	}
	c.Decide(!rec, "auth-retries:no-recursion", p.Pos(fn.Pos()), "not on a call cycle", "requestWithResponse can call itself: authentication retries are unbounded")
	n := 0
	instrs(fn, func(ins ssa.Instruction) {
		if callsFunc(ins, req) {
			n++
		}
	})
	c.Decide(n >= 1 && n <= 3, "auth-retries:at-most-three", p.Pos(fn.Pos()), fmt.Sprintf("%d request sites", n), fmt.Sprintf("%d request sites (expected 1..3: plain, with credentials, with MD5 password)", n))
	// a non-2xx final status is returned as an error: the `return resp, nil` is dominated by a status range test
	okStatus := false
	instrs(fn, func(ins ssa.Instruction) {
		ret, ok := ins.(*ssa.Return)
		if !ok || !isNilConst(retValue(ret, 1)) || isNilConst(retValue(ret, 0)) {
			return
		}
		okStatus = false
		for _, d := range fn.Blocks {
			ifi, ok := d.Instrs[len(d.Instrs)-1].(*ssa.If)
			if !ok || !d.Dominates(ins.Block()) {
				continue
			}
			if bo, ok := ifi.Cond.(*ssa.BinOp); ok {
				if f, _, okf := fieldLoad(bo.X); okf && theProgram.baseFieldName(f) == "StatusCode" {
					if k, okk := evalInt(bo.Y); okk && (k == 200 || k == 300 || k == 299) {
						okStatus = true
					}
				}
			}
		}
	})
	c.Decide(okStatus, "auth-retries:status-checked", p.Pos(fn.Pos()), "success only for a 2xx final status", "requestWithResponse reports success without checking the final status code: a refusing camera (4xx/5xx, still 401) is treated as success and a dead stream is registered")
}

func ruleFactoryFailsClosed(c *Ctx) {
	p := c.P
	fn := p.Func("service/rtsp", "(*pullStreamFactory).Create")
	if fn == nil {
		c.Lost("rtsp.pullStreamFactory.Create", "not found")
		return
	}
	c.touched(fname(fn))
	// every return with a non-nil stream has both errors (NewPullClient, Open) established nil
	bad := false
	c.paths += factsAt(p, fn, nil, nil, func(ins ssa.Instruction, s factSet) {
		ret, ok := ins.(*ssa.Return)
		if !ok {
			return
		}
		if isNilConst(retValue(ret, 0)) {
			return
		}
		if !(s.has("call:rtsp.NewPullClient#1==nil") && s.has("call:PullClient.Open==nil")) {
			bad = true
			c.Bad("factory:stream-only-on-success", p.InstrPos(ret), "Create returns a stream on a path with facts {"+string(s)+"}: both NewPullClient and Open must have succeeded")
		}
		// no other condition may be required for the error return: checked by the symmetric rule below
	})
	// every path on which Open failed returns nil stream
	c.paths += factsAt(p, fn, nil, nil, func(ins ssa.Instruction, s factSet) {
		ret, ok := ins.(*ssa.Return)
		if !ok {
			return
		}
		if s.has("call:PullClient.Open!=nil") && !isNilConst(retValue(ret, 0)) {
			bad = true
			c.Bad("factory:nil-on-open-error", p.InstrPos(ret), "Create can return a stream although Open failed: consumers attach to a stream whose camera connection was already torn down")
		}
	})
	if !bad {
		c.OK("factory:stream-only-on-success", p.Pos(fn.Pos()), "stream returned only when the client was created and opened")
	}
	// GetOrCreate: returns only Get's result, the created stream, or nil
	goc := p.Func("media", "GetOrCreate")
	if goc == nil {
		c.Lost("media.GetOrCreate", "not found")
		return
	}
	okG := true
	instrs(goc, func(ins ssa.Instruction) {
		ret, ok := ins.(*ssa.Return)
		if !ok {
			return
		}
		v := retValue(ret, 0)
		if isNilConst(v) {
			return
		}
		src := origin(v)
		if ph, isPhi := src.(*ssa.Phi); isPhi {
			for _, e := range ph.Edges {
				if isNilConst(e) || e == ssa.Value(ph) {
					continue
				}
				if ex, ok := e.(*ssa.Extract); ok && ex.Index == 0 {
					continue
				}
				okG = false
			}
			return
		}
		if call, ok := src.(*ssa.Call); ok && call.Call.StaticCallee() != nil && baseFuncName(call.Call.StaticCallee()) == "Get" {
			return
		}
		if ex, ok := src.(*ssa.Extract); ok && ex.Index == 0 {
			return
		}
		okG = false
	})
	c.Decide(okG, "factory:getorcreate-result", p.Pos(goc.Pos()), "GetOrCreate yields the registered stream, the created stream, or nil", "GetOrCreate can return something other than the lookup result or the factory's stream")
}

func ruleSDPFormatGuarded(c *Ctx) {
	p := c.P
	n := 0
	ord := map[*ssa.Function]int{}
	for _, rel := range []string{"service/rtsp", "service/wsp", "av/format/sdp"} {
		for _, fn := range p.FuncsInPkg(rel) {
			instrs(fn, func(ins ssa.Instruction) {
				ia, ok := ins.(*ssa.IndexAddr)
				if !ok {
					return
				}
				f, base, ok := fieldLoad(ia.X)
				if !ok || theProgram.baseFieldName(f) != "Format" || !typeIs(base.Type(), "github.com/pixelbender/go-sdp/sdp", "Media") {
					return
				}
				n++
				ord[fn]++
				c.touched(fname(fn))
				// dominated by len(x.Format) > 0 (or != 0) on the same media value
				guarded := false
				for _, d := range fn.Blocks {
					ifi, ok := d.Instrs[len(d.Instrs)-1].(*ssa.If)
					if !ok || !d.Dominates(ins.Block()) || d == ins.Block() {
						continue
					}
					bo, ok := ifi.Cond.(*ssa.BinOp)
					if !ok {
						continue
					}
					lc, ok := bo.X.(*ssa.Call)
					if !ok || calleeName(&lc.Call) != "builtin.len" {
						continue
					}
					lf, lbase, ok := fieldLoad(lc.Call.Args[0])
					if !ok || lf.Name() != "Format" || origin(lbase) != origin(base) {
						continue
					}
					k, isc := evalInt(bo.Y)
					if !isc {
						continue
					}
					viaTrue := d.Succs[0] == ins.Block() || d.Succs[0].Dominates(ins.Block())
					if (bo.Op == token.GTR && k == 0 || bo.Op == token.NEQ && k == 0 || bo.Op == token.GEQ && k == 1) && viaTrue {
						guarded = true
					}
					viaFalse := (d.Succs[1] == ins.Block() || d.Succs[1].Dominates(ins.Block())) && len(d.Succs[1].Preds) == 1
					if (bo.Op == token.EQL && k == 0 || bo.Op == token.LSS && k == 1 || bo.Op == token.LEQ && k == 0) && viaFalse {
						guarded = true
					}
				}
				c.Decide(guarded, fmt.Sprintf("sdp-format:%s#%d", fname(fn), ord[fn]), p.InstrPos(ins), "first format read only when the list is non-empty", "media.Format[0] is read without a length test: an SDP media line without formats (`m=video 0 udp x`) from a publisher or a pulled camera panics here")
			})
		}
	}
	c.Floor("reads of an SDP media section's first format", n, 6)
}
