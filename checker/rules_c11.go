package main

import (
	"fmt"
	"go/constant"
	"go/token"
	"go/types"
	"sort"
	"strings"

	"golang.org/x/tools/go/ssa"
)

func init() {
	register(&PropertyDef{
		ID: "C11",
		Explanation: "Static analysis of authorisation on every entry point. Decided: (1) R-SINK-GUARDED - RTSP: every role switch that starts delivery (asTCP/UDP/MulticastConsumer) is dominated by the true edge of checkPermission(PullRight) and the one that publishes (asTCPPusher) by checkPermission(PushRight), and those helpers, StartConsume, AddMember, Regist are called from nowhere else in the RTSP service; HTTP: the /streams/ registration is wrapped by streamInterceptor, whose every granting path is either the configuration switch or token check + pull permission; delivery functions (HTTP-FLV, WS-FLV, HLS playlist/segment, ws-rtsp and WSP accept) are called only below that registration; /api/: the router is reached only through the no-auth whitelist or token + role interceptors, the whitelist maps only to handlers that reach no management operation, the role interceptor grants only read-only stream queries or administrators; every other mux registration reaches no sink; (2) R-BYPASS-CONFIG-ONLY - every path of a permission function that grants without a permission check is decided by configuration only (a config.* result, or a field all of whose stores are config.* results); (3) R-PATH-AGREEMENT - the path given to the permission check and the path used for the stream lookup are the same value on every chain (HTTP: extractStreamPathAndExt(r.URL.Path)#0 passed through unchanged; RTSP/WSP: the session's path field, not modified between check and lookup; WebSocket sessions take the path the HTTP layer verified); (4) R-DATACHANNEL-PATH - a WSP data channel is attached only after its path and user were compared equal with the control session's; (5) R-RIGHTS-RECOMPILED - both matcher lists are reset before being recompiled on every save; (6) R-TOKEN-ENTROPY - token values depend on crypto/rand and not on the disclosed process counter; (7) R-TOKEN-KIND - AccessCheck yields a user only for an unexpired access token, Refresh mints only for an unexpired refresh token after deleting both old tokens; (8) R-USER-PER-REQUEST - the user consulted by RTSP permission checks is the one authenticated for the current request.",
		NotDecided: "Digest arithmetic, token expiry timing, the matcher language (C16), data races between Save and concurrent permission checks.",
		Rules: []*RuleDoc{
			{Name: "R-SINK-GUARDED", Text: "Every delivery/publish/management sink is dominated by the right check on every entry point (RTSP handlers, /streams/ interceptor, /api/ interceptors and whitelist, no other registration reaches a sink).", Run: ruleSinkGuarded},
			{Name: "R-BYPASS-CONFIG-ONLY", Text: "Grant-without-check paths of permission functions are decided by configuration only.", Run: ruleBypassConfigOnly},
			{Name: "R-PATH-AGREEMENT", Text: "The path checked is the path served on every chain.", Run: rulePathAgreement},
			{Name: "R-DATACHANNEL-PATH", Text: "setDataChannel is reached only after path and user equality with the control session.", Run: ruleDataChannelPath},
			{Name: "R-RIGHTS-RECOMPILED", Text: "pushMatchers and pullMatchers are reset before anything is appended, on every path from init.", Run: ruleRightsRecompiled},
			{Name: "R-TOKEN-ENTROPY", Text: "Token.AToken/RToken values depend on crypto/rand and not on security.NewID.", Run: ruleTokenEntropy},
			{Name: "R-TOKEN-KIND", Text: "AccessCheck returns a user only on AToken==arg and AExp>now; Refresh mints only on RToken==arg and RExp>now after deleting both old tokens.", Run: ruleTokenKind},
			{Name: "R-USER-PER-REQUEST", Text: "Session.user is assigned from checkAuth(req) on every request that passes preprocessing; checkAuth obtains the user with auth.Get.", Run: ruleUserPerRequest},
		},
	})
	addMutants(
		&Mutant{Prop: "C11", Name: "c11-ws-none-auth-again", File: "service/rtsp/session.go",
			Old: "\t\tuser := auth.Get(s.wsconn.Username())\n\t\treturn user != nil && user.ValidatePermission(s.path, right)", New: "\t\treturn s.wsconn.Username() != \"\"", Expect: "R-BYPASS-CONFIG-ONLY"},
		&Mutant{Prop: "C11", Name: "c11-play-check-dropped", File: "service/rtsp/session.go",
			Old: "\tif !s.checkPermission(auth.PullRight) {\n\t\tresp.StatusCode = StatusForbidden\n\t\treturn s.response(resp)\n\t}", New: "", Expect: "R-SINK-GUARDED"},
		&Mutant{Prop: "C11", Name: "c11-record-checks-pull", File: "service/rtsp/session.go",
			Old: "\tif !s.checkPermission(auth.PushRight) {\n\t\tresp.StatusCode = StatusForbidden\n\t\treturn\n\t}\n\n\ts.asTCPPusher()", New: "\tif !s.checkPermission(auth.PullRight) {\n\t\tresp.StatusCode = StatusForbidden\n\t\treturn\n\t}\n\n\ts.asTCPPusher()", Expect: "R-SINK-GUARDED"},
		&Mutant{Prop: "C11", Name: "c11-ts-checks-other-path", File: "service/streamapis.go",
			Old: "\t\thls.GetTS(s.logger, streamPath, seq, r.RemoteAddr, w)", New: "\t\thls.GetTS(s.logger, path.Dir(streamPath), seq, r.RemoteAddr, w)", Expect: "R-PATH-AGREEMENT"},
		&Mutant{Prop: "C11", Name: "c11-whitelist-delete-user", File: "service/apis.go",
			Old: "\t\t\"/api/v1/refreshtoken\": true,", New: "\t\t\"/api/v1/refreshtoken\": true,\n\t\t\"/api/v1/users\":        true,", Expect: "R-SINK-GUARDED"},
		&Mutant{Prop: "C11", Name: "c11-role-nonadmin", File: "service/apis.go",
			Old: "\tif u == nil || !u.Admin {", New: "\tif u == nil {", Expect: "R-SINK-GUARDED"},
		&Mutant{Prop: "C11", Name: "c11-datachannel-any", File: "service/wsp/wsp.go",
			Old: "\t\tif wsc.Path() != session.conn.Path() || wsc.Username() != session.conn.Username() {", New: "\t\tif wsc.Username() != session.conn.Username() {", Expect: "R-DATACHANNEL-PATH"},
		&Mutant{Prop: "C11", Name: "c11-matchers-accumulate", File: "provider/auth/user.go",
			Old: "\tu.pushMatchers = nil\n\tu.pullMatchers = nil\n", New: "\tu.pushMatchers = nil\n", Expect: "R-RIGHTS-RECOMPILED"},
		&Mutant{Prop: "C11", Name: "c11-token-from-counter", File: "provider/auth/token.go",
			Old: "\t\tRToken:   newTokenValue(),", New: "\t\tRToken:   username + time.Now().String(),", Expect: "R-TOKEN-ENTROPY"},
		&Mutant{Prop: "C11", Name: "c11-refresh-with-access-token", File: "provider/auth/token.go",
			Old: "\t\tif rtoken == oldToken.RToken { // 是refresh token", New: "\t\tif rtoken == oldToken.RToken || rtoken == oldToken.AToken { // 是refresh token", Expect: "R-TOKEN-KIND"},
		&Mutant{Prop: "C11", Name: "c11-expired-access-ok", File: "provider/auth/token.go",
			Old: "\t\t\tif token.AExp > time.Now().Unix() {\n\t\t\t\treturn token.Username\n\t\t\t}\n\t\t\ttm.tokens.Delete(token.AToken)", New: "\t\t\treturn token.Username", Expect: "R-TOKEN-KIND"},
		&Mutant{Prop: "C11", Name: "c11-new-entry-unwrapped", File: "service/streamapis.go",
			Old: "\tmux.Handle(\"/streams/\", apirouter.WrapHandler(http.HandlerFunc(s.onStreamsRequest), apirouter.PreInterceptor(s.streamInterceptor)))", New: "\tmux.Handle(\"/streams/\", apirouter.WrapHandler(http.HandlerFunc(s.onStreamsRequest), apirouter.PreInterceptor(s.streamInterceptor)))\n\tmux.Handle(\"/live/\", http.HandlerFunc(s.onStreamsRequest))", Expect: "R-SINK-GUARDED"},
		&Mutant{Prop: "C11", Name: "c11-announce-path-after-check", File: "service/rtsp/session.go",
			Old: "\ts.url = req.URL\n\ts.path = utils.CanonicalPath(req.URL.Path)\n\n\tif !s.checkPermission(auth.PushRight) {\n\t\tresp.StatusCode = StatusForbidden\n\t\treturn\n\t}\n", New: "\ts.url = req.URL\n\n\tif !s.checkPermission(auth.PushRight) {\n\t\tresp.StatusCode = StatusForbidden\n\t\treturn\n\t}\n\ts.path = utils.CanonicalPath(req.URL.Path)\n", Expect: "R-PATH-AGREEMENT"},
		&Mutant{Prop: "C11", Name: "c11-user-cached", File: "service/rtsp/session.go",
			Old: "\ts.user = user\n\treturn true, nil", New: "\tif s.user == nil {\n\t\ts.user = user\n\t}\n\treturn true, nil", Expect: "R-USER-PER-REQUEST"},
	)
}

// ------------------------------------------------------------ fact engine

// factSet is a sorted, '|' separated list of facts established on a path.
type factSet string

func (f factSet) with(x string) factSet {
	if x == "" || f.has(x) {
		return f
	}
	parts := []string{}
	if f != "" {
		parts = strings.Split(string(f), "|")
	}
	parts = append(parts, x)
	sort.Strings(parts)
	return factSet(strings.Join(parts, "|"))
}
func (f factSet) has(x string) bool {
	return strings.Contains("|"+string(f)+"|", "|"+x+"|")
}

// classifyCond turns a branch condition taken with value val into a fact ("" = ignore).
func classifyCond(p *Program, cond ssa.Value, val bool) string {
	tv := func(b bool) string {
		if b {
			return "true"
		}
		return "false"
	}
	switch x := cond.(type) {
	case *ssa.Call:
		cc := &x.Call
		n := calleeName(cc)
		if strings.HasSuffix(n, "provider/auth.User).ValidatePermission") {
			r, _ := constInt(cc.Args[2])
			return fmt.Sprintf("perm(%d)=%s", r, tv(val))
		}
		if cal := cc.StaticCallee(); cal != nil {
			if strings.HasPrefix(funcPkgPath(cal), modPath+"/config") {
				return "config." + cal.Name() + "=" + tv(val)
			}
			if p.InModule(cal) {
				nm := cal.Name()
				if nm == "checkPermission" && len(cc.Args) == 2 {
					r, _ := constInt(cc.Args[1])
					return fmt.Sprintf("checkPermission(%d)=%s", r, tv(val))
				}
				return nm + "=" + tv(val)
			}
			if n == "strings.HasPrefix" {
				if k, ok := cc.Args[1].(*ssa.Const); ok && k.Value != nil {
					return "prefix(" + constant.StringVal(k.Value) + ")=" + tv(val)
				}
			}
			return shortCallee(cc) + "=" + tv(val)
		}
		if cc.IsInvoke() {
			return cc.Method.Name() + "=" + tv(val)
		}
	case *ssa.BinOp:
		if x.Op != token.EQL && x.Op != token.NEQ && x.Op != token.GTR && x.Op != token.LSS {
			return ""
		}
		eq := (x.Op == token.EQL) == val
		a, b := x.X, x.Y
		if isNilConst(a) {
			a, b = b, a
		}
		if isNilConst(b) {
			what := describeValue(p, a)
			if what == "" {
				return ""
			}
			if eq {
				return what + "==nil"
			}
			return what + "!=nil"
		}
		if k, ok := b.(*ssa.Const); ok && k.Value != nil && k.Value.Kind() == constant.String {
			// `x := ""; if c { x = f() }; if x != ""`: the comparison speaks about the only edge of the phi that
			// is not a constant failing it
			if phi, isPhi := stripConv(a).(*ssa.Phi); isPhi && !eq {
				var live []ssa.Value
				for _, e := range phi.Edges {
					if ce, isC := e.(*ssa.Const); isC && ce.Value != nil && ce.Value.Kind() == constant.String && constant.StringVal(ce.Value) == constant.StringVal(k.Value) {
						continue // this edge has the excluded value
					}
					live = append(live, e)
				}
				if len(live) == 1 {
					a = live[0]
				}
			}
			what := describeValue(p, a)
			if what == "" {
				return ""
			}
			op := "!="
			if eq {
				op = "=="
			}
			return what + op + "'" + constant.StringVal(k.Value) + "'"
		}
		if k, ok := constInt(b); ok && (x.Op == token.EQL || x.Op == token.NEQ) {
			what := describeValue(p, a)
			if what == "" {
				return ""
			}
			op := "!="
			if eq {
				op = "=="
			}
			return fmt.Sprintf("%s%s%d", what, op, k)
		}
		// field vs parameter / call comparisons (token checks)
		wa, wb := describeValue(p, a), describeValue(p, b)
		if wa != "" && wb != "" {
			switch x.Op {
			case token.EQL, token.NEQ:
				op := "!="
				if eq {
					op = "=="
				}
				return wa + op + wb
			case token.GTR:
				if val {
					return wa + ">" + wb
				}
				return wa + "<=" + wb
			case token.LSS:
				if val {
					return wa + "<" + wb
				}
				return wa + ">=" + wb
			}
		}
	case *ssa.UnOp:
		if f, _, ok := fieldLoad(x); ok {
			return "field." + f.Name() + "=" + tv(val)
		}
	case *ssa.Extract:
		if call, ok := x.Tuple.(*ssa.Call); ok {
			return "ok(" + shortCallee(&call.Call) + ")=" + tv(val)
		}
		if _, ok := x.Tuple.(*ssa.Lookup); ok {
			return "ok(maplookup)=" + tv(val)
		}
	}
	return ""
}

// shortCallee names a callee as "Type.Method" or "pkg.Func".
func shortCallee(cc *ssa.CallCommon) string {
	if cc.IsInvoke() {
		if n := namedOf(cc.Value.Type()); n != nil {
			return n.Obj().Name() + "." + cc.Method.Name()
		}
		return cc.Method.Name()
	}
	f := cc.StaticCallee()
	if f == nil {
		if b, ok := cc.Value.(*ssa.Builtin); ok {
			return b.Name()
		}
		// call through a package-level function variable
		if u, ok := cc.Value.(*ssa.UnOp); ok {
			if g, ok := u.X.(*ssa.Global); ok {
				pk := g.Pkg.Pkg.Path()
				if i := strings.LastIndex(pk, "/"); i >= 0 {
					pk = pk[i+1:]
				}
				return pk + "." + g.Name()
			}
		}
		return "?"
	}
	f = unwrap(f)
	if recv := f.Signature.Recv(); recv != nil {
		if n := namedOf(recv.Type()); n != nil {
			return n.Obj().Name() + "." + f.Name()
		}
	}
	pk := funcPkgPath(f)
	if i := strings.LastIndex(pk, "/"); i >= 0 {
		pk = pk[i+1:]
	}
	return pk + "." + f.Name()
}

func describeValue(p *Program, v ssa.Value) string {
	v = origin(v)
	switch x := v.(type) {
	case *ssa.Call:
		return "call:" + shortCallee(&x.Call)
	case *ssa.Parameter:
		return "param:" + x.Name()
	case *ssa.UnOp:
		if f, _, ok := fieldLoad(x); ok {
			return "field." + f.Name()
		}
	case *ssa.Extract:
		if call, ok := x.Tuple.(*ssa.Call); ok {
			return fmt.Sprintf("call:%s#%d", shortCallee(&call.Call), x.Index)
		}
	case *ssa.TypeAssert:
		return describeValue(p, x.X)
	case *ssa.Phi:
		return "phi:" + x.Comment
	}
	return ""
}

// factsAt runs the fact engine over fn and calls visit with the fact set
// holding before each instruction.
func factsAt(p *Program, fn *ssa.Function, extra func(s factSet, ins ssa.Instruction) factSet, phi func(s factSet, ph *ssa.Phi, val ssa.Value) factSet, visit func(ins ssa.Instruction, s factSet)) int {
	r := &PathRule[factSet]{Fn: fn, Init: []factSet{""},
		Branch: func(s factSet, cond ssa.Value, taken bool) (factSet, bool) {
			cv, neg := condNeg(cond)
			f := classifyCond(p, cv, taken != neg)
			// contradiction pruning
			if f != "" {
				opp := ""
				switch {
				case strings.HasSuffix(f, "=true"):
					opp = strings.TrimSuffix(f, "true") + "false"
				case strings.HasSuffix(f, "=false"):
					opp = strings.TrimSuffix(f, "false") + "true"
				case strings.HasSuffix(f, "==nil"):
					opp = strings.TrimSuffix(f, "==nil") + "!=nil"
				case strings.HasSuffix(f, "!=nil"):
					opp = strings.TrimSuffix(f, "!=nil") + "==nil"
				case strings.Contains(f, "!="):
					opp = strings.Replace(f, "!=", "==", 1)
				case strings.Contains(f, "=="):
					opp = strings.Replace(f, "==", "!=", 1)
				}
				if opp != "" && s.has(opp) {
					return s, false
				}
			}
			return s.with(f), true
		},
	}
	if extra != nil {
		r.Transfer = func(s factSet, ins ssa.Instruction) []factSet {
			ns := extra(s, ins)
			if ns != s {
				return []factSet{ns}
			}
			return nil
		}
	}
	if phi != nil {
		r.Phi = phi
	}
	res := RunPath(r)
	res.Visit(visit)
	return res.N
}

// grantPaths returns the fact sets of every path of bool function fn that may
// return true: const true -> facts; a call result -> facts + "returns:callee".
func grantPaths(c *Ctx, fn *ssa.Function) []factSet {
	var out []factSet
	seen := map[factSet]bool{}
	// remember which value each bool phi takes on the path (for `return a && f()` shapes)
	phiHook := func(s factSet, ph *ssa.Phi, val ssa.Value) factSet {
		tag := "phiv:" + ph.Name() + "="
		parts := []string{}
		for _, f := range strings.Split(string(s), "|") {
			if f != "" && !strings.HasPrefix(f, tag) {
				parts = append(parts, f)
			}
		}
		ns := factSet(strings.Join(parts, "|"))
		if b, isc := constBool(val); isc {
			if b {
				return ns.with(tag + "true")
			}
			return ns.with(tag + "false")
		}
		if call, ok := val.(*ssa.Call); ok {
			return ns.with(tag + "call:" + shortCallee(&call.Call))
		}
		return ns.with(tag + "?")
	}
	c.paths += factsAt(c.P, fn, nil, phiHook, func(ins ssa.Instruction, s factSet) {
		ret, ok := ins.(*ssa.Return)
		if !ok || len(ret.Results) == 0 {
			return
		}
		v := retValue(ret, 0)
		g := s
		if ph, isPhi := v.(*ssa.Phi); isPhi {
			tag := "phiv:" + ph.Name() + "="
			val := "?"
			for _, f := range strings.Split(string(s), "|") {
				if strings.HasPrefix(f, tag) {
					val = strings.TrimPrefix(f, tag)
				}
			}
			switch {
			case val == "false":
				return
			case val == "true":
			case strings.HasPrefix(val, "call:"):
				g = s.with("returns:" + strings.TrimPrefix(val, "call:"))
			default:
				g = s.with("returns:?" + v.String())
			}
			if !seen[g] {
				seen[g] = true
				out = append(out, g)
			}
			return
		}
		if b, isc := constBool(v); isc {
			if !b {
				return
			}
		} else if call, ok := v.(*ssa.Call); ok {
			g = s.with("returns:" + shortCallee(&call.Call))
		} else if bo, ok := v.(*ssa.BinOp); ok {
			g = s.with("returns:" + classifyCond(c.P, bo, true))
		} else {
			g = s.with("returns:?" + v.String())
		}
		if !seen[g] {
			seen[g] = true
			out = append(out, g)
		}
	})
	return out
}

// ------------------------------------------------------------ R-SINK-GUARDED

func ruleSinkGuarded(c *Ctx) {
	p := c.P
	// ---- (a) RTSP handlers
	type guard struct {
		handler string
		helpers []string
		right   int64
	}
	for _, g := range []guard{
		{"(*Session).onPlay", []string{"asTCPConsumer", "asUDPConsumer", "asMulticastConsumer"}, 1},
		{"(*Session).onRecord", []string{"asTCPPusher"}, 2},
	} {
		h := p.Func("service/rtsp", g.handler)
		if h == nil {
			c.Lost("rtsp"+g.handler, "handler not found")
			continue
		}
		c.touched(fname(h))
		want := fmt.Sprintf("checkPermission(%d)=true", g.right)
		found := map[string]bool{}
		bad := map[string]ssa.Instruction{}
		c.paths += factsAt(p, h, nil, nil, func(ins ssa.Instruction, s factSet) {
			cc := callCommon(ins)
			if cc == nil || cc.StaticCallee() == nil {
				return
			}
			for _, hn := range g.helpers {
				if baseFuncName(cc.StaticCallee()) == hn {
					found[hn] = true
					if !s.has(want) {
						bad[hn] = ins
					}
				}
			}
		})
		for _, hn := range g.helpers {
			key := "rtsp:" + strings.Trim(g.handler, "(*)") + "->" + hn
			if !found[hn] {
				c.Lost(key, "call not found")
				continue
			}
			if ins, isBad := bad[hn]; isBad {
				c.Bad(key, p.InstrPos(ins), fmt.Sprintf("%s is reachable on a path that did not pass checkPermission(right=%d): media is delivered / a stream is published without the caller's current right being checked", hn, g.right))
			} else {
				c.OK(key, p.Pos(h.Pos()), "dominated by "+want)
			}
			// helper called from nowhere else
			hf := p.Func("service/rtsp", "(*Session)."+hn)
			for _, site := range p.CallersOf(hf) {
				if site.Parent() != h {
					c.Bad("rtsp:helper-caller:"+hn+"<-"+fname(site.Parent()), p.InstrPos(site), hn+" is called outside its guarded handler")
				}
			}
		}
	}
	// sinks in the RTSP service called only from the helpers
	sinkCallers := func(rel string, sinkName string, allowed map[string]bool) {
		for _, fn := range p.FuncsInPkg(rel) {
			instrs(fn, func(ins ssa.Instruction) {
				cc := callCommon(ins)
				if cc == nil {
					return
				}
				n := calleeName(cc)
				if !strings.HasSuffix(n, sinkName) {
					return
				}
				c.sites++
				c.Decide(allowed[fn.Name()], "sink-caller:"+sinkName+"@"+fname(fn), p.InstrPos(ins), "sink called from a guarded helper", "sink "+sinkName+" is called from "+fname(fn)+", which is not one of the guarded helpers")
			})
		}
	}
	sinkCallers("service/rtsp", "media.Stream).StartConsume", map[string]bool{"asTCPConsumer": true, "asUDPConsumer": true, "AddMember": true})
	sinkCallers("service/rtsp", "media.Stream).StartConsumeNoGopCache", map[string]bool{})
	sinkCallers("service/rtsp", "Multicastable).AddMember", map[string]bool{"asMulticastConsumer": true})
	sinkCallers("service/rtsp", "media.Regist", map[string]bool{"asTCPPusher": true, "playStream": true})
	sinkCallers("service/wsp", "media.Stream).StartConsume", map[string]bool{"onPlay": true})
	sinkCallers("service/wsp", "media.Regist", map[string]bool{})
	sinkCallers("service/wsp", "media.NewStream", map[string]bool{})

	// ---- (b) HTTP registrations
	si := p.Func("service", "(*Service).streamInterceptor")
	pi := p.Func("service", "permissionInterceptor")
	ai := p.Func("service", "(*Service).authInterceptor")
	ri := p.Func("service", "roleInterceptor")
	osr := p.Func("service", "(*Service).onStreamsRequest")
	owr := p.Func("service", "(*Service).onWebSocketRequest")
	if si == nil || pi == nil || ai == nil || ri == nil || osr == nil || owr == nil {
		c.Lost("service interceptors/handlers", "not found")
		return
	}
	for _, f := range []*ssa.Function{si, pi, ai, ri} {
		c.touched(fname(f))
	}
	checkGrants := func(fn *ssa.Function, key string, okf func(g factSet) bool, why string) {
		gs := grantPaths(c, fn)
		if len(gs) == 0 {
			c.Bad(key, p.Pos(fn.Pos()), fname(fn)+" never grants: legitimate callers are refused")
			return
		}
		bad := false
		for _, g := range gs {
			if !okf(g) {
				bad = true
				c.Bad(key, p.Pos(fn.Pos()), fname(fn)+" grants on a path with facts {"+string(g)+"}: "+why)
			}
		}
		if !bad {
			c.OK(key, p.Pos(fn.Pos()), fmt.Sprintf("all %d granting paths conform", len(gs)))
		}
	}
	checkGrants(si, "http:streamInterceptor", func(g factSet) bool {
		return g.has("config.Auth=false") || (g.has("authInterceptor=true") && g.has("returns:service.permissionInterceptor"))
	}, "media would be served without token check + pull permission although authentication is enabled")
	checkGrants(pi, "http:permissionInterceptor", func(g factSet) bool {
		return g.has("call:auth.Get!=nil") && g.has("perm(1)=true")
	}, "granted without an existing user whose pull right covers the path")
	checkGrants(ai, "http:authInterceptor", func(g factSet) bool {
		return g.has("call:TokenManager.AccessCheck!=''")
	}, "granted without a valid access token")
	checkGrants(ri, "http:roleInterceptor", func(g factSet) bool {
		return (g.has("field.Method=='GET'") && g.has("prefix(/api/v1/streams)=true")) || (g.has("call:auth.Get!=nil") && g.has("field.Admin=true"))
	}, "a management call would succeed for a non-administrator")

	// all mux registrations
	var regs []struct {
		pattern string
		handler ssa.Value
		site    ssa.Instruction
	}
	for _, fn := range p.ModFuncs() {
		instrs(fn, func(ins ssa.Instruction) {
			cc := callCommon(ins)
			if cc == nil {
				return
			}
			n := calleeName(cc)
			if n == "(*net/http.ServeMux).Handle" || n == "(*net/http.ServeMux).HandleFunc" {
				pat := "?"
				if k, ok := cc.Args[1].(*ssa.Const); ok && k.Value != nil {
					pat = constant.StringVal(k.Value)
				}
				regs = append(regs, struct {
					pattern string
					handler ssa.Value
					site    ssa.Instruction
				}{pat, cc.Args[2], ins})
			}
		})
	}
	c.Floor("http mux registrations", len(regs), 4)
	sinks := authSinks(p)
	reachesSink := func(f *ssa.Function) (*ssa.Function, []string) {
		r := p.Reach([]*ssa.Function{f}, func(from *ssa.Function, e Edge) bool { return true })
		for _, g := range r.SortedFuncs() {
			if sinks[g] != "" {
				return g, r.Chain(g)
			}
		}
		return nil, nil
	}
	sawStreams, sawAPI := false, false
	for _, rg := range regs {
		c.sites++
		key := "mux:" + rg.pattern
		switch rg.pattern {
		case "/streams/":
			sawStreams = true
			// handler = WrapHandler(HandlerFunc(onStreamsRequest$bound), PreInterceptor(streamInterceptor$bound))
			call, ok := rg.handler.(*ssa.Call)
			good := false
			if ok && calleeName(&call.Call) == "github.com/cnotch/apirouter.WrapHandler" {
				h := funcValue(call.Call.Args[0])
				hasInter := false
				if sl, ok := call.Call.Args[1].(*ssa.Slice); ok {
					for _, r := range referrersOf(sl.X) {
						if ia, ok := r.(*ssa.IndexAddr); ok {
							for _, r2 := range referrersOf(ia) {
								if st, ok := r2.(*ssa.Store); ok {
									if f := funcValue(st.Val); f != nil && unwrap(f) == si {
										hasInter = true
									}
								}
							}
						}
					}
				}
				good = h != nil && unwrap(h) == osr && hasInter
			}
			c.Decide(good, key, p.InstrPos(rg.site), "/streams/ served by onStreamsRequest behind streamInterceptor", "the /streams/ registration is not onStreamsRequest wrapped by streamInterceptor")
		case "/api/":
			sawAPI = true
			clo := funcValue(rg.handler)
			if clo == nil {
				c.Undecided(key, p.InstrPos(rg.site), "cannot resolve the /api/ handler")
				continue
			}
			c.touched(fname(clo))
			// ServeHTTP call guarded by whitelist hit or PreHandle=true
			okAPI, found := true, false
			c.paths += factsAt(p, clo, nil, nil, func(ins ssa.Instruction, s factSet) {
				cc := callCommon(ins)
				if cc == nil {
					return
				}
				if cc.IsInvoke() && cc.Method.Name() != "ServeHTTP" || !cc.IsInvoke() && (cc.StaticCallee() == nil || baseFuncName(cc.StaticCallee()) != "ServeHTTP") {
					return
				}
				found = true
				if !(s.has("ok(maplookup)=true") || s.has("PreHandle=true")) {
					okAPI = false
				}
			})
			c.Decide(found && okAPI, key+":router-guarded", p.InstrPos(rg.site), "router reached only via whitelist or interceptor chain", "the API router is reachable without the whitelist hit or the interceptor chain granting")
			// the chain contains auth then role interceptor
			var chain []*ssa.Function
			instrs(clo.Parent(), func(ins ssa.Instruction) {
				if call, ok := ins.(*ssa.Call); ok && calleeName(&call.Call) == "github.com/cnotch/apirouter.ChainInterceptor" {
					if sl, ok := call.Call.Args[0].(*ssa.Slice); ok {
						idx := map[int64]*ssa.Function{}
						for _, r := range referrersOf(sl.X) {
							if ia, ok := r.(*ssa.IndexAddr); ok {
								i, _ := evalInt(ia.Index)
								for _, r2 := range referrersOf(ia) {
									if st, ok := r2.(*ssa.Store); ok {
										if f := funcValue(st.Val); f != nil {
											idx[i] = unwrap(f)
										}
									}
								}
							}
						}
						for i := int64(0); i < int64(len(idx)); i++ {
							chain = append(chain, idx[i])
						}
					}
				}
			})
			c.Decide(len(chain) == 2 && chain[0] == ai && chain[1] == ri, key+":chain", p.InstrPos(rg.site), "chain = token check, then role check", "the /api/ interceptor chain is not [authInterceptor, roleInterceptor]")
			// whitelist
			ruleWhitelist(c, reachesSink)
		default:
			// must not reach any sink
			f := funcValue(rg.handler)
			if f == nil {
				// library handlers (FileServer, pprof): cannot reach module sinks
				c.OK(key, p.InstrPos(rg.site), "library handler (no module code)")
				continue
			}
			f = unwrap(f)
			if !p.InModule(f) {
				c.OK(key, p.InstrPos(rg.site), "library handler (no module code)")
				continue
			}
			if s, chain := reachesSink(f); s != nil {
				c.Bad(key, p.InstrPos(rg.site), "HTTP entry point "+rg.pattern+" reaches "+fname(s)+" ("+sinks[s]+") without the /streams/ or /api/ interceptors", chain...)
			} else {
				c.OK(key, p.InstrPos(rg.site), "reaches no delivery/publish/management sink")
			}
		}
	}
	c.Decide(sawStreams && sawAPI, "mux:entry-points-present", "", "both /streams/ and /api/ are registered", "the /streams/ or /api/ registration was not found")
	// delivery functions are only called below the /streams/ registration
	for _, d := range []struct{ rel, name string }{{"service/flv", "ConsumeByHTTP"}, {"service/flv", "ConsumeByWebsocket"}, {"service/hls", "GetM3u8"}, {"service/hls", "GetTS"}} {
		f := p.Func(d.rel, d.name)
		if f == nil {
			c.Lost(d.rel+"."+d.name, "not found")
			continue
		}
		for _, site := range p.CallersOf(f) {
			pf := site.Parent()
			c.Decide(pf == osr || pf == owr, "delivery-caller:"+d.name+"<-"+fname(pf), p.InstrPos(site), "called below the guarded registration", d.name+" is called from "+fname(pf)+", not below the guarded /streams/ registration")
		}
	}
	for _, site := range p.CallersOf(owr) {
		c.Decide(site.Parent() == osr, "delivery-caller:onWebSocketRequest<-"+fname(site.Parent()), p.InstrPos(site), "only from onStreamsRequest", "onWebSocketRequest is reachable from "+fname(site.Parent()))
	}
	// onStreamsRequest / onWebSocketRequest method values are used only in the registration
	for _, fn := range p.ModFuncs() {
		instrs(fn, func(ins ssa.Instruction) {
			mc, ok := ins.(*ssa.MakeClosure)
			if !ok {
				return
			}
			f, _ := mc.Fn.(*ssa.Function)
			if f == nil {
				return
			}
			t := unwrap(f)
			if t == osr || t == owr {
				c.Decide(fn.Name() == "initHTTPStreams" && t == osr, "handler-value:"+t.Name()+"@"+fname(fn), p.InstrPos(ins), "handler value used in the guarded registration", "the stream handler is taken as a value outside the guarded registration")
			}
		})
	}
}

// authSinks: delivery / publish / management operations.
func authSinks(p *Program) map[*ssa.Function]string {
	out := map[*ssa.Function]string{}
	add := func(rel, name, why string) {
		if f := p.Func(rel, name); f != nil {
			out[f] = why
		}
	}
	add("media", "(*Stream).StartConsume", "media delivery")
	add("media", "(*Stream).StartConsumeNoGopCache", "media delivery")
	add("media", "Regist", "publish")
	add("media", "Unregist", "stream management")
	add("media", "(*Stream).Close", "stream management")
	add("media", "(*Stream).StopConsume", "consumer management")
	add("provider/auth", "Save", "user management")
	add("provider/auth", "Del", "user management")
	add("provider/route", "Save", "route management")
	add("provider/route", "Del", "route management")
	add("av/format/hls", "(*Playlist).M3u8", "HLS delivery")
	add("av/format/hls", "(*Playlist).Segment", "HLS delivery")
	return out
}

// ruleWhitelist: every path in noAuthRequired maps (through the route table)
// to a handler that reaches no management sink.
func ruleWhitelist(c *Ctx, reachesSink func(f *ssa.Function) (*ssa.Function, []string)) {
	p := c.P
	sp := p.Pkg("service")
	initf := sp.Func("init")
	g := p.Global("service", "noAuthRequired")
	if initf == nil || g == nil {
		c.Lost("service.noAuthRequired", "not found")
		return
	}
	// keys of the map literal
	var keys []string
	instrs(initf, func(ins ssa.Instruction) {
		mu, ok := ins.(*ssa.MapUpdate)
		if !ok {
			return
		}
		// map stored to g
		isG := false
		for _, r := range referrersOf(mu.Map) {
			if st, ok := r.(*ssa.Store); ok && st.Addr == ssa.Value(g) {
				isG = true
			}
		}
		if !isG {
			return
		}
		if k, ok := mu.Key.(*ssa.Const); ok && k.Value != nil {
			keys = append(keys, constant.StringVal(k.Value))
		}
	})
	c.Floor("no-auth whitelist entries", len(keys), 3)
	// route table: calls apirouter.GET/POST/DELETE(pattern, handler$bound) in initApis
	ia := p.Func("service", "(*Service).initApis")
	routes := map[string][]*ssa.Function{}
	instrs(ia, func(ins ssa.Instruction) {
		call, ok := ins.(*ssa.Call)
		if !ok || !strings.HasPrefix(calleeName(&call.Call), "github.com/cnotch/apirouter.") || len(call.Call.Args) != 2 {
			return
		}
		k, ok := call.Call.Args[0].(*ssa.Const)
		if !ok || k.Value == nil {
			return
		}
		if f := funcValue(call.Call.Args[1]); f != nil {
			pat := strings.ToLower(constant.StringVal(k.Value))
			routes[pat] = append(routes[pat], unwrap(f))
		}
	})
	c.Floor("API routes", len(routes), 8)
	sort.Strings(keys)
	for _, k := range keys {
		// a whitelisted literal path matches route patterns with the same literal text, and
		// patterns whose literal prefix equals it (e.g. /api/v1/users also matches /api/v1/users POST/GET)
		var hs []*ssa.Function
		for pat, fs := range routes {
			if pat == k || strings.HasPrefix(pat, k+"/{") {
				hs = append(hs, fs...)
			}
		}
		if len(hs) == 0 {
			c.OK("whitelist:"+k, "", "no route")
			continue
		}
		bad := false
		for _, h := range hs {
			c.touched(fname(h))
			if s, chain := reachesSink(h); s != nil {
				bad = true
				c.Bad("whitelist:"+k, p.Pos(h.Pos()), "unauthenticated path "+k+" is routed to "+fname(h)+", which reaches "+fname(s)+": management without administrator", chain...)
			}
		}
		if !bad {
			c.OK("whitelist:"+k, "", "whitelisted path reaches no management operation")
		}
	}
}

// ------------------------------------------------------------ R-BYPASS-CONFIG-ONLY

func ruleBypassConfigOnly(c *Ctx) {
	p := c.P
	cp := p.Func("service/rtsp", "(*Session).checkPermission")
	si := p.Func("service", "(*Service).streamInterceptor")
	if cp == nil || si == nil {
		c.Lost("checkPermission/streamInterceptor", "not found")
		return
	}
	// fields whose every store is a config.* call result
	configOnlyField := func(owner *types.Named, name string) (bool, string) {
		n, okAll := 0, true
		why := ""
		for _, fn := range p.ModFuncs() {
			instrs(fn, func(ins ssa.Instruction) {
				st, ok := ins.(*ssa.Store)
				if !ok {
					return
				}
				f, base, ok := fieldAddr(st.Addr)
				if !ok || f.Name() != name || namedOf(base.Type()) != owner {
					return
				}
				n++
				call, isCall := origin(st.Val).(*ssa.Call)
				if !isCall || call.Call.StaticCallee() == nil || !strings.HasPrefix(funcPkgPath(call.Call.StaticCallee()), modPath+"/config") {
					okAll = false
					why = "stored " + st.Val.String() + " at " + p.InstrPos(ins)
				}
			})
		}
		return n > 0 && okAll, why
	}
	for _, fn := range []*ssa.Function{cp, si} {
		c.touched(fname(fn))
		gs := grantPaths(c, fn)
		if len(gs) == 0 {
			c.Bad("bypass:"+fname(fn), p.Pos(fn.Pos()), "never grants")
			continue
		}
		bad := false
		for _, g := range gs {
			checked := false
			for _, f := range strings.Split(string(g), "|") {
				if strings.HasPrefix(f, "perm(") && strings.HasSuffix(f, "=true") || f == "returns:User.ValidatePermission" || f == "returns:service.permissionInterceptor" {
					checked = true
				}
			}
			if checked {
				continue
			}
			// must contain a configuration-only deciding fact
			conf := false
			detail := ""
			for _, f := range strings.Split(string(g), "|") {
				if f == "config.Auth=false" { // the configuration switch, taken in the "authentication off" direction
					conf = true
				}
				if strings.HasPrefix(f, "field.") && strings.Contains(f, "==") {
					name := strings.TrimPrefix(f[:strings.Index(f, "==")], "field.")
					owner := namedOf(fn.Params[0].Type())
					ok, why := configOnlyField(owner, name)
					if ok {
						conf = true
					} else if why != "" {
						detail = "; field " + name + " is not configuration-only (" + why + ")"
					}
				}
			}
			if !conf {
				bad = true
				c.Bad("bypass:"+fname(fn), p.Pos(fn.Pos()), "grants without a permission check on a path decided by {"+string(g)+"}, which is not configuration-only"+detail+": some session/transport state switches authorisation off")
			}
		}
		if !bad {
			c.OK("bypass:"+fname(fn), p.Pos(fn.Pos()), fmt.Sprintf("%d granting paths: each checks the permission or is decided by configuration only", len(gs)))
		}
	}
	// ValidatePermission's argument in checkPermission must be the right parameter itself and the session path
	instrs(cp, func(ins ssa.Instruction) {
		cc := callCommon(ins)
		if cc == nil || !strings.HasSuffix(calleeName(cc), "auth.User).ValidatePermission") {
			return
		}
		f, base, okp := fieldLoad(cc.Args[1])
		c.Decide(origin(cc.Args[2]) == ssa.Value(cp.Params[1]) && okp && theProgram.baseFieldName(f) == "path" && origin(base) == ssa.Value(cp.Params[0]), "checkPermission:args@"+p.InstrPos(ins), p.InstrPos(ins), "checks the session path for the requested right", "checkPermission does not validate (s.path, right) - a different path or a fixed right is checked")
	})
}

// ------------------------------------------------------------ R-PATH-AGREEMENT

func rulePathAgreement(c *Ctx) {
	p := c.P
	ext := p.Func("service", "extractStreamPathAndExt")
	pi := p.Func("service", "permissionInterceptor")
	osr := p.Func("service", "(*Service).onStreamsRequest")
	owr := p.Func("service", "(*Service).onWebSocketRequest")
	if ext == nil || pi == nil || osr == nil || owr == nil {
		c.Lost("service path functions", "not found")
		return
	}
	isExtracted := func(v ssa.Value) bool {
		ex, ok := origin(v).(*ssa.Extract)
		if !ok || ex.Index != 0 {
			return false
		}
		call, ok := ex.Tuple.(*ssa.Call)
		if !ok || call.Call.StaticCallee() != ext {
			return false
		}
		f, base, ok := fieldLoad(call.Call.Args[0])
		if !ok || theProgram.baseFieldName(f) != "Path" {
			return false
		}
		uf, _, ok := fieldLoad(base)
		return ok && uf.Name() == "URL"
	}
	// check side
	instrs(pi, func(ins ssa.Instruction) {
		cc := callCommon(ins)
		if cc != nil && strings.HasSuffix(calleeName(cc), "auth.User).ValidatePermission") {
			c.sites++
			c.Decide(isExtracted(cc.Args[1]), "http:checked-path", p.InstrPos(ins), "checks extractStreamPathAndExt(r.URL.Path)#0", "the permission check does not use the stream path extracted from the request URL unchanged")
		}
	})
	// serve side: path arguments of delivery calls
	type dl struct {
		fn     *ssa.Function
		callee string
		argIdx int
	}
	for _, d := range []dl{{osr, "service/flv.ConsumeByHTTP", 1}, {osr, "service/hls.GetM3u8", 1}, {osr, "service/hls.GetTS", 1}, {owr, "service/flv.ConsumeByWebsocket", 1}, {owr, "network/websocket.TryUpgrade", 2}} {
		found := false
		instrs(d.fn, func(ins ssa.Instruction) {
			cc := callCommon(ins)
			if cc == nil || calleeName(cc) != modPath+"/"+d.callee {
				return
			}
			found = true
			c.sites++
			c.Decide(isExtracted(cc.Args[d.argIdx]), "http:served-path:"+d.callee, p.InstrPos(ins), "passes the same extracted stream path", "the path handed to "+d.callee+" is not the extracted stream path that the interceptor checked: the stream served differs from the stream authorised")
		})
		if !found {
			c.Lost("http:served-path:"+d.callee, "call not found in "+fname(d.fn))
		}
	}
	// inside the delivery functions: GetOrCreate(path parameter)
	for _, d := range []struct {
		rel, name string
		param     int
	}{{"service/flv", "ConsumeByHTTP", 1}, {"service/flv", "ConsumeByWebsocket", 1}, {"service/hls", "GetM3u8", 1}, {"service/hls", "GetTS", 1}} {
		fn := p.Func(d.rel, d.name)
		if fn == nil {
			c.Lost(d.rel+"."+d.name, "not found")
			continue
		}
		c.touched(fname(fn))
		n := 0
		instrs(fn, func(ins ssa.Instruction) {
			cc := callCommon(ins)
			if cc == nil {
				return
			}
			cal := calleeName(cc)
			if cal == modPath+"/media.GetOrCreate" || cal == modPath+"/media.Get" {
				n++
				c.Decide(origin(cc.Args[0]) == ssa.Value(fn.Params[d.param]), "lookup-path:"+d.name, p.InstrPos(ins), "looks up exactly the path it was given", d.name+" looks up a path other than the (authorised) path parameter")
			}
		})
		if n == 0 {
			c.Lost("lookup-path:"+d.name, "no stream lookup found")
		}
	}
	// websocket: Path() returns what TryUpgrade was given
	tu := p.Func("network/websocket", "TryUpgrade")
	if tu != nil {
		okStore := false
		// TryUpgrade(w, r, path, user) -> newConn(ws, path, user) -> &websocketTransport{path: path}
		instrs(tu, func(ins ssa.Instruction) {
			cc := callCommon(ins)
			if cc == nil || cc.StaticCallee() == nil || !p.InModule(cc.StaticCallee()) {
				return
			}
			nc := cc.StaticCallee()
			for ai, a := range cc.Args {
				if origin(a) != ssa.Value(tu.Params[2]) || ai >= len(nc.Params) {
					continue
				}
				instrs(nc, func(i2 ssa.Instruction) {
					if st, ok := i2.(*ssa.Store); ok {
						if f, _, ok := fieldAddr(st.Addr); ok && theProgram.baseFieldName(f) == "path" && origin(st.Val) == ssa.Value(nc.Params[ai]) {
							okStore = true
						}
					}
				})
			}
		})
		// and Path() returns that field
		if pm := p.Func("network/websocket", "(*websocketTransport).Path"); pm != nil {
			ret := false
			instrs(pm, func(ins ssa.Instruction) {
				if r, ok := ins.(*ssa.Return); ok {
					if f, _, ok := fieldLoad(retValue(r, 0)); ok && theProgram.baseFieldName(f) == "path" {
						ret = true
					}
				}
			})
			okStore = okStore && ret
		} else {
			okStore = false
		}
		c.Decide(okStore, "ws:path-recorded", p.Pos(tu.Pos()), "the upgraded connection records the verified path", "TryUpgrade does not record its path argument as the connection's Path()")
	} else {
		c.Lost("websocket.TryUpgrade", "not found")
	}
	// sessions: path field <- conn.Path(); lookups use the path field; no store between check and lookup
	pathStores := func(rel, typ string, allowed map[string]string) {
		fv := p.FieldVar(rel, typ, "path")
		if fv == nil {
			c.Lost(rel+"."+typ+".path", "field not found")
			return
		}
		for _, fn := range p.FuncsInPkg(rel) {
			instrs(fn, func(ins ssa.Instruction) {
				st, ok := ins.(*ssa.Store)
				if !ok {
					return
				}
				f, _, ok := fieldAddr(st.Addr)
				if !ok || f != fv {
					return
				}
				c.sites++
				key := "session-path-store:" + typ + "@" + fn.Name()
				want, okFn := allowed[fn.Name()]
				if !okFn {
					c.Bad(key, p.InstrPos(ins), "the session's path is assigned in "+fname(fn)+", outside the places where it is (re)authorised")
					return
				}
				src := origin(st.Val)
				good := false
				if call, ok := src.(*ssa.Call); ok {
					n := calleeName(&call.Call)
					switch want {
					case "ws":
						good = strings.HasSuffix(n, "websocket.Conn).Path")
					case "url":
						good = n == modPath+"/utils.CanonicalPath"
					case "ws|url":
						good = strings.HasSuffix(n, "websocket.Conn).Path") || n == modPath+"/utils.CanonicalPath"
					}
				}
				c.Decide(good, key, p.InstrPos(ins), "path from an approved source", "the session's path is assigned from "+src.String()+", not from the HTTP-verified WebSocket path / the canonical request URL path")
			})
		}
	}
	pathStores("service/rtsp", "Session", map[string]string{"newSession": "ws", "onDescribe": "url", "onAnnounce": "url"})
	pathStores("service/wsp", "Session", map[string]string{"onDescribe": "ws"})
	// within handlers: after the permission check no store to path before the sink/lookup
	for _, hn := range []string{"onDescribe", "onAnnounce", "onSetup", "onPlay", "onRecord"} {
		h := p.Func("service/rtsp", "(*Session)."+hn)
		if h == nil {
			c.Lost("rtsp.Session."+hn, "not found")
			continue
		}
		c.touched(fname(h))
		pf := p.FieldVar("service/rtsp", "Session", "path")
		bad := false
		c.paths += factsAt(p, h, func(s factSet, ins ssa.Instruction) factSet {
			return s
		}, nil, func(ins ssa.Instruction, s factSet) {
			st, ok := ins.(*ssa.Store)
			if !ok {
				return
			}
			if f, _, ok := fieldAddr(st.Addr); ok && f == pf {
				if s.has("checkPermission(1)=true") || s.has("checkPermission(2)=true") {
					bad = true
					c.Bad("path-after-check:"+hn, p.InstrPos(ins), "the session path is changed after the permission check passed in "+hn+": the path authorised is not the path then used")
				}
			}
		})
		// lookups in the handler use s.path
		instrs(h, func(ins ssa.Instruction) {
			cc := callCommon(ins)
			if cc != nil && calleeName(cc) == modPath+"/media.GetOrCreate" {
				f, base, ok := fieldLoad(cc.Args[0])
				if !(ok && f == pf && origin(base) == ssa.Value(h.Params[0])) {
					bad = true
					c.Bad("lookup-path:rtsp."+hn, p.InstrPos(ins), "the stream looked up is not the session's checked path")
				}
			}
		})
		if !bad {
			c.OK("path-after-check:"+hn, p.Pos(h.Pos()), "path stable between check and use")
		}
	}
	// onAnnounce/onDescribe: the path must be assigned BEFORE the check (otherwise the check validates the previous path)
	for _, hn := range []string{"onAnnounce"} {
		h := p.Func("service/rtsp", "(*Session)."+hn)
		if h == nil {
			continue
		}
		pf := p.FieldVar("service/rtsp", "Session", "path")
		var store, check ssa.Instruction
		instrs(h, func(ins ssa.Instruction) {
			if st, ok := ins.(*ssa.Store); ok {
				if f, _, ok := fieldAddr(st.Addr); ok && f == pf {
					store = ins
				}
			}
			if cc := callCommon(ins); cc != nil && cc.StaticCallee() != nil && baseFuncName(cc.StaticCallee()) == "checkPermission" {
				check = ins
			}
		})
		c.Decide(store != nil && check != nil && dominatesInstr(store, check), "path-before-check:"+hn, p.Pos(h.Pos()), "announced path installed before it is checked", hn+" does not install the announced path before checking the push permission: the check validates the previous path and the new one is published")
	}
	// sinks in wsp use s.path which is only ever the ws path
	wp := p.Func("service/wsp", "(*Session).onPlay")
	if wp != nil {
		pf := p.FieldVar("service/wsp", "Session", "path")
		instrs(wp, func(ins ssa.Instruction) {
			cc := callCommon(ins)
			if cc != nil && calleeName(cc) == modPath+"/media.GetOrCreate" {
				f, _, ok := fieldLoad(cc.Args[0])
				c.Decide(ok && f == pf, "lookup-path:wsp.onPlay", p.InstrPos(ins), "WSP plays the HTTP-verified path", "WSP onPlay looks up a path other than the session's verified path")
			}
		})
	}
}

// ------------------------------------------------------------ R-DATACHANNEL-PATH

func ruleDataChannelPath(c *Ctx) {
	p := c.P
	fn := p.Func("service/wsp", "(*Server).handshakeDataChannel")
	sd := p.Func("service/wsp", "(*Session).setDataChannel")
	if fn == nil || sd == nil {
		c.Lost("wsp.handshakeDataChannel/setDataChannel", "not found")
		return
	}
	c.touched(fname(fn))
	// callers of setDataChannel
	for _, site := range p.CallersOf(sd) {
		c.Decide(site.Parent() == fn, "datachannel:caller<-"+fname(site.Parent()), p.InstrPos(site), "only the handshake attaches data channels", "setDataChannel is called from "+fname(site.Parent()))
	}
	// facts: path equality and user equality; track nil-ness of the session variable through phis
	eqFact := func(cond ssa.Value, val bool) string {
		b, ok := cond.(*ssa.BinOp)
		if !ok || (b.Op != token.EQL && b.Op != token.NEQ) {
			return ""
		}
		m := func(v ssa.Value) string {
			if call, ok := v.(*ssa.Call); ok && call.Call.IsInvoke() {
				return call.Call.Method.Name()
			}
			return ""
		}
		if m(b.X) != "" && m(b.X) == m(b.Y) && b.X != b.Y {
			eq := (b.Op == token.EQL) == val
			if eq {
				return m(b.X) + "-equal"
			}
			return m(b.X) + "-differ"
		}
		return ""
	}
	r := &PathRule[factSet]{Fn: fn, Init: []factSet{""},
		Branch: func(s factSet, cond ssa.Value, taken bool) (factSet, bool) {
			cv, neg := condNeg(cond)
			val := taken != neg
			if f := eqFact(cv, val); f != "" {
				return s.with(f), true
			}
			// session == nil tests, resolved through the phi facts
			if b, ok := cv.(*ssa.BinOp); ok && (b.Op == token.EQL || b.Op == token.NEQ) && (isNilConst(b.X) || isNilConst(b.Y)) {
				v := b.X
				if isNilConst(v) {
					v = b.Y
				}
				if ph, ok := v.(*ssa.Phi); ok {
					isNil := (b.Op == token.EQL) == val
					tag := "phi:" + ph.Name()
					if isNil && s.has(tag+"=nonnil") || !isNil && s.has(tag+"=nil") {
						return s, false
					}
				}
			}
			return s, true
		},
		Phi: func(s factSet, ph *ssa.Phi, val ssa.Value) factSet {
			tag := "phi:" + ph.Name()
			// drop previous knowledge about this phi
			parts := []string{}
			for _, f := range strings.Split(string(s), "|") {
				if f != "" && !strings.HasPrefix(f, tag+"=") {
					parts = append(parts, f)
				}
			}
			ns := factSet(strings.Join(parts, "|"))
			if isNilConst(val) {
				return ns.with(tag + "=nil")
			}
			if vp, ok := val.(*ssa.Phi); ok {
				if s.has("phi:" + vp.Name() + "=nil") {
					return ns.with(tag + "=nil")
				}
				if s.has("phi:" + vp.Name() + "=nonnil") {
					return ns.with(tag + "=nonnil")
				}
				return ns
			}
			if _, ok := val.(*ssa.TypeAssert); ok {
				return ns.with(tag + "=nonnil")
			}
			return ns
		},
	}
	res := RunPath(r)
	c.paths += res.N
	found, ok := false, true
	res.Visit(func(ins ssa.Instruction, s factSet) {
		if callsFunc(ins, sd) {
			found = true
			if !(s.has("Path-equal") && s.has("Username-equal")) {
				ok = false
				c.Bad("datachannel:join-checked", p.InstrPos(ins), "a data channel is attached to a session on a path with facts {"+string(s)+"}: the joining WebSocket's HTTP-verified path and user were not both compared equal with the control session's, so a caller admitted for one path can receive another path's media by guessing the (sequential) channel id")
			}
		}
	})
	if !found {
		c.Lost("datachannel:attach", "setDataChannel call not found")
	} else if ok {
		c.OK("datachannel:join-checked", p.Pos(fn.Pos()), "attach only after path and user equality")
	}
}

// ------------------------------------------------------------ R-RIGHTS-RECOMPILED

func ruleRightsRecompiled(c *Ctx) {
	p := c.P
	initf := p.Func("provider/auth", "(*User).init")
	im := p.Func("provider/auth", "initMatchers")
	cf := p.Func("provider/auth", "(*User).CopyFrom")
	if initf == nil || im == nil || cf == nil {
		c.Lost("auth.User.init/initMatchers/CopyFrom", "not found")
		return
	}
	c.touched(fname(initf))
	// alternative: initMatchers resets *dest before appending
	selfReset := false
	var firstStore *ssa.Store
	instrs(im, func(ins ssa.Instruction) {
		if st, ok := ins.(*ssa.Store); ok && st.Addr == ssa.Value(im.Params[1]) && firstStore == nil {
			firstStore = st
		}
	})
	if firstStore != nil && firstStore.Block() == im.Blocks[0] {
		if isNilConst(firstStore.Val) {
			selfReset = true
		}
		if sl, ok := firstStore.Val.(*ssa.Slice); ok {
			if k, ok := evalInt(sl.High); ok && k == 0 {
				selfReset = true
			}
		}
	}
	for _, field := range []string{"pushMatchers", "pullMatchers"} {
		fv := p.FieldVar("provider/auth", "User", field)
		type st struct{ Killed bool }
		r := &PathRule[st]{Fn: initf, Init: []st{{}},
			Transfer: func(s st, ins ssa.Instruction) []st {
				if sto, ok := ins.(*ssa.Store); ok {
					if f, _, ok := fieldAddr(sto.Addr); ok && f == fv {
						reset := isNilConst(sto.Val)
						if sl, ok := sto.Val.(*ssa.Slice); ok {
							if k, ok := evalInt(sl.High); ok && k == 0 {
								reset = true
							}
						}
						return []st{{reset}}
					}
				}
				return nil
			}}
		res := RunPath(r)
		c.paths += res.N
		okF, found := true, false
		res.Visit(func(ins ssa.Instruction, s st) {
			if callsFunc(ins, im) {
				if f, _, ok := fieldAddr(callCommon(ins).Args[1]); ok && f == fv {
					found = true
					if !s.Killed && !selfReset {
						okF = false
						c.Bad("recompiled:"+field, p.InstrPos(ins), "matchers compiled from the new right string are appended to "+field+" without it being reset first: after narrowing or clearing a user's rights the old patterns still grant (history: Save(u, pull=\"*\"); Save(u, pull=\"a\"))")
					}
				}
			}
		})
		if !found {
			c.Bad("recompiled:"+field, p.Pos(initf.Pos()), field+" is not recompiled in User.init")
		} else if okF {
			c.OK("recompiled:"+field, p.Pos(initf.Pos()), "reset before recompiling")
		}
	}
	// CopyFrom recompiles on every path
	ex, n := countPaths(cf, func(i ssa.Instruction) bool { return callsFunc(i, initf) }, nil)
	c.paths += n
	every := len(ex) > 0
	for _, sts := range ex {
		for _, s := range sts {
			if s.N < 1 {
				every = false
			}
		}
	}
	c.Decide(every, "recompiled:CopyFrom", p.Pos(cf.Pos()), "CopyFrom recompiles the matchers on every path", "a path of User.CopyFrom copies the right strings without recompiling the matchers: the saved rights are not the enforced rights")
	// CopyFrom copies both right strings from src
	for _, f := range []string{"PushAccess", "PullAccess", "Admin"} {
		sts := storesToField(cf, modRel("provider/auth"), "User", f)
		good := false
		for _, s := range sts {
			if lf, base, ok := fieldLoad(s.Val); ok && lf.Name() == f && origin(base) == ssa.Value(cf.Params[1]) {
				good = true
			}
		}
		c.Decide(good, "copyfrom:"+f, p.Pos(cf.Pos()), f+" copied from the saved user", "User.CopyFrom does not copy "+f+" from the source")
	}
}

// ------------------------------------------------------------ R-TOKEN-ENTROPY

func ruleTokenEntropy(c *Ctx) {
	p := c.P
	nid := p.Func("provider/security", "NewID")
	n := 0
	for _, fn := range p.FuncsInPkg("provider/auth") {
		for _, field := range []string{"AToken", "RToken"} {
			for _, st := range storesToField(fn, modRel("provider/auth"), "Token", field) {
				n++
				c.touched(fname(fn))
				key := "token-entropy:" + field + "@" + fname(fn)
				call, ok := origin(st.Val).(*ssa.Call)
				if !ok || call.Call.StaticCallee() == nil || !p.InModule(call.Call.StaticCallee()) {
					c.Bad(key, p.InstrPos(st), "the token value is not produced by a module function that draws from crypto/rand ("+st.Val.String()+")")
					continue
				}
				gen := call.Call.StaticCallee()
				c.touched(fname(gen))
				r := p.Reach([]*ssa.Function{gen}, nil)
				usesCounter := nid != nil && r.Funcs[nid]
				// return value depends on a buffer filled by crypto/rand.Read
				random := false
				instrs(gen, func(ins ssa.Instruction) {
					rc, ok := ins.(*ssa.Call)
					if !ok {
						return
					}
					nm := calleeName(&rc.Call)
					var bufArg ssa.Value
					switch {
					case nm == "crypto/rand.Read":
						bufArg = rc.Call.Args[0]
					case nm == "io.ReadFull" && len(rc.Call.Args) == 2:
						if u, ok := stripConv(rc.Call.Args[0]).(*ssa.UnOp); ok {
							if g, ok := u.X.(*ssa.Global); ok && g.Pkg.Pkg.Path() == "crypto/rand" {
								bufArg = rc.Call.Args[1]
							}
						}
					}
					if bufArg == nil {
						return
					}
					root := addrRoot(bufArg)
					instrs(gen, func(i2 ssa.Instruction) {
						if ret, ok := i2.(*ssa.Return); ok {
							walkDeps(retValue(ret, 0), func(x ssa.Value) bool {
								if addrRoot(x) == root {
									random = true
								}
								return true
							})
						}
					})
				})
				switch {
				case usesCounter:
					c.Bad(key, p.InstrPos(st), "the token value is derived from security.NewID, the process-wide counter disclosed in every RTSP Session: header and WSP channel id: tokens of other users can be computed", r.Chain(nid)...)
				case !random:
					c.Bad(key, p.InstrPos(st), "the token value does not depend on bytes read from crypto/rand")
				default:
					c.OK(key, p.InstrPos(st), "token value = encoding of crypto/rand bytes, independent of the ID counter")
				}
			}
		}
	}
	c.Floor("stores to Token.AToken/RToken", n, 2)
}

// ------------------------------------------------------------ R-TOKEN-KIND

func ruleTokenKind(c *Ctx) {
	p := c.P
	ac := p.Func("provider/auth", "(*TokenManager).AccessCheck")
	rf := p.Func("provider/auth", "(*TokenManager).Refresh")
	nt := p.Func("provider/auth", "(*TokenManager).NewToken")
	if ac == nil || rf == nil || nt == nil {
		c.Lost("auth.TokenManager", "AccessCheck/Refresh/NewToken not found")
		return
	}
	c.touched(fname(ac))
	c.touched(fname(rf))
	// AccessCheck: non-empty result only with AToken==param and AExp>now
	bad := false
	c.paths += factsAt(p, ac, nil, nil, func(ins ssa.Instruction, s factSet) {
		ret, ok := ins.(*ssa.Return)
		if !ok {
			return
		}
		v := retValue(ret, 0)
		if k, ok := v.(*ssa.Const); ok && k.Value != nil && constant.StringVal(k.Value) == "" {
			return
		}
		if !(s.has("field.AToken==param:atoken") && s.has("field.AExp>call:Time.Unix") && s.has("ok(Map.Load)=true")) {
			bad = true
			c.Bad("token-kind:AccessCheck", p.InstrPos(ret), "AccessCheck can return a user name on a path with facts {"+string(s)+"}: it must be the stored token's access value and unexpired (a refresh token or an expired token would be accepted)")
		}
	})
	if !bad {
		c.OK("token-kind:AccessCheck", p.Pos(ac.Pos()), "user returned only for an unexpired access token")
	}
	// Refresh: NewToken only with RToken==param, RExp>now, after two Deletes
	bad = false
	found := false
	c.paths += factsAt(p, rf, func(s factSet, ins ssa.Instruction) factSet {
		if cc := callCommon(ins); cc != nil && calleeName(cc) == "(*sync.Map).Delete" {
			if f, _, ok := fieldLoad(stripConv(cc.Args[1])); ok {
				return s.with("deleted." + f.Name())
			}
		}
		return s
	}, nil, func(ins ssa.Instruction, s factSet) {
		if !callsFunc(ins, nt) {
			return
		}
		found = true
		if !(s.has("param:rtoken==field.RToken") || s.has("field.RToken==param:rtoken")) || !s.has("field.RExp>call:Time.Unix") || !s.has("deleted.AToken") || !s.has("deleted.RToken") {
			bad = true
			c.Bad("token-kind:Refresh", p.InstrPos(ins), "Refresh mints a new token on a path with facts {"+string(s)+"}: it must be presented the unexpired refresh value and both old tokens must have been deleted first (otherwise access tokens refresh themselves, or superseded tokens stay valid)")
		}
	})
	if !found {
		c.Bad("token-kind:Refresh", p.Pos(rf.Pos()), "Refresh never mints a token")
	} else if !bad {
		c.OK("token-kind:Refresh", p.Pos(rf.Pos()), "mint only for an unexpired refresh token after deleting both old tokens")
	}
	// NewToken registers both values
	stores := 0
	instrs(nt, func(ins ssa.Instruction) {
		if cc := callCommon(ins); cc != nil && calleeName(cc) == "(*sync.Map).Store" {
			if f, _, ok := fieldLoad(stripConv(cc.Args[1])); ok && (theProgram.baseFieldName(f) == "AToken" || theProgram.baseFieldName(f) == "RToken") {
				stores++
			}
		}
	})
	c.Decide(stores == 2, "token-kind:NewToken-registers", p.Pos(nt.Pos()), "both token values registered", "NewToken does not register exactly the access and refresh values")
}

// ------------------------------------------------------------ R-USER-PER-REQUEST

func ruleUserPerRequest(c *Ctx) {
	p := c.P
	pre := p.Func("service/rtsp", "(*Session).onPreprocess")
	ca := p.Func("service/rtsp", "(*Session).checkAuth")
	uf := p.FieldVar("service/rtsp", "Session", "user")
	if pre == nil || ca == nil || uf == nil {
		c.Lost("rtsp.Session.onPreprocess/checkAuth/user", "not found")
		return
	}
	c.touched(fname(pre))
	// every true-returning path stores checkAuth's user into s.user
	type st struct{ Stored bool }
	r := &PathRule[st]{Fn: pre, Init: []st{{}},
		Transfer: func(s st, ins ssa.Instruction) []st {
			if sto, ok := ins.(*ssa.Store); ok {
				if f, _, ok := fieldAddr(sto.Addr); ok && f == uf {
					ex, ok := origin(sto.Val).(*ssa.Extract)
					good := false
					if ok && ex.Index == 0 {
						if call, ok := ex.Tuple.(*ssa.Call); ok && call.Call.StaticCallee() == ca {
							good = true
						}
					}
					return []st{{good}}
				}
			}
			return nil
		}}
	res := RunPath(r)
	c.paths += res.N
	ok := true
	for ret, sts := range res.Exits() {
		v := retValue(ret.(*ssa.Return), 0)
		b, isc := constBool(v)
		for _, s := range sts {
			if (!isc || b) && !s.Stored {
				ok = false
				c.Bad("user-per-request", p.InstrPos(ret), "a request can pass preprocessing without s.user being replaced by the user authenticated for this request: a later request on the same connection is authorised with an earlier request's user")
			}
		}
	}
	if ok {
		c.OK("user-per-request", p.Pos(pre.Pos()), "s.user = checkAuth(req) on every continuing path")
	}
	// stores to Session.user elsewhere
	for _, fn := range p.FuncsInPkg("service/rtsp") {
		for _, s := range storesToField(fn, modRel("service/rtsp"), "Session", "user") {
			if fn != pre && fn.Name() != "newSession" {
				c.Bad("user-store@"+fname(fn), p.InstrPos(s), "Session.user assigned outside onPreprocess/newSession")
			}
		}
	}
	// checkAuth: every non-nil user returned comes from auth.Get in this call and passed a credential comparison
	bad := false
	c.paths += factsAt(p, ca, nil, nil, func(ins ssa.Instruction, s factSet) {
		ret, ok := ins.(*ssa.Return)
		if !ok {
			return
		}
		v := retValue(ret, 0)
		if isNilConst(v) {
			return
		}
		call, isCall := origin(v).(*ssa.Call)
		if !isCall || calleeName(&call.Call) != modPath+"/provider/auth.Get" {
			bad = true
			c.Bad("checkAuth:user-source", p.InstrPos(ret), "checkAuth returns a user that was not looked up with auth.Get in this request")
			return
		}
		verified := s.has("call:User.ValidatePassword==nil") || s.has("call:rtsp.formatDigestAuthResponse==call:Request.DigestAuth#1")
		if !verified {
			bad = true
			c.Bad("checkAuth:verified", p.InstrPos(ret), "checkAuth returns a user on a path with facts {"+string(s)+"} that verified neither the password nor the digest response")
		}
	})
	if !bad {
		c.OK("checkAuth:verified", p.Pos(ca.Pos()), "a user is returned only after password/digest verification")
	}
}
