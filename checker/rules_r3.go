package main

// Rule extensions after the third seeded round (C01..C10 only), DESIGN §9.4.

import (
	"fmt"
	"go/token"
	"strings"

	"golang.org/x/tools/go/ssa"
)

func init() {
	share := func(prop string, r *RuleDoc) {
		if p := properties[prop]; p != nil {
			p.Rules = append(p.Rules, r)
		}
	}
	if p06 := properties["C06"]; p06 != nil {
		for _, r := range p06.Rules {
			if r.Name == "R-FU-GUARDED-APPEND" {
				share("C07", &RuleDoc{Name: "R-FU-GUARDED-APPEND", Text: "(shared with C06) a truncated fragmentation unit leaves nothing behind that is assembled into a later well-formed unit: a start fragment clears the fragment list, a continuation is appended only to an open unit.", Run: r.Run})
			}
		}
	}
	agg := &RuleDoc{Name: "R-AGG-MIN-SIZE", Text: "The four aggregation scans (STAP-A / AP in the depacketisers and in the GOP-cache classifiers; sibling rule) refuse a declared unit size only when it is zero: a one-byte NAL unit (end of sequence / end of stream) inside an aggregate is legal and must not end the scan.", Run: ruleAggMinSize}
	share("C06", agg)
	share("C02", agg)
	share("C02", &RuleDoc{Name: "R-AGG-CLASSIFY-EVERY", Text: "The GOP-cache classifiers classify every unit of an aggregation packet, including the last one: the classification of a unit precedes the 'scan finished' test of that iteration.", Run: ruleAggClassifyEvery})
	addMutants(
		&Mutant{Prop: "C06", Name: "c06-h265-fu-start-keeps-fragments", File: "av/format/rtp/h265_depacketizer.go",
			Old: "\t\th265dp.fragments = h265dp.fragments[:0]\n\t\t// 缓存片段\n\t\th265dp.fragments = append(h265dp.fragments, packet)\n\t\treturn", New: "\t\t// 缓存片段\n\t\th265dp.fragments = append(h265dp.fragments, packet)\n\t\treturn", Expect: "R-FU-GUARDED-APPEND"},
		&Mutant{Prop: "C06", Name: "c06-stap-min-size-two", File: "av/format/rtp/h264_depacketizer.go",
			Old: "\t\tif nalSize < 1 || off+nalSize > len(payload) {", New: "\t\tif nalSize < 2 || off+nalSize > len(payload) {", Expect: "R-AGG-MIN-SIZE"},
		&Mutant{Prop: "C02", Name: "c02-hevc-ap-last-unit-skipped", File: "media/cache/hevccache.go",
			Old: "\t\t\tnaluType = (rest[2] >> 1) & 0x3f\n\t\t\tcache.nalType(naluType, &vps, &sps, &pps, &islice)\n\n\t\t\trest = rest[2:]\n\t\t\tif nalSize >= len(rest) { // 扫描完成(或包被截断)\n\t\t\t\tbreak\n\t\t\t}", New: "\t\t\trest = rest[2:]\n\t\t\tif nalSize >= len(rest) { // 扫描完成(或包被截断)\n\t\t\t\tbreak\n\t\t\t}\n\t\t\tnaluType = (rest[0] >> 1) & 0x3f\n\t\t\tcache.nalType(naluType, &vps, &sps, &pps, &islice)", Expect: "R-AGG-CLASSIFY-EVERY"},
	)
}

// sizeValue: v is the 16-bit big-endian size composed from two bytes (x<<8 | y), possibly converted.
func isSizeComposition(v ssa.Value) bool {
	v = stripConv(v)
	or, ok := v.(*ssa.BinOp)
	if !ok || or.Op != token.OR {
		return false
	}
	for _, side := range []ssa.Value{or.X, or.Y} {
		if shl, ok := stripConv(side).(*ssa.BinOp); ok && shl.Op == token.SHL {
			if k, ok := constInt(shl.Y); ok && k == 8 {
				return true
			}
		}
	}
	return false
}

func aggScanFuncs(p *Program) []*ssa.Function {
	var out []*ssa.Function
	for _, x := range []struct{ rel, fn string }{
		{"av/format/rtp", "(*h264Depacketizer).depacketizeStapa"}, {"av/format/rtp", "(*h265Depacketizer).depacketizeStap"},
		{"media/cache", "(*H264Cache).getPalyloadType"}, {"media/cache", "(*HevcCache).getPalyloadType"},
	} {
		if f := p.Func(x.rel, x.fn); f != nil {
			out = append(out, f)
		}
	}
	return out
}

func ruleAggMinSize(c *Ctx) {
	p := c.P
	fns := aggScanFuncs(p)
	c.Floor("aggregation scans", len(fns), 4)
	for _, fn := range fns {
		if c.Prop == "C02" && !strings.Contains(fname(fn), "media/cache") {
			continue
		}
		if c.Prop == "C06" && strings.Contains(fname(fn), "media/cache") {
			continue
		}
		c.touched(fname(fn))
		found := false
		instrs(fn, func(ins ssa.Instruction) {
			bo, ok := ins.(*ssa.BinOp)
			if !ok || !isSizeComposition(bo.X) {
				return
			}
			k, ok := constInt(bo.Y)
			if !ok {
				return
			}
			threshold := int64(-1) // sizes below threshold are refused
			switch bo.Op {
			case token.LSS:
				threshold = k
			case token.LEQ:
				threshold = k + 1
			case token.EQL:
				if k == 0 {
					threshold = 1
				}
			}
			if threshold < 0 {
				return
			}
			found = true
			c.Decide(threshold == 1, "agg-min-size@"+fname(fn), p.InstrPos(bo), "only a zero size is refused", fmt.Sprintf("declared unit sizes below %d are refused: a %d-byte NAL unit inside an aggregate (end of sequence, end of stream: header byte only) ends the scan, and it and every unit after it in the packet are dropped", threshold, threshold-1))
		})
		if !found {
			c.Lost("agg-min-size@"+fname(fn), "no size refusal found in the aggregation scan")
		}
	}
}

func ruleAggClassifyEvery(c *Ctx) {
	p := c.P
	n := 0
	for _, fn := range aggScanFuncs(p) {
		if !strings.Contains(fname(fn), "media/cache") {
			continue
		}
		c.touched(fname(fn))
		// inside the loop over the aggregate: the `size >= len(rest)` test (scan finished) and the nalType call
		var finish *ssa.BasicBlock
		for _, b := range fn.Blocks {
			ifi, ok := b.Instrs[len(b.Instrs)-1].(*ssa.If)
			if !ok {
				continue
			}
			bo, ok := ifi.Cond.(*ssa.BinOp)
			if !ok || (bo.Op != token.GEQ && bo.Op != token.GTR) || !isSizeComposition(bo.X) {
				continue
			}
			if call, ok := stripConv(bo.Y).(*ssa.Call); ok && calleeName(&call.Call) == "builtin.len" {
				finish = b
			}
		}
		if finish == nil {
			c.Lost("agg-classify@"+fname(fn), "the 'scan finished' test of the aggregation loop was not found")
			continue
		}
		n++
		good := false
		instrs(fn, func(ins ssa.Instruction) {
			cc := callCommon(ins)
			if cc == nil || cc.StaticCallee() == nil || cc.StaticCallee().Name() != "nalType" {
				return
			}
			// a classification that is executed on every iteration before the finish test
			if ins.Block() == finish || ins.Block().Dominates(finish) {
				// and belongs to the loop (the finish block reaches it again)
				if reachableBlocks(finish)[ins.Block()] {
					good = true
				}
			}
		})
		c.Decide(good, "agg-classify@"+fname(fn), p.InstrPos(finish.Instrs[len(finish.Instrs)-1]), "every unit is classified before the scan can finish", "the 'scan finished' test runs before the current unit is classified: the last unit of every aggregation packet is skipped, so [AUD,IDR] is not a key frame (joiners are replayed from an older key frame or get no GOP) and a parameter set that is last in its packet is not cached")
	}
	c.Floor("cache aggregation scans", n, 2)
}
