package main

// Rule extensions after the third seeded round (C01..C10 only), DESIGN §9.4.

import (
	"fmt"
	"go/token"
	"strings"

	"golang.org/x/tools/go/ssa"
)

func init() {
	share := func(prop string, r *RuleDoc) {
		if p := properties[prop]; p != nil {
			p.Rules = append(p.Rules, r)
		}
	}
	if p06 := properties["C06"]; p06 != nil {
		for _, r := range p06.Rules {
			if r.Name == "R-FU-GUARDED-APPEND" {
				share("C07", &RuleDoc{Name: "R-FU-GUARDED-APPEND", Text: "(shared with C06) a truncated fragmentation unit leaves nothing behind that is assembled into a later well-formed unit: a start fragment clears the fragment list, a continuation is appended only to an open unit.", Run: r.Run})
			}
		}
	}
	if p02 := properties["C02"]; p02 != nil {
		for _, r := range p02.Rules {
			if r.Name == "R-CACHE-SIBLINGS" {
				share("C01", &RuleDoc{Name: "R-CACHE-SIBLINGS", Text: "(shared with C02) one packet occupies at most one replay slot of the cache, so a joining consumer is not sent the same packet twice.", Run: r.Run})
			}
		}
	}
	agg := &RuleDoc{Name: "R-AGG-MIN-SIZE", Text: "The four aggregation scans (STAP-A / AP in the depacketisers and in the GOP-cache classifiers; sibling rule) refuse a declared unit size only when it is zero: a one-byte NAL unit (end of sequence / end of stream) inside an aggregate is legal and must not end the scan.", Run: ruleAggMinSize}
	share("C06", agg)
	share("C02", agg)
	share("C02", &RuleDoc{Name: "R-AGG-CLASSIFY-EVERY", Text: "The GOP-cache classifiers classify every unit of an aggregation packet, including the last one: the classification of a unit precedes the 'scan finished' test of that iteration.", Run: ruleAggClassifyEvery})
	share("C03", &RuleDoc{Name: "R-CLOSED-FLAG-OWNED", Text: "The `closed` flag of a consumer / push-stream role object is set only inside that type's own Close (close) method, which also detaches it from the stream: nothing else can make a later Close return early without having detached.", Run: ruleClosedFlagOwned})
	share("C03", &RuleDoc{Name: "R-PLAY-ATTACHES-ONCE", Text: "onPlay attaches a consumer only where `status != statusPlaying` is established by the status test alone (a second PLAY, whatever its headers, never attaches a second consumer that the session then forgets).", Run: rulePlayAttachesOnce})
	share("C04", &RuleDoc{Name: "R-QUEUE-FIELD-IMMUTABLE", Text: "consumption.recvQueue is assigned only when the consumption is constructed: the publisher pushes into it without a lock, also for a consumer that is detaching at that moment.", Run: ruleQueueFieldImmutable})
	share("C04", &RuleDoc{Name: "R-CLASSIFY-VIDEO-ONLY", Text: "The H.264/H.265 GOP-cache classifiers are applied only to packets of the video channel (Channel == ChannelVideo established): an audio payload is never read as a NAL header, so a drop can only begin or end at a video key frame.", Run: ruleClassifyVideoOnly})
	share("C05", &RuleDoc{Name: "R-REGIST-SAME-IS-NOOP", Text: "Regist retires the previous holder only where it is established to be a different stream: registering the stream that already holds the path does not close it.", Run: ruleRegistSameIsNoop})
	share("C05", &RuleDoc{Name: "R-HLS-ACCESS-STAMPED-FIRST", Text: "Playlist.M3u8 records the access time on every path (before the not-ready return): a client polling a playlist that is not ready yet counts as recent HLS access for the idle guard.", Run: ruleHlsAccessStampedFirst})
	share("C10", &RuleDoc{Name: "R-SEGMENT-FLUSHED-BEFORE-LISTED", Text: "segmentClose closes (flushes) the segment file with a plain, not deferred, call before the segment is handed to the playlist: a segment a playlist lists is complete on disk.", Run: ruleSegmentFlushedBeforeListed})
	share("C10", &RuleDoc{Name: "R-CLEAR-GUARD-AGREES", Text: "clearSegments compares the number of segments with the same `remain` it subtracts in its loop bound: Close (remain = 0) deletes every segment, the sliding window keeps exactly `remain`.", Run: ruleClearGuardAgrees})
	share("C09", &RuleDoc{Name: "R-AUD-NAL-SET", Text: "prepareAvcHeader prepends the access-unit delimiter for slice, IDR slice and SEI NAL units (types 1, 5, 6).", Run: ruleAudNalSet})
	share("C09", &RuleDoc{Name: "R-TS-PARAMS-LIVE", Text: "The TS packetiser passes the stream's current SPS/PPS (read from the shared metadata at each frame) to prepareAvcHeader, not a copy taken when the packetiser was built (the metadata may be completed later from in-band parameter sets).", Run: ruleTsParamsLive})
	share("C08", &RuleDoc{Name: "R-HEVC-PLT-TIER", Text: "applyPLT takes the tier together with the level when the parameter set's tier is higher (ISO 14496-15 8.3.3.1.3): the stored general_tier_flag is assigned on that branch.", Run: ruleHevcPltTier})
	share("C07", &RuleDoc{Name: "R-DEMUXER-NEVER-TYPED-NIL", Text: "When rtp.NewDemuxer fails, the stream's rtpDemuxer field is re-assigned a usable placeholder before prepareOtherStream returns (the failed call stores a typed nil into the interface field).", Run: ruleDemuxerNeverTypedNil})
	share("C07", &RuleDoc{Name: "R-UDP-ERROR-NOT-FATAL", Text: "udpConsumer.Consume does not close the consumer on a datagram send error: one oversized packet (legal on TCP, too long for a datagram) must not end delivery of the following good packets.", Run: ruleUdpErrorNotFatal})
	share("C06", &RuleDoc{Name: "R-WRAP-BOTH-WAYS", Text: "The 32-bit timestamp extension counts a wrap forwards and a step back across the wrap (a reordered or B-frame timestamp from before it): the wrap counter is both incremented and decremented.", Run: ruleWrapBothWays})
	share("C06", &RuleDoc{Name: "R-MIN-PAYLOAD", Text: "The depacketisers' entry guards refuse only payloads shorter than the NAL unit header (1 byte in H.264, 2 bytes in H.265): the H.264 access unit delimiter (2 bytes), end-of-sequence units (header only) and the three-byte H.265 delimiter sent as their own packets are legal single NAL units.", Run: ruleMinPayload})
	share("C03", &RuleDoc{Name: "R-STOP-ON-ATTACHED-STREAM", Text: "A consumer object detaches (StopConsume with its own consumer id) from the stream object it attached to, kept in a field - never from a stream looked up again by path, which after a replacement is a different stream on which the same id may belong to somebody else. (The management API, which stops a consumer chosen by path and id, is the intended exception.)", Run: ruleStopOnAttachedStream})
	members := &RuleDoc{Name: "R-MEMBERS-TRACKED", Text: "multicastProxy.AddMember records the member on every path on which it returns without having failed to start the proxy - not only for the first member: the proxy stops when the LAST member leaves, and a stream end closes every member's connection.", Run: ruleMembersTracked}
	share("C03", members)
	share("C01", members)
	share("C01", &RuleDoc{Name: "R-PROXY-REOPENS", Text: "multicastProxy.AddMember clears the proxy's closed flag on the path where it attaches the proxy to the stream again: a proxy that was closed when its last member left delivers again after a re-join.", Run: ruleProxyReopens})
	addMutants(
		&Mutant{Prop: "C06", Name: "c06-h265-min-payload-four", File: "av/format/rtp/h265_depacketizer.go",
			Old: "\tpayload := packet.Payload()\n\tif len(payload) < 2 {", New: "\tpayload := packet.Payload()\n\tif len(payload) <= 3 {", Expect: "R-MIN-PAYLOAD"},
		&Mutant{Prop: "C06", Name: "c06-h264-min-payload-three", File: "av/format/rtp/h264_depacketizer.go",
			Old: "\tpayload := packet.Payload()\n\tif len(payload) < 1 {", New: "\tpayload := packet.Payload()\n\tif len(payload) < 3 {", Expect: "R-MIN-PAYLOAD"},
		&Mutant{Prop: "C03", Name: "c03-tcp-consumer-stops-by-path", File: "service/rtsp/session_roles.go",
			Old: "\tc.closed = true\n\tc.source.StopConsume(c.cid)\n\tc.source = nil\n\treturn nil\n}\n\ntype udpConsumer struct", New: "\tc.closed = true\n\tif st := media.Get(c.path); st != nil {\n\t\tst.StopConsume(c.cid)\n\t}\n\tc.source = nil\n\treturn nil\n}\n\ntype udpConsumer struct", Expect: "R-STOP-ON-ATTACHED-STREAM"},
		&Mutant{Prop: "C03", Name: "c03-only-first-member-tracked", File: "service/rtsp/multicast_proxy.go",
			Old: "\t\tproxy.logger.Info(\"multicast proxy started.\")\n\t}\n\n\t// 每个成员都要登记(不仅是第一个)：最后一个成员离开时才停止代理，流结束时关闭全部成员\n\tproxy.members = append(proxy.members, m)\n", New: "\t\tproxy.members = append(proxy.members, m)\n\t\tproxy.logger.Info(\"multicast proxy started.\")\n\t}\n", Expect: "R-MEMBERS-TRACKED"},
		&Mutant{Prop: "C01", Name: "c01-proxy-stays-closed", File: "service/rtsp/multicast_proxy.go",
			Old: "\t\tproxy.closed = false\n", New: "", Expect: "R-PROXY-REOPENS"},
		&Mutant{Prop: "C10", Name: "c10-segment-close-deferred", File: "av/format/hls/segmentgenerator.go",
			Old: "\tcurr.file.close()\n\tif curr.duration*1000", New: "\tdefer curr.file.close()\n\tif curr.duration*1000", Expect: "R-SEGMENT-FLUSHED-BEFORE-LISTED"},
		&Mutant{Prop: "C10", Name: "c10-clear-guard-constant", File: "av/format/hls/playlist.go",
			Old: "\tif len(pl.segments) > remain {", New: "\tif len(pl.segments) > hlsRemainSegments {", Expect: "R-CLEAR-GUARD-AGREES"},
		&Mutant{Prop: "C09", Name: "c09-no-aud-for-sei", File: "av/format/mpegts/frame.go",
			Old: "\tif h264.NalSlice == nalUnitType || h264.NalIdrSlice == nalUnitType || h264.NalSei == nalUnitType {", New: "\tif h264.NalSlice == nalUnitType || h264.NalIdrSlice == nalUnitType {", Expect: "R-AUD-NAL-SET"},
		&Mutant{Prop: "C08", Name: "c08-plt-tier-dropped", File: "av/format/flv/videodata.go",
			Old: "\t\trecord.GeneralLevelIDC = ptl.General_level_idc\n\n\t\trecord.GeneralTierFlag = ptl.General_tier_flag", New: "\t\trecord.GeneralLevelIDC = ptl.General_level_idc", Expect: "R-HEVC-PLT-TIER"},
		&Mutant{Prop: "C07", Name: "c07-demuxer-typed-nil", File: "media/stream.go",
			Old: "\t\ts.rtpDemuxer = emptyRtpDemuxer{}\n\t\treturn", New: "\t\treturn", Expect: "R-DEMUXER-NEVER-TYPED-NIL"},
		&Mutant{Prop: "C07", Name: "c07-udp-error-closes", File: "service/rtsp/session_roles.go",
			Old: "\t\t\tc.logger.Warn(err.Error())\n\t\t\treturn", New: "\t\t\tc.logger.Warn(err.Error())\n\t\t\tc.Close()\n\t\t\treturn", Expect: "R-UDP-ERROR-NOT-FATAL"},
		&Mutant{Prop: "C06", Name: "c06-wrap-forward-only", File: "av/format/rtp/syncclock.go",
			Old: "\t\t} else if rtptime > sc.lastRTP && rtptime-sc.lastRTP > 1<<31 {\n\t\t\tsc.wraps-- // 回绕点之前的乱序包\n\t\t}", New: "\t\t}", Expect: "R-WRAP-BOTH-WAYS"},
		&Mutant{Prop: "C03", Name: "c03-consume-sets-closed", File: "service/rtsp/session_roles.go",
			Old: "		c.logger.Errorf(\"send pack error = %v , close socket\", err)\n\t\tc.Close()", New: "		c.logger.Errorf(\"send pack error = %v , close socket\", err)\n\t\tc.closed = true\n\t\tc.Session.Close()", Expect: "R-CLOSED-FLAG-OWNED"},
		&Mutant{Prop: "C03", Name: "c03-replay-with-range-attaches", File: "service/rtsp/session.go",
			Old: "\tif s.status == statusPlaying { // 已在播放", New: "\tif s.status == statusPlaying && req.Header.Get(FieldRange) == \"\" { // 已在播放", Expect: "R-PLAY-ATTACHES-ONCE"},
		&Mutant{Prop: "C04", Name: "c04-queue-nilled", File: "media/consumption.go",
			Old: "\t\tc.recvQueue.Reset()\n\t\tc.stream = nil", New: "\t\tc.recvQueue = nil\n\t\tc.stream = nil", Expect: "R-QUEUE-FIELD-IMMUTABLE"},
		&Mutant{Prop: "C04", Name: "c04-classify-audio", File: "media/cache/h264cache.go",
			Old: "\tif rtppack.Channel != rtp.ChannelVideo {\n\t\treturn false\n\t}", New: "\tif rtppack.Channel == rtp.ChannelVideoControl || rtppack.Channel == rtp.ChannelAudioControl {\n\t\treturn false\n\t}", Expect: "R-CLASSIFY-VIDEO-ONLY"},
		&Mutant{Prop: "C05", Name: "c05-regist-same-retires", File: "media/global.go",
			Old: "\tif s == oldSI { // 如果是同一个源\n\t\treturn\n\t}\n", New: "", Expect: "R-REGIST-SAME-IS-NOOP"},
		&Mutant{Prop: "C05", Name: "c05-access-stamped-when-ready", File: "av/format/hls/playlist.go",
			Old: "\tatomic.StoreInt64(&pl.lastAccessTime, time.Now().UnixNano())\n\tw := m3u8Pool.Get().(*bytes.Buffer)", New: "\tw := m3u8Pool.Get().(*bytes.Buffer)", Expect: "R-HLS-ACCESS-STAMPED-FIRST",
			More: []Edit{{File: "av/format/hls/playlist.go", Old: "\tseq := segments[0].sequenceNo\n", New: "\tatomic.StoreInt64(&pl.lastAccessTime, time.Now().UnixNano())\n\tseq := segments[0].sequenceNo\n"}}},
		&Mutant{Prop: "C02", Name: "c02-both-slots-one-packet", File: "media/cache/h264cache.go",
			Old: "\tif sps { // 新序列参数,重置图像参数和 GopCache\n\t\tcache.sps = rtppack\n\t\treturn false\n\t}", New: "\tif sps { // 新序列参数,重置图像参数和 GopCache\n\t\tcache.sps = rtppack\n\t\tif pps {\n\t\t\tcache.pps = rtppack\n\t\t}\n\t\treturn false\n\t}", Expect: "R-CACHE-SIBLINGS"},
		&Mutant{Prop: "C06", Name: "c06-h265-fu-start-keeps-fragments", File: "av/format/rtp/h265_depacketizer.go",
			Old: "\t\th265dp.fragments = h265dp.fragments[:0]\n\t\t// 缓存片段\n\t\th265dp.fragments = append(h265dp.fragments, packet)\n\t\treturn", New: "\t\t// 缓存片段\n\t\th265dp.fragments = append(h265dp.fragments, packet)\n\t\treturn", Expect: "R-FU-GUARDED-APPEND"},
		&Mutant{Prop: "C06", Name: "c06-stap-min-size-two", File: "av/format/rtp/h264_depacketizer.go",
			Old: "\t\tif nalSize < 1 || off+nalSize > len(payload) {", New: "\t\tif nalSize < 2 || off+nalSize > len(payload) {", Expect: "R-AGG-MIN-SIZE"},
		&Mutant{Prop: "C02", Name: "c02-hevc-ap-last-unit-skipped", File: "media/cache/hevccache.go",
			Old: "\t\t\tnaluType = (rest[2] >> 1) & 0x3f\n\t\t\tcache.nalType(naluType, &vps, &sps, &pps, &islice)\n\n\t\t\trest = rest[2:]\n\t\t\tif nalSize >= len(rest) { // 扫描完成(或包被截断)\n\t\t\t\tbreak\n\t\t\t}", New: "\t\t\trest = rest[2:]\n\t\t\tif nalSize >= len(rest) { // 扫描完成(或包被截断)\n\t\t\t\tbreak\n\t\t\t}\n\t\t\tnaluType = (rest[0] >> 1) & 0x3f\n\t\t\tcache.nalType(naluType, &vps, &sps, &pps, &islice)", Expect: "R-AGG-CLASSIFY-EVERY"},
	)
}

// sizeValue: v is the 16-bit big-endian size composed from two bytes (x<<8 | y), possibly converted.
func isSizeComposition(v ssa.Value) bool {
	v = stripConv(v)
	or, ok := v.(*ssa.BinOp)
	if !ok || or.Op != token.OR {
		return false
	}
	for _, side := range []ssa.Value{or.X, or.Y} {
		if shl, ok := stripConv(side).(*ssa.BinOp); ok && shl.Op == token.SHL {
			if k, ok := constInt(shl.Y); ok && k == 8 {
				return true
			}
		}
	}
	return false
}

func aggScanFuncs(p *Program) []*ssa.Function {
	var out []*ssa.Function
	for _, x := range []struct{ rel, fn string }{
		{"av/format/rtp", "(*h264Depacketizer).depacketizeStapa"}, {"av/format/rtp", "(*h265Depacketizer).depacketizeStap"},
		{"media/cache", "(*H264Cache).getPalyloadType"}, {"media/cache", "(*HevcCache).getPalyloadType"},
	} {
		if f := p.Func(x.rel, x.fn); f != nil {
			out = append(out, f)
		}
	}
	return out
}

func ruleAggMinSize(c *Ctx) {
	p := c.P
	fns := aggScanFuncs(p)
	c.Floor("aggregation scans", len(fns), 4)
	for _, fn := range fns {
		if c.Prop == "C02" && !strings.Contains(fname(fn), "media/cache") {
			continue
		}
		if c.Prop == "C06" && strings.Contains(fname(fn), "media/cache") {
			continue
		}
		c.touched(fname(fn))
		found := false
		instrs(fn, func(ins ssa.Instruction) {
			bo, ok := ins.(*ssa.BinOp)
			if !ok || !isSizeComposition(bo.X) {
				return
			}
			k, ok := constInt(bo.Y)
			if !ok {
				return
			}
			threshold := int64(-1) // sizes below threshold are refused
			switch bo.Op {
			case token.LSS:
				threshold = k
			case token.LEQ:
				threshold = k + 1
			case token.EQL:
				if k == 0 {
					threshold = 1
				}
			}
			if threshold < 0 {
				return
			}
			found = true
			c.Decide(threshold == 1, "agg-min-size@"+fname(fn), p.InstrPos(bo), "only a zero size is refused", fmt.Sprintf("declared unit sizes below %d are refused: a %d-byte NAL unit inside an aggregate (end of sequence, end of stream: header byte only) ends the scan, and it and every unit after it in the packet are dropped", threshold, threshold-1))
		})
		if !found {
			c.Lost("agg-min-size@"+fname(fn), "no size refusal found in the aggregation scan")
		}
	}
}

func ruleAggClassifyEvery(c *Ctx) {
	p := c.P
	n := 0
	for _, fn := range aggScanFuncs(p) {
		if !strings.Contains(fname(fn), "media/cache") {
			continue
		}
		c.touched(fname(fn))
		// inside the loop over the aggregate: the `size >= len(rest)` test (scan finished) and the nalType call
		var finish *ssa.BasicBlock
		for _, b := range fn.Blocks {
			ifi, ok := b.Instrs[len(b.Instrs)-1].(*ssa.If)
			if !ok {
				continue
			}
			bo, ok := ifi.Cond.(*ssa.BinOp)
			if !ok || (bo.Op != token.GEQ && bo.Op != token.GTR) || !isSizeComposition(bo.X) {
				continue
			}
			if call, ok := stripConv(bo.Y).(*ssa.Call); ok && calleeName(&call.Call) == "builtin.len" {
				finish = b
			}
		}
		if finish == nil {
			c.Lost("agg-classify@"+fname(fn), "the 'scan finished' test of the aggregation loop was not found")
			continue
		}
		n++
		good := false
		instrs(fn, func(ins ssa.Instruction) {
			cc := callCommon(ins)
			if cc == nil || cc.StaticCallee() == nil || baseFuncName(cc.StaticCallee()) != "nalType" {
				return
			}
			// a classification that is executed on every iteration before the finish test
			if ins.Block() == finish || ins.Block().Dominates(finish) {
				// and belongs to the loop (the finish block reaches it again)
				if reachableBlocks(finish)[ins.Block()] {
					good = true
				}
			}
		})
		c.Decide(good, "agg-classify@"+fname(fn), p.InstrPos(finish.Instrs[len(finish.Instrs)-1]), "every unit is classified before the scan can finish", "the 'scan finished' test runs before the current unit is classified: the last unit of every aggregation packet is skipped, so [AUD,IDR] is not a key frame (joiners are replayed from an older key frame or get no GOP) and a parameter set that is last in its packet is not cached")
	}
	c.Floor("cache aggregation scans", n, 2)
}

// ------------------------------------------------------------ R-CLOSED-FLAG-OWNED

func ruleClosedFlagOwned(c *Ctx) {
	p := c.P
	n := 0
	for _, pkg := range []string{"service/rtsp", "service/wsp", "service/flv"} {
		for _, fn := range p.FuncsInPkg(pkg) {
			instrs(fn, func(ins ssa.Instruction) {
				st, ok := ins.(*ssa.Store)
				if !ok {
					return
				}
				f, base, ok := fieldAddr(st.Addr)
				if !ok || theProgram.baseFieldName(f) != "closed" {
					return
				}
				if b, isc := constBool(st.Val); !isc || !b {
					return
				}
				owner := namedOf(base.Type())
				if owner == nil {
					return
				}
				if _, fresh := origin(base).(*ssa.Alloc); fresh {
					return // initial value of an object under construction
				}
				n++
				root := fn
				for root.Parent() != nil {
					root = root.Parent()
				}
				okOwner := false
				if recv := root.Signature.Recv(); recv != nil {
					if rn := namedOf(recv.Type()); rn != nil && rn.Obj() == owner.Obj() {
						nm := strings.ToLower(root.Name())
						okOwner = nm == "close" || nm == "disconnect"
					}
				}
				c.Decide(okOwner, fmt.Sprintf("closed-flag:%s@%s", owner.Obj().Name(), fname(fn)), p.InstrPos(st), "set only by the type's own Close", owner.Obj().Name()+".closed is set to true outside "+owner.Obj().Name()+"'s own Close: the session cleanup later calls Close, which returns early because the flag is already set, so the detach (StopConsume / Unregist / release) never runs and the consumption stays attached after the connection is gone")
			})
		}
	}
	c.Floor("closed-flag stores", n, 6)
}

// ------------------------------------------------------------ R-PLAY-ATTACHES-ONCE

func rulePlayAttachesOnce(c *Ctx) {
	p := c.P
	fn := p.Func("service/rtsp", "(*Session).onPlay")
	playing, ok := pkgConst(p, "service/rtsp", "statusPlaying")
	if fn == nil || !ok {
		c.Lost("rtsp.Session.onPlay/statusPlaying", "not found")
		return
	}
	c.touched(fname(fn))
	n := 0
	instrs(fn, func(ins ssa.Instruction) {
		cc := callCommon(ins)
		if cc == nil || cc.StaticCallee() == nil {
			return
		}
		switch baseFuncName(cc.StaticCallee()) {
		case "asTCPConsumer", "asUDPConsumer", "asMulticastConsumer":
		default:
			return
		}
		n++
		notPlaying := false
		domConds(ins, func(cond ssa.Value, taken bool) {
			bo, ok := cond.(*ssa.BinOp)
			if !ok {
				return
			}
			f, _, okf := fieldLoad(stripConv(bo.X))
			k, okk := constInt(bo.Y)
			if okf && okk && theProgram.baseFieldName(f) == "status" && k == playing {
				if bo.Op == token.EQL && !taken || bo.Op == token.NEQ && taken {
					notPlaying = true
				}
			}
		})
		c.Decide(notPlaying, "play-attaches-once:"+baseFuncName(cc.StaticCallee()), p.InstrPos(ins), "status != Playing established", "a consumer is attached on a path where the session may already be playing (the 'already playing' answer depends on something besides the status): the second PLAY attaches a second consumption and overwrites s.consumer, the session end stops only the newest one and the first stays registered until the stream ends")
	})
	c.Floor("consumer role calls in onPlay", n, 3)
}

// ------------------------------------------------------------ R-QUEUE-FIELD-IMMUTABLE

func ruleQueueFieldImmutable(c *Ctx) {
	p := c.P
	fv := p.FieldVar("media", "consumption", "recvQueue")
	if fv == nil {
		c.Lost("media.consumption.recvQueue", "field not found")
		return
	}
	n := 0
	for _, fn := range p.FuncsInPkg("media") {
		instrs(fn, func(ins ssa.Instruction) {
			st, ok := ins.(*ssa.Store)
			if !ok {
				return
			}
			f, base, ok := fieldAddr(st.Addr)
			if !ok || f != fv {
				return
			}
			n++
			_, fresh := origin(base).(*ssa.Alloc)
			c.Decide(fresh && !isNilConst(st.Val), "queue-field@"+fname(fn), p.InstrPos(st), "assigned while the consumption is being constructed", "consumption.recvQueue is reassigned after construction: sync.Map.Range can hand the publisher a consumption it loaded just before that consumer detached, send() then pushes into the released (nil) queue and the publisher goroutine panics inside WriteRtpPacket while holding joinLock - one failing consumer takes the stream down for everybody")
		})
	}
	c.Floor("stores of consumption.recvQueue", n, 1)
}

// ------------------------------------------------------------ R-CLASSIFY-VIDEO-ONLY

func ruleClassifyVideoOnly(c *Ctx) {
	p := c.P
	video, ok := pkgConst(p, "av/format/rtp", "ChannelVideo")
	if !ok {
		c.Lost("rtp.ChannelVideo", "constant not found")
		return
	}
	n := 0
	for _, t := range []string{"H264Cache", "HevcCache"} {
		fn := p.Func("media/cache", "(*"+t+").CachePack")
		if fn == nil {
			c.Lost("cache."+t+".CachePack", "not found")
			continue
		}
		c.touched(fname(fn))
		instrs(fn, func(ins ssa.Instruction) {
			cc := callCommon(ins)
			if cc == nil || cc.StaticCallee() == nil || baseFuncName(cc.StaticCallee()) != "getPalyloadType" {
				return
			}
			n++
			c.Decide(fieldEqEstablished(ins, "Channel", video), "classify-video-only@"+fname(fn), p.InstrPos(ins), "classified only when Channel == ChannelVideo", "packets of other channels reach the NAL classifier: an audio payload whose first byte looks like an IDR/IRAP header (G.711, low 5 bits = 5) is reported as a key frame, so a stalled consumer starts and stops discarding at an audio packet in the middle of a GOP and the GOP cache restarts there")
		})
	}
	c.Floor("classifier calls", n, 2)
}

// ------------------------------------------------------------ R-REGIST-SAME-IS-NOOP

func ruleRegistSameIsNoop(c *Ctx) {
	p := c.P
	fn := p.Func("media", "Regist")
	if fn == nil {
		c.Lost("media.Regist", "not found")
		return
	}
	c.touched(fname(fn))
	n := 0
	instrs(fn, func(ins ssa.Instruction) {
		cc := callCommon(ins)
		if cc == nil || cc.StaticCallee() == nil {
			return
		}
		nm := baseFuncName(cc.StaticCallee())
		if nm != "close" && nm != "Close" && nm != "runZeroConsumersCloseTask" {
			return
		}
		n++
		differs := false
		domConds(ins, func(cond ssa.Value, taken bool) {
			bo, ok := cond.(*ssa.BinOp)
			if !ok || (bo.Op != token.EQL && bo.Op != token.NEQ) {
				return
			}
			// comparison of the new stream (parameter, possibly as interface) with the loaded old value
			usesParam := false
			for _, side := range []ssa.Value{bo.X, bo.Y} {
				v := stripConv(side)
				if mi, ok := v.(*ssa.MakeInterface); ok {
					v = mi.X
				}
				if origin(v) == ssa.Value(fn.Params[0]) {
					usesParam = true
				}
			}
			if usesParam && (bo.Op == token.EQL && !taken || bo.Op == token.NEQ && taken) {
				differs = true
			}
		})
		c.Decide(differs, fmt.Sprintf("regist-same#%d", n), p.InstrPos(ins), "the previous holder is retired only when it is a different stream", "Regist retires the previous holder without having established that it differs from the stream being registered: registering a stream that already holds its path closes it (or hands it to the zero-consumer task as 'replaced') while it stays in the registry, so lookups and listings return a closed stream")
	})
	c.Floor("retire calls in Regist", n, 2)
}

// ------------------------------------------------------------ R-HLS-ACCESS-STAMPED-FIRST

func ruleHlsAccessStampedFirst(c *Ctx) {
	p := c.P
	fn := p.Func("av/format/hls", "(*Playlist).M3u8")
	if fn == nil {
		c.Lost("hls.Playlist.M3u8", "not found")
		return
	}
	c.touched(fname(fn))
	res := RunPath(&PathRule[bool]{Fn: fn, Init: []bool{false},
		Transfer: func(s bool, ins ssa.Instruction) []bool {
			if cc := callCommon(ins); cc != nil && strings.HasPrefix(calleeName(cc), "sync/atomic.Store") && len(cc.Args) > 0 {
				if f, _, ok := fieldAddr(cc.Args[0]); ok && theProgram.baseFieldName(f) == "lastAccessTime" {
					return []bool{true}
				}
			}
			if st, ok := ins.(*ssa.Store); ok {
				if f, _, ok := fieldAddr(st.Addr); ok && theProgram.baseFieldName(f) == "lastAccessTime" {
					return []bool{true}
				}
			}
			return nil
		}})
	c.paths += res.N
	ok := true
	for ret, sts := range res.Exits() {
		for _, s := range sts {
			if !s {
				ok = false
				c.Bad("hls-access-stamped", p.InstrPos(ret), "a path of M3u8 returns without recording the access time: polls of a playlist that is not ready yet (stream just started, source stalled - GetM3u8 itself retries every second in that state) do not count as HLS access, and the idle task closes a stream an HLS client polled a moment ago")
			}
		}
	}
	if ok {
		c.OK("hls-access-stamped", p.Pos(fn.Pos()), "access time recorded on every path")
	}
}

// ------------------------------------------------------------ round 3, part 3

func ruleSegmentFlushedBeforeListed(c *Ctx) {
	p := c.P
	fn := p.Func("av/format/hls", "(*SegmentGenerator).segmentClose")
	if fn == nil {
		c.Lost("hls.SegmentGenerator.segmentClose", "not found")
		return
	}
	c.touched(fname(fn))
	var add, closeCall ssa.Instruction
	deferred := false
	instrs(fn, func(ins ssa.Instruction) {
		cc := callCommon(ins)
		if cc == nil {
			return
		}
		name := ""
		if cc.StaticCallee() != nil {
			name = baseFuncName(cc.StaticCallee())
		} else if cc.IsInvoke() {
			name = cc.Method.Name()
		}
		switch name {
		case "addSegment":
			add = ins
		case "close":
			if _, isDefer := ins.(*ssa.Defer); isDefer {
				deferred = true
			} else if closeCall == nil {
				closeCall = ins
			}
		}
	})
	if add == nil {
		c.Lost("segmentClose:addSegment", "segmentClose no longer hands the segment to the playlist")
		return
	}
	good := closeCall != nil && !deferred && dominatesInstr(closeCall, add)
	c.Decide(good, "segment-flushed-before-listed", p.InstrPos(add), "file closed before addSegment", "the segment is handed to the playlist before its file is closed (the close is deferred or later): a fetch in that window gets a truncated transport stream (the 64 KiB buffered writer is not flushed yet), not the stream produced for that sequence number")
}

func ruleClearGuardAgrees(c *Ctx) {
	p := c.P
	fn := p.Func("av/format/hls", "(*Playlist).clearSegments")
	if fn == nil {
		c.Lost("hls.Playlist.clearSegments", "not found")
		return
	}
	c.touched(fname(fn))
	remain := fn.Params[1]
	n := 0
	instrs(fn, func(ins ssa.Instruction) {
		bo, ok := ins.(*ssa.BinOp)
		if !ok || (bo.Op != token.GTR && bo.Op != token.GEQ && bo.Op != token.LSS && bo.Op != token.LEQ) {
			return
		}
		lenSide, other := bo.X, bo.Y
		if call, isCall := stripConv(lenSide).(*ssa.Call); !isCall || calleeName(&call.Call) != "builtin.len" {
			lenSide, other = bo.Y, bo.X
		}
		call, isCall := stripConv(lenSide).(*ssa.Call)
		if !isCall || calleeName(&call.Call) != "builtin.len" {
			return
		}
		if f, _, ok := fieldLoad(call.Call.Args[0]); !ok || theProgram.baseFieldName(f) != "segments" {
			return
		}
		// only the entry guard (not the loop bound i < len-remain)
		if _, isSub := stripConv(other).(*ssa.BinOp); isSub {
			return
		}
		if _, isPhi := stripConv(lenSide).(*ssa.Phi); isPhi {
			return
		}
		if _, isPhi := stripConv(other).(*ssa.Phi); isPhi {
			return
		}
		n++
		c.Decide(origin(other) == ssa.Value(remain), "clear-guard", p.InstrPos(bo), "guard compares with the same `remain` the loop subtracts", "clearSegments guards with "+describeValue(p, other)+" but deletes len(segments)-remain entries: Close (remain 0) deletes nothing while fewer than that many segments exist, so the last segments of every closed stream (and their .ts files) leak and the closed playlist keeps serving them")
	})
	if n == 0 {
		c.Undecided("clear-guard", p.Pos(fn.Pos()), "no entry guard on the number of segments")
	}
}

func ruleAudNalSet(c *Ctx) {
	p := c.P
	fn := p.Func("av/format/mpegts", "(*Frame).prepareAvcHeader")
	if fn == nil {
		c.Lost("mpegts.Frame.prepareAvcHeader", "not found")
		return
	}
	c.touched(fname(fn))
	// the block appending the AUD literal: reached from equality tests of the NAL type
	have := map[int64]bool{}
	for _, b := range fn.Blocks {
		ifi, ok := b.Instrs[len(b.Instrs)-1].(*ssa.If)
		if !ok {
			continue
		}
		bo, ok := ifi.Cond.(*ssa.BinOp)
		if !ok || bo.Op != token.EQL {
			continue
		}
		k, ok := constInt(bo.X)
		if !ok {
			k, ok = constInt(bo.Y)
		}
		if !ok {
			continue
		}
		// the true edge leads to a block that appends (a call to append with the AUD global)
		t := b.Succs[0]
		appends := false
		for _, ins := range t.Instrs {
			if call, ok := ins.(*ssa.Call); ok && calleeName(&call.Call) == "builtin.append" {
				appends = true
			}
		}
		if appends {
			have[k] = true
		}
	}
	var missing []string
	for _, k := range []int64{1, 5, 6} {
		if !have[k] {
			missing = append(missing, fmt.Sprint(k))
		}
	}
	c.Decide(len(missing) == 0, "aud-nal-set", p.Pos(fn.Pos()), "AUD for NAL types 1, 5, 6", "no access-unit delimiter is prepended for NAL type(s) "+strings.Join(missing, ", ")+": the PES for such a unit starts 00 00 00 01 <nal> instead of 00 00 00 01 09 f0 00 00 01 <nal>")
}

func ruleTsParamsLive(c *Ctx) {
	p := c.P
	fn := p.Func("av/format/mpegts", "(*h264Packetizer).Packetize")
	if fn == nil {
		c.Lost("mpegts.h264Packetizer.Packetize", "not found")
		return
	}
	c.touched(fname(fn))
	n := 0
	instrs(fn, func(ins ssa.Instruction) {
		cc := callCommon(ins)
		if cc == nil || cc.StaticCallee() == nil || baseFuncName(cc.StaticCallee()) != "prepareAvcHeader" {
			return
		}
		n++
		good := true
		for i, want := range []string{"Sps", "Pps"} {
			if 1+i >= len(cc.Args) {
				good = false
				continue
			}
			f, base, ok := fieldLoad(stripConv(cc.Args[1+i]))
			if !ok || f.Name() != want || !typeIs(base.Type(), modRel("av/codec"), "VideoMeta") {
				good = false
			}
		}
		c.Decide(good, "ts-params-live", p.InstrPos(ins), "SPS/PPS read from the shared metadata at each frame", "prepareAvcHeader is given parameter sets that are not read from the shared VideoMeta at this frame (copies taken at construction): when the SDP carries no sprop-parameter-sets the metadata is completed later from in-band NAL units, and every key-frame PES goes out without SPS/PPS")
	})
	if n == 0 {
		c.Lost("ts-params-live", "Packetize no longer calls prepareAvcHeader")
	}
}

func ruleHevcPltTier(c *Ctx) {
	p := c.P
	fn := p.Func("av/format/flv", "(*HEVCDecoderConfigurationRecord).applyPLT")
	if fn == nil {
		c.Lost("flv.HEVCDecoderConfigurationRecord.applyPLT", "not found")
		return
	}
	c.touched(fname(fn))
	good := false
	for _, st := range storesToField(fn, modRel("av/format/flv"), "HEVCDecoderConfigurationRecord", "GeneralTierFlag") {
		if f, _, ok := fieldLoad(stripConv(st.Val)); ok && theProgram.baseFieldName(f) == "General_tier_flag" {
			// under the `ptl tier > record tier` test
			domConds(st, func(cond ssa.Value, taken bool) {
				if bo, ok := cond.(*ssa.BinOp); ok {
					fx, _, okx := fieldLoad(stripConv(bo.X))
					fy, _, oky := fieldLoad(stripConv(bo.Y))
					if okx && oky && strings.Contains(strings.ToLower(fx.Name()+fy.Name()), "tier") {
						good = true
					}
				}
			})
		}
	}
	c.Decide(good, "hevc-plt-tier", p.Pos(fn.Pos()), "tier taken with the level when higher", "applyPLT never stores the parameter set's general_tier_flag: the HEVC sequence header always advertises Main tier, so for a High-tier stream hvcC byte 1 contradicts the SPS it was built from")
}

func ruleDemuxerNeverTypedNil(c *Ctx) {
	p := c.P
	fn := p.Func("media", "(*Stream).prepareOtherStream")
	if fn == nil {
		c.Lost("media.Stream.prepareOtherStream", "not found")
		return
	}
	c.touched(fname(fn))
	// state: 0 nothing, 1 the result of NewDemuxer was stored and its error is known non-nil, 2 re-assigned
	type st struct {
		Stored bool // field holds the call's (possibly typed-nil) result
		Err    int8 // 0 unknown 1 err != nil 2 err == nil
	}
	isDemuxField := func(addr ssa.Value) bool {
		f, _, ok := fieldAddr(addr)
		return ok && theProgram.baseFieldName(f) == "rtpDemuxer"
	}
	bad := false
	res := RunPath(&PathRule[st]{Fn: fn, Init: []st{{}},
		Transfer: func(s st, ins ssa.Instruction) []st {
			if sto, ok := ins.(*ssa.Store); ok && isDemuxField(sto.Addr) {
				fromCall := false
				walkDeps(sto.Val, func(x ssa.Value) bool {
					if call, ok := x.(*ssa.Call); ok && call.Call.StaticCallee() != nil && baseFuncName(call.Call.StaticCallee()) == "NewDemuxer" {
						fromCall = true
					}
					return true
				})
				s.Stored = fromCall
				return []st{s}
			}
			return nil
		},
		Branch: func(s st, cond ssa.Value, taken bool) (st, bool) {
			if bo, ok := cond.(*ssa.BinOp); ok && (isNilConst(bo.X) || isNilConst(bo.Y)) && (bo.Op == token.NEQ || bo.Op == token.EQL) {
				isErr := false
				for _, side := range []ssa.Value{bo.X, bo.Y} {
					walkDeps(side, func(x ssa.Value) bool {
						if ex, ok := x.(*ssa.Extract); ok && ex.Index == 1 {
							if call, ok := ex.Tuple.(*ssa.Call); ok && call.Call.StaticCallee() != nil && baseFuncName(call.Call.StaticCallee()) == "NewDemuxer" {
								isErr = true
							}
						}
						return true
					})
				}
				if isErr {
					nonNil := (bo.Op == token.NEQ) == taken
					if nonNil {
						s.Err = 1
					} else {
						s.Err = 2
					}
				}
			}
			return s, true
		}})
	c.paths += res.N
	for ret, sts := range res.Exits() {
		for _, s := range sts {
			if s.Stored && s.Err == 1 {
				bad = true
				c.Bad("demuxer-typed-nil", p.InstrPos(ret), "prepareOtherStream returns on the failure path of rtp.NewDemuxer with the failed call's result still in s.rtpDemuxer: a typed nil *rtp.Demuxer in an interface field is not nil, WriteRtpPacket and Stream.Close call methods on it and panic - Close runs inside the deferred cleanup of the session/pull goroutine after its recover, so the whole server process dies (SDP with an unsupported video codec, then RECORD and a disconnect)")
			}
		}
	}
	if !bad {
		c.OK("demuxer-typed-nil", p.Pos(fn.Pos()), "the failure path re-assigns a placeholder")
	}
}

func ruleUdpErrorNotFatal(c *Ctx) {
	p := c.P
	fn := p.Func("service/rtsp", "(*udpConsumer).Consume")
	if fn == nil {
		c.Lost("rtsp.udpConsumer.Consume", "not found")
		return
	}
	c.touched(fname(fn))
	var bad ssa.Instruction
	instrs(fn, func(ins ssa.Instruction) {
		cc := callCommon(ins)
		if cc == nil {
			return
		}
		name := ""
		if cc.StaticCallee() != nil {
			name = baseFuncName(cc.StaticCallee())
		} else if cc.IsInvoke() {
			name = cc.Method.Name()
		}
		if name == "Close" || name == "StopConsume" {
			bad = ins
		}
	})
	if bad != nil {
		c.Bad("udp-error-not-fatal", p.InstrPos(bad), "udpConsumer.Consume closes the consumer: a single datagram send error (an RTP packet of 65508..65535 bytes is legal on interleaved TCP but 'message too long' for UDP) ends delivery of every following good packet to that player and tears its session down")
	} else {
		c.OK("udp-error-not-fatal", p.Pos(fn.Pos()), "send errors are logged, the consumer stays attached")
	}
}

func ruleWrapBothWays(c *Ctx) {
	p := c.P
	fn := p.Func("av/format/rtp", "(*SyncClock).extend")
	if fn == nil {
		c.Lost("rtp.SyncClock.extend", "timestamp extension not found")
		return
	}
	c.touched(fname(fn))
	inc, dec := false, false
	for _, st := range storesToField(fn, modRel("av/format/rtp"), "SyncClock", "wraps") {
		if bo, ok := stripConv(st.Val).(*ssa.BinOp); ok {
			if k, ok := constInt(bo.Y); ok && k == 1 {
				if bo.Op == token.ADD {
					inc = true
				}
				if bo.Op == token.SUB {
					dec = true
				}
			}
		}
	}
	c.Decide(inc && dec, "wrap-both-ways", p.Pos(fn.Pos()), "wrap counter incremented and decremented", fmt.Sprintf("the wrap counter is incremented (%v) / decremented (%v): a timestamp from before the 32-bit wrap that arrives after a wrapped one (B-frames in decode order, UDP reordering) is taken for another forward wrap and every later frame stays shifted by 2^32 ticks", inc, dec))
}

func ruleMinPayload(c *Ctx) {
	p := c.P
	n := 0
	for _, t := range []string{"h264Depacketizer", "h265Depacketizer"} {
		fn := p.Func("av/format/rtp", "(*"+t+").Depacketize")
		if fn == nil {
			c.Lost("rtp."+t+".Depacketize", "not found")
			continue
		}
		c.touched(fname(fn))
		// the first length test of the payload in the entry block
		var first *ssa.BinOp
		for _, ins := range fn.Blocks[0].Instrs {
			bo, ok := ins.(*ssa.BinOp)
			if !ok || first != nil {
				continue
			}
			if call, ok := stripConv(bo.X).(*ssa.Call); ok && calleeName(&call.Call) == "builtin.len" {
				first = bo
			}
		}
		if first == nil {
			continue // no entry guard: nothing is refused by length here (bounds are C07's concern)
		}
		k, ok := constInt(first.Y)
		if !ok {
			continue
		}
		threshold := int64(-1)
		switch first.Op {
		case token.LSS:
			threshold = k
		case token.LEQ:
			threshold = k + 1
		}
		if threshold < 0 {
			continue
		}
		n++
		// the shortest complete unit is the bare NAL header: 1 byte in H.264 (end of sequence 0x0a; the
		// access unit delimiter 09 f0 has 2), 2 bytes in H.265 (end of sequence / end of bitstream)
		hdr, example := int64(1), "the H.264 access unit delimiter 09 f0 or the one-byte end-of-sequence unit"
		if t == "h265Depacketizer" {
			hdr, example = 2, "the H.265 end-of-sequence unit, or with a larger threshold the access unit delimiter 46 01 x0"
		}
		c.Decide(threshold <= hdr, "min-payload@"+fname(fn), p.InstrPos(first), fmt.Sprintf("payloads shorter than %d bytes are refused", threshold), fmt.Sprintf("payloads shorter than %d bytes are refused although a complete NAL unit may be as short as its %d-byte header: a single NAL unit packet carrying %s is discarded, so the frames handed to the remuxers are not exactly the units the sender packetised", threshold, hdr, example))
	}
	if n == 0 {
		c.OK("min-payload", "", "the depacketisers refuse no payload by length alone at entry")
	}
}

func ruleProxyReopens(c *Ctx) {
	p := c.P
	fn := p.Func("service/rtsp", "(*multicastProxy).AddMember")
	if fn == nil {
		c.Lost("rtsp.multicastProxy.AddMember", "not found")
		return
	}
	c.touched(fname(fn))
	type st struct{ Attached, Reopened bool }
	res := RunPath(&PathRule[st]{Fn: fn, Init: []st{{}},
		Transfer: func(s st, ins ssa.Instruction) []st {
			if cc := callCommon(ins); cc != nil && cc.StaticCallee() != nil && strings.HasPrefix(baseFuncName(cc.StaticCallee()), "StartConsume") {
				s.Attached = true
				return []st{s}
			}
			if sto, ok := ins.(*ssa.Store); ok {
				if f, _, ok := fieldAddr(sto.Addr); ok && theProgram.baseFieldName(f) == "closed" {
					if b, isc := constBool(sto.Val); isc && !b {
						s.Reopened = true
						return []st{s}
					}
				}
			}
			return nil
		}})
	c.paths += res.N
	ok, any := true, false
	for ret, sts := range res.Exits() {
		for _, s := range sts {
			if s.Attached {
				any = true
				if !s.Reopened {
					ok = false
					c.Bad("proxy-reopens", p.InstrPos(ret), "AddMember attaches the proxy to the stream without clearing its closed flag: after join, last member leaves, join again, the proxy is registered as a consumer (count 1, new socket) but Consume returns at `if proxy.closed` for every packet - the multicast group receives nothing")
				}
			}
		}
	}
	if !any {
		c.Lost("proxy-reopens", "AddMember no longer attaches the proxy to the stream")
	} else if ok {
		c.OK("proxy-reopens", p.Pos(fn.Pos()), "closed flag cleared whenever the proxy is attached")
	}
}

func ruleMembersTracked(c *Ctx) {
	p := c.P
	fn := p.Func("service/rtsp", "(*multicastProxy).AddMember")
	if fn == nil {
		c.Lost("rtsp.multicastProxy.AddMember", "not found")
		return
	}
	c.touched(fname(fn))
	// state: Empty: 0 unknown, 1 len(members)==0, 2 len(members)!=0; Added; Failed (an error was logged before returning)
	type st struct {
		Empty  int8
		Added  bool
		Failed bool
	}
	isLenMembers := func(v ssa.Value) bool {
		call, ok := stripConv(v).(*ssa.Call)
		if !ok || calleeName(&call.Call) != "builtin.len" {
			return false
		}
		f, _, ok := fieldLoad(call.Call.Args[0])
		return ok && theProgram.baseFieldName(f) == "members"
	}
	res := RunPath(&PathRule[st]{Fn: fn, Init: []st{{}},
		Branch: func(s st, cond ssa.Value, taken bool) (st, bool) {
			bo, ok := cond.(*ssa.BinOp)
			if !ok || !isLenMembers(bo.X) {
				return s, true
			}
			k, ok := constInt(bo.Y)
			if !ok || k != 0 {
				return s, true
			}
			empty := false
			switch bo.Op {
			case token.EQL:
				empty = taken
			case token.NEQ, token.GTR:
				empty = !taken
			default:
				return s, true
			}
			if empty {
				s.Empty = 1
			} else {
				s.Empty = 2
			}
			return s, true
		},
		Transfer: func(s st, ins ssa.Instruction) []st {
			if sto, ok := ins.(*ssa.Store); ok {
				if f, _, ok := fieldAddr(sto.Addr); ok && theProgram.baseFieldName(f) == "members" {
					s.Added = true
					return []st{s}
				}
			}
			if cc := callCommon(ins); cc != nil && cc.StaticCallee() != nil {
				n := baseFuncName(cc.StaticCallee())
				if n == "Error" || n == "Errorf" {
					s.Failed = true
					return []st{s}
				}
			}
			return nil
		}})
	c.paths += res.N
	ok := true
	for ret, sts := range res.Exits() {
		for _, s := range sts {
			if !s.Added && !s.Failed {
				ok = false
				which := "a path"
				if s.Empty == 2 {
					which = "the path of a second or later member (len(members) != 0)"
				}
				c.Bad("members-tracked", p.InstrPos(ret), which+" of AddMember returns without recording the member: with two multicast players the list holds only the first, so when the first leaves the proxy detaches from the stream although the second is still playing, and when the stream ends the second player's connection is never closed")
			}
		}
	}
	if ok {
		c.OK("members-tracked", p.Pos(fn.Pos()), "every non-failing path records the member")
	}
}

func ruleStopOnAttachedStream(c *Ctx) {
	p := c.P
	stop := p.Func("media", "(*Stream).StopConsume")
	if stop == nil {
		c.Lost("media.Stream.StopConsume", "not found")
		return
	}
	n := 0
	for _, pkg := range []string{"service/rtsp", "service/wsp", "service/flv", "service/hls"} {
		for _, fn := range p.FuncsInPkg(pkg) {
			ord := 0
			instrs(fn, func(ins ssa.Instruction) {
				cc := callCommon(ins)
				if cc == nil || cc.StaticCallee() != stop || len(cc.Args) < 2 {
					return
				}
				n++
				ord++
				c.touched(fname(fn))
				key := fmt.Sprintf("stop-on-attached#%d@%s", ord, fname(fn))
				recv := origin(cc.Args[0])
				looked := false
				walkDeps(recv, func(x ssa.Value) bool {
					if call, ok := x.(*ssa.Call); ok && call.Call.StaticCallee() != nil {
						nm := baseFuncName(call.Call.StaticCallee())
						if (nm == "Get" || nm == "GetOrCreate") && strings.HasSuffix(funcPkgPath(call.Call.StaticCallee()), "/media") {
							looked = true
						}
					}
					return true
				})
				if !looked {
					c.OK(key, p.InstrPos(ins), "detaches from the stream object it holds")
					return
				}
				// looked up: fine only if the consumer was started on that very stream value in this function
				// (one lookup at the top of a handler, used for attach and detach)
				sameFn := false
				root := fn
				for root.Parent() != nil {
					root = root.Parent()
				}
				for _, g := range withAnons(root) {
					instrs(g, func(i2 ssa.Instruction) {
						c2 := callCommon(i2)
						if c2 == nil || c2.StaticCallee() == nil || !strings.HasPrefix(baseFuncName(c2.StaticCallee()), "StartConsume") || len(c2.Args) == 0 {
							return
						}
						if origin(c2.Args[0]) == recv {
							sameFn = true
						}
					})
				}
				c.Decide(sameFn, key, p.InstrPos(ins), "stops the consumer it started on the stream it looked up in the same function", "StopConsume is called on a stream looked up again by path with a consumer id kept from an earlier attach: after the stream was replaced the lookup returns the NEW stream, where that id belongs to another consumer (per-stream ids start at 1) - an innocent consumer is detached and this one stays attached to the old stream")
			})
		}
	}
	c.Floor("StopConsume calls in the services", n, 5)
}
