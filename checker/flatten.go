package main

// Second half of the normalisation pre-pass: an immediately invoked function literal
// (the shape the inliner gives a helper with early returns) is flattened into a labelled
// single-iteration loop, `return` becoming `break L`, when that is plainly equivalent:
// no parameters, no defer/recover/goto inside, and the call is a statement, the right-hand side
// of an assignment whose targets take the literal's results, or the operand of a return.

import (
	"bytes"
	"fmt"
	"go/ast"
	"go/format"
	"go/parser"
	"go/token"
	"strings"
)

func flattenIIFEs(src []byte, filename string) ([]byte, int, error) {
	total := 0
	for round := 0; round < 32; round++ {
		fset := token.NewFileSet()
		f, err := parser.ParseFile(fset, filename, src, parser.ParseComments)
		if err != nil {
			return src, total, err
		}
		edit := findIIFE(fset, f, src, total)
		if edit == nil {
			return src, total, nil
		}
		var b bytes.Buffer
		b.Write(src[:edit.start])
		b.WriteString(edit.text)
		b.Write(src[edit.end:])
		out, err := format.Source(b.Bytes())
		if err != nil {
			return src, total, nil // give up on this one: keep the literal
		}
		src = out
		total++
	}
	return src, total, nil
}

type srcEdit struct {
	start, end int
	text       string
}

// simpleBody: no defer, recover, goto, labelled statements, and no bare identifier "return" inside nested literals is counted.
func simpleBody(body *ast.BlockStmt) bool {
	ok := true
	ast.Inspect(body, func(n ast.Node) bool {
		switch x := n.(type) {
		case *ast.FuncLit:
			return false
		case *ast.DeferStmt, *ast.LabeledStmt:
			ok = false
		case *ast.BranchStmt:
			if x.Tok == token.GOTO {
				ok = false
			}
		case *ast.CallExpr:
			if id, isId := x.Fun.(*ast.Ident); isId && id.Name == "recover" {
				ok = false
			}
		}
		return ok
	})
	return ok
}

func findIIFE(fset *token.FileSet, f *ast.File, src []byte, n int) *srcEdit {
	var edit *srcEdit
	off := func(p token.Pos) int { return fset.Position(p).Offset }
	text := func(a, b token.Pos) string { return string(src[off(a):off(b)]) }
	iife := func(e ast.Expr) (*ast.FuncLit, bool) {
		call, ok := e.(*ast.CallExpr)
		if !ok || len(call.Args) != 0 {
			return nil, false
		}
		fl, ok := call.Fun.(*ast.FuncLit)
		if !ok || (fl.Type.Params != nil && len(fl.Type.Params.List) != 0) {
			return nil, false
		}
		if !simpleBody(fl.Body) {
			return nil, false
		}
		return fl, true
	}
	label := fmt.Sprintf("inlined%d", n+1)
	// rewrite the returns of body (not inside nested literals) with repl(ret)
	rewrite := func(fl *ast.FuncLit, repl func(ret *ast.ReturnStmt) string) string {
		type piece struct {
			a, b int
			s    string
		}
		var ps []piece
		ast.Inspect(fl.Body, func(n ast.Node) bool {
			switch x := n.(type) {
			case *ast.FuncLit:
				return false
			case *ast.ReturnStmt:
				ps = append(ps, piece{off(x.Pos()), off(x.End()), repl(x)})
			}
			return true
		})
		body := string(src[off(fl.Body.Lbrace)+1 : off(fl.Body.Rbrace)])
		base := off(fl.Body.Lbrace) + 1
		var b strings.Builder
		last := 0
		for _, p := range ps {
			b.WriteString(body[last : p.a-base])
			b.WriteString(p.s)
			last = p.b - base
		}
		b.WriteString(body[last:])
		return b.String()
	}
	nres := func(fl *ast.FuncLit) int {
		if fl.Type.Results == nil {
			return 0
		}
		k := 0
		for _, fld := range fl.Type.Results.List {
			if len(fld.Names) == 0 {
				k++
			} else {
				k += len(fld.Names)
			}
		}
		return k
	}
	named := func(fl *ast.FuncLit) bool {
		if fl.Type.Results == nil {
			return false
		}
		for _, fld := range fl.Type.Results.List {
			if len(fld.Names) > 0 {
				return true
			}
		}
		return false
	}
	tryHoist := func(node ast.Node) {
		// an IIFE with one result used inside a larger expression of a simple statement whose other
		// operands are free of calls, receives and indexing: hoist it into a temporary first
		switch st := node.(type) {
		case *ast.AssignStmt, *ast.ReturnStmt, *ast.ExprStmt:
			var target *ast.CallExpr
			var fl *ast.FuncLit
			var outer *ast.CallExpr
			impure := 0
			pure := true
			ast.Inspect(st, func(n ast.Node) bool {
				switch x := n.(type) {
				case *ast.FuncLit:
					return false
				case *ast.CallExpr:
					if f, ok := iife(x); ok && target == nil && nres(f) == 1 && !named(f) {
						target, fl = x, f
						return false
					}
					if id, ok := x.Fun.(*ast.Ident); ok {
						switch id.Name {
						case "int", "int8", "int16", "int32", "int64", "uint", "uint8", "uint16", "uint32", "uint64", "byte", "float32", "float64", "string", "len", "cap":
							return true
						}
					}
					// one call whose arguments are evaluated before it runs may surround the literal
					impure++
					outer = x
				case *ast.IndexExpr, *ast.SliceExpr, *ast.StarExpr, *ast.TypeAssertExpr:
					pure = false
				case *ast.UnaryExpr:
					if x.Op == token.ARROW {
						pure = false
					}
				case *ast.BinaryExpr:
					if x.Op == token.QUO || x.Op == token.REM || x.Op == token.LAND || x.Op == token.LOR {
						pure = false
					}
				}
				return true
			})
			if target == nil || !pure || impure > 1 {
				return
			}
			if impure == 1 {
				// the literal must be a direct argument of that call, and the call's function expression simple
				direct := false
				for _, a := range outer.Args {
					if a == ast.Expr(target) {
						direct = true
					}
				}
				simpleFun := true
				ast.Inspect(outer.Fun, func(n ast.Node) bool {
					switch n.(type) {
					case *ast.CallExpr, *ast.IndexExpr, *ast.StarExpr, *ast.TypeAssertExpr, *ast.FuncLit:
						simpleFun = false
					}
					return simpleFun
				})
				if !direct || !simpleFun {
					return
				}
			}
			// direct forms are handled by the caller
			if as, ok := st.(*ast.AssignStmt); ok && len(as.Rhs) == 1 && as.Rhs[0] == ast.Expr(target) {
				return
			}
			if rs, ok := st.(*ast.ReturnStmt); ok && len(rs.Results) == 1 && rs.Results[0] == ast.Expr(target) {
				return
			}
			t := text(fl.Type.Results.List[0].Type.Pos(), fl.Type.Results.List[0].Type.End())
			tmp := fmt.Sprintf("%sResult0", label)
			body := rewrite(fl, func(r *ast.ReturnStmt) string {
				if len(r.Results) != 1 {
					return "break " + label
				}
				return "{\n" + tmp + " = " + text(r.Results[0].Pos(), r.Results[0].End()) + "\nbreak " + label + "\n}"
			})
			stmt := text(st.Pos(), target.Pos()) + tmp + text(target.End(), st.End())
			edit = &srcEdit{off(st.Pos()), off(st.End()), "var " + tmp + " " + t + "\n" + label + ":\nfor {\n" + body + "\nbreak " + label + "\n}\n" + stmt}
		}
	}
	ast.Inspect(f, func(node ast.Node) bool {
		if edit != nil {
			return false
		}
		// `if init; cond {...}` whose init holds an inlined literal: `{ init; if cond {...} }`
		if is, ok := node.(*ast.IfStmt); ok && is.Init != nil {
			has := false
			ast.Inspect(is.Init, func(n ast.Node) bool {
				if c, ok := n.(*ast.CallExpr); ok {
					if _, ok := iife(c); ok {
						has = true
					}
				}
				return !has
			})
			if has {
				edit = &srcEdit{off(is.Pos()), off(is.End()), "{\n" + text(is.Init.Pos(), is.Init.End()) + "\nif " + text(is.Cond.Pos(), is.End()) + "\n}"}
				return false
			}
		}
		// `if A && <expr with literal> {B}` (no else): `if A { if <expr> {B} }`;
		// `if [!]literal() {B} [else ...]`: `{ t := literal(); if [!]t {B} [else ...] }`
		if is, ok := node.(*ast.IfStmt); ok && is.Init == nil {
			hasLit := func(e ast.Expr) bool {
				has := false
				ast.Inspect(e, func(n ast.Node) bool {
					if c, ok := n.(*ast.CallExpr); ok {
						if _, ok := iife(c); ok {
							has = true
						}
					}
					return !has
				})
				return has
			}
			unparen := func(e ast.Expr) ast.Expr {
				for {
					p, ok := e.(*ast.ParenExpr)
					if !ok {
						return e
					}
					e = p.X
				}
			}
			cond := unparen(is.Cond)
			if be, ok := cond.(*ast.BinaryExpr); ok && be.Op == token.LAND && is.Else == nil && !hasLit(be.X) && hasLit(be.Y) {
				edit = &srcEdit{off(is.Pos()), off(is.End()), "if " + text(be.X.Pos(), be.X.End()) + " {\nif " + text(be.Y.Pos(), be.Y.End()) + " " + text(is.Body.Pos(), is.Body.End()) + "\n}"}
				return false
			}
			neg := ""
			inner := cond
			if u, ok := cond.(*ast.UnaryExpr); ok && u.Op == token.NOT {
				neg, inner = "!", unparen(u.X)
			}
			if fl, ok := iife(inner); ok && nres(fl) == 1 {
				tmp := label + "Cond"
				edit = &srcEdit{off(is.Pos()), off(is.End()), "{\n" + tmp + " := " + text(inner.Pos(), inner.End()) + "\nif " + neg + tmp + " " + text(is.Body.Pos(), is.End()) + "\n}"}
				return false
			}
		}
		tryHoist(node)
		if edit != nil {
			return false
		}
		switch st := node.(type) {
		case *ast.ExprStmt:
			fl, ok := iife(st.X)
			if !ok || nres(fl) != 0 {
				return true
			}
			body := rewrite(fl, func(*ast.ReturnStmt) string { return "break " + label })
			edit = &srcEdit{off(st.Pos()), off(st.End()), label + ":\nfor {\n" + body + "\nbreak " + label + "\n}"}
		case *ast.ReturnStmt:
			if len(st.Results) != 1 {
				return true
			}
			fl, ok := iife(st.Results[0])
			if !ok || named(fl) {
				return true
			}
			// `return func() T { B }()`: B's returns are the function's returns
			body := string(src[off(fl.Body.Lbrace)+1 : off(fl.Body.Rbrace)])
			edit = &srcEdit{off(st.Pos()), off(st.End()), "{\n" + body + "\n}"}
			if nres(fl) == 0 {
				edit = nil
			}
		case *ast.AssignStmt:
			if len(st.Rhs) != 1 {
				return true
			}
			fl, ok := iife(st.Rhs[0])
			if !ok || nres(fl) == 0 || nres(fl) != len(st.Lhs) {
				return true
			}
			var lhs []string
			for _, l := range st.Lhs {
				lhs = append(lhs, text(l.Pos(), l.End()))
			}
			// results go through fresh temporaries (the literal's body may declare names that shadow the targets)
			var tmps, decls, names []string
			inner := ""
			i := 0
			for _, fld := range fl.Type.Results.List {
				t := text(fld.Type.Pos(), fld.Type.End())
				cnt := len(fld.Names)
				if cnt == 0 {
					cnt = 1
				}
				for k := 0; k < cnt; k++ {
					tmp := fmt.Sprintf("%sResult%d", label, i)
					tmps = append(tmps, tmp)
					decls = append(decls, "var "+tmp+" "+t)
					if len(fld.Names) > 0 {
						names = append(names, fld.Names[k].Name)
						inner += "var " + fld.Names[k].Name + " " + t + "\n_ = " + fld.Names[k].Name + "\n"
					}
					i++
				}
			}
			if len(names) != 0 && len(names) != len(tmps) {
				return true
			}
			bad := false
			body := rewrite(fl, func(r *ast.ReturnStmt) string {
				if len(names) > 0 && len(r.Results) == 0 {
					// bare return of named results
					return "{\n" + strings.Join(tmps, ", ") + " = " + strings.Join(names, ", ") + "\nbreak " + label + "\n}"
				}
				if len(r.Results) != len(tmps) {
					bad = true
					return "break " + label
				}
				var rs []string
				for _, e := range r.Results {
					rs = append(rs, text(e.Pos(), e.End()))
				}
				return "{\n" + strings.Join(tmps, ", ") + " = " + strings.Join(rs, ", ") + "\nbreak " + label + "\n}"
			})
			if bad {
				return true
			}
			edit = &srcEdit{off(st.Pos()), off(st.End()), strings.Join(decls, "\n") + "\n" + label + ":\nfor {\n" + inner + body + "\nbreak " + label + "\n}\n" + strings.Join(lhs, ", ") + " " + st.Tok.String() + " " + strings.Join(tmps, ", ")}
		}
		return edit == nil
	})
	return edit
}
