package main

import (
	"fmt"
	"go/constant"
	"go/token"
	"go/types"
	"sort"
	"strings"

	"golang.org/x/tools/go/ssa"
)

func init() {
	register(&PropertyDef{
		ID:          "C12",
		Explanation: "Static analysis of the RTSP session request handling. Decided: (1) R-ONE-RESPONSE - on every path through Session.onRequest (summaries through onPreprocess, the method handlers and the role helpers, correlated with the boolean they return) exactly one response is sent; WSP: onRequest returns a response on every path and every iteration of the control loop writes exactly one control message; (2) R-RESPONSE-CTOR - rtsp.Response objects of the two session types are built only in newResponse, which copies CSeq from the request and sets the session id; (3) R-STATE-WRITERS - Session.status is assigned Playing only in onPlay after the role helper succeeded, Recording only in onRecord after asTCPPusher, Ready only in onSetup, Init only at construction/teardown; (4) R-HANDLERS-GATED - the method handlers are called only from onRequest on the edge where onPreprocess returned true; (5) R-GATE-TABLE - onPreprocess is evaluated abstractly (constant propagation with branch evaluation, no execution) over status x method; the resulting accept/refuse table equals the reference automaton of the property, every refusing cell sets 455 and stores nothing into the session; (6) R-TEARDOWN-RELEASES - the deferred closure of process closes the consumer and the published stream on every path.",
		NotDecided:  "Transport/SDP validity decisions inside SETUP, header content beyond CSeq/Session, behaviour of the client side.",
		Rules: []*RuleDoc{
			{Name: "R-ONE-RESPONSE", Text: "Exactly one Session.response per path of onRequest (interprocedural summaries); WSP: response object on every path, one control write per loop iteration.", Run: ruleOneResponse},
			{Name: "R-RESPONSE-CTOR", Text: "Response literals only in newResponse, which sets CSeq from the request and the Session id.", Run: ruleResponseCtor},
			{Name: "R-STATE-WRITERS", Text: "status := Playing only in onPlay after success; Recording only in onRecord after asTCPPusher; Ready only in onSetup; Init only at construction/teardown.", Run: ruleStateWriters},
			{Name: "R-HANDLERS-GATED", Text: "Method handlers are called only from onRequest after onPreprocess returned true.", Run: ruleHandlersGated},
			{Name: "R-GATE-TABLE", Text: "Abstract evaluation of onPreprocess over status x method equals the reference automaton; refusals set 455 and change nothing.", Run: ruleGateTable},
			{Name: "R-TEARDOWN-RELEASES", Text: "process's deferred closure calls consumer.Close and stream.Close on every path.", Run: ruleTeardownReleases},
		},
	})
	addMutants(
		&Mutant{Prop: "C12", Name: "c12-play-twice-silent", File: "service/rtsp/session.go",
			Old: "\tif s.status == statusPlaying { // 已在播放(如客户端用 PLAY 保活)，无需处理，但每个请求都必须回复\n\t\treturn s.response(resp)\n\t}", New: "\tif s.status == statusPlaying {\n\t\treturn\n\t}", Expect: "R-ONE-RESPONSE"},
		&Mutant{Prop: "C12", Name: "c12-describe-double-response", File: "service/rtsp/session.go",
			Old: "\tstream := media.GetOrCreate(s.path)\n\tif stream == nil {\n\t\tresp.StatusCode = StatusNotFound\n\t\treturn\n\t}\n\n\tif !s.checkPermission(auth.PullRight) {\n\t\tresp.StatusCode = StatusForbidden\n\t\treturn\n\t}\n\n\t// 从流中取 sdp", New: "\tstream := media.GetOrCreate(s.path)\n\tif stream == nil {\n\t\tresp.StatusCode = StatusNotFound\n\t\ts.response(resp)\n\t\treturn\n\t}\n\n\tif !s.checkPermission(auth.PullRight) {\n\t\tresp.StatusCode = StatusForbidden\n\t\treturn\n\t}\n\n\t// 从流中取 sdp", Expect: "R-ONE-RESPONSE"},
		&Mutant{Prop: "C12", Name: "c12-playing-accepts-setup", File: "service/rtsp/session.go",
			Old: "\tcase statusPlaying:\n\t\tcontinueProcess = req.Method == MethodPlay\n", New: "\tcase statusPlaying:\n\t\tcontinueProcess = req.Method == MethodPlay || req.Method == MethodSetup\n", Expect: "R-GATE-TABLE"},
		&Mutant{Prop: "C12", Name: "c12-refusal-resets-state", File: "service/rtsp/session.go",
			Old: "\tif !continueProcess {\n\t\tresp.StatusCode = StatusMethodNotValidInThisState\n\t\terr = s.response(resp)\n\t\treturn false, err\n\t}", New: "\tif !continueProcess {\n\t\tresp.StatusCode = StatusMethodNotValidInThisState\n\t\ts.mode = UnknownSession\n\t\terr = s.response(resp)\n\t\treturn false, err\n\t}", Expect: "R-GATE-TABLE"},
		&Mutant{Prop: "C12", Name: "c12-playing-before-success", File: "service/rtsp/session.go",
			Old: "\tif err == nil {\n\t\ts.status = statusPlaying\n\t}\n\treturn", New: "\ts.status = statusPlaying\n\treturn", Expect: "R-STATE-WRITERS"},
		&Mutant{Prop: "C12", Name: "c12-ready-before-checks", File: "service/rtsp/session.go",
			Old: "\t// 检查和以前的命令是否一致\n\tif s.mode == UnknownSession {", New: "\tif s.status < statusReady {\n\t\ts.status = statusReady\n\t}\n\t// 检查和以前的命令是否一致\n\tif s.mode == UnknownSession {", Expect: "R-STATE-WRITERS"},
		&Mutant{Prop: "C12", Name: "c12-cseq-not-echoed", File: "service/rtsp/session.go",
			Old: "\tresp.Header.Set(FieldCSeq, req.Header.Get(FieldCSeq))\n\tresp.Header.Set(FieldSession, s.lsession)\n\n\t// 根据认证模式", New: "\tresp.Header.Set(FieldSession, s.lsession)\n\n\t// 根据认证模式", Expect: "R-RESPONSE-CTOR"},
		&Mutant{Prop: "C12", Name: "c12-teardown-keeps-stream", File: "service/rtsp/session.go",
			Old: "\t\ts.consumer.Close()\n\t\ts.stream.Close()\n", New: "\t\ts.consumer.Close()\n", Expect: "R-TEARDOWN-RELEASES"},
		&Mutant{Prop: "C12", Name: "c12-wsp-switch-no-reply", File: "service/wsp/session.go",
			Old: "\t\t} else if req.Cmd == CmdSwitch {\n\t\t} else {", New: "\t\t} else if req.Cmd == CmdSwitch {\n\t\t\tcontinue\n\t\t} else {", Expect: "R-ONE-RESPONSE"},
	)
}

// ------------------------------------------------------------ response counting with summaries

type respSum struct {
	N   int8 // responses on the path (cap 2)
	Ret int8 // first bool result: 0 n/a or unknown, 1 true, 2 false
}

type respState struct {
	N      int8
	Ret    int8      // bool result of the last summarised call
	RetOf  *ssa.Call // that call
	Broken bool
}

type respAnalysis struct {
	p        *Program
	response *ssa.Function
	memo     map[*ssa.Function][]respSum
	active   map[*ssa.Function]bool
	paths    int
}

func (ra *respAnalysis) summary(fn *ssa.Function) []respSum {
	if s, ok := ra.memo[fn]; ok {
		return s
	}
	if ra.active[fn] {
		return []respSum{{0, 0}} // recursion: assume no response (none exists on the analysed chains)
	}
	ra.active[fn] = true
	defer delete(ra.active, fn)
	r := &PathRule[respState]{Fn: fn, Init: []respState{{}},
		Transfer: func(s respState, ins ssa.Instruction) []respState {
			call, ok := ins.(*ssa.Call)
			if !ok {
				return nil
			}
			cal := call.Call.StaticCallee()
			if cal == nil {
				return nil
			}
			if cal == ra.response {
				if s.N < 2 {
					s.N++
				}
				return []respState{s}
			}
			if !ra.relevant(cal) {
				return nil
			}
			var outs []respState
			for _, cs := range ra.summary(cal) {
				ns := s
				ns.N += cs.N
				if ns.N > 2 {
					ns.N = 2
				}
				ns.Ret, ns.RetOf = cs.Ret, call
				outs = append(outs, ns)
			}
			return outs
		},
		Branch: func(s respState, cond ssa.Value, taken bool) (respState, bool) {
			cv, neg := condNeg(cond)
			val := taken != neg
			var of ssa.Value = cv
			if ex, ok := cv.(*ssa.Extract); ok && ex.Index == 0 {
				of = ex.Tuple
			}
			if call, ok := of.(*ssa.Call); ok && call == s.RetOf && s.Ret != 0 {
				if (s.Ret == 1) != val {
					return s, false
				}
			}
			return s, true
		}}
	res := RunPath(r)
	ra.paths += res.N
	set := map[respSum]bool{}
	for ret, sts := range res.Exits() {
		rr := ret.(*ssa.Return)
		rv := int8(0)
		if len(rr.Results) > 0 {
			if b, isc := constBool(retValue(rr, 0)); isc {
				rv = 2
				if b {
					rv = 1
				}
			}
		}
		for _, s := range sts {
			n := s.N
			// `return s.f(...)` : propagate the callee's bool
			r2 := rv
			if len(rr.Results) > 0 && rv == 0 {
				if call, ok := retValue(rr, 0).(*ssa.Call); ok && call == s.RetOf {
					r2 = s.Ret
				}
			}
			set[respSum{n, r2}] = true
		}
	}
	var out []respSum
	for k := range set {
		out = append(out, k)
	}
	sort.Slice(out, func(i, j int) bool { return out[i].N*4+out[i].Ret < out[j].N*4+out[j].Ret })
	ra.memo[fn] = out
	return out
}

// relevant: methods of the same session type (they may respond).
func (ra *respAnalysis) relevant(f *ssa.Function) bool {
	if f.Signature.Recv() == nil || ra.response.Signature.Recv() == nil {
		return false
	}
	return namedOf(f.Signature.Recv().Type()) == namedOf(ra.response.Signature.Recv().Type()) && f.Blocks != nil
}

func ruleOneResponse(c *Ctx) {
	p := c.P
	onReq := p.Func("service/rtsp", "(*Session).onRequest")
	resp := p.Func("service/rtsp", "(*Session).response")
	if onReq == nil || resp == nil {
		c.Lost("rtsp.Session.onRequest/response", "not found")
		return
	}
	ra := &respAnalysis{p: p, response: resp, memo: map[*ssa.Function][]respSum{}, active: map[*ssa.Function]bool{}}
	sums := ra.summary(onReq)
	c.paths += ra.paths
	for f := range ra.memo {
		c.touched(fname(f))
	}
	c.Floor("functions summarised for response counting", len(ra.memo), 8)
	bad := false
	for _, s := range sums {
		if s.N != 1 {
			bad = true
		}
	}
	if bad {
		// locate: which callee summaries have N != expected
		detail := []string{}
		for f, ss := range ra.memo {
			for _, s := range ss {
				detail = append(detail, fmt.Sprintf("%s: responses=%d result=%d", fname(f), s.N, s.Ret))
			}
		}
		sort.Strings(detail)
		c.Bad("one-response:rtsp.onRequest", p.Pos(onReq.Pos()), fmt.Sprintf("some path through onRequest sends a number of responses other than 1 (path summaries: %v): a request stays unanswered (the client's CSeq matching stalls) or is answered twice", sums), detail...)
	} else {
		c.OK("one-response:rtsp.onRequest", p.Pos(onReq.Pos()), fmt.Sprintf("every path answers exactly once (%d functions summarised, %d path states)", len(ra.memo), ra.paths))
	}
	// per-handler diagnosis: handlers that respond themselves must do so on every path
	for f, ss := range ra.memo {
		if f == onReq {
			continue
		}
		ns := map[int8]bool{}
		for _, s := range ss {
			ns[s.N] = true
		}
		if len(ns) > 1 && f.Name() != "onPreprocess" {
			// mixed: some paths respond, others do not - only legal if the caller compensates; onPlay is returned directly by onRequest
			if f.Name() == "onPlay" {
				c.Bad("one-response:"+f.Name(), p.Pos(f.Pos()), "onPlay (whose result onRequest returns directly) answers on some paths and not on others: PLAY in state playing is never answered")
			}
		}
	}

	// ---- WSP
	wreq := p.Func("service/wsp", "(*Session).onRequest")
	wproc := p.Func("service/wsp", "(*Session).process")
	wnew := p.Func("service/wsp", "(*Session).newResponse")
	if wreq == nil || wproc == nil || wnew == nil {
		c.Lost("wsp.Session.onRequest/process/newResponse", "not found")
		return
	}
	c.touched(fname(wreq))
	okW := true
	instrs(wreq, func(ins ssa.Instruction) {
		if ret, ok := ins.(*ssa.Return); ok {
			call, isCall := origin(retValue(ret, 0)).(*ssa.Call)
			if !isCall || call.Call.StaticCallee() != wnew {
				okW = false
				c.Bad("one-response:wsp.onRequest", p.InstrPos(ret), "WSP onRequest can return something other than the response built for this request")
			}
		}
	})
	if okW {
		c.OK("one-response:wsp.onRequest", p.Pos(wreq.Pos()), "returns the response object on every path")
	}
	// process loop: one control write per decoded request
	c.touched(fname(wproc))
	connF := p.FieldVar("service/wsp", "Session", "conn")
	isDecode := func(ins ssa.Instruction) bool {
		cc := callCommon(ins)
		return cc != nil && cc.StaticCallee() != nil && baseFuncName(cc.StaticCallee()) == "DecodeRequest"
	}
	isCtlWrite := func(ins ssa.Instruction) bool {
		cc := callCommon(ins)
		if cc == nil || !cc.IsInvoke() || cc.Method.Name() != "Write" {
			return false
		}
		f, _, ok := fieldLoad(cc.Value)
		return ok && f == connF
	}
	type ws struct {
		In bool
		N  int8
	}
	r := &PathRule[ws]{Fn: wproc, Init: []ws{{}},
		Transfer: func(s ws, ins ssa.Instruction) []ws {
			if isDecode(ins) {
				return []ws{{true, 0}}
			}
			if isCtlWrite(ins) {
				if s.N < 2 {
					s.N++
				}
				return []ws{s}
			}
			return nil
		}}
	res := RunPath(r)
	c.paths += res.N
	okL, found := true, false
	res.Visit(func(ins ssa.Instruction, s ws) {
		if isDecode(ins) {
			found = true
			if s.In && s.N != 1 {
				okL = false
				c.Bad("one-response:wsp.process", p.InstrPos(ins), fmt.Sprintf("the WSP control loop reads the next request after writing %d control messages for the previous one", s.N))
			}
		}
	})
	for ret, sts := range res.Exits() {
		for _, s := range sts {
			if s.N > 1 {
				okL = false
				c.Bad("one-response:wsp.process", p.InstrPos(ret), "a WSP request is answered more than once")
			}
		}
	}
	if !found {
		c.Lost("wsp.process.DecodeRequest", "request decode call not found")
	} else if okL {
		c.OK("one-response:wsp.process", p.Pos(wproc.Pos()), "one control write per request")
	}
}

// ------------------------------------------------------------ R-RESPONSE-CTOR

func ruleResponseCtor(c *Ctx) {
	p := c.P
	for _, pk := range []string{"service/rtsp", "service/wsp"} {
		nr := p.Func(pk, "(*Session).newResponse")
		if nr == nil {
			c.Lost(pk+".Session.newResponse", "not found")
			continue
		}
		c.touched(fname(nr))
		n := 0
		for _, fn := range p.FuncsInPkg(pk) {
			recvSession := fn.Signature.Recv() != nil && typeIs(fn.Signature.Recv().Type(), modRel(pk), "Session")
			if !recvSession {
				continue
			}
			instrs(fn, func(ins ssa.Instruction) {
				if al, ok := ins.(*ssa.Alloc); ok && isPtrToNamed(al.Type(), modRel("av/format/rtsp"), "Response") {
					n++
					c.Decide(fn == nr, "response-ctor@"+fname(fn), p.InstrPos(ins), "built in newResponse", "a Response is built outside newResponse (no CSeq echo / session id)")
				}
			})
		}
		if n == 0 {
			c.Bad("response-ctor:"+pk, p.Pos(nr.Pos()), "newResponse builds no Response")
		}
		// CSeq and Session headers
		var setCSeq, setSess bool
		instrs(nr, func(ins ssa.Instruction) {
			cc := callCommon(ins)
			if cc == nil || !strings.HasSuffix(calleeName(cc), "rtsp.Header).Set") {
				return
			}
			k, ok := cc.Args[1].(*ssa.Const)
			if !ok || k.Value == nil {
				return
			}
			switch constant.StringVal(k.Value) {
			case "CSeq":
				if call, ok := cc.Args[2].(*ssa.Call); ok && strings.HasSuffix(calleeName(&call.Call), "rtsp.Header).Get") {
					if k2, ok := call.Call.Args[1].(*ssa.Const); ok && k2.Value != nil && constant.StringVal(k2.Value) == "CSeq" {
						// the header must be the request's
						if f, base, ok := fieldLoad(call.Call.Args[0]); ok && theProgram.baseFieldName(f) == "Header" && origin(base) == ssa.Value(nr.Params[2]) {
							setCSeq = true
						}
					}
				}
			case "Session":
				if f, _, ok := fieldLoad(cc.Args[2]); ok && theProgram.baseFieldName(f) == "lsession" {
					setSess = true
				}
			}
		})
		c.Decide(setCSeq, "response:cseq-echo:"+pk, p.Pos(nr.Pos()), "CSeq copied from the request", "newResponse does not echo the request's CSeq")
		c.Decide(setSess, "response:session-id:"+pk, p.Pos(nr.Pos()), "Session header carries the session id", "newResponse does not set the Session header from the session id")
		// the Request field links the response to its request
		sts := storesToField(nr, modRel("av/format/rtsp"), "Response", "Request")
		okReq := false
		for _, s := range sts {
			if origin(s.Val) == ssa.Value(nr.Params[2]) {
				okReq = true
			}
		}
		c.Decide(okReq, "response:request-link:"+pk, p.Pos(nr.Pos()), "Response.Request is the request", "Response.Request is not the request being answered")
	}
}

// ------------------------------------------------------------ R-STATE-WRITERS

func ruleStateWriters(c *Ctx) {
	p := c.P
	st := p.FieldVar("service/rtsp", "Session", "status")
	if st == nil {
		c.Lost("rtsp.Session.status", "not found")
		return
	}
	names := map[int64]string{0: "statusInit", 1: "statusReady", 2: "statusPlaying", 3: "statusRecording"}
	for k, n := range names {
		if v, ok := pkgConst(p, "service/rtsp", n); !ok || v != k {
			c.Lost("rtsp."+n, "status constant changed")
			return
		}
	}
	n := 0
	for _, fn := range p.FuncsInPkg("service/rtsp") {
		instrs(fn, func(ins ssa.Instruction) {
			sto, ok := ins.(*ssa.Store)
			if !ok {
				return
			}
			f, _, ok := fieldAddr(sto.Addr)
			if !ok || f != st {
				return
			}
			n++
			c.touched(fname(fn))
			k, isc := evalInt(sto.Val)
			if !isc {
				c.Undecided("status-store@"+fname(fn), p.InstrPos(ins), "non-constant status")
				return
			}
			root := fn
			for root.Parent() != nil {
				root = root.Parent()
			}
			key := fmt.Sprintf("status=%s@%s", names[k], fname(fn))
			switch k {
			case 0:
				c.Decide(root.Name() == "newSession" || root.Name() == "process", key, p.InstrPos(ins), "Init at construction/teardown", "status reset to Init outside construction/teardown")
			case 1:
				c.Decide(root.Name() == "onSetup", key, p.InstrPos(ins), "Ready only in onSetup", "status set to Ready outside onSetup")
			case 2:
				good := root.Name() == "onPlay"
				if good {
					// dominated by err == nil after a role helper
					good = false
					domConds(ins, func(cond ssa.Value, taken bool) {
						if b, ok := cond.(*ssa.BinOp); ok && (isNilConst(b.X) || isNilConst(b.Y)) {
							// err == nil taken, or err != nil not taken
							if b.Op == token.EQL && taken || b.Op == token.NEQ && !taken {
								if types.Identical(b.X.Type(), types.Universe.Lookup("error").Type()) || types.Identical(b.Y.Type(), types.Universe.Lookup("error").Type()) {
									good = true
								}
							}
						}
					})
				}
				c.Decide(good, key, p.InstrPos(ins), "Playing only after the role helper returned nil", "status becomes Playing without the consumer role having been established successfully (media state without media, or PLAY accepted after a failed response)")
			case 3:
				good := root.Name() == "onRecord"
				if good {
					good = false
					instrs(fn, func(i2 ssa.Instruction) {
						if cc := callCommon(i2); cc != nil && cc.StaticCallee() != nil && baseFuncName(cc.StaticCallee()) == "asTCPPusher" && dominatesInstr(i2, ins) {
							good = true
						}
					})
				}
				c.Decide(good, key, p.InstrPos(ins), "Recording only after asTCPPusher", "status becomes Recording without the publisher role having been established")
			}
		})
	}
	c.Floor("stores to Session.status", n, 5)
	// a refused SETUP must leave the state unchanged: no path of onSetup both advances the status and ends with an error status code
	setup := p.Func("service/rtsp", "(*Session).onSetup")
	if setup == nil {
		c.Lost("rtsp.Session.onSetup", "not found")
		return
	}
	type ss struct{ Ready, Err bool }
	r := &PathRule[ss]{Fn: setup, Init: []ss{{}},
		Transfer: func(s ss, ins ssa.Instruction) []ss {
			sto, ok := ins.(*ssa.Store)
			if !ok {
				return nil
			}
			f, _, ok := fieldAddr(sto.Addr)
			if !ok {
				return nil
			}
			if f == st {
				s.Ready = true
				return []ss{s}
			}
			if theProgram.baseFieldName(f) == "StatusCode" {
				if k, ok := evalInt(sto.Val); ok && k >= 400 {
					s.Err = true
					return []ss{s}
				}
			}
			return nil
		}}
	res := RunPath(r)
	c.paths += res.N
	okS := true
	for ret, sts := range res.Exits() {
		for _, s := range sts {
			if s.Ready && s.Err {
				okS = false
				c.Bad("status-advance-only-on-success:onSetup", p.InstrPos(ret), "a path of onSetup both moves the session to Ready and answers with an error status: a refused SETUP changes the state, so a following PLAY/RECORD is accepted although no SETUP succeeded")
			}
		}
	}
	if okS {
		c.OK("status-advance-only-on-success:onSetup", p.Pos(setup.Pos()), "the state advances only on paths that end without an error status")
	}
}

// ------------------------------------------------------------ R-HANDLERS-GATED

func ruleHandlersGated(c *Ctx) {
	p := c.P
	for _, pk := range []string{"service/rtsp", "service/wsp"} {
		onReq := p.Func(pk, "(*Session).onRequest")
		pre := p.Func(pk, "(*Session).onPreprocess")
		if onReq == nil || pre == nil {
			c.Lost(pk+".onRequest/onPreprocess", "not found")
			continue
		}
		c.touched(fname(onReq))
		handlers := []string{"onDescribe", "onAnnounce", "onSetup", "onRecord", "onPlay", "onPause"}
		// track: the bool result of onPreprocess taken true
		type st struct{ Pre int8 }
		var preCall *ssa.Call
		instrs(onReq, func(ins ssa.Instruction) {
			if call, ok := ins.(*ssa.Call); ok && call.Call.StaticCallee() == pre {
				preCall = call
			}
		})
		if preCall == nil {
			c.Bad("gated:"+pk, p.Pos(onReq.Pos()), "onRequest does not call onPreprocess")
			continue
		}
		r := &PathRule[st]{Fn: onReq, Init: []st{{}},
			Branch: func(s st, cond ssa.Value, taken bool) (st, bool) {
				cv, neg := condNeg(cond)
				var of ssa.Value = cv
				if ex, ok := cv.(*ssa.Extract); ok && ex.Index == 0 {
					of = ex.Tuple
				}
				if of == ssa.Value(preCall) {
					if taken != neg {
						s.Pre = 1
					} else {
						s.Pre = 2
					}
				}
				return s, true
			}}
		res := RunPath(r)
		c.paths += res.N
		res.Visit(func(ins ssa.Instruction, s st) {
			cc := callCommon(ins)
			if cc == nil || cc.StaticCallee() == nil {
				return
			}
			for _, h := range handlers {
				if baseFuncName(cc.StaticCallee()) == h && cc.StaticCallee().Signature.Recv() != nil {
					c.Decide(s.Pre == 1, "gated:"+pk+"."+h, p.InstrPos(ins), "reached only after the state gate accepted", h+" is reachable without onPreprocess having returned true: the method-order gate (and the authentication it performs) is bypassed")
				}
			}
		})
		for _, h := range handlers {
			hf := p.Func(pk, "(*Session)."+h)
			if hf == nil {
				continue
			}
			for _, site := range p.CallersOf(hf) {
				if site.Parent() != onReq {
					c.Bad("gated-caller:"+pk+"."+h+"<-"+fname(site.Parent()), p.InstrPos(site), h+" is called outside onRequest")
				}
			}
		}
	}
}

// ------------------------------------------------------------ R-GATE-TABLE

type gateState struct {
	CP     int8 // value of the continueProcess variable: 0 unknown 1 true 2 false
	Stored bool // a session field was stored on this path
	Code   int64
	Resp   int8
}

func ruleGateTable(c *Ctx) {
	p := c.P
	pre := p.Func("service/rtsp", "(*Session).onPreprocess")
	resp := p.Func("service/rtsp", "(*Session).response")
	checkAuth := p.Func("service/rtsp", "(*Session).checkAuth")
	stF := p.FieldVar("service/rtsp", "Session", "status")
	if pre == nil || resp == nil || stF == nil {
		c.Lost("rtsp.Session.onPreprocess", "not found")
		return
	}
	c.touched(fname(pre))
	methods := []string{"OPTIONS", "DESCRIBE", "ANNOUNCE", "SETUP", "PLAY", "PAUSE", "TEARDOWN", "GET_PARAMETER", "SET_PARAMETER", "RECORD", "REDIRECT", "BOGUS"}
	// reference automaton of the property: result "continue" (handler may run) or "refuse455" or "answer" (OPTIONS/TEARDOWN answered directly)
	ref := func(status int64, m string) string {
		switch m {
		case "OPTIONS", "TEARDOWN":
			return "answer"
		}
		switch status {
		case 1:
			if m == "SETUP" || m == "PLAY" || m == "RECORD" {
				return "continue"
			}
		case 2:
			if m == "PLAY" {
				return "continue"
			}
		case 3:
			if m == "RECORD" {
				return "continue"
			}
		default:
			if m != "PLAY" && m != "RECORD" {
				return "continue"
			}
		}
		return "refuse455"
	}
	recv := pre.Params[0]
	cells, mismatches := 0, 0
	for status := int64(0); status < 4; status++ {
		for _, m := range methods {
			evalCmp := func(v ssa.Value) (bool, bool) { // (value, known)
				b, ok := v.(*ssa.BinOp)
				if !ok || (b.Op != token.EQL && b.Op != token.NEQ) {
					return false, false
				}
				if f, base, ok := fieldLoad(b.X); ok {
					if f == stF && origin(base) == ssa.Value(recv) {
						if k, ok := evalInt(b.Y); ok {
							return (k == status) == (b.Op == token.EQL), true
						}
					}
					if theProgram.baseFieldName(f) == "Method" {
						if k, ok := b.Y.(*ssa.Const); ok && k.Value != nil && k.Value.Kind() == constant.String {
							return (constant.StringVal(k.Value) == m) == (b.Op == token.EQL), true
						}
					}
				}
				return false, false
			}
			r := &PathRule[gateState]{Fn: pre, Init: []gateState{{}}, OwnPhi: true,
				Transfer: func(s gateState, ins ssa.Instruction) []gateState {
					if sto, ok := ins.(*ssa.Store); ok {
						if f, base, ok := fieldAddr(sto.Addr); ok {
							if origin(base) == ssa.Value(recv) && theProgram.baseFieldName(f) != "user" && theProgram.baseFieldName(f) != "nonce" {
								s.Stored = true
								return []gateState{s}
							}
							if theProgram.baseFieldName(f) == "StatusCode" {
								s.Code, _ = evalInt(sto.Val)
								return []gateState{s}
							}
						}
					}
					if callsFunc(ins, resp) {
						if s.Resp < 2 {
							s.Resp++
						}
						return []gateState{s}
					}
					if cc := callCommon(ins); cc != nil && cc.StaticCallee() != nil && baseFuncName(cc.StaticCallee()) == "Close" && len(cc.Args) > 0 && origin(cc.Args[0]) == ssa.Value(recv) {
						// TEARDOWN closes the session: allowed only for TEARDOWN
						if m != "TEARDOWN" {
							s.Stored = true
						}
						return []gateState{s}
					}
					return nil
				},
				Branch: func(s gateState, cond ssa.Value, taken bool) (gateState, bool) {
					cv, neg := condNeg(cond)
					if v, known := evalCmp(cv); known {
						return s, (v != neg) == taken
					}
					if _, isPhi := cv.(*ssa.Phi); isPhi && s.CP != 0 {
						return s, ((s.CP == 1) != neg) == taken
					}
					// checkAuth outcome: explore both
					return s, true
				},
				Phi: func(s gateState, ph *ssa.Phi, val ssa.Value) gateState {
					if b, ok := ph.Type().Underlying().(interface{ Kind() int }); ok {
						_ = b
					}
					if !isBoolType(ph.Type()) {
						return s
					}
					if b, isc := constBool(val); isc {
						s.CP = 2
						if b {
							s.CP = 1
						}
						return s
					}
					cv, neg := condNeg(val)
					if v, known := evalCmp(cv); known {
						s.CP = 2
						if v != neg {
							s.CP = 1
						}
						return s
					}
					if _, isPhi := cv.(*ssa.Phi); isPhi {
						// value of the inner phi is already in CP (possibly negated)
						if neg && s.CP != 0 {
							s.CP = 3 - s.CP
						}
						return s
					}
					s.CP = 0
					return s
				}}
			res := RunPath(r)
			c.paths += res.N
			// classify the outcomes of this cell
			got := map[string]bool{}
			changed := false
			for ret, sts := range res.Exits() {
				rr := ret.(*ssa.Return)
				b, isc := constBool(retValue(rr, 0))
				for _, s := range sts {
					switch {
					case isc && b:
						got["continue"] = true
					case isc && !b && s.Code == 455 && s.Resp == 1:
						got["refuse455"] = true
						if s.Stored {
							changed = true
						}
					case isc && !b && s.Resp == 1 && s.Code == 401:
						got["continue"] = true // gate accepted, authentication refused afterwards
					case isc && !b && s.Resp == 1:
						got["answer"] = true
					default:
						got[fmt.Sprintf("other(ret=%v,resp=%d,code=%d)", b, s.Resp, s.Code)] = true
					}
				}
			}
			_ = checkAuth
			cells++
			want := ref(status, m)
			var gl []string
			for g := range got {
				gl = append(gl, g)
			}
			sort.Strings(gl)
			if !(len(gl) == 1 && gl[0] == want) {
				mismatches++
				c.Bad(fmt.Sprintf("gate[status=%d,%s]", status, m), p.Pos(pre.Pos()), fmt.Sprintf("abstract evaluation of onPreprocess gives %v, the legal-order automaton requires %q", gl, want))
			}
			if changed {
				mismatches++
				c.Bad(fmt.Sprintf("gate-pure[status=%d,%s]", status, m), p.Pos(pre.Pos()), "a refused (455) request modifies session state")
			}
		}
	}
	if mismatches == 0 {
		c.OK("gate-table", p.Pos(pre.Pos()), fmt.Sprintf("all %d status x method cells equal the reference automaton; refusals are 455 and pure", cells))
	}
}

func isBoolType(t interface{ String() string }) bool { return t.String() == "bool" }

// ------------------------------------------------------------ R-TEARDOWN-RELEASES

func ruleTeardownReleases(c *Ctx) {
	p := c.P
	proc := p.Func("service/rtsp", "(*Session).process")
	if proc == nil {
		c.Lost("rtsp.Session.process", "not found")
		return
	}
	var df *ssa.Function
	instrs(proc, func(ins ssa.Instruction) {
		if d, ok := ins.(*ssa.Defer); ok && df == nil {
			df = deferredFunc(d)
		}
	})
	if df == nil {
		c.Bad("teardown:defer", p.Pos(proc.Pos()), "process registers no deferred cleanup")
		return
	}
	c.touched(fname(df))
	for _, fld := range []string{"consumer", "stream"} {
		ex, n := countPaths(df, func(i ssa.Instruction) bool {
			cc := callCommon(i)
			if cc == nil || !cc.IsInvoke() || cc.Method.Name() != "Close" {
				return false
			}
			f, _, ok := fieldLoad(cc.Value)
			return ok && f.Name() == fld
		}, nil)
		c.paths += n
		ok := len(ex) > 0
		for _, sts := range ex {
			for _, s := range sts {
				if s.N < 1 {
					ok = false
				}
			}
		}
		c.Decide(ok, "teardown:"+fld, p.Pos(df.Pos()), "session exit closes its "+fld, "a path of the session's cleanup does not close its "+fld+": what the session held (consumer registration / published stream) is not released on disconnect")
	}
	// the connection itself
	closes := false
	instrs(df, func(ins ssa.Instruction) {
		if cc := callCommon(ins); cc != nil && cc.StaticCallee() != nil && baseFuncName(cc.StaticCallee()) == "Close" && cc.StaticCallee().Signature.Recv() != nil && typeIs(cc.StaticCallee().Signature.Recv().Type(), modRel("service/rtsp"), "Session") {
			closes = true
		}
	})
	c.Decide(closes, "teardown:conn", p.Pos(df.Pos()), "session closed", "the cleanup does not close the session connection")
}
