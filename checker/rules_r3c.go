package main

// Round-3 extensions, part 2: C13 (message granularity on WebSocket transports, frame prefix
// storage) and C14 (slice bounds of the request/response line splitters).

import (
	"fmt"
	"go/token"
	"go/types"
	"strings"

	"golang.org/x/tools/go/ssa"
)

func init() {
	share := func(prop string, r *RuleDoc) {
		if p := properties[prop]; p != nil {
			p.Rules = append(p.Rules, r)
		}
	}
	share("C13", &RuleDoc{Name: "R-WS-TRANSPORT-ONE-MESSAGE", Text: "Each Write of the WebSocket transports starts at most one WebSocket message per call and hands it the caller's whole buffer (no chunking into several messages).", Run: ruleWSTransportOneMessage})
	share("C13", &RuleDoc{Name: "R-WS-EVERY-SITE-ASSEMBLED", Text: "Every write to a media-carrying websocket.Conn (a session's wsconn / dataChannel, or a value stored there) in the RTSP and WSP services - not only the three known sites - sends the Bytes() of a buffer that was reset and filled by exactly one message serialisation in that function.", Run: ruleWSEverySiteAssembled})
	share("C13", &RuleDoc{Name: "R-FRAME-PREFIX-LOCAL", Text: "Packet.Write builds the interleaved prefix in storage owned by the call (a local) and writes only that and the packet's own data: nothing it writes lives in a package-level variable shared by the sessions, whose locks are per session.", Run: ruleFramePrefixLocal})
	share("C14", &RuleDoc{Name: "R-LINE-SPLIT-BOUNDS", Text: "In the RTSP message readers every slice expression with a computed bound has a non-negative low bound and high >= low, established by dominating guards together with the intrinsic range of strings.Index (>= -1) - decided for lower bounds only; that a bound does not exceed the length is not decided.", Run: ruleLineSplitBounds})
	addMutants(
		&Mutant{Prop: "C13", Name: "c13-ws-message-chunked", File: "network/websocket/websocket.go",
			Old: "\tif w, err = c.socket.NextWriter(websocket.BinaryMessage); err == nil {\n\t\tif n, err = w.Write(b); err == nil {\n\t\t\terr = w.Close()\n\t\t}\n\t}\n\treturn", New: "\tfor len(b) > 0 && err == nil {\n\t\tm := len(b)\n\t\tif m > 16384 {\n\t\t\tm = 16384\n\t\t}\n\t\tif w, err = c.socket.NextWriter(websocket.BinaryMessage); err == nil {\n\t\t\tif m, err = w.Write(b[:m]); err == nil {\n\t\t\t\terr = w.Close()\n\t\t\t}\n\t\t\tn, b = n+m, b[m:]\n\t\t}\n\t}\n\treturn", Expect: "R-WS-TRANSPORT-ONE-MESSAGE"},
		&Mutant{Prop: "C13", Name: "c13-backlog-flushed-as-one-message", File: "service/wsp/session.go",
			Old: "\ts.dataChannel = dc\n", New: "\ts.dataChannel = dc\n\tif s.pending.Len() > 0 {\n\t\tdc.Write(s.pending.Bytes())\n\t\ts.pending.Reset()\n\t}\n", Expect: "R-WS-EVERY-SITE-ASSEMBLED",
			More: []Edit{{File: "service/wsp/session.go", Old: "\tdataChannel websocket.Conn\n", New: "\tdataChannel websocket.Conn\n\tpending     bytes.Buffer\n"}}},
		&Mutant{Prop: "C13", Name: "c13-prefix-in-package-variable", File: "av/format/rtp/packet.go",
			Old: "\tvar prefix [4]byte\n\tprefix[0] = TransferPrefix", New: "\tprefix := prefixScratch[:]\n\tprefix[0] = TransferPrefix", Expect: "R-FRAME-PREFIX-LOCAL",
			More: []Edit{{File: "av/format/rtp/packet.go", Old: "\tif _, err := w.Write(prefix[:]); err != nil {", New: "\tif _, err := w.Write(prefix); err != nil {"},
				{File: "av/format/rtp/packet.go", Old: "// Write 根据规范将 RTP 包输出到 w", New: "var prefixScratch [4]byte\n\n// Write 根据规范将 RTP 包输出到 w"}}},
		&Mutant{Prop: "C14", Name: "c14-request-line-last-space", File: "av/format/rtsp/request.go",
			Old: "\ts2 := strings.Index(line[s1+1:], \" \")\n\tif s1 < 0 || s2 < 0 {\n\t\treturn nil, &badStringError{\"malformed RTSP request\", line}\n\t}\n\ts2 += s1 + 1\n", New: "\ts2 := strings.LastIndex(line, \" \")\n\tif s1 < 0 || s2 < 0 {\n\t\treturn nil, &badStringError{\"malformed RTSP request\", line}\n\t}\n", Expect: "R-LINE-SPLIT-BOUNDS"},
		&Mutant{Prop: "C14", Name: "c14-status-line-unguarded", File: "av/format/rtsp/response.go",
			Old: "\tif i = strings.IndexByte(line, ' '); i < 0 {", New: "\tif i = strings.IndexByte(line, ' '); i < -1 {", Expect: "R-LINE-SPLIT-BOUNDS"},
	)
}

func ruleWSTransportOneMessage(c *Ctx) {
	p := c.P
	n := 0
	for _, fn := range p.FuncsInPkg("network/websocket") {
		if fn.Name() != "Write" || fn.Signature.Recv() == nil || len(fn.Params) < 2 {
			continue
		}
		isStart := func(ins ssa.Instruction) bool {
			cc := callCommon(ins)
			if cc == nil {
				return false
			}
			nm := ""
			if cc.IsInvoke() {
				nm = cc.Method.Name()
			} else if cc.StaticCallee() != nil && cc.StaticCallee().Signature.Recv() != nil {
				nm = baseFuncName(cc.StaticCallee())
			}
			return nm == "NextWriter" || nm == "WriteMessage" || nm == "WritePreparedMessage" || nm == "WriteJSON"
		}
		starts := 0
		for _, g := range unitFuncs(fn) {
			instrs(g, func(ins ssa.Instruction) {
				if isStart(ins) {
					starts++
				}
			})
		}
		if starts == 0 {
			continue
		}
		n++
		c.touched(fname(fn))
		key := "ws-one-message:" + fname(fn)
		// per path at most one message start; a start inside a CFG cycle counts as many
		inLoop := false
		instrs(fn, func(ins ssa.Instruction) {
			if isStart(ins) && blockInCycle(ins.Block()) {
				inLoop = true
			}
		})
		ex, np := countPaths(fn, isStart, nil)
		c.paths += np
		many := inLoop
		for _, sts := range ex {
			for _, st := range sts {
				if st.N > 1 {
					many = true
				}
			}
		}
		c.Decide(!many, key, p.Pos(fn.Pos()), "at most one WebSocket message per Write", "one Write of the transport starts several WebSocket messages: a frame or response handed over whole by the session (under its lock) reaches the client split over messages - the first holds the '$' prefix with only part of the payload, the rest are bare fragments")
		// the data handed to the message writer is the caller's buffer itself
		b := fn.Params[1]
		instrs(fn, func(ins ssa.Instruction) {
			cc := callCommon(ins)
			if cc == nil {
				return
			}
			var data ssa.Value
			if cc.IsInvoke() && cc.Method.Name() == "Write" && len(cc.Args) == 1 {
				data = cc.Args[0]
			} else if cc.IsInvoke() && cc.Method.Name() == "WriteMessage" && len(cc.Args) == 2 {
				data = cc.Args[1]
			} else {
				return
			}
			c.Decide(origin(data) == ssa.Value(b), key+":whole", p.InstrPos(ins), "the caller's whole buffer is the message", "the message body is not the caller's buffer as passed in (a sub-slice or another buffer): the WebSocket message is not the complete response/frame")
		})
	}
	c.Floor("websocket transport writers", n, 2)
}

func blockInCycle(b *ssa.BasicBlock) bool {
	seen := map[*ssa.BasicBlock]bool{}
	var stack []*ssa.BasicBlock
	stack = append(stack, b.Succs...)
	for len(stack) > 0 {
		x := stack[len(stack)-1]
		stack = stack[:len(stack)-1]
		if x == b {
			return true
		}
		if seen[x] {
			continue
		}
		seen[x] = true
		stack = append(stack, x.Succs...)
	}
	return false
}

func isWSConnType(t types.Type) bool {
	n, ok := types.Unalias(t).(*types.Named)
	return ok && n.Obj().Pkg() != nil && strings.HasSuffix(n.Obj().Pkg().Path(), "network/websocket") && n.Obj().Name() == "Conn"
}

func ruleWSEverySiteAssembled(c *Ctx) {
	p := c.P
	n := 0
	for _, rel := range []string{"service/rtsp", "service/wsp"} {
		for _, fn := range p.FuncsInPkg(rel) {
			ord := 0
			instrs(fn, func(ins ssa.Instruction) {
				cc := callCommon(ins)
				if cc == nil || !cc.IsInvoke() || cc.Method.Name() != "Write" || !isWSConnType(cc.Value.Type()) {
					return
				}
				if ins.Parent() != fn {
					return // IIFE bodies are visited with their own function
				}
				// media-carrying connections only: the receiver is (or becomes) the session's dataChannel / wsconn;
				// the WSP control channel carries WSP-framed messages (header block + wrapped response) by design
				data := false
				if f, _, ok := fieldLoad(cc.Value); ok && (p.baseFieldName(f) == "dataChannel" || p.baseFieldName(f) == "wsconn") {
					data = true
				}
				instrs(fn, func(i2 ssa.Instruction) {
					if st, ok := i2.(*ssa.Store); ok && st.Val == cc.Value {
						if f, _, ok := fieldAddr(st.Addr); ok && (p.baseFieldName(f) == "dataChannel" || p.baseFieldName(f) == "wsconn") {
							data = true
						}
					}
				})
				if !data {
					return
				}
				n++
				ord++
				c.touched(fname(fn))
				key := fmt.Sprintf("ws-site:%s#%d", fname(fn), ord)
				bc, isCall := cc.Args[0].(*ssa.Call)
				if !isCall || calleeName(&bc.Call) != "(*bytes.Buffer).Bytes" {
					c.Bad(key, p.InstrPos(ins), "a WebSocket write whose message is not the Bytes() of an assembled buffer")
					return
				}
				buf := bc.Call.Args[0]
				reset := false
				fills := 0
				instrs(fn, func(i2 ssa.Instruction) {
					c2 := callCommon(i2)
					if c2 == nil {
						return
					}
					n2 := calleeName(c2)
					if n2 == "(*bytes.Buffer).Reset" && c2.Args[0] == buf && dominatesInstr(i2, ins) {
						reset = true
					}
					for i, a := range c2.Args {
						if stripConv(a) == buf && isWriterParam(c2, i) && dominatesInstr(i2, ins) {
							fills++
						}
					}
					if strings.HasPrefix(n2, "(*bytes.Buffer).Write") && c2.Args[0] == buf {
						fills += 2
					}
				})
				c.Decide(reset && fills == 1, key, p.InstrPos(ins), "buffer reset, filled with one complete message, sent whole", fmt.Sprintf("this WebSocket write sends a buffer that is not (reset, then filled by exactly one message serialisation in this function): reset=%v fills=%d - a backlog or a reused buffer puts several frames, or none, into one WebSocket message", reset, fills))
			})
		}
	}
	c.Floor("websocket write sites", n, 3)
}

func ruleFramePrefixLocal(c *Ctx) {
	p := c.P
	fn := p.Func("av/format/rtp", "(*Packet).Write")
	if fn == nil {
		c.Lost("rtp.Packet.Write", "not found")
		return
	}
	c.touched(fname(fn))
	n := 0
	for _, g := range unitFuncs(fn) {
		instrs(g, func(ins ssa.Instruction) {
			// no package-level storage is written on the frame path
			if st, ok := ins.(*ssa.Store); ok {
				if gl, isG := rootAddr(st.Addr).(*ssa.Global); isG {
					c.Bad("frame-prefix-local:store@"+gl.Name(), p.InstrPos(ins), "Packet.Write stores into the package-level variable "+gl.Name()+": the media goroutines of different sessions hold different locks, so one session's prefix (channel, length) can be overwritten before it is copied to the connection and the frame goes out with another frame's length")
				}
				return
			}
			cc := callCommon(ins)
			if cc == nil || !cc.IsInvoke() || cc.Method.Name() != "Write" || len(cc.Args) != 1 {
				return
			}
			n++
			root := rootAddr(cc.Args[0])
			_, isG := root.(*ssa.Global)
			c.Decide(!isG, fmt.Sprintf("frame-prefix-local:write#%d", n), p.InstrPos(ins), "written bytes are owned by the call / the packet", "Packet.Write writes bytes that live in a package-level variable shared by every session")
		})
	}
	c.Floor("frame writes", n, 2)
}

// rootAddr follows slices, index/field addresses, conversions and loads down to the storage root.
func rootAddr(v ssa.Value) ssa.Value {
	for i := 0; i < 12; i++ {
		v = stripConv(v)
		switch x := v.(type) {
		case *ssa.Slice:
			v = x.X
		case *ssa.IndexAddr:
			v = x.X
		case *ssa.FieldAddr:
			v = x.X
		case *ssa.UnOp:
			if x.Op != token.MUL {
				return v
			}
			v = x.X
		case *ssa.Phi:
			if len(x.Edges) == 0 {
				return v
			}
			v = x.Edges[0]
		default:
			return v
		}
	}
	return v
}

// linear form: sum of atoms (coefficient) + constant
type linForm struct {
	atoms map[ssa.Value]int64
	k     int64
}

func linOf(v ssa.Value, sign int64, out *linForm, depth int) {
	v = stripConv(v)
	if k, ok := constInt(v); ok {
		out.k += sign * k
		return
	}
	if bo, ok := v.(*ssa.BinOp); ok && depth < 8 {
		switch bo.Op {
		case token.ADD:
			linOf(bo.X, sign, out, depth+1)
			linOf(bo.Y, sign, out, depth+1)
			return
		case token.SUB:
			linOf(bo.X, sign, out, depth+1)
			linOf(bo.Y, -sign, out, depth+1)
			return
		}
	}
	out.atoms[v] += sign
	if out.atoms[v] == 0 {
		delete(out.atoms, v)
	}
}

// nonNegative decides form >= 0 at ins using dominating guards / intrinsic ranges of a single +1 atom.
func nonNegative(ins ssa.Instruction, f *linForm) (bool, bool) {
	if len(f.atoms) == 0 {
		return f.k >= 0, true
	}
	total := f.k
	for a, coef := range f.atoms {
		if coef < 0 {
			return false, false
		}
		lo, ok := lowerBound(ins, a)
		if !ok {
			return false, false
		}
		total += coef * lo
	}
	return total >= 0, true
}

func ruleLineSplitBounds(c *Ctx) {
	p := c.P
	n := 0
	for _, fn := range p.FuncsInPkg("av/format/rtsp") {
		ord := 0
		instrs(fn, func(ins ssa.Instruction) {
			sl, ok := ins.(*ssa.Slice)
			if !ok || ins.Parent() != fn {
				return
			}
			_, lowConst := constIntOrNil(sl.Low)
			_, highConst := constIntOrNil(sl.High)
			if lowConst && highConst {
				return
			}
			ord++
			n++
			c.touched(fname(fn))
			key := fmt.Sprintf("slice-bounds:%s#%d", fname(fn), ord)
			var checks []*linForm
			var what []string
			if sl.Low != nil && !lowConst {
				f := &linForm{atoms: map[ssa.Value]int64{}}
				linOf(sl.Low, 1, f, 0)
				checks, what = append(checks, f), append(what, "low bound >= 0")
			}
			if sl.High != nil && !highConst && sl.Low == nil {
				f := &linForm{atoms: map[ssa.Value]int64{}}
				linOf(sl.High, 1, f, 0)
				checks, what = append(checks, f), append(what, "high bound >= 0")
			}
			if sl.High != nil && sl.Low != nil {
				f := &linForm{atoms: map[ssa.Value]int64{}}
				linOf(sl.High, 1, f, 0)
				linOf(sl.Low, -1, f, 0)
				checks, what = append(checks, f), append(what, "high >= low")
			}
			for i, f := range checks {
				holds, decided := nonNegative(ins, f)
				switch {
				case !decided:
					// a bound that is neither guarded nor of a known range: only len()-relative forms are accepted
					if lenRelative(f) {
						continue
					}
					c.Bad(key, p.InstrPos(ins), "slice expression in a message reader: "+what[i]+" is not established by any dominating guard - bytes that make the index function return -1 (a request line with one blank, a header line without ':') panic instead of producing an error")
					return
				case !holds:
					c.Bad(key, p.InstrPos(ins), "slice expression in a message reader: "+what[i]+" can be false under the guards that dominate it - such input panics (slice bounds out of range) instead of producing an error")
					return
				}
			}
			c.OK(key, p.InstrPos(ins), "lower bounds established")
		})
	}
	c.Floor("computed slice bounds in the message readers", n, 6)
}

func constIntOrNil(v ssa.Value) (int64, bool) {
	if v == nil {
		return 0, true
	}
	return constInt(v)
}

// lenRelative: the form mentions a len()/cap() value or a value compared only as a count (loop counters bounded elsewhere).
func lenRelative(f *linForm) bool {
	for a := range f.atoms {
		if call, ok := a.(*ssa.Call); ok {
			n := calleeName(&call.Call)
			if n == "builtin.len" || n == "builtin.cap" || n == "builtin.copy" || n == "builtin.min" {
				continue
			}
		}
		if ex, ok := a.(*ssa.Extract); ok { // n, err := r.Read(...)
			if call, ok := ex.Tuple.(*ssa.Call); ok && ex.Index == 0 {
				if sig := call.Call.Signature(); sig != nil && sig.Results().Len() == 2 {
					continue
				}
			}
		}
		if _, ok := a.(*ssa.Phi); ok {
			if _, ok := constInduction(a); ok {
				continue
			}
		}
		return false
	}
	return true
}
