package main

import (
	"encoding/json"
	"fmt"
	"os"
	"path/filepath"
	"strings"
)

// Mutant is a small source edit applied in memory (go/packages overlay) to
// test that a rule fires. /repo is never modified. If Old is not found in the
// current file (the repository was edited) the mutant is skipped.
type Mutant struct {
	Prop   string
	Name   string
	File   string // module-relative
	Old    string
	New    string
	Expect string // prefix of the obligation key expected to fail
	// Extra edits in other files (for two-site mutants).
	More []Edit
}

type Edit struct {
	File, Old, New string
}

var mutants []*Mutant

func addMutants(ms ...*Mutant) { mutants = append(mutants, ms...) }

func findMutant(name string) *Mutant {
	for _, m := range mutants {
		if m.Name == name {
			return m
		}
	}
	return nil
}

func (m *Mutant) overlay(root string) (map[string][]byte, error) {
	ov := map[string][]byte{}
	edits := append([]Edit{{m.File, m.Old, m.New}}, m.More...)
	for _, e := range edits {
		path := filepath.Join(root, e.File)
		b, ok := ov[path]
		if !ok {
			var err error
			b, err = os.ReadFile(path)
			if err != nil {
				return nil, err
			}
		}
		s := string(b)
		if strings.Count(s, e.Old) != 1 {
			return nil, fmt.Errorf("pattern occurs %d times in %s (need exactly 1)", strings.Count(s, e.Old), e.File)
		}
		ov[path] = []byte(strings.Replace(s, e.Old, e.New, 1))
	}
	return ov, nil
}

func doReplay(file, root, verif string) int {
	b, err := os.ReadFile(file)
	if err != nil {
		fmt.Fprintln(os.Stderr, err)
		return 2
	}
	var d struct {
		Property string `json:"property"`
		Key      string `json:"key"`
	}
	if err := json.Unmarshal(b, &d); err != nil {
		fmt.Fprintln(os.Stderr, err)
		return 2
	}
	def := properties[d.Property]
	if def == nil {
		fmt.Fprintf(os.Stderr, "unknown property %q in replay file\n", d.Property)
		return 2
	}
	return runProperty(def, "quick", root, verif, d.Key, "", 0)
}
