package main

import (
	"sort"
	"strings"

	"golang.org/x/tools/go/ssa"
)

// E3: module-bounded call edges. Traversal descends only into functions of
// the module (and github.com/cnotch/queue); a call that leaves the module is
// a leaf, and when such a library function takes function-typed arguments the
// edge goes to the actual argument instead of into the library body.

type EdgeKind int

const (
	EdgeCall EdgeKind = iota
	EdgeDefer
	EdgeGo
	EdgeFuncArg // function passed to an external function (assumed called synchronously)
)

type Edge struct {
	Site   ssa.Instruction
	Kind   EdgeKind
	Callee *ssa.Function // module function (nil for leaf)
	Leaf   string        // external callee name (type-resolved), "" if Callee != nil
}

func (p *Program) descend(f *ssa.Function) bool {
	if f == nil {
		return false
	}
	if p.InModule(f) {
		return true
	}
	return funcPkgPath(f) == "github.com/cnotch/queue"
}

// OutEdges returns the call edges leaving fn (not its nested closures, unless
// they are called/passed).
func (p *Program) OutEdges(fn *ssa.Function) []Edge {
	if fn == nil {
		return nil
	}
	if p.edgeCache == nil {
		p.edgeCache = map[*ssa.Function][]Edge{}
	}
	if e, ok := p.edgeCache[fn]; ok {
		return e
	}
	out := p.outEdges(fn)
	p.edgeCache[fn] = out
	return out
}

// unwrap follows synthetic wrappers (promoted-method wrappers, thunks, bound
// methods) to the declared function they call.
func unwrap(f *ssa.Function) *ssa.Function {
	for i := 0; i < 4 && f != nil && f.Synthetic != "" && len(f.Blocks) > 0; i++ {
		var tgt *ssa.Function
		n := 0
		for _, b := range f.Blocks {
			for _, ins := range b.Instrs {
				if cc := callCommon(ins); cc != nil {
					if cal := cc.StaticCallee(); cal != nil {
						tgt = cal
						n++
					}
				}
			}
		}
		if n != 1 {
			return f
		}
		f = tgt
	}
	return f
}

func (p *Program) outEdges(fn *ssa.Function) []Edge {
	var out []Edge
	cgn := p.CG().Nodes[fn]
	dyn := map[ssa.Instruction][]*ssa.Function{}
	if cgn != nil {
		for _, e := range cgn.Out {
			if e.Site != nil {
				dyn[e.Site] = append(dyn[e.Site], e.Callee.Func)
			}
		}
	}
	for _, b := range fn.Blocks {
		for _, ins := range b.Instrs {
			cc := callCommon(ins)
			if cc == nil {
				continue
			}
			kind := EdgeCall
			switch ins.(type) {
			case *ssa.Defer:
				kind = EdgeDefer
			case *ssa.Go:
				kind = EdgeGo
			}
			if _, ok := cc.Value.(*ssa.Builtin); ok {
				out = append(out, Edge{Site: ins, Kind: kind, Leaf: "builtin." + cc.Value.Name()})
				continue
			}
			var callees []*ssa.Function
			if f := cc.StaticCallee(); f != nil {
				callees = []*ssa.Function{f}
			} else if f := funcValue(cc.Value); f != nil {
				callees = []*ssa.Function{f}
			} else {
				callees = dyn[ins]
			}
			if len(callees) == 0 {
				out = append(out, Edge{Site: ins, Kind: kind, Leaf: "unresolved:" + calleeName(cc)})
				continue
			}
			for _, f := range callees {
				f = unwrap(f)
				if p.descend(f) {
					out = append(out, Edge{Site: ins, Kind: kind, Callee: f})
				} else {
					out = append(out, Edge{Site: ins, Kind: kind, Leaf: funcFullName(f)})
					for _, fa := range funcArgs(cc) {
						fa = unwrap(fa)
						if p.descend(fa) {
							out = append(out, Edge{Site: ins, Kind: EdgeFuncArg, Callee: fa})
						}
					}
				}
			}
		}
	}
	return out
}

// Reach computes the module functions reachable from roots following edges
// accepted by follow (nil = all but go edges are followed). It returns the
// reached set with a predecessor map for path printing, and the leaves.
type ReachResult struct {
	Funcs  map[*ssa.Function]bool
	Pred   map[*ssa.Function]*ssa.Function
	Leaves map[string][]ssa.Instruction // leaf name -> call sites
	LeafIn map[ssa.Instruction]*ssa.Function
}

func (p *Program) Reach(roots []*ssa.Function, follow func(from *ssa.Function, e Edge) bool) *ReachResult {
	r := &ReachResult{Funcs: map[*ssa.Function]bool{}, Pred: map[*ssa.Function]*ssa.Function{}, Leaves: map[string][]ssa.Instruction{}, LeafIn: map[ssa.Instruction]*ssa.Function{}}
	var work []*ssa.Function
	for _, f := range roots {
		if f != nil && !r.Funcs[f] {
			r.Funcs[f] = true
			work = append(work, f)
		}
	}
	for len(work) > 0 {
		f := work[0]
		work = work[1:]
		for _, e := range p.OutEdges(f) {
			if follow != nil && !follow(f, e) {
				continue
			}
			if follow == nil && e.Kind == EdgeGo {
				continue
			}
			if e.Callee != nil {
				if !r.Funcs[e.Callee] {
					r.Funcs[e.Callee] = true
					r.Pred[e.Callee] = f
					work = append(work, e.Callee)
				}
			} else {
				r.Leaves[e.Leaf] = append(r.Leaves[e.Leaf], e.Site)
				r.LeafIn[e.Site] = f
			}
		}
	}
	return r
}

// Chain renders the call chain from a root to f.
func (r *ReachResult) Chain(f *ssa.Function) []string {
	var rev []string
	for f != nil {
		rev = append(rev, fname(f))
		f = r.Pred[f]
	}
	for i, j := 0, len(rev)-1; i < j; i, j = i+1, j-1 {
		rev[i], rev[j] = rev[j], rev[i]
	}
	return rev
}

func (r *ReachResult) SortedFuncs() []*ssa.Function {
	var out []*ssa.Function
	for f := range r.Funcs {
		out = append(out, f)
	}
	sort.Slice(out, func(i, j int) bool { return out[i].String() < out[j].String() })
	return out
}

// Callers returns, for every module function, the module call sites that may
// call it (static, dynamic via VTA, or as a function argument).
func (p *Program) CallersOf(target *ssa.Function) []ssa.Instruction {
	var out []ssa.Instruction
	for _, f := range p.modFuncs {
		if f.Synthetic != "" {
			continue // wrappers/thunks are transparent: their own callers are reported instead
		}
		for _, e := range p.OutEdges(f) {
			if e.Callee == target {
				out = append(out, e.Site)
			}
		}
	}
	return out
}

func isLoggingLeaf(name string) bool {
	return strings.Contains(name, "github.com/cnotch/xlog") || strings.HasPrefix(name, "fmt.") || strings.HasPrefix(name, "(*fmt.")
}
