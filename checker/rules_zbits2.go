package main

// More bit-provenance layout rules (E9): decoder configuration records (C08) and the PES header (C09).

import (
	"fmt"
	"go/token"
	"go/types"
	"strings"

	"golang.org/x/tools/go/ssa"
)

func init() {
	add := func(prop string, r *RuleDoc) {
		if p := properties[prop]; p != nil {
			p.Rules = append(p.Rules, r)
		}
	}
	add("C08", &RuleDoc{Name: "R-AVC-CONFIG-LAYOUT", Text: "AVCDecoderConfigurationRecord.Marshal lays out version, profile, compatibility, level, 0xFF (4-byte NAL lengths), 0xE1 (one SPS), the 16-bit SPS length at bytes 0..7 (ISO 14496-15 5.2.4.1), then one PPS with its 16-bit length; MarshalSize is 11 + len(SPS) + len(PPS); the constructor takes version 1 and profile/compatibility/level from SPS bytes 1..3.", Run: ruleAvcConfigLayout})
	add("C08", &RuleDoc{Name: "R-HEVC-CONFIG-LAYOUT", Text: "HEVCDecoderConfigurationRecord.Marshal lays out the 23 fixed bytes of ISO 14496-15 8.3.3.1 (version 1, 32 compatibility flag bits, 48 constraint flag bits high part first, level, reserved 0xF000 / 0xFC, chroma format and bit depths in the low bits under their reserved ones, zero average frame rate, three parameter-set arrays); MarshalSize is 23 + 3*5 + the three lengths.", Run: ruleHevcConfigLayout})
	add("C09", &RuleDoc{Name: "R-PES-HEADER-CONSTS", Text: "The PES header written into the first TS packet of a frame is 00 00 01, the frame's stream id, the 16-bit PES length (= remaining data + header data length + 3), 0x80, then PTS_DTS flags and header data length chosen together: (0x80, 5) when DTS == PTS, (0xC0, 10) otherwise, and the DTS field is written under that same test.", Run: rulePesHeaderConsts})
	addMutants(
		&Mutant{Prop: "C08", Name: "c08-avc-config-length-size", File: "av/format/flv/videodata.go",
			Old: "\tbuff[offset] = 0xff\n", New: "\tbuff[offset] = 0xfd\n", Expect: "R-AVC-CONFIG-LAYOUT"},
		&Mutant{Prop: "C08", Name: "c08-avc-config-level-from-byte2", File: "av/format/flv/videodata.go",
			Old: "\t\tAVCLevelIndication:   sps[3],", New: "\t\tAVCLevelIndication:   sps[2],", Expect: "R-AVC-CONFIG-LAYOUT"},
		&Mutant{Prop: "C08", Name: "c08-hevc-config-constraint-low-first", File: "av/format/flv/videodata.go",
			Old: "\tbinary.BigEndian.PutUint32(buff[offset:], uint32(record.GeneralConstraintIndicatorFlags>>16))", New: "\tbinary.BigEndian.PutUint32(buff[offset:], uint32(record.GeneralConstraintIndicatorFlags))", Expect: "R-HEVC-CONFIG-LAYOUT"},
		&Mutant{Prop: "C08", Name: "c08-hevc-config-size", File: "av/format/flv/videodata.go",
			Old: "\treturn 23 + 5 + len(record.VPS) + 5 + len(record.SPS) + 5 + len(record.PPS)", New: "\treturn 22 + 5 + len(record.VPS) + 5 + len(record.SPS) + 5 + len(record.PPS)", Expect: "R-HEVC-CONFIG-LAYOUT"},
		&Mutant{Prop: "C09", Name: "c09-pes-dts-flag-without-size", File: "av/format/mpegts/writer.go",
			Old: "\t\t\t\theaderSize += 5\n\t\t\t\tflags |= 0x40 // dts", New: "\t\t\t\tflags |= 0x40 // dts", Expect: "R-PES-HEADER-CONSTS"},
		&Mutant{Prop: "C09", Name: "c09-pes-start-code", File: "av/format/mpegts/writer.go",
			Old: "\t\t\tpkt[p] = 0x01\n\t\t\tp++\n\n\t\t\t//8bits", New: "\t\t\tpkt[p] = 0x00\n\t\t\tp++\n\n\t\t\t//8bits", Expect: "R-PES-HEADER-CONSTS"},
	)
}

func makeSliceOf(fn *ssa.Function) *ssa.MakeSlice {
	var out *ssa.MakeSlice
	instrs(fn, func(ins ssa.Instruction) {
		if ms, ok := ins.(*ssa.MakeSlice); ok && out == nil {
			out = ms
		}
	})
	return out
}

// constSum: for a return expression made of additions, (sum of constants, names of len() terms).
func constSum(v ssa.Value) (int64, []string) {
	var k int64
	var lens []string
	var walk func(v ssa.Value)
	walk = func(v ssa.Value) {
		v = stripConv(v)
		if c, ok := constInt(v); ok {
			k += c
			return
		}
		if bo, ok := v.(*ssa.BinOp); ok && bo.Op == token.ADD {
			walk(bo.X)
			walk(bo.Y)
			return
		}
		if call, ok := v.(*ssa.Call); ok && calleeName(&call.Call) == "builtin.len" {
			if f, _, ok := fieldLoad(call.Call.Args[0]); ok {
				lens = append(lens, f.Name())
				return
			}
		}
		lens = append(lens, "?")
	}
	walk(v)
	return k, lens
}

func ruleAvcConfigLayout(c *Ctx) {
	p := c.P
	fn := p.Func("av/format/flv", "(*AVCDecoderConfigurationRecord).Marshal")
	sz := p.Func("av/format/flv", "(*AVCDecoderConfigurationRecord).MarshalSize")
	ctor := p.Func("av/format/flv", "NewAVCDecoderConfigurationRecord")
	if fn == nil || sz == nil || ctor == nil {
		c.Lost("flv.AVCDecoderConfigurationRecord.Marshal/MarshalSize/New", "not found")
		return
	}
	c.touched(fname(fn))
	c.touched(fname(sz))
	c.touched(fname(ctor))
	buf := makeSliceOf(fn)
	if buf == nil {
		c.Lost("avc-config:buffer", "output buffer not found")
		return
	}
	e := newBitEval(p, fn)
	e.run()
	pos := p.Pos(fn.Pos())
	ok := true
	want := []string{
		rangeBits("record.ConfigurationVersion", 7, 0),
		rangeBits("record.AVCProfileIndication", 7, 0),
		rangeBits("record.ProfileCompatibility", 7, 0),
		rangeBits("record.AVCLevelIndication", 7, 0),
		"1 1 1 1 1 1 1 1",
		"1 1 1 0 0 0 0 1",
		rangeBits("len(record.SPS)", 15, 8),
		rangeBits("len(record.SPS)", 7, 0),
	}
	what := []string{"configurationVersion", "AVCProfileIndication", "profile_compatibility", "AVCLevelIndication", "reserved 111111 + lengthSizeMinusOne 3 (4-byte NAL lengths, as the packetiser writes them)", "reserved 111 + numOfSequenceParameterSets 1", "sequenceParameterSetLength high byte", "sequenceParameterSetLength low byte"}
	for i := range want {
		ok = checkBits(c, fmt.Sprintf("avc-config:byte%d", i), pos, e.readByte(buf, int64(i)), 8, want[i], "AVCDecoderConfigurationRecord byte "+fmt.Sprint(i)+" ("+what[i]+")") && ok
	}
	// after the SPS: one PPS and its 16-bit length
	var ppsCount, ppsLen bool
	instrs(fn, func(ins ssa.Instruction) {
		if st, ok := ins.(*ssa.Store); ok {
			if ia, ok := st.Addr.(*ssa.IndexAddr); ok && e.arrayRootOf(ia.X) == ssa.Value(buf) {
				if _, isConstIdx := constInt(ia.Index); !isConstIdx {
					if k, ok := constInt(st.Val); ok && k == 1 {
						ppsCount = true
					}
				}
			}
		}
		if call, ok := ins.(*ssa.Call); ok && strings.HasSuffix(calleeName(&call.Call), "binary.bigEndian).PutUint16") {
			v := stripConv(call.Call.Args[2])
			if lc, ok := v.(*ssa.Call); ok && calleeName(&lc.Call) == "builtin.len" {
				if f, _, ok := fieldLoad(lc.Call.Args[0]); ok && theProgram.baseFieldName(f) == "PPS" {
					ppsLen = true
				}
			}
		}
	})
	if !ppsCount || !ppsLen {
		ok = false
		c.Bad("avc-config:pps", pos, fmt.Sprintf("after the SPS the record must carry numOfPictureParameterSets = 1 (found: %v) and the 16-bit PPS length (found: %v)", ppsCount, ppsLen))
	}
	// size
	var ret *ssa.Return
	for _, b := range sz.Blocks {
		if r, isRet := b.Instrs[len(b.Instrs)-1].(*ssa.Return); isRet {
			ret = r
		}
	}
	if ret != nil {
		k, lens := constSum(ret.Results[0])
		good := k == 11 && len(lens) == 2 && strings.Join(lens, ",") != "" && (lens[0] == "SPS" && lens[1] == "PPS" || lens[0] == "PPS" && lens[1] == "SPS")
		if !good {
			ok = false
			c.Bad("avc-config:size", p.InstrPos(ret), fmt.Sprintf("MarshalSize = %d + len(%s); the record is 11 fixed bytes + len(SPS) + len(PPS): the buffer is too short (panic) or carries trailing zero bytes inside the FLV tag", k, strings.Join(lens, ")+len(")))
		}
	}
	// constructor
	wantSrc := map[string]int64{"AVCProfileIndication": 1, "ProfileCompatibility": 2, "AVCLevelIndication": 3}
	instrs(ctor, func(ins ssa.Instruction) {
		st, isSt := ins.(*ssa.Store)
		if !isSt {
			return
		}
		f, _, isF := fieldAddr(st.Addr)
		if !isF {
			return
		}
		if theProgram.baseFieldName(f) == "ConfigurationVersion" {
			if k, isK := constInt(st.Val); !isK || k != 1 {
				ok = false
				c.Bad("avc-config:ctor:version", p.InstrPos(st), "configurationVersion must be 1")
			}
		}
		if idx, has := wantSrc[f.Name()]; has {
			good := false
			if ld, isLd := stripConv(st.Val).(*ssa.UnOp); isLd && ld.Op == token.MUL {
				if ia, isIa := ld.X.(*ssa.IndexAddr); isIa {
					if k, isK := constInt(ia.Index); isK && k == idx {
						good = true
					}
				}
			}
			if !good {
				ok = false
				c.Bad("avc-config:ctor:"+f.Name(), p.InstrPos(st), fmt.Sprintf("%s must be SPS byte %d (profile_idc, constraint flags, level_idc follow the NAL header byte)", f.Name(), idx))
			}
		}
	})
	if ok {
		c.OK("avc-config", pos, "8 fixed bytes, PPS count and length, size 11+len(SPS)+len(PPS), constructor sources")
	}
}

func ruleHevcConfigLayout(c *Ctx) {
	p := c.P
	fn := p.Func("av/format/flv", "(*HEVCDecoderConfigurationRecord).Marshal")
	sz := p.Func("av/format/flv", "(*HEVCDecoderConfigurationRecord).MarshalSize")
	if fn == nil || sz == nil {
		c.Lost("flv.HEVCDecoderConfigurationRecord.Marshal/MarshalSize", "not found")
		return
	}
	c.touched(fname(fn))
	c.touched(fname(sz))
	buf := makeSliceOf(fn)
	if buf == nil {
		c.Lost("hevc-config:buffer", "output buffer not found")
		return
	}
	e := newBitEval(p, fn)
	e.run()
	pos := p.Pos(fn.Pos())
	ok := true
	ones := func(n int) string { return strings.TrimSpace(strings.Repeat("1 ", n)) }
	zeros := func(n int) string { return strings.TrimSpace(strings.Repeat("0 ", n)) }
	want := map[int]string{0: "0 0 0 0 0 0 0 1"}
	for i := 0; i < 4; i++ {
		want[2+i] = rangeBits("record.GeneralProfileCompatibilityFlags", 31-8*i, 24-8*i)
	}
	for i := 0; i < 6; i++ {
		want[6+i] = rangeBits("record.GeneralConstraintIndicatorFlags", 47-8*i, 40-8*i)
	}
	want[12] = rangeBits("record.GeneralLevelIDC", 7, 0)
	want[13] = "1 1 1 1 0 0 0 0"
	want[14] = zeros(8)
	want[15] = "1 1 1 1 1 1 0 0"
	want[16] = ones(6) + " " + rangeBits("record.ChromaFormatIDC", 1, 0)
	want[17] = ones(5) + " " + rangeBits("record.BitDepthLumaMinus8", 2, 0)
	want[18] = ones(5) + " " + rangeBits("record.BitDepthChromaMinus8", 2, 0)
	want[19] = zeros(8)
	want[20] = zeros(8)
	want[22] = "0 0 0 0 0 0 1 1"
	for i := 0; i < 23; i++ {
		w, has := want[i]
		if !has {
			continue // bytes 1 and 21 OR several unmasked fields together: not decided at bit level
		}
		ok = checkBits(c, fmt.Sprintf("hevc-config:byte%d", i), pos, e.readByte(buf, int64(i)), 8, w, fmt.Sprintf("HEVCDecoderConfigurationRecord byte %d", i)) && ok
	}
	var ret *ssa.Return
	for _, b := range sz.Blocks {
		if r, isRet := b.Instrs[len(b.Instrs)-1].(*ssa.Return); isRet {
			ret = r
		}
	}
	if ret != nil {
		k, lens := constSum(ret.Results[0])
		seen := map[string]bool{}
		for _, l := range lens {
			seen[l] = true
		}
		if !(k == 38 && len(lens) == 3 && seen["VPS"] && seen["SPS"] && seen["PPS"]) {
			ok = false
			c.Bad("hevc-config:size", p.InstrPos(ret), fmt.Sprintf("MarshalSize = %d + len(%s); the record is 23 fixed bytes + 3 arrays of 5 header bytes + the three parameter sets (38 + lengths)", k, strings.Join(lens, ")+len(")))
		}
	}
	if ok {
		c.OK("hevc-config", pos, "21 of the 23 fixed bytes decided bit for bit, size 38 + three lengths")
	}
}

func rulePesHeaderConsts(c *Ctx) {
	p := c.P
	fn := p.Func("av/format/mpegts", "(*Writer).WriteMpegtsFrame")
	if fn == nil {
		c.Lost("mpegts.Writer.WriteMpegtsFrame", "not found")
		return
	}
	c.touched(fname(fn))
	pkt := byteArrayAlloc(fn, 188)
	if pkt == nil {
		c.Lost("WriteMpegtsFrame.packet-array", "188-byte packet array not found")
		return
	}
	// per block: the ordered packet stores with a description of the value
	type pst struct {
		st   *ssa.Store
		k    int64
		isK  bool
		name string
	}
	per := map[*ssa.BasicBlock][]pst{}
	for _, b := range fn.Blocks {
		for _, ins := range b.Instrs {
			st, ok := ins.(*ssa.Store)
			if !ok {
				continue
			}
			ia, ok := st.Addr.(*ssa.IndexAddr)
			if !ok || ia.X != ssa.Value(pkt) {
				continue
			}
			d := pst{st: st}
			d.k, d.isK = constInt(st.Val)
			if f, _, ok := fieldLoad(stripConv(st.Val)); ok {
				d.name = f.Name()
			}
			per[b] = append(per[b], d)
		}
	}
	pos := p.Pos(fn.Pos())
	ok := true
	// start code + stream id
	foundStart := false
	for _, seq := range per {
		for i := 0; i+3 < len(seq); i++ {
			if seq[i+3].name == "StreamID" {
				foundStart = true
				good := seq[i].isK && seq[i].k == 0 && seq[i+1].isK && seq[i+1].k == 0 && seq[i+2].isK && seq[i+2].k == 1
				if !good {
					ok = false
					c.Bad("pes-header:start-code", p.InstrPos(seq[i+3].st), "the three bytes before the stream id are not the packet_start_code_prefix 00 00 01: a demultiplexer does not find the PES packet")
				}
			}
		}
	}
	if !foundStart {
		ok = false
		c.Bad("pes-header:start-code", pos, "no store of the frame's stream id preceded by the start code in one block")
	}
	// 0x80, flags, header length: the latter two are phis chosen together
	foundFlags := false
	for _, seq := range per {
		for i := 0; i+2 < len(seq); i++ {
			if !(seq[i].isK && seq[i].k == 0x80) {
				continue
			}
			fl, isPhi1 := stripConv(seq[i+1].st.Val).(*ssa.Phi)
			hs, isPhi2 := stripConv(seq[i+2].st.Val).(*ssa.Phi)
			if !isPhi1 || !isPhi2 {
				continue
			}
			foundFlags = true
			pairs := map[[2]int64]bool{}
			good := fl.Block() == hs.Block() && len(fl.Edges) == len(hs.Edges)
			if good {
				for j := range fl.Edges {
					a, oka := evalInt(fl.Edges[j])
					b, okb := evalInt(hs.Edges[j])
					if !oka || !okb {
						good = false
						break
					}
					pairs[[2]int64{a, b}] = true
				}
			}
			if !(good && len(pairs) == 2 && pairs[[2]int64{0x80, 5}] && pairs[[2]int64{0xC0, 10}]) {
				ok = false
				c.Bad("pes-header:flags-and-length", p.InstrPos(seq[i+1].st), fmt.Sprintf("PTS_DTS_flags and PES_header_data_length are not chosen together as (0x80, 5) / (0xC0, 10) (found %v): the header announces a DTS it does not carry, or carries one it does not announce, and the payload start is misparsed", pairs))
			}
			// the DTS write (second writePts, marker 1) is under the same test that selects 0xC0
			var sel ssa.Value
			for j, e := range fl.Edges {
				if a, _ := evalInt(e); a == 0xC0 {
					pred := fl.Block().Preds[j]
					domConds(pred.Instrs[len(pred.Instrs)-1], func(cond ssa.Value, taken bool) { sel = cond })
					if len(pred.Instrs) > 0 {
						// pred itself may be the then-block of the test
						for _, d := range fn.Blocks {
							if ifi, isIf := d.Instrs[len(d.Instrs)-1].(*ssa.If); isIf && d.Succs[0] == pred && len(pred.Preds) == 1 {
								sel = ifi.Cond
							}
						}
					}
				}
			}
			sameTest := false
			instrs(fn, func(ins ssa.Instruction) {
				cc := callCommon(ins)
				if cc == nil || cc.StaticCallee() == nil || baseFuncName(cc.StaticCallee()) != "writePts" || len(cc.Args) < 4 {
					return
				}
				if k, isK := evalInt(cc.Args[2]); !isK || k != 1 {
					return
				}
				for _, d := range fn.Blocks {
					if ifi, isIf := d.Instrs[len(d.Instrs)-1].(*ssa.If); isIf && d.Succs[0] == ins.Block() && len(ins.Block().Preds) == 1 {
						if sel != nil && sameCompare(ifi.Cond, sel) {
							sameTest = true
						}
					}
				}
			})
			if !sameTest {
				ok = false
				c.Bad("pes-header:dts-written", p.InstrPos(seq[i+1].st), "the DTS field (second writePts with marker 1) is not written under the same DTS != PTS test that sets the DTS flag and the 10-byte header length")
			}
		}
	}
	if !foundFlags {
		ok = false
		c.Bad("pes-header:flags-and-length", pos, "the sequence 0x80, PTS_DTS_flags, PES_header_data_length was not found in one block")
	}
	if ok {
		c.OK("pes-header", pos, "00 00 01 stream-id ... 0x80 flags length with (0x80,5)/(0xC0,10) and DTS written under the same test")
	}
}

// sameCompare: two comparisons of the same operator over loads of the same fields.
func sameCompare(a, b ssa.Value) bool {
	x, ok1 := a.(*ssa.BinOp)
	y, ok2 := b.(*ssa.BinOp)
	if !ok1 || !ok2 || x.Op != y.Op {
		return false
	}
	fn := func(v ssa.Value) string {
		if f, _, ok := fieldLoad(stripConv(v)); ok {
			return f.Name()
		}
		return fmt.Sprintf("%p", v)
	}
	return fn(x.X) == fn(y.X) && fn(x.Y) == fn(y.Y)
}

// ------------------------------------------------------------ R-FU-NAL-HEADER-BITS (C06)

func init() {
	if p := properties["C06"]; p != nil {
		p.Rules = append(p.Rules, &RuleDoc{Name: "R-FU-NAL-HEADER-BITS", Text: "The NAL header a fragmentation-unit handler rebuilds is, bit for bit, what the sender's header was: H.264 {0, NRI from the FU indicator, type from the FU header} (RFC 6184 5.8); H.265 {F and the low bit of layer id from payload byte 0, type from the FU header in bits 6..1} then payload byte 1 unchanged (RFC 7798 4.4.3); the number of header bytes written, the initial length/offset and the per-fragment offset agree.", Run: ruleFuNalHeaderBits})
	}
	addMutants(
		&Mutant{Prop: "C06", Name: "c06-fu-nri-mask", File: "av/format/rtp/h264_depacketizer.go",
			Old: "\t\tframe.Payload[0] = (header & 0x60) | (fuHeader & 0x1F)", New: "\t\tframe.Payload[0] = (header & 0x40) | (fuHeader & 0x1F)", Expect: "R-FU-NAL-HEADER-BITS"},
		&Mutant{Prop: "C06", Name: "c06-h265-fu-type-unshifted", File: "av/format/rtp/h265_depacketizer.go",
			Old: "\t\tframe.Payload[0] = (payload[0] & 0x81) | (fuHeader&0x3f)<<1", New: "\t\tframe.Payload[0] = (payload[0] & 0x81) | (fuHeader & 0x3f)", Expect: "R-FU-NAL-HEADER-BITS"},
		&Mutant{Prop: "C06", Name: "c06-h265-fragment-offset", File: "av/format/rtp/h265_depacketizer.go",
			Old: "\t\t\tframeLen += len(fragment.Payload()) - rawDataOffset", New: "\t\t\tframeLen += len(fragment.Payload()) - 2", Expect: "R-FU-NAL-HEADER-BITS"},
	)
}

func ruleFuNalHeaderBits(c *Ctx) {
	p := c.P
	n := 0
	for _, h := range []struct {
		typ, fn string
		hdr     int
		want    []string
	}{
		{"h264Depacketizer", "depacketizeFuA", 1, []string{"0 payload[0][6] payload[0][5] payload[1][4] payload[1][3] payload[1][2] payload[1][1] payload[1][0]"}},
		{"h265Depacketizer", "depacketizeFu", 2, []string{"payload[0][7] payload[2][5] payload[2][4] payload[2][3] payload[2][2] payload[2][1] payload[2][0] payload[0][0]", rangeBits("payload[1]", 7, 0)}},
	} {
		fn := p.Func("av/format/rtp", "(*"+h.typ+")."+h.fn)
		if fn == nil {
			c.Lost("rtp."+h.typ+"."+h.fn, "FU handler not found")
			continue
		}
		c.touched(fname(fn))
		n++
		e := newBitEval(p, fn)
		// name the bytes of this packet's payload
		var payload ssa.Value
		instrs(fn, func(ins ssa.Instruction) {
			if call, ok := ins.(*ssa.Call); ok && payload == nil && call.Call.StaticCallee() != nil && baseFuncName(call.Call.StaticCallee()) == "Payload" {
				if origin(call.Call.Args[0]) == ssa.Value(fn.Params[1]) {
					payload = call
				}
			}
		})
		if payload == nil {
			c.Lost("fu-header:payload@"+fname(fn), "the packet's Payload() call was not found")
			continue
		}
		instrs(fn, func(ins ssa.Instruction) {
			ld, ok := ins.(*ssa.UnOp)
			if !ok || ld.Op != token.MUL {
				return
			}
			ia, ok := ld.X.(*ssa.IndexAddr)
			if !ok || origin(ia.X) != payload {
				return
			}
			if k, ok := constInt(ia.Index); ok {
				e.names[ld] = fmt.Sprintf("payload[%d]", k)
			}
		})
		// header bytes: stores at constant indices into the emitted frame's fresh buffer
		stores := map[int64]*ssa.Store{}
		var frameBuf ssa.Value
		instrs(fn, func(ins ssa.Instruction) {
			st, ok := ins.(*ssa.Store)
			if !ok {
				return
			}
			ia, ok := st.Addr.(*ssa.IndexAddr)
			if !ok {
				return
			}
			k, ok := constInt(ia.Index)
			if !ok {
				return
			}
			if bt, isB := st.Val.Type().Underlying().(*types.Basic); !isB || bt.Kind() != types.Uint8 {
				return
			}
			root := origin(ia.X)
			if f, base, isF := fieldLoad(ia.X); isF && theProgram.baseFieldName(f) == "Payload" {
				// frame.Payload of the frame built here
				if _, isAlloc := origin(base).(*ssa.Alloc); isAlloc {
					root = base
				}
			}
			if frameBuf == nil {
				frameBuf = root
			}
			if root == frameBuf {
				stores[k] = st
			}
		})
		pos := p.Pos(fn.Pos())
		ok := len(stores) == h.hdr
		if !ok {
			c.Bad("fu-header:count@"+fname(fn), pos, fmt.Sprintf("%d NAL header byte(s) are stored at constant positions, the codec's NAL header has %d", len(stores), h.hdr))
		}
		for i, w := range h.want {
			st := stores[int64(i)]
			if st == nil {
				continue
			}
			ok = checkBits(c, fmt.Sprintf("fu-header:byte%d@%s", i, fname(fn)), p.InstrPos(st), e.eval(st.Val), 8, w, fmt.Sprintf("rebuilt NAL header byte %d", i)) && ok
		}
		// offsets: `len(fragment.Payload()) - K` and `fragment.Payload()[K:]` use the same K = hdr + 1 (FU indicator bytes + FU header byte)
		ks := map[int64]bool{}
		instrs(fn, func(ins ssa.Instruction) {
			switch x := ins.(type) {
			case *ssa.BinOp:
				if x.Op == token.SUB {
					if call, isCall := stripConv(x.X).(*ssa.Call); isCall && calleeName(&call.Call) == "builtin.len" {
						if pc, isP := origin(call.Call.Args[0]).(*ssa.Call); isP && pc.Call.StaticCallee() != nil && baseFuncName(pc.Call.StaticCallee()) == "Payload" {
							if k, isK := evalInt(x.Y); isK {
								ks[k] = true
							}
						}
					}
				}
			case *ssa.Slice:
				if x.Low != nil && x.High == nil {
					if call, isCall := origin(x.X).(*ssa.Call); isCall && call.Call.StaticCallee() != nil && baseFuncName(call.Call.StaticCallee()) == "Payload" {
						if k, isK := evalInt(x.Low); isK && k > 0 {
							ks[k] = true
						}
					}
				}
			}
		})
		wantK := int64(h.hdr + 1)
		if !(len(ks) == 1 && ks[wantK]) {
			ok = false
			var got []string
			for k := range ks {
				got = append(got, fmt.Sprint(k))
			}
			c.Bad("fu-header:offsets@"+fname(fn), pos, fmt.Sprintf("the length computation and the copy of each fragment skip %s byte(s); every fragment carries %d bytes of FU indicator + FU header before the unit's data, so the rebuilt unit has spliced-in header bytes or a wrong length", strings.Join(got, " / "), wantK))
		}
		if ok {
			c.OK("fu-header@"+fname(fn), pos, "rebuilt NAL header bits and fragment offsets")
		}
	}
	c.Floor("FU handlers", n, 2)
}
