package main

import (
	"fmt"
	"go/constant"
	"go/token"
	"strings"

	"golang.org/x/tools/go/ssa"
)

func init() {
	register(&PropertyDef{
		ID: "C16",
		Explanation: "The property is equivalence of the permission matcher with the documented pattern language over all pattern/path pairs; that equivalence lives in string values and is NOT decided here. What is decided are structural necessary conditions around the matcher, each of which breaks the documented meaning when violated: (1) R-RIGHT-SELECTS-MATCHERS - ValidatePermission consults the push matchers exactly for PushRight and the pull matchers exactly for PullRight; (2) R-MATCH-ANY - it returns true only on the true edge of some matcher's Match and false when the list is nil/exhausted; (3) R-ADMIN-DEFAULT-STAR - '*' is substituted only for an administrator with an empty right; (4) R-SPLIT-SEMICOLON - right strings are split with the ';' scanner, empty items skipped, one matcher per item; (5) R-CASEFOLD-BOTH - both the pattern (at compile time) and the path (at match time) are lower-cased and trimmed of '/' before comparison; (6) R-WILDCARD-CONSTS - the wildcard literals are '+' and '*', '*' alone compiles to the always-matcher, a trailing '*' is stripped into the wildcard flag; (7) R-SEGMENT-COUNT-GUARD - Match refuses paths with fewer segments than the pattern and, without trailing wildcard, paths with more.",
		NotDecided: "The matcher's input/output behaviour over all pattern/path pairs (language equivalence with docs/config.md): requires exhaustive evaluation against a reference matcher, which is execution, a different technique family.",
		Rules: []*RuleDoc{
			{Name: "R-RIGHT-SELECTS-MATCHERS", Text: "PushRight -> pushMatchers, PullRight -> pullMatchers.", Run: ruleRightSelects},
			{Name: "R-MATCH-ANY", Text: "true only on a Match() true edge; false otherwise.", Run: ruleMatchAny},
			{Name: "R-ADMIN-DEFAULT-STAR", Text: "'*' default only for Admin with empty right.", Run: ruleAdminStar},
			{Name: "R-SPLIT-SEMICOLON", Text: "initMatchers scans with scan.Semicolon (';'), skips empty items, appends NewPathMatcher(item).", Run: ruleSplitSemicolon},
			{Name: "R-CASEFOLD-BOTH", Text: "strings.ToLower + Trim('/') on the mask in NewPathMatcher and on the path in Match.", Run: ruleCasefoldBoth},
			{Name: "R-WILDCARD-CONSTS", Text: "sectionWildcard='+', endWildcard='*', '*' alone -> alwaysMatcher, trailing '*' -> wildcardEnd.", Run: ruleWildcardConsts},
			{Name: "R-SEGMENT-COUNT-GUARD", Text: "Match: count < len(parts) -> false; count > len(parts) && !wildcardEnd -> false.", Run: ruleSegmentCountGuard},
		},
	})
	addMutants(
		&Mutant{Prop: "C16", Name: "c16-rights-swapped", File: "provider/auth/user.go",
			Old: "\tcase PushRight:\n\t\tmatchers = u.pushMatchers\n\tcase PullRight:\n\t\tmatchers = u.pullMatchers", New: "\tcase PushRight:\n\t\tmatchers = u.pullMatchers\n\tcase PullRight:\n\t\tmatchers = u.pushMatchers", Expect: "R-RIGHT-SELECTS-MATCHERS"},
		&Mutant{Prop: "C16", Name: "c16-star-for-everyone", File: "provider/auth/user.go",
			Old: "\tif u.Admin {\n\t\tif len(u.PullAccess) == 0 {", New: "\tif u.Admin || len(u.Name) > 0 {\n\t\tif len(u.PullAccess) == 0 {", Expect: "R-ADMIN-DEFAULT-STAR"},
		&Mutant{Prop: "C16", Name: "c16-path-case-sensitive", File: "provider/auth/path_matcher.go",
			Old: "\tpath = strings.ToLower(strings.Trim(path, \"/\"))", New: "\tpath = strings.Trim(path, \"/\")", Expect: "R-CASEFOLD-BOTH"},
		&Mutant{Prop: "C16", Name: "c16-longer-paths-match", File: "provider/auth/path_matcher.go",
			Old: "\tif count > len(m.parts) && !m.wildcardEnd {\n\t\treturn false\n\t}\n", New: "", Expect: "R-SEGMENT-COUNT-GUARD"},
		&Mutant{Prop: "C16", Name: "c16-comma-separator", File: "provider/auth/user.go",
			Old: "scan.Semicolon.Scan(advance)", New: "scan.Comma.Scan(advance)", Expect: "R-SPLIT-SEMICOLON"},
		&Mutant{Prop: "C16", Name: "c16-match-all-required", File: "provider/auth/user.go",
			Old: "\t\tif matcher.Match(path) {\n\t\t\treturn true\n\t\t}\n\t}\n\n\treturn false", New: "\t\tif !matcher.Match(path) {\n\t\t\treturn false\n\t\t}\n\t}\n\n\treturn true", Expect: "R-MATCH-ANY"},
	)
}

func ruleRightSelects(c *Ctx) {
	p := c.P
	fn := p.Func("provider/auth", "(*User).ValidatePermission")
	if fn == nil {
		c.Lost("auth.User.ValidatePermission", "not found")
		return
	}
	c.touched(fname(fn))
	pull, _ := pkgConst(p, "provider/auth", "PullRight")
	push, _ := pkgConst(p, "provider/auth", "PushRight")
	c.Decide(pull == 1 && push == 2, "right-consts", "", "PullRight=1, PushRight=2", fmt.Sprintf("right constants changed (%d,%d)", pull, push))
	right := fn.Params[2]
	// each load of push/pullMatchers must be in a block entered exclusively on right == const
	want := map[string]int64{"pushMatchers": push, "pullMatchers": pull}
	seen := map[string]bool{}
	instrs(fn, func(ins ssa.Instruction) {
		u, ok := ins.(*ssa.UnOp)
		if !ok {
			return
		}
		f, _, ok := fieldLoad(u)
		if !ok {
			return
		}
		fnm := p.baseFieldName(f)
		k, isM := want[fnm]
		if !isM {
			return
		}
		seen[fnm] = true
		blk := ins.Block()
		good := false
		if len(blk.Preds) == 1 {
			pr := blk.Preds[0]
			if ifi, ok := pr.Instrs[len(pr.Instrs)-1].(*ssa.If); ok && pr.Succs[0] == blk {
				if b, ok := ifi.Cond.(*ssa.BinOp); ok && b.Op == token.EQL && origin(b.X) == ssa.Value(right) {
					if kk, ok := evalInt(b.Y); ok && kk == k {
						good = true
					}
				}
			}
		}
		if !good {
			// polarity / else-chain forms: right == k established at the load
			domConds(ins, func(cond ssa.Value, taken bool) {
				if b, ok := cond.(*ssa.BinOp); ok && origin(b.X) == ssa.Value(right) {
					if kk, ok := evalInt(b.Y); ok && kk == k && (b.Op == token.EQL && taken || b.Op == token.NEQ && !taken) {
						good = true
					}
				}
			})
		}
		c.Decide(good, "right-selects:"+fnm, p.InstrPos(ins), fnm+" consulted exactly for its right", fnm+" is consulted on a path that did not establish right == its own constant: push rights grant pulling or vice versa")
	})
	for n := range want {
		if !seen[n] {
			c.Bad("right-selects:"+n, p.Pos(fn.Pos()), n+" is never consulted")
		}
	}
}

func ruleMatchAny(c *Ctx) {
	p := c.P
	fn := p.Func("provider/auth", "(*User).ValidatePermission")
	if fn == nil {
		c.Lost("auth.User.ValidatePermission", "not found")
		return
	}
	bad := false
	nTrue := 0
	c.paths += factsAt(p, fn, nil, nil, func(ins ssa.Instruction, s factSet) {
		ret, ok := ins.(*ssa.Return)
		if !ok {
			return
		}
		b, isc := constBool(retValue(ret, 0))
		if !isc {
			bad = true
			c.Bad("match-any", p.InstrPos(ret), "ValidatePermission returns a non-constant value")
			return
		}
		if b {
			nTrue++
			if !s.has("Match=true") {
				bad = true
				c.Bad("match-any", p.InstrPos(ret), "ValidatePermission grants on a path where no matcher matched (facts {"+string(s)+"})")
			}
		}
	})
	// the loop must continue (not return false) on a non-matching matcher: a `return false` in the loop body on Match=false means 'all must match'
	instrs(fn, func(ins ssa.Instruction) {
		ret, ok := ins.(*ssa.Return)
		if !ok {
			return
		}
		if b, isc := constBool(retValue(ret, 0)); isc && !b && reachableBlocks(ins.Block())[ins.Block()] {
			bad = true
			c.Bad("match-any", p.InstrPos(ret), "a non-matching pattern ends the scan with false: the list is treated as 'all patterns must match' instead of 'at least one'")
		}
	})
	// a `return false` reached directly from the Match false edge (not via loop exhaustion)
	c.paths += factsAt(p, fn, nil, nil, func(ins ssa.Instruction, s factSet) {
		ret, ok := ins.(*ssa.Return)
		if !ok {
			return
		}
		if b, isc := constBool(retValue(ret, 0)); isc && !b && s.has("Match=false") {
			// allowed only if the loop was exhausted afterwards: block of the return must not be dominated by the Match call's block exclusively
			for _, pr := range ins.Block().Preds {
				if ifi, ok := pr.Instrs[len(pr.Instrs)-1].(*ssa.If); ok {
					if call, ok := ifi.Cond.(*ssa.Call); ok && call.Call.IsInvoke() && call.Call.Method.Name() == "Match" {
						bad = true
						c.Bad("match-any", p.InstrPos(ret), "false is returned directly on a pattern's mismatch")
					}
				}
			}
		}
	})
	if nTrue == 0 {
		bad = true
		c.Bad("match-any", p.Pos(fn.Pos()), "ValidatePermission never grants")
	}
	if !bad {
		c.OK("match-any", p.Pos(fn.Pos()), "true exactly on some pattern's match; false after exhausting the list")
	}
}

func ruleAdminStar(c *Ctx) {
	p := c.P
	fn := p.Func("provider/auth", "(*User).init")
	if fn == nil {
		c.Lost("auth.User.init", "not found")
		return
	}
	c.touched(fname(fn))
	n := 0
	c.paths += factsAt(p, fn, func(s factSet, ins ssa.Instruction) factSet { return s }, nil, func(ins ssa.Instruction, s factSet) {
		st, ok := ins.(*ssa.Store)
		if !ok {
			return
		}
		f, _, ok := fieldAddr(st.Addr)
		if !ok || (theProgram.baseFieldName(f) != "PullAccess" && theProgram.baseFieldName(f) != "PushAccess") {
			return
		}
		k, isc := st.Val.(*ssa.Const)
		if !isc || k.Value == nil || constant.StringVal(k.Value) != "*" {
			c.Bad("admin-star:"+f.Name(), p.InstrPos(ins), "init assigns "+f.Name()+" a value other than the administrator default '*'")
			return
		}
		n++
		// facts: field.Admin=true and a len(...)==0 comparison on the same field
		lenZero := false
		extra := 0
		domConds(ins, func(cond ssa.Value, taken bool) {
			cv, _ := condNeg(cond)
			if af, _, ok := fieldLoad(stripConv(cv)); ok && af.Name() == "Admin" {
				return
			}
			before := lenZero
			defer func() {
				if lenZero == before {
					extra++ // a condition that is neither the administrator test nor this right's emptiness test
				}
			}()
			b, ok := cond.(*ssa.BinOp)
			if !ok {
				return
			}
			isF := func(v ssa.Value) bool {
				lf, _, ok := fieldLoad(stripConv(v))
				return ok && lf == f
			}
			// len(x) == 0 / len(x) != 0 / len(x) > 0 ...
			if lc, ok := stripConv(b.X).(*ssa.Call); ok && calleeName(&lc.Call) == "builtin.len" && isF(lc.Call.Args[0]) {
				if z, ok := evalInt(b.Y); ok && z == 0 {
					if b.Op == token.EQL && taken || (b.Op == token.NEQ || b.Op == token.GTR) && !taken {
						lenZero = true
					}
				}
			}
			// x == "" / x != ""
			if k, ok := b.Y.(*ssa.Const); ok && k.Value != nil && k.Value.Kind() == constant.String && constant.StringVal(k.Value) == "" && isF(b.X) {
				if b.Op == token.EQL && taken || b.Op == token.NEQ && !taken {
					lenZero = true
				}
			}
		})
		if s.has("field.Admin=true") && lenZero && extra > 0 {
			c.Bad("admin-star:"+f.Name(), p.InstrPos(ins), "the '*' default for "+f.Name()+" depends on a further condition besides (administrator, this right empty): an administrator whose other right is set keeps an empty "+f.Name()+" and is refused everything of that kind")
			return
		}
		c.Decide(s.has("field.Admin=true") && lenZero, "admin-star:"+f.Name(), p.InstrPos(ins), "'*' only for an administrator whose right is empty", "the '*' default for "+f.Name()+" is applied without both conditions (administrator, empty right): an empty right would permit everything for ordinary users")
	})
	c.Floor("administrator default assignments", n, 2)
}

func ruleSplitSemicolon(c *Ctx) {
	p := c.P
	fn := p.Func("provider/auth", "initMatchers")
	npm := p.Func("provider/auth", "NewPathMatcher")
	if fn == nil || npm == nil {
		c.Lost("auth.initMatchers/NewPathMatcher", "not found")
		return
	}
	c.touched(fname(fn))
	// scanner: load of global scan.Semicolon; its initialiser NewScanner(';', ...)
	usesSemi := false
	instrs(fn, func(ins ssa.Instruction) {
		cc := callCommon(ins)
		if cc == nil || cc.StaticCallee() == nil || baseFuncName(cc.StaticCallee()) != "Scan" {
			return
		}
		if u, ok := cc.Args[0].(*ssa.UnOp); ok {
			if g, ok := u.X.(*ssa.Global); ok && g.Name() == "Semicolon" && g.Pkg.Pkg.Path() == modRel("utils/scan") {
				usesSemi = true
			}
		}
	})
	c.Decide(usesSemi, "split:semicolon-scanner", p.Pos(fn.Pos()), "right string split with scan.Semicolon", "right strings are not split with the ';' scanner")
	// the global's delimiter
	delimOK := false
	if sp := p.Pkg("utils/scan"); sp != nil {
		if initf := sp.Func("init"); initf != nil {
			instrs(initf, func(ins ssa.Instruction) {
				st, ok := ins.(*ssa.Store)
				if !ok {
					return
				}
				g, ok := st.Addr.(*ssa.Global)
				if !ok || g.Name() != "Semicolon" {
					return
				}
				if call, ok := st.Val.(*ssa.Call); ok && call.Call.StaticCallee() != nil && baseFuncName(call.Call.StaticCallee()) == "NewScanner" {
					if k, ok := evalInt(call.Call.Args[0]); ok && k == ';' {
						delimOK = true
					}
				}
			})
		}
	}
	c.Decide(delimOK, "split:delimiter", "", "scan.Semicolon splits on ';'", "scan.Semicolon is not constructed with ';'")
	// append(NewPathMatcher(item)) on the non-empty edge
	good := false
	c.paths += factsAt(p, fn, nil, nil, func(ins ssa.Instruction, s factSet) {
		if callsFunc(ins, npm) {
			ex, ok := origin(callCommon(ins).Args[0]).(*ssa.Extract)
			if ok && ex.Index == 1 {
				good = true
			}
			if ph, isPhi := callCommon(ins).Args[0].(*ssa.Phi); isPhi {
				for _, e := range ph.Edges {
					if ex, ok := e.(*ssa.Extract); ok && ex.Index == 1 {
						good = true
					}
				}
			}
		}
	})
	c.Decide(good, "split:one-matcher-per-item", p.Pos(fn.Pos()), "one matcher per scanned item", "the matcher is not compiled from the scanned item")
}

func ruleCasefoldBoth(c *Ctx) {
	p := c.P
	for _, d := range []struct{ name, what string }{{"NewPathMatcher", "pattern"}, {"(*pathMacher).Match", "path"}} {
		fn := p.Func("provider/auth", d.name)
		if fn == nil {
			c.Lost("auth."+d.name, "not found")
			continue
		}
		c.touched(fname(fn))
		param := fn.Params[len(fn.Params)-1]
		lower, trim := false, false
		instrs(fn, func(ins ssa.Instruction) {
			call, ok := ins.(*ssa.Call)
			if !ok {
				return
			}
			switch calleeName(&call.Call) {
			case "strings.ToLower":
				dep := false
				walkDeps(call.Call.Args[0], func(x ssa.Value) bool {
					if x == ssa.Value(param) {
						dep = true
					}
					return true
				})
				if dep {
					// its result must be what is split / compared: used somewhere
					lower = len(referrersOf(call)) > 0
				}
			case "strings.Trim":
				if k, ok := call.Call.Args[1].(*ssa.Const); ok && k.Value != nil && constant.StringVal(k.Value) == "/" {
					trim = true
				}
			}
		})
		c.Decide(lower && trim, "casefold:"+d.what, p.Pos(fn.Pos()), d.what+" is lower-cased and trimmed of '/'", "the "+d.what+" is not lower-cased (and '/'-trimmed) before comparison: matching becomes case-sensitive on one side")
	}
}

func ruleWildcardConsts(c *Ctx) {
	p := c.P
	sp := p.Pkg("provider/auth")
	if sp == nil {
		c.Lost("provider/auth", "package not found")
		return
	}
	str := func(name string) string {
		if o := sp.Pkg.Scope().Lookup(name); o != nil {
			if k, ok := o.(interface{ Val() constant.Value }); ok {
				return constant.StringVal(k.Val())
			}
		}
		return ""
	}
	c.Decide(str("sectionWildcard") == "+" && str("endWildcard") == "*", "wildcard-literals", "", "'+' single segment, '*' trailing", "wildcard literals changed: sectionWildcard="+str("sectionWildcard")+" endWildcard="+str("endWildcard"))
	fn := p.Func("provider/auth", "NewPathMatcher")
	if fn == nil {
		c.Lost("auth.NewPathMatcher", "not found")
		return
	}
	// alwaysMatcher returned only on the TrimSpace(mask) == "*" edge
	okAlways, okFlag := false, false
	c.paths += factsAt(p, fn, nil, nil, func(ins ssa.Instruction, s factSet) {
		if ret, ok := ins.(*ssa.Return); ok {
			v := retValue(ret, 0)
			if mi, ok := v.(*ssa.MakeInterface); ok && strings.HasSuffix(mi.X.Type().String(), "alwaysMatcher") {
				if s.has("call:strings.TrimSpace=='*'") {
					okAlways = true
				} else {
					c.Bad("wildcard:always", p.InstrPos(ret), "the always-matcher is returned for a mask that is not exactly '*'")
				}
			}
		}
	})
	// wildcardEnd = (last part == "*")
	instrs(fn, func(ins ssa.Instruction) {
		if b, ok := ins.(*ssa.BinOp); ok && b.Op == token.EQL {
			if k, ok := b.Y.(*ssa.Const); ok && k.Value != nil && k.Value.Kind() == constant.String && constant.StringVal(k.Value) == "*" {
				if u, ok := b.X.(*ssa.UnOp); ok {
					if ia, ok := u.X.(*ssa.IndexAddr); ok {
						if sub, ok := ia.Index.(*ssa.BinOp); ok && sub.Op == token.SUB {
							okFlag = true
						}
					}
				}
			}
		}
	})
	c.Decide(okAlways, "wildcard:always", p.Pos(fn.Pos()), "'*' alone matches everything", "'*' alone no longer compiles to the always-matcher")
	c.Decide(okFlag, "wildcard:trailing", p.Pos(fn.Pos()), "trailing '*' recognised on the last segment", "the trailing wildcard is not recognised by comparing the LAST segment with '*'")
}

func ruleSegmentCountGuard(c *Ctx) {
	p := c.P
	fn := p.Func("provider/auth", "(*pathMacher).Match")
	if fn == nil {
		c.Lost("auth.pathMacher.Match", "not found")
		return
	}
	c.touched(fname(fn))
	isLenPartsVal := func(v ssa.Value) bool { return false }
	isLenParts := func(v ssa.Value) bool {
		lc, ok := v.(*ssa.Call)
		if !ok || calleeName(&lc.Call) != "builtin.len" {
			return false
		}
		f, _, ok := fieldLoad(lc.Call.Args[0])
		return ok && theProgram.baseFieldName(f) == "parts"
	}
	// Path facts: which comparisons of the segment count with len(parts) hold, and wildcardEnd; a
	// `return true` (or falling into the compare loop) must not be reachable with count < len or with
	// count > len && !wildcardEnd. Decided by exploring Match with those facts as the state.
	type st struct{ Rel, Wild int8 } // Rel: 0 unknown 1 count<len 2 count==len 3 count>len 4 count>=len 5 count<=len; Wild 0 unknown 1 true 2 false
	lessRefused, moreRefused := true, true
	sawLess, sawMore := false, false
	res := RunPath(&PathRule[st]{Fn: fn, Init: []st{{}},
		Branch: func(s st, cond ssa.Value, taken bool) (st, bool) {
			cv, neg := condNeg(cond)
			val := taken != neg
			if f, _, ok := fieldLoad(cv); ok && theProgram.baseFieldName(f) == "wildcardEnd" {
				w := int8(2)
				if val {
					w = 1
				}
				if s.Wild != 0 && s.Wild != w {
					return s, false
				}
				s.Wild = w
				return s, true
			}
			bo, ok := cv.(*ssa.BinOp)
			if !ok {
				return s, true
			}
			x, y, op := bo.X, bo.Y, bo.Op
			if isLenParts(stripConv(x)) || isLenPartsVal(stripConv(x)) {
				x, y = y, x
				switch op {
				case token.LSS:
					op = token.GTR
				case token.GTR:
					op = token.LSS
				case token.LEQ:
					op = token.GEQ
				case token.GEQ:
					op = token.LEQ
				}
			}
			if !(isLenParts(stripConv(y)) || isLenPartsVal(stripConv(y))) {
				return s, true
			}
			if !val {
				switch op {
				case token.LSS:
					op = token.GEQ
				case token.GTR:
					op = token.LEQ
				case token.LEQ:
					op = token.GTR
				case token.GEQ:
					op = token.LSS
				default:
					return s, true
				}
			}
			var rel int8
			switch op {
			case token.LSS:
				rel = 1
			case token.GTR:
				rel = 3
			case token.GEQ:
				rel = 4
			case token.LEQ:
				rel = 5
			default:
				return s, true
			}
			// combine with what is known
			switch {
			case s.Rel == 0:
				s.Rel = rel
			case s.Rel == 4 && rel == 5, s.Rel == 5 && rel == 4:
				s.Rel = 2
			case s.Rel == 4 && rel == 3, s.Rel == 5 && rel == 1:
				s.Rel = rel
			case s.Rel == 4 && rel == 1, s.Rel == 5 && rel == 3, s.Rel == 1 && (rel == 3 || rel == 4), s.Rel == 3 && (rel == 1 || rel == 5), s.Rel == 2 && (rel == 1 || rel == 3):
				return s, false
			}
			return s, true
		}})
	c.paths += res.N
	for ret, sts := range res.Exits() {
		v, isc := constBool(retValue(ret.(*ssa.Return), 0))
		for _, s := range sts {
			if isc && !v {
				if s.Rel == 1 {
					sawLess = true
				}
				if s.Rel == 3 && s.Wild == 2 {
					sawMore = true
				}
				continue
			}
			// a granting (or data dependent) return
			if !isc || v {
				// reachable only through the compare loop: the loop is entered on paths where no refusal happened
			}
		}
	}
	// no path reaches the compare loop (the Scan call) with count<len, or with count>len and !wildcardEnd
	res.Visit(func(ins ssa.Instruction, s st) {
		cc := callCommon(ins)
		if cc == nil || cc.StaticCallee() == nil || baseFuncName(cc.StaticCallee()) != "Scan" {
			return
		}
		if s.Rel == 1 {
			lessRefused = false
		}
		if s.Rel == 3 && s.Wild == 2 {
			moreRefused = false
		}
		if s.Rel == 0 || s.Rel == 4 && s.Wild != 1 && s.Wild != 2 {
			// the count was never compared on this path
			if s.Rel == 0 {
				lessRefused, moreRefused = false, false
			}
		}
	})
	less := lessRefused && sawLess
	more := moreRefused && sawMore
	c.Decide(less, "segment-count:fewer", p.Pos(fn.Pos()), "paths with fewer segments than the pattern are refused", "Match no longer refuses paths with fewer segments than the pattern")
	c.Decide(more, "segment-count:more", p.Pos(fn.Pos()), "paths with more segments are refused unless the pattern ends in '*'", "Match no longer refuses longer paths for patterns without a trailing '*': 'cam' would grant 'cam/secret/x'")
}
