package main

import (
	"go/constant"
	"go/token"
	"go/types"
	"strings"

	"golang.org/x/tools/go/ssa"
)

// callCommon returns the CallCommon of a call-like instruction.
func callCommon(ins ssa.Instruction) *ssa.CallCommon {
	switch x := ins.(type) {
	case *ssa.Call:
		return &x.Call
	case *ssa.Defer:
		return &x.Call
	case *ssa.Go:
		return &x.Call
	}
	return nil
}

// staticCallee resolves a statically known callee, including direct calls of
// closures and bound-method closures.
func staticCallee(cc *ssa.CallCommon) *ssa.Function {
	if cc == nil {
		return nil
	}
	if f := cc.StaticCallee(); f != nil {
		return f
	}
	return nil
}

// calleeName is a type-resolved printable name of the callee:
// "(*sync.Mutex).Lock", "(io.Closer).Close" (interface invoke),
// "github.com/x/y.F". Empty for dynamic calls of func values.
func calleeName(cc *ssa.CallCommon) string {
	if cc == nil {
		return ""
	}
	if cc.IsInvoke() {
		return cc.Method.FullName()
	}
	if f := cc.StaticCallee(); f != nil {
		return funcFullName(f)
	}
	if b, ok := cc.Value.(*ssa.Builtin); ok {
		return "builtin." + b.Name()
	}
	return ""
}

func funcFullName(f *ssa.Function) string {
	if f == nil {
		return ""
	}
	if o := f.Object(); o != nil {
		if tf, ok := o.(*types.Func); ok {
			return tf.FullName()
		}
	}
	// bound method closure / thunk: name$bound
	if f.Synthetic != "" && f.Object() == nil {
		return f.String()
	}
	return f.String()
}

// isCall reports whether ins is a call (Call or Defer, optionally Go) to the named callee.
func isCallTo(ins ssa.Instruction, names ...string) bool {
	cc := callCommon(ins)
	if cc == nil {
		return false
	}
	n := calleeName(cc)
	for _, w := range names {
		if n == w {
			return true
		}
	}
	return false
}

// callsFunc reports whether ins statically calls fn.
func callsFunc(ins ssa.Instruction, fn *ssa.Function) bool {
	cc := callCommon(ins)
	return cc != nil && fn != nil && cc.StaticCallee() == fn
}

// fieldAddr: v == &base.f
func fieldAddr(v ssa.Value) (*types.Var, ssa.Value, bool) {
	fa, ok := v.(*ssa.FieldAddr)
	if !ok {
		return nil, nil, false
	}
	st := derefStruct(fa.X.Type())
	if st == nil {
		return nil, nil, false
	}
	return st.Field(fa.Field), fa.X, true
}

func derefStruct(t types.Type) *types.Struct {
	if p, ok := t.Underlying().(*types.Pointer); ok {
		t = p.Elem()
	}
	st, _ := t.Underlying().(*types.Struct)
	return st
}

// fieldLoad: v == base.f (a load through FieldAddr or a Field of a struct value)
func fieldLoad(v ssa.Value) (*types.Var, ssa.Value, bool) {
	switch x := v.(type) {
	case *ssa.UnOp:
		if x.Op == token.MUL {
			return fieldAddr(x.X)
		}
	case *ssa.Field:
		st, _ := x.X.Type().Underlying().(*types.Struct)
		if st == nil {
			return nil, nil, false
		}
		return st.Field(x.Field), x.X, true
	}
	return nil, nil, false
}

// stripConv removes ChangeType/Convert/ChangeInterface/MakeInterface wrappers.
func stripConv(v ssa.Value) ssa.Value {
	for {
		switch x := v.(type) {
		case *ssa.ChangeType:
			v = x.X
		case *ssa.Convert:
			v = x.X
		case *ssa.ChangeInterface:
			v = x.X
		case *ssa.MakeInterface:
			v = x.X
		default:
			return v
		}
	}
}

// addrRoot walks an address/value back through field/index/slice/load steps
// to the object it is derived from.
func addrRoot(v ssa.Value) ssa.Value {
	for i := 0; i < 64; i++ {
		switch x := v.(type) {
		case *ssa.FieldAddr:
			v = x.X
		case *ssa.IndexAddr:
			v = x.X
		case *ssa.Field:
			v = x.X
		case *ssa.Index:
			v = x.X
		case *ssa.Slice:
			v = x.X
		case *ssa.UnOp:
			if x.Op == token.MUL {
				v = x.X
			} else {
				return v
			}
		case *ssa.ChangeType:
			v = x.X
		case *ssa.Convert:
			v = x.X
		case *ssa.ChangeInterface:
			v = x.X
		case *ssa.MakeInterface:
			v = x.X
		case *ssa.TypeAssert:
			v = x.X
		default:
			return v
		}
	}
	return v
}

// constBool returns the value of a boolean constant.
func constBool(v ssa.Value) (bool, bool) {
	c, ok := v.(*ssa.Const)
	if !ok || c.Value == nil || c.Value.Kind() != constant.Bool {
		return false, false
	}
	return constant.BoolVal(c.Value), true
}

// constInt returns the value of an integer constant.
func constInt(v ssa.Value) (int64, bool) {
	c, ok := stripConv(v).(*ssa.Const)
	if !ok || c.Value == nil {
		return 0, false
	}
	if c.Value.Kind() != constant.Int {
		return 0, false
	}
	i, exact := constant.Int64Val(c.Value)
	return i, exact
}

func isNilConst(v ssa.Value) bool {
	c, ok := v.(*ssa.Const)
	return ok && c.Value == nil
}

// namedOf returns the named type behind (pointers to) t.
func namedOf(t types.Type) *types.Named {
	for {
		switch x := t.(type) {
		case *types.Pointer:
			t = x.Elem()
		case *types.Named:
			return x
		case *types.Alias:
			t = types.Unalias(x)
		default:
			return nil
		}
	}
}

func typeIs(t types.Type, pkgPath, name string) bool {
	n := namedOf(t)
	if n == nil || n.Obj() == nil {
		return false
	}
	pp := ""
	if n.Obj().Pkg() != nil {
		pp = n.Obj().Pkg().Path()
	}
	return pp == pkgPath && n.Obj().Name() == name
}

func modRel(rel string) string {
	if rel == "" {
		return modPath
	}
	return modPath + "/" + rel
}

// instrs iterates over all instructions of fn, including those of function literals that fn
// invokes immediately (`func() {...}()`): they are inline code, and the shape the normalisation
// pre-pass gives an extracted helper that cannot be inlined as plain statements.
func instrs(fn *ssa.Function, f func(ins ssa.Instruction)) {
	if fn == nil {
		return
	}
	for _, b := range fn.Blocks {
		for _, ins := range b.Instrs {
			f(ins)
			if call, ok := ins.(*ssa.Call); ok {
				if callee := call.Call.StaticCallee(); callee != nil && callee.Parent() == fn && callee != fn {
					instrs(callee, f)
				}
			}
		}
	}
}

// withAnons returns fn and all (transitively) nested anonymous functions.
func withAnons(fn *ssa.Function) []*ssa.Function {
	if fn == nil {
		return nil
	}
	out := []*ssa.Function{fn}
	for _, a := range fn.AnonFuncs {
		out = append(out, withAnons(a)...)
	}
	return out
}

// funcArgs returns the functions passed as function-typed arguments
// (closures, named functions, bound methods) at a call.
func funcArgs(cc *ssa.CallCommon) []*ssa.Function {
	var out []*ssa.Function
	for _, a := range cc.Args {
		if f := funcValue(a); f != nil {
			out = append(out, f)
		}
	}
	return out
}

// funcValue resolves a value of function type to the function it denotes when
// that is syntactically evident.
func funcValue(v ssa.Value) *ssa.Function {
	switch x := stripConv(v).(type) {
	case *ssa.MakeClosure:
		if f, ok := x.Fn.(*ssa.Function); ok {
			return f
		}
	case *ssa.Function:
		return x
	}
	return nil
}

// boundTarget returns the method wrapped by a bound-method closure f ("x.M$bound").
func boundTarget(prog *ssa.Program, f *ssa.Function) *ssa.Function {
	if f == nil || !strings.HasSuffix(f.Name(), "$bound") {
		return nil
	}
	for _, b := range f.Blocks {
		for _, ins := range b.Instrs {
			if cc := callCommon(ins); cc != nil {
				if cal := cc.StaticCallee(); cal != nil {
					return cal
				}
			}
		}
	}
	return nil
}

// referrersOf is a nil-safe accessor.
func referrersOf(v ssa.Value) []ssa.Instruction {
	r := v.Referrers()
	if r == nil {
		return nil
	}
	return *r
}

// isDeferredClosureCalling reports whether the Defer instruction defers a
// closure (or function) whose body (transitively through nested directly
// deferred closures) satisfies pred on some instruction.
func deferredFunc(d *ssa.Defer) *ssa.Function {
	if f := d.Call.StaticCallee(); f != nil {
		return f
	}
	return funcValue(d.Call.Value)
}

// callsRecover reports whether fn calls the builtin recover directly.
func callsRecover(fn *ssa.Function) bool {
	found := false
	instrs(fn, func(ins ssa.Instruction) {
		if cc := callCommon(ins); cc != nil {
			if b, ok := cc.Value.(*ssa.Builtin); ok && b.Name() == "recover" {
				found = true
			}
		}
	})
	return found
}

// valueDependsOn performs a backward data-dependence walk from v, calling
// visit on every value reached; visit returns false to stop descending below
// that value. Follows operands, phi edges, and stores into allocs that v loads.
func walkDeps(v ssa.Value, visit func(ssa.Value) bool) {
	seen := map[ssa.Value]bool{}
	var rec func(v ssa.Value)
	rec = func(v ssa.Value) {
		if v == nil || seen[v] {
			return
		}
		seen[v] = true
		if !visit(v) {
			return
		}
		switch x := v.(type) {
		case *ssa.Phi:
			for _, e := range x.Edges {
				rec(e)
			}
			return
		case *ssa.UnOp:
			if x.Op == token.MUL {
				// load: follow stores to the same alloc / address root
				if al, ok := x.X.(*ssa.Alloc); ok {
					for _, r := range referrersOf(al) {
						if st, ok := r.(*ssa.Store); ok && st.Addr == al {
							rec(st.Val)
						}
					}
				}
			}
		}
		if ins, ok := v.(ssa.Instruction); ok {
			for _, op := range ins.Operands(nil) {
				if op != nil && *op != nil {
					rec(*op)
				}
			}
		}
	}
	rec(v)
}

// origin resolves a value through interface/type conversions, loads of
// local cells that are stored exactly once, and closure free variables
// (through the MakeClosure binding in the parent) to the value it denotes.
func origin(v ssa.Value) ssa.Value {
	for i := 0; i < 32; i++ {
		v = stripConv(v)
		switch x := v.(type) {
		case *ssa.UnOp:
			if x.Op != token.MUL {
				return v
			}
			switch a := x.X.(type) {
			case *ssa.Alloc:
				if s := singleStore(a); s != nil {
					v = s
					continue
				}
				return v
			case *ssa.FreeVar:
				b := freeVarBinding(a)
				if al, ok := b.(*ssa.Alloc); ok {
					if s := singleStore(al); s != nil {
						v = s
						continue
					}
				}
				return v
			}
			return v
		case *ssa.FreeVar:
			if b := freeVarBinding(x); b != nil {
				v = b
				continue
			}
			return v
		case *ssa.Parameter:
			if b, ok := paramBinding[x]; ok && b != nil && b != v {
				v = b
				continue
			}
			return v
		default:
			return v
		}
	}
	return v
}

// singleStore returns the only value ever stored to alloc a (looking also at
// stores made inside closures that capture it), or nil.
func singleStore(a *ssa.Alloc) ssa.Value {
	var val ssa.Value
	n := 0
	var visit func(addr ssa.Value, fn *ssa.Function)
	visit = func(addr ssa.Value, fn *ssa.Function) {
		for _, r := range referrersOf(addr) {
			switch x := r.(type) {
			case *ssa.Store:
				if x.Addr == addr {
					n++
					val = x.Val
				}
			case *ssa.MakeClosure:
				cf, _ := x.Fn.(*ssa.Function)
				if cf == nil {
					n += 2
					continue
				}
				for i, b := range x.Bindings {
					if b == addr && i < len(cf.FreeVars) {
						visit(cf.FreeVars[i], cf)
					}
				}
			}
		}
	}
	visit(a, a.Parent())
	if n == 1 {
		return val
	}
	return nil
}

// freeVarBinding returns the value bound to free variable fv at the (unique)
// MakeClosure of its function in the parent.
func freeVarBinding(fv *ssa.FreeVar) ssa.Value {
	fn := fv.Parent()
	if fn == nil || fn.Parent() == nil {
		return nil
	}
	idx := -1
	for i, f := range fn.FreeVars {
		if f == fv {
			idx = i
		}
	}
	if idx < 0 {
		return nil
	}
	var found ssa.Value
	n := 0
	instrs(fn.Parent(), func(ins ssa.Instruction) {
		if mc, ok := ins.(*ssa.MakeClosure); ok && mc.Fn == fn {
			n++
			found = mc.Bindings[idx]
		}
	})
	if n == 1 {
		return found
	}
	return nil
}

// countRule counts, per path, the instructions matching pred (capped at 2).
// prune optionally refines/prunes branch edges. Returns for every Return the
// set of counts reaching it.
type cnt struct {
	N    int
	Flag int
}

func countPaths(fn *ssa.Function, pred func(ssa.Instruction) bool, branch func(s cnt, cond ssa.Value, taken bool) (cnt, bool)) (map[ssa.Instruction][]cnt, int) {
	r := &PathRule[cnt]{Fn: fn, Init: []cnt{{}},
		Transfer: func(s cnt, ins ssa.Instruction) []cnt {
			if pred(ins) {
				if s.N < 2 {
					s.N++
				}
				return []cnt{s}
			}
			return nil
		},
		Branch: branch,
	}
	res := RunPath(r)
	return res.Exits(), res.N
}

// isPtrToNamed: t is exactly *pkg.name.
func isPtrToNamed(t types.Type, pkgPath, name string) bool {
	p, ok := t.(*types.Pointer)
	if !ok {
		return false
	}
	n, ok := types.Unalias(p.Elem()).(*types.Named)
	if !ok || n.Obj().Pkg() == nil {
		return false
	}
	return n.Obj().Pkg().Path() == pkgPath && n.Obj().Name() == name
}

// retValue returns the i-th result of a Return, looking through the
// defer-induced spill (`*t0 = v; rundefers; t = *t0; return t`).
func retValue(ret *ssa.Return, i int) ssa.Value {
	v := ret.Results[i]
	u, ok := v.(*ssa.UnOp)
	if !ok || u.Op != token.MUL {
		return v
	}
	a, ok := u.X.(*ssa.Alloc)
	if !ok {
		return v
	}
	b := ret.Block()
	for k := len(b.Instrs) - 1; k >= 0; k-- {
		if st, ok := b.Instrs[k].(*ssa.Store); ok && st.Addr == a {
			return st.Val
		}
	}
	return v
}

// originDeep is origin() that also looks through the parameters of a helper with a single call
// site (the parameter is the argument of that call), so that a value keeps its identity when a
// block is extracted into a private helper.
func originDeep(v ssa.Value) ssa.Value {
	for i := 0; i < 6; i++ {
		v = origin(v)
		par, ok := v.(*ssa.Parameter)
		if !ok {
			return v
		}
		fn := par.Parent()
		if fn == nil {
			return v
		}
		site := uniqueCallSite(fn)
		if site == nil {
			return v
		}
		moved := false
		for k, q := range fn.Params {
			if q == par && k < len(site.Call.Args) {
				v = site.Call.Args[k]
				moved = true
			}
		}
		if !moved {
			return v
		}
	}
	return v
}
