package main

import (
	"go/types"
	"sort"
	"strings"

	"golang.org/x/tools/go/ssa"
)

// E2 lockset: the abstract state is the set of held mutex *fields* (a lock is
// identified by the *types.Var of the struct field holding the mutex), with
// mode W (Lock) or R (RLock). `defer x.Unlock()` keeps the lock held until
// the function returns.
type lockSet string

func (ls lockSet) with(name string, mode byte) lockSet {
	m := ls.toMap()
	m[name] = mode
	return fromMap(m)
}
func (ls lockSet) without(name string) lockSet {
	m := ls.toMap()
	delete(m, name)
	return fromMap(m)
}
func (ls lockSet) toMap() map[string]byte {
	m := map[string]byte{}
	for _, e := range strings.Split(string(ls), ",") {
		if len(e) > 2 {
			m[e[2:]] = e[0]
		}
	}
	return m
}
func fromMap(m map[string]byte) lockSet {
	var ks []string
	for k, v := range m {
		ks = append(ks, string(v)+":"+k)
	}
	sort.Strings(ks)
	return lockSet(strings.Join(ks, ","))
}

// holds reports whether lock `name` is held (write=true requires W mode).
func (ls lockSet) holds(name string, write bool) bool {
	m, ok := ls.toMap()[name]
	if !ok {
		return false
	}
	return !write || m == 'W'
}

// lockOp recognises mutex operations: returns the lock name (Type.field),
// the operation and whether recognised. Only *ssa.Call instructions change
// the lockset; a deferred unlock is ignored (held until return).
func lockOp(ins ssa.Instruction) (name string, op string, ok bool) {
	call, isCall := ins.(*ssa.Call)
	if !isCall {
		return "", "", false
	}
	n := calleeName(&call.Call)
	switch n {
	case "(*sync.Mutex).Lock", "(*sync.RWMutex).Lock":
		op = "Lock"
	case "(*sync.Mutex).Unlock", "(*sync.RWMutex).Unlock":
		op = "Unlock"
	case "(*sync.RWMutex).RLock":
		op = "RLock"
	case "(*sync.RWMutex).RUnlock":
		op = "RUnlock"
	default:
		return "", "", false
	}
	if len(call.Call.Args) == 0 {
		return "", "", false
	}
	return lockName(call.Call.Args[0]), op, true
}

// lockName names the mutex a receiver expression denotes.
func lockName(v ssa.Value) string {
	if f, base, ok := fieldAddr(v); ok {
		n := namedOf(base.Type())
		if n != nil {
			return n.Obj().Name() + "." + theProgram.baseFieldName(f)
		}
		return f.Name()
	}
	if g, ok := v.(*ssa.Global); ok {
		return "global." + g.Name()
	}
	// pointer-typed mutex field: load of field
	if f, base, ok := fieldLoad(v); ok {
		n := namedOf(base.Type())
		if n != nil {
			return n.Obj().Name() + "." + theProgram.baseFieldName(f)
		}
		return f.Name()
	}
	return "?" + v.String()
}

func lockTransfer(s lockSet, ins ssa.Instruction) (lockSet, bool) {
	name, op, ok := lockOp(ins)
	if !ok {
		return s, false
	}
	switch op {
	case "Lock":
		return s.with(name, 'W'), true
	case "RLock":
		return s.with(name, 'R'), true
	default:
		return s.without(name), true
	}
}

// locksAt runs the lockset analysis on fn (entry lockset `entry`) and calls
// visit with the lockset before every instruction.
func locksAt(fn *ssa.Function, entry lockSet, visit func(ins ssa.Instruction, held lockSet)) int {
	r := &PathRule[lockSet]{Fn: fn, Init: []lockSet{entry},
		Transfer: func(s lockSet, ins ssa.Instruction) []lockSet {
			if ns, ok := lockTransfer(s, ins); ok {
				return []lockSet{ns}
			}
			return nil
		}}
	res := RunPath(r)
	res.Visit(visit)
	return res.N
}

var _ = types.Typ
