package main

import (
	"fmt"
	"go/token"
	"go/types"
	"strings"

	"golang.org/x/tools/go/ssa"
)

func init() {
	register(&PropertyDef{
		ID: "C13",
		Explanation: "Static lockset analysis of every writer of a shared connection. Decided: (1) R-WRITE-LOCKED - every use of rtsp.Session.conn / .wsconn, wsp.Session.dataChannel and PullClient.conn in a writing role (receiver of Write/Flush, or passed as the io.Writer of Response/Request/Packet.Write) happens with that object's write mutex held; for the TCP path the message write and the following Flush are in the same critical section; (2) R-ONE-WS-WRITE - on WebSocket paths each critical section performs exactly one WebSocket write whose argument is the Bytes() of a buffer that was reset and then received one complete response/frame (no second source, no split into prefix and body); (3) R-BUFFERED-ORDER - in the buffered connection caller data is written directly to the socket only on paths where the pending buffer is known empty (or was just flushed), and the package starts no goroutine, so buffered and direct bytes cannot be reordered; (4) R-FRAME-TWO-WRITES-ONE-SECTION - Packet.Write's prefix and payload writes go to the same writer and callers wrap the whole call in the lock.",
		NotDecided: "The kernel's behaviour for partial writes; that an unsubscribed channel produces an empty WebSocket message (value-level).",
		Rules: []*RuleDoc{
			{Name: "R-WRITE-LOCKED", Text: "Every writing use of a session connection holds that session's write lock; response write and flush share one critical section.", Run: ruleWriteLocked},
			{Name: "R-ONE-WS-WRITE", Text: "Each WebSocket critical section contains exactly one write of the Bytes() of a freshly reset buffer that received one complete message.", Run: ruleOneWSWrite},
			{Name: "R-BUFFERED-ORDER", Text: "buffered.Conn writes caller data directly to the socket only when the buffer is known empty; the package starts no goroutine.", Run: ruleBufferedOrder},
		},
	})
	addMutants(
		&Mutant{Prop: "C13", Name: "c13-flush-outside-lock", File: "service/rtsp/session.go",
			Old: "\t\terr = resp.Write(s.conn)\n\t\tif err == nil {\n\t\t\t_, err = s.conn.Flush()\n\t\t}\n\t}\n\n\ts.lockW.Unlock()", New: "\t\terr = resp.Write(s.conn)\n\t}\n\n\ts.lockW.Unlock()\n\tif err == nil && s.wsconn == nil {\n\t\t_, err = s.conn.Flush()\n\t}", Expect: "R-WRITE-LOCKED"},
		&Mutant{Prop: "C13", Name: "c13-consume-unlocked", File: "service/rtsp/session_roles.go",
			Old: "\t\tc.lockW.Lock()\n\t\terr = p2.Write(c.conn, c.transport.Channels[:])\n\t\tc.lockW.Unlock()", New: "\t\terr = p2.Write(c.conn, c.transport.Channels[:])", Expect: "R-WRITE-LOCKED"},
		&Mutant{Prop: "C13", Name: "c13-ws-two-messages", File: "service/rtsp/session_roles.go",
			Old: "\t\tc.lockW.Lock()\n\t\t_, err = c.wsconn.Write(buf.Bytes())\n\t\tc.lockW.Unlock()", New: "\t\tc.lockW.Lock()\n\t\t_, err = c.wsconn.Write(buf.Bytes()[:4])\n\t\t_, err = c.wsconn.Write(buf.Bytes()[4:])\n\t\tc.lockW.Unlock()", Expect: "R-ONE-WS-WRITE"},
		&Mutant{Prop: "C13", Name: "c13-wsp-data-unlocked", File: "service/wsp/session.go",
			Old: "\tvar err error\n\ts.lockW.Lock()\n\tif s.dataChannel != nil {\n\t\t_, err = s.dataChannel.Write(buf.Bytes())\n\t}\n\ts.lockW.Unlock()", New: "\tvar err error\n\tif s.dataChannel != nil {\n\t\t_, err = s.dataChannel.Write(buf.Bytes())\n\t}", Expect: "R-WRITE-LOCKED"},
		&Mutant{Prop: "C13", Name: "c13-buffered-direct-nonempty", File: "network/socket/buffered/conn.go",
			Old: "\t\tif m.Buffered() == 0 {\n\t\t\t// Large write, empty buffer.", New: "\t\tif m.Buffered() == 0 || len(p) > 4*m.bufferSize {\n\t\t\t// Large write, empty buffer.", Expect: "R-BUFFERED-ORDER"},
		&Mutant{Prop: "C13", Name: "c13-pull-keepalive-unlocked", File: "service/rtsp/pull_client.go",
			Old: "\tc.lockW.Lock()\n\terr := req.Write(c.conn)", New: "\terr := req.Write(c.conn)\n\tc.lockW.Lock()", Expect: "R-WRITE-LOCKED"},
		&Mutant{Prop: "C13", Name: "c13-ws-buffer-not-reset", File: "service/wsp/session.go",
			Old: "\tbuf := buffers.Get().(*bytes.Buffer)\n\tbuf.Reset()\n\tdefer buffers.Put(buf)\n\tp2 := p.(*rtsp.RTPPack)", New: "\tbuf := buffers.Get().(*bytes.Buffer)\n\tdefer buffers.Put(buf)\n\tp2 := p.(*rtsp.RTPPack)", Expect: "R-ONE-WS-WRITE"},
	)
}

type guardedRes struct {
	rel, typ, field, lock string
}

var guardedResources = []guardedRes{
	{"service/rtsp", "Session", "conn", "Session.lockW"},
	{"service/rtsp", "Session", "wsconn", "Session.lockW"},
	{"service/wsp", "Session", "dataChannel", "Session.lockW"},
	{"service/rtsp", "PullClient", "conn", "PullClient.lockW"},
}

// writingUses lists instructions that use value v (a loaded connection) in a writing role.
func writingUses(v ssa.Value) []ssa.Instruction {
	var out []ssa.Instruction
	seen := map[ssa.Value]bool{}
	var rec func(v ssa.Value)
	rec = func(v ssa.Value) {
		if seen[v] {
			return
		}
		seen[v] = true
		for _, r := range referrersOf(v) {
			switch x := r.(type) {
			case *ssa.MakeInterface:
				rec(x)
			case *ssa.ChangeInterface:
				rec(x)
			case *ssa.Call, *ssa.Defer, *ssa.Go:
				cc := callCommon(r)
				name := ""
				if cc.IsInvoke() {
					name = cc.Method.Name()
					if cc.Value == v && isWriteMethod(name) {
						out = append(out, r)
						continue
					}
				} else if cal := cc.StaticCallee(); cal != nil {
					name = cal.Name()
					if len(cc.Args) > 0 && cc.Args[0] == v && cal.Signature.Recv() != nil && isWriteMethod(name) {
						out = append(out, r)
						continue
					}
				}
				// passed as an io.Writer argument
				args := cc.Args
				for i, a := range args {
					if a != v {
						continue
					}
					if isWriterParam(cc, i) {
						out = append(out, r)
					}
				}
			}
		}
	}
	rec(v)
	return out
}

func isWriteMethod(n string) bool {
	switch n {
	case "Write", "Flush", "WriteString", "WriteByte", "ReadFrom", "WriteMessage", "WriteTo":
		return true
	}
	return false
}

func isWriterParam(cc *ssa.CallCommon, argIdx int) bool {
	var sig *types.Signature
	if cc.IsInvoke() {
		sig, _ = cc.Method.Type().(*types.Signature)
	} else {
		sig = cc.Signature()
		if sig != nil && sig.Recv() != nil {
			argIdx-- // receiver is Args[0] for static method calls
		}
	}
	if sig == nil || argIdx < 0 || argIdx >= sig.Params().Len() {
		return false
	}
	return sig.Params().At(argIdx).Type().String() == "io.Writer"
}

func ruleWriteLocked(c *Ctx) {
	p := c.P
	total := 0
	for _, g := range guardedResources {
		fv := p.FieldVar(g.rel, g.typ, g.field)
		if fv == nil {
			c.Lost(g.rel+"."+g.typ+"."+g.field, "field not found")
			continue
		}
		n := 0
		for _, fn := range p.ModFuncs() {
			var uses []ssa.Instruction
			instrs(fn, func(ins ssa.Instruction) {
				u, ok := ins.(*ssa.UnOp)
				if !ok {
					return
				}
				if f, _, ok := fieldLoad(u); !ok || f != fv {
					return
				}
				uses = append(uses, writingUses(u)...)
			})
			if len(uses) == 0 {
				continue
			}
			c.touched(fname(fn))
			isUse := map[ssa.Instruction]bool{}
			for _, u := range uses {
				isUse[u] = true
			}
			// lockset + critical-section id: count of lock acquisitions so far (to relate write and flush)
			type ls struct {
				Held lockSet
				Sec  int8
			}
			r := &PathRule[ls]{Fn: fn, Init: []ls{{}},
				Transfer: func(s ls, ins ssa.Instruction) []ls {
					if ns, ok := lockTransfer(s.Held, ins); ok {
						_, op, _ := lockOp(ins)
						s.Held = ns
						if op == "Lock" && s.Sec < 9 {
							s.Sec++
						}
						return []ls{s}
					}
					return nil
				}}
			res := RunPath(r)
			c.paths += res.N
			bad := map[ssa.Instruction]bool{}
			secOf := map[ssa.Instruction]map[int8]bool{}
			res.Visit(func(ins ssa.Instruction, s ls) {
				if !isUse[ins] {
					return
				}
				if !s.Held.holds(g.lock, true) {
					bad[ins] = true
				}
				if secOf[ins] == nil {
					secOf[ins] = map[int8]bool{}
				}
				secOf[ins][s.Sec] = true
			})
			for _, u := range uses {
				n++
				total++
				c.sites++
				key := fmt.Sprintf("write-locked:%s.%s@%s", g.typ, g.field, fname(fn))
				if bad[u] {
					c.Bad(key, p.InstrPos(u), "the connection "+g.typ+"."+g.field+" is written without holding "+g.lock+": a concurrent writer on the same connection (media delivery vs. request handling) can splice its bytes into this message")
				} else {
					c.OK(key+"#"+p.InstrPos(u), p.InstrPos(u), "written under "+g.lock)
				}
			}
			// message write and Flush in the same critical section
			var flushes, msgWrites []ssa.Instruction
			for _, u := range uses {
				cc := callCommon(u)
				nm := ""
				if cc.IsInvoke() {
					nm = cc.Method.Name()
				} else if cc.StaticCallee() != nil {
					nm = baseFuncName(cc.StaticCallee())
				}
				if nm == "Flush" {
					flushes = append(flushes, u)
				} else {
					msgWrites = append(msgWrites, u)
				}
			}
			for _, fl := range flushes {
				same := false
				for _, w := range msgWrites {
					if dominatesInstr(w, fl) {
						for s := range secOf[fl] {
							if secOf[w][s] && len(secOf[fl]) == 1 && len(secOf[w]) == 1 {
								same = true
							}
						}
					}
				}
				if len(msgWrites) > 0 {
					c.Decide(same, fmt.Sprintf("write-flush-one-section:%s@%s", g.typ, fname(fn)), p.InstrPos(fl), "message write and flush share one critical section", "the message is written in one critical section and flushed in another (or outside): an interleaved frame can be spliced between the buffered response and its flush")
				}
			}
		}
		c.Floor("writing uses of "+g.typ+"."+g.field, n, 1)
	}
	c.Floor("writing uses of guarded connections", total, 8)
}

func ruleOneWSWrite(c *Ctx) {
	p := c.P
	type site struct{ rel, fn, field string }
	for _, s := range []site{{"service/rtsp", "(*tcpConsumer).Consume", "wsconn"}, {"service/rtsp", "(*Session).response", "wsconn"}, {"service/wsp", "(*Session).Consume", "dataChannel"}} {
		fn := p.Func(s.rel, s.fn)
		if fn == nil {
			c.Lost(s.rel+"."+s.fn, "not found")
			continue
		}
		c.touched(fname(fn))
		isWS := func(ins ssa.Instruction) (*ssa.CallCommon, bool) {
			cc := callCommon(ins)
			if cc == nil || !cc.IsInvoke() || cc.Method.Name() != "Write" {
				return nil, false
			}
			f, _, ok := fieldLoad(cc.Value)
			return cc, ok && f.Name() == s.field
		}
		// per path: number of ws writes (within the function = within its single critical section)
		ex, n := countPaths(fn, func(i ssa.Instruction) bool { _, ok := isWS(i); return ok }, nil)
		c.paths += n
		okN := true
		for _, sts := range ex {
			for _, st := range sts {
				if st.N > 1 {
					okN = false
				}
			}
		}
		key := "one-ws-write:" + fname(fn)
		c.Decide(okN, key, p.Pos(fn.Pos()), "at most one WebSocket write per message", "a path performs more than one WebSocket write for one response/frame: the client receives a message that is not exactly one complete response or interleaved frame")
		// the argument: Bytes() of a buffer that was Reset and then filled by exactly one X.Write(buf, ...)
		found := false
		instrs(fn, func(ins ssa.Instruction) {
			cc, ok := isWS(ins)
			if !ok {
				return
			}
			found = true
			bc, isCall := cc.Args[0].(*ssa.Call)
			if !isCall || calleeName(&bc.Call) != "(*bytes.Buffer).Bytes" {
				c.Bad(key+":whole-buffer", p.InstrPos(ins), "the WebSocket message is not the whole assembled buffer (Bytes()): only part of the response/frame is sent in this message")
				return
			}
			buf := bc.Call.Args[0]
			var reset ssa.Instruction
			fills := 0
			instrs(fn, func(i2 ssa.Instruction) {
				c2 := callCommon(i2)
				if c2 == nil {
					return
				}
				n2 := calleeName(c2)
				if n2 == "(*bytes.Buffer).Reset" && c2.Args[0] == buf && dominatesInstr(i2, ins) {
					reset = i2
				}
				// a fill: call passing buf as io.Writer, or buf.Write*
				for i, a := range c2.Args {
					if stripConv(a) == buf && isWriterParam(c2, i) && dominatesInstr(i2, ins) {
						fills++
					}
				}
				if strings.HasPrefix(n2, "(*bytes.Buffer).Write") && c2.Args[0] == buf {
					fills += 2 // manual assembly from several sources is not recognised
				}
			})
			c.Decide(reset != nil && fills == 1, key+":assembled", p.InstrPos(ins), "buffer reset, filled with one complete message, sent whole", fmt.Sprintf("the buffer sent as one WebSocket message is not (reset, then filled by exactly one message serialisation): reset=%v fills=%d - stale bytes from the pool or several messages would share a WebSocket message", reset != nil, fills))
		})
		if !found {
			c.Lost(key+":ws-write", "no WebSocket write found")
		}
	}
}

func ruleBufferedOrder(c *Ctx) {
	p := c.P
	w := p.Func("network/socket/buffered", "(*Conn).Write")
	if w == nil {
		c.Lost("buffered.Conn.Write", "not found")
		return
	}
	c.touched(fname(w))
	// no goroutines in the package
	nogo := true
	for _, fn := range p.FuncsInPkg("network/socket/buffered") {
		instrs(fn, func(ins ssa.Instruction) {
			if _, ok := ins.(*ssa.Go); ok {
				nogo = false
				c.Bad("buffered:no-goroutine", p.InstrPos(ins), "the buffered connection starts a goroutine: a background flusher can reorder or interleave bytes with direct writes")
			}
		})
	}
	if nogo {
		c.OK("buffered:no-goroutine", "", "no goroutine started in package buffered")
	}
	param := w.Params[1]
	derivedFromParam := func(v ssa.Value) bool {
		found := false
		walkDeps(v, func(x ssa.Value) bool {
			if x == ssa.Value(param) {
				found = true
			}
			return !found
		})
		return found
	}
	isBufferedCall := func(v ssa.Value) bool {
		call, ok := v.(*ssa.Call)
		return ok && call.Call.StaticCallee() != nil && baseFuncName(call.Call.StaticCallee()) == "Buffered"
	}
	// state: 0 unknown, 1 buffer known empty, 2 known non-empty
	r := &PathRule[int8]{Fn: w, Init: []int8{0},
		Transfer: func(s int8, ins ssa.Instruction) []int8 {
			cc := callCommon(ins)
			if cc == nil {
				return nil
			}
			n := calleeName(cc)
			if cc.StaticCallee() != nil && baseFuncName(cc.StaticCallee()) == "Flush" {
				return []int8{1}
			}
			if n == "(*bytes.Buffer).Write" {
				return []int8{2}
			}
			return nil
		},
		Branch: func(s int8, cond ssa.Value, taken bool) (int8, bool) {
			b, ok := cond.(*ssa.BinOp)
			if !ok || !isBufferedCall(b.X) {
				return s, true
			}
			k, isc := evalInt(b.Y)
			if !isc || k != 0 {
				return s, true
			}
			switch b.Op {
			case token.EQL:
				if taken {
					return 1, true
				}
				return 2, true
			case token.GTR, token.NEQ:
				if taken {
					return 2, true
				}
				return 1, true
			}
			return s, true
		}}
	res := RunPath(r)
	c.paths += res.N
	ok, n := true, 0
	res.Visit(func(ins ssa.Instruction, s int8) {
		cc := callCommon(ins)
		if cc == nil {
			return
		}
		direct := false
		if cc.IsInvoke() && cc.Method.Name() == "Write" {
			if f, _, okf := fieldLoad(cc.Value); okf && theProgram.baseFieldName(f) == "socket" && derivedFromParam(cc.Args[0]) {
				direct = true
			}
		}
		if cal := cc.StaticCallee(); cal != nil && cal.Name() == "writeFull" && derivedFromParam(cc.Args[1]) {
			direct = true
		}
		if !direct {
			return
		}
		n++
		if s != 1 {
			ok = false
			c.Bad("buffered:direct-write-when-empty", p.InstrPos(ins), "caller data is written directly to the socket on a path where the pending buffer is not known to be empty: bytes buffered earlier (a response) would be overtaken by later bytes (a frame)")
		}
	})
	if n == 0 {
		c.Lost("buffered:direct-writes", "no direct socket write of caller data found")
	} else if ok {
		c.OK("buffered:direct-write-when-empty", p.Pos(w.Pos()), fmt.Sprintf("%d direct writes, all on buffer-empty paths", n))
	}
}
