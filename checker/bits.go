package main

import (
	"fmt"
	"go/token"
	"go/types"
	"sort"
	"strings"

	"golang.org/x/tools/go/ssa"
)

// E9 bit provenance: abstract interpretation of shift/mask/or byte code. Every
// value is a vector of 64 symbolic bits; a bit is the constant 0 or 1, bit i
// of a named input, or unknown. Stores into byte arrays (directly, through
// binary.BigEndian.PutUintNN, or through a moving `*pos` cursor) are recorded,
// so the layout a writer produces can be compared bit by bit with a
// specification or fed into the matching reader (composition must be the
// identity on the transported field). No execution, no solver: transfer
// functions for constants, conversions, <<, >>, &, |, ^ and carry-free +.

type sbit struct {
	K   uint8  // 0 zero, 1 one, 2 input, 3 unknown
	Src string // input name
	Idx uint8
}

type bv [64]sbit

func (b sbit) String() string {
	switch b.K {
	case 0:
		return "0"
	case 1:
		return "1"
	case 2:
		return fmt.Sprintf("%s[%d]", b.Src, b.Idx)
	}
	return "?"
}

func bvConst(k uint64) bv {
	var r bv
	for i := 0; i < 64; i++ {
		if k>>uint(i)&1 == 1 {
			r[i] = sbit{K: 1}
		}
	}
	return r
}

func bvInput(name string, width int, signed bool) bv {
	var r bv
	for i := 0; i < width && i < 64; i++ {
		r[i] = sbit{K: 2, Src: name, Idx: uint8(i)}
	}
	if signed && width > 0 {
		for i := width; i < 64; i++ {
			r[i] = r[width-1]
		}
	}
	return r
}

func bvUnknown() bv {
	var r bv
	for i := range r {
		r[i] = sbit{K: 3}
	}
	return r
}

func typeWidth(t types.Type) (int, bool) { // (bits, signed)
	b, ok := t.Underlying().(*types.Basic)
	if !ok {
		return 64, false
	}
	switch b.Kind() {
	case types.Int8:
		return 8, true
	case types.Int16:
		return 16, true
	case types.Int32:
		return 32, true
	case types.Int64, types.Int:
		return 64, true
	case types.Uint8:
		return 8, false
	case types.Uint16:
		return 16, false
	case types.Uint32:
		return 32, false
	case types.Uint64, types.Uint, types.Uintptr:
		return 64, false
	case types.UntypedInt:
		return 64, true
	}
	return 64, false
}

// fit truncates v to the width of t and extends per signedness.
func fit(v bv, t types.Type) bv {
	w, signed := typeWidth(t)
	if w >= 64 {
		return v
	}
	for i := w; i < 64; i++ {
		if signed {
			v[i] = v[w-1]
		} else {
			v[i] = sbit{}
		}
	}
	return v
}

func andBit(a, b sbit) sbit {
	switch {
	case a.K == 0 || b.K == 0:
		return sbit{}
	case a.K == 1:
		return b
	case b.K == 1:
		return a
	case a == b:
		return a
	}
	return sbit{K: 3}
}

func orBit(a, b sbit) sbit {
	switch {
	case a.K == 1 || b.K == 1:
		return sbit{K: 1}
	case a.K == 0:
		return b
	case b.K == 0:
		return a
	case a == b:
		return a
	}
	return sbit{K: 3}
}

func xorBit(a, b sbit) sbit {
	switch {
	case a.K == 0:
		return b
	case b.K == 0:
		return a
	case a.K == 1 && b.K == 1:
		return sbit{}
	case a == b && a.K == 2:
		return sbit{}
	}
	return sbit{K: 3}
}

type bitEval struct {
	p      *Program
	fn     *ssa.Function
	memo   map[ssa.Value]bv
	arrays map[ssa.Value]map[int64]bv // array root (Alloc / Parameter) -> byte index -> 8-bit value
	alias  map[ssa.Value]ssa.Value   // alloc holding a copy of an array value -> the source root
	cursor map[ssa.Value]int64        // *int cursor parameter -> increments so far
	curAt  map[ssa.Value]int64        // load of a cursor -> its delta at that point
	names  map[ssa.Value]string       // input names for opaque values
	fields map[string]bv              // value stored to field <name> (last store in an unconditional block)
	rets   []bv
	uncond map[*ssa.BasicBlock]bool
	env    map[string]int64 // assumed constants for named fields / parameters (runPath)
	depth  int
	phiBool map[*ssa.Phi]bool
}

func newBitEval(p *Program, fn *ssa.Function) *bitEval {
	e := &bitEval{p: p, fn: fn, memo: map[ssa.Value]bv{}, arrays: map[ssa.Value]map[int64]bv{}, alias: map[ssa.Value]ssa.Value{},
		cursor: map[ssa.Value]int64{}, curAt: map[ssa.Value]int64{}, names: map[ssa.Value]string{}, fields: map[string]bv{}, uncond: map[*ssa.BasicBlock]bool{}}
	// unconditional blocks: dominate every block that returns
	var retBlocks []*ssa.BasicBlock
	for _, b := range fn.Blocks {
		for _, ins := range b.Instrs {
			if _, ok := ins.(*ssa.Return); ok {
				retBlocks = append(retBlocks, b)
			}
		}
	}
	// success returns: those whose error result (if the function has one) is the nil constant
	hasErr := false
	if res := fn.Signature.Results(); res.Len() > 0 && res.At(res.Len()-1).Type().String() == "error" {
		hasErr = true
	}
	var okRets []*ssa.BasicBlock
	for _, rb := range retBlocks {
		if rb.Comment == "recover" {
			continue
		}
		if !hasErr {
			okRets = append(okRets, rb)
			continue
		}
		for _, ins := range rb.Instrs {
			if ret, ok := ins.(*ssa.Return); ok && isNilConst(retValue(ret, len(ret.Results)-1)) {
				okRets = append(okRets, rb)
			}
		}
	}
	if len(okRets) == 0 {
		okRets = retBlocks
	}
	for _, b := range fn.Blocks {
		all := len(okRets) > 0
		for _, rb := range okRets {
			if !(b == rb || b.Dominates(rb)) {
				all = false
			}
		}
		e.uncond[b] = all
	}
	return e
}

// name gives an input name to an opaque value.
func (e *bitEval) name(v ssa.Value) string {
	if n, ok := e.names[v]; ok {
		return n
	}
	n := ""
	switch x := v.(type) {
	case *ssa.Parameter:
		n = x.Name()
	case *ssa.Phi:
		n = x.Comment
		if n == "" {
			n = x.Name()
		}
	default:
		if f, base, ok := fieldLoad(v); ok {
			bn := "?"
			if b0 := origin(addrRoot(base)); b0 != nil {
				if par, ok := b0.(*ssa.Parameter); ok {
					bn = par.Name()
				}
			}
			n = bn + "." + f.Name()
		} else if call, ok := v.(*ssa.Call); ok {
			cn := shortCallee(&call.Call)
			if cn == "len" && len(call.Call.Args) == 1 {
				n = "len(" + e.name(call.Call.Args[0]) + ")"
			} else {
				n = "call:" + cn
			}
		} else {
			n = v.Name()
		}
	}
	e.names[v] = n
	return n
}

func (e *bitEval) root(v ssa.Value) ssa.Value {
	for i := 0; i < 8; i++ {
		if a, ok := e.alias[v]; ok {
			v = a
			continue
		}
		break
	}
	return v
}

func (e *bitEval) arr(root ssa.Value) map[int64]bv {
	root = e.root(root)
	m := e.arrays[root]
	if m == nil {
		m = map[int64]bv{}
		e.arrays[root] = m
	}
	return m
}

// readByte returns the current content of array byte i (an input if never written).
func (e *bitEval) readByte(root ssa.Value, i int64) bv {
	root = e.root(root)
	if m := e.arrays[root]; m != nil {
		if v, ok := m[i]; ok {
			return v
		}
	}
	return bvInput(fmt.Sprintf("%s#%d", e.name(root), i), 8, false)
}

// index evaluates an array index: a constant, or cursor+delta (returned with base=true).
func (e *bitEval) index(idx ssa.Value) (int64, bool) {
	if k, ok := evalInt(idx); ok {
		return k, true
	}
	if d, ok := e.curAt[idx]; ok {
		return d, true
	}
	if e.env != nil {
		if k, ok := constOf(e.eval(idx), idx.Type()); ok {
			return k, true
		}
	}
	return 0, false
}

// callResults evaluates a module callee under the same assumed configuration.
func (e *bitEval) callResults(call *ssa.Call) ([]bv, bool) {
	cal := call.Call.StaticCallee()
	if cal == nil || e.env == nil || !e.p.InModule(cal) || len(cal.Blocks) == 0 || e.depth > 2 {
		return nil, false
	}
	sub := newBitEval(e.p, cal)
	sub.depth = e.depth + 1
	if !sub.runPath(e.env) {
		return nil, false
	}
	return sub.rets, len(sub.rets) > 0
}

func (e *bitEval) eval(v ssa.Value) bv {
	if r, ok := e.memo[v]; ok {
		return r
	}
	r := e.eval1(v)
	e.memo[v] = r
	return r
}

func (e *bitEval) eval1(v ssa.Value) bv {
	switch x := v.(type) {
	case *ssa.Const:
		if k, ok := constInt(x); ok {
			return fit(bvConst(uint64(k)), x.Type())
		}
		return bvUnknown()
	case *ssa.Convert:
		return fit(e.eval(x.X), x.Type())
	case *ssa.ChangeType:
		return e.eval(x.X)
	case *ssa.BinOp:
		a, b := e.eval(x.X), e.eval(x.Y)
		var r bv
		switch x.Op {
		case token.AND:
			for i := range r {
				r[i] = andBit(a[i], b[i])
			}
		case token.OR:
			for i := range r {
				r[i] = orBit(a[i], b[i])
			}
		case token.XOR:
			for i := range r {
				r[i] = xorBit(a[i], b[i])
			}
		case token.AND_NOT:
			for i := range r {
				nb := sbit{K: 3}
				if b[i].K == 0 {
					nb = sbit{K: 1}
				} else if b[i].K == 1 {
					nb = sbit{}
				}
				r[i] = andBit(a[i], nb)
			}
		case token.SHL:
			k, ok := evalInt(x.Y)
			if !ok || k < 0 || k > 63 {
				return bvUnknown()
			}
			for i := 63; i >= int(k); i-- {
				r[i] = a[i-int(k)]
			}
		case token.SHR:
			k, ok := evalInt(x.Y)
			if !ok || k < 0 || k > 63 {
				return bvUnknown()
			}
			_, signed := typeWidth(x.X.Type())
			for i := 0; i < 64; i++ {
				if i+int(k) < 64 {
					r[i] = a[i+int(k)]
				} else if signed {
					r[i] = a[63]
				}
			}
		case token.ADD:
			// carry-free addition is OR; constants fold
			ka, oka := evalInt(x.X)
			kb, okb := evalInt(x.Y)
			if oka && okb {
				return fit(bvConst(uint64(ka+kb)), x.Type())
			}
			free := true
			for i := range r {
				if a[i].K != 0 && b[i].K != 0 {
					free = false
				}
			}
			if !free {
				// opaque sum: a fresh input
				w, s := typeWidth(x.Type())
				return bvInput(e.name(x), w, s)
			}
			for i := range r {
				r[i] = orBit(a[i], b[i])
			}
		case token.SUB, token.MUL, token.QUO, token.REM:
			ka, oka := constOf(a, x.X.Type())
			kb, okb := constOf(b, x.Y.Type())
			if oka && okb {
				switch x.Op {
				case token.SUB:
					return fit(bvConst(uint64(ka-kb)), x.Type())
				case token.MUL:
					return fit(bvConst(uint64(ka*kb)), x.Type())
				}
			}
			w, s := typeWidth(x.Type())
			return bvInput(e.name(x), w, s)
		default:
			return bvUnknown()
		}
		return fit(r, x.Type())
	case *ssa.UnOp:
		if x.Op == token.MUL {
			// load: array element, cursor, or opaque field/cell
			if ia, ok := x.X.(*ssa.IndexAddr); ok {
				_, isArr := ia.X.Type().Underlying().(*types.Pointer)
				if _, isMk := ia.X.(*ssa.MakeSlice); isMk {
					isArr = true
				}
				if i, ok := e.index(ia.Index); ok && isArr {
					return e.readByte(e.arrayRootOf(ia.X), i)
				}
				// element of a slice / variable index: an opaque input
				w, s := typeWidth(x.Type())
				return bvInput(e.name(x), w, s)
			}
			if _, isCur := e.cursor[x.X]; isCur {
				return bvUnknown() // cursor values are only used as indices
			}
			if al, ok := x.X.(*ssa.Alloc); ok {
				if s := singleStoreDirect(al); s != nil {
					return e.eval(s)
				}
			}
			// a field that was stored earlier in this run yields the stored value (tag.DataSize = ...; tag.DataSize >>= 8)
			if f, _, ok := fieldAddr(x.X); ok {
				if v, ok := e.fields[f.Name()]; ok {
					return v
				}
				if k, ok := e.env[f.Name()]; ok {
					return fit(bvConst(uint64(k)), x.Type())
				}
			}
			w, s := typeWidth(x.Type())
			return bvInput(e.name(x), w, s)
		}
		if x.Op == token.XOR { // bitwise complement
			a := e.eval(x.X)
			var r bv
			for i := range r {
				switch a[i].K {
				case 0:
					r[i] = sbit{K: 1}
				case 1:
					r[i] = sbit{}
				default:
					r[i] = sbit{K: 3}
				}
			}
			return fit(r, x.Type())
		}
		return bvUnknown()
	case *ssa.Index: // element of an array value
		if i, ok := e.index(x.Index); ok {
			return e.readByte(e.arrayRootOf(x.X), i)
		}
		return bvUnknown()
	case *ssa.Call:
		n := calleeName(&x.Call)
		switch {
		case strings.HasSuffix(n, "binary.bigEndian).Uint16"), strings.HasSuffix(n, "binary.bigEndian).Uint32"), strings.HasSuffix(n, "binary.bigEndian).Uint64"):
			nb := map[string]int{"16": 2, "32": 4, "64": 8}[n[len(n)-2:]]
			root, lo, ok := e.sliceOf(x.Call.Args[1])
			if !ok {
				return bvUnknown()
			}
			var r bv
			for k := 0; k < nb; k++ {
				by := e.readByte(root, lo+int64(k))
				sh := (nb - 1 - k) * 8
				for i := 0; i < 8; i++ {
					r[sh+i] = by[i]
				}
			}
			return r
		}
		if rs, ok := e.callResults(x); ok && len(rs) == 1 {
			return rs[0]
		}
		w, s := typeWidth(x.Type())
		return bvInput(e.name(x), w, s)
	case *ssa.Parameter, *ssa.Phi, *ssa.Extract, *ssa.Field, *ssa.Lookup, *ssa.TypeAssert, *ssa.FreeVar:
		if ex, ok := v.(*ssa.Extract); ok {
			if call, ok := ex.Tuple.(*ssa.Call); ok {
				if rs, ok := e.callResults(call); ok && ex.Index < len(rs) {
					return rs[ex.Index]
				}
			}
		}
		if par, ok := v.(*ssa.Parameter); ok {
			if k, ok := e.env[par.Name()]; ok {
				return fit(bvConst(uint64(k)), par.Type())
			}
		}
		w, s := typeWidth(v.Type())
		return bvInput(e.name(v), w, s)
	}
	return bvUnknown()
}

// arrayRootOf resolves the array object behind an address / value.
func (e *bitEval) arrayRootOf(v ssa.Value) ssa.Value {
	for i := 0; i < 8; i++ {
		switch x := v.(type) {
		case *ssa.UnOp:
			if x.Op == token.MUL {
				v = x.X
				continue
			}
		case *ssa.Slice:
			v = x.X
			continue
		}
		break
	}
	return e.root(v)
}

// sliceOf resolves arr[lo:] to (array root, lo).
func (e *bitEval) sliceOf(v ssa.Value) (ssa.Value, int64, bool) {
	sl, ok := v.(*ssa.Slice)
	if !ok {
		return nil, 0, false
	}
	lo := int64(0)
	if sl.Low != nil {
		k, ok := e.index(sl.Low)
		if !ok {
			return nil, 0, false
		}
		lo = k
	}
	return e.arrayRootOf(sl.X), lo, true
}

// run interprets the unconditional blocks of fn in dominance order.
func (e *bitEval) run() {
	var order []*ssa.BasicBlock
	for _, b := range e.fn.DomPreorder() {
		if e.uncond[b] {
			order = append(order, b)
		}
	}
	for _, b := range order {
		for _, ins := range b.Instrs {
			e.step(ins)
		}
	}
}

func (e *bitEval) step(ins ssa.Instruction) {
	switch x := ins.(type) {
	case *ssa.UnOp:
		if x.Op == token.MUL {
			if _, isCur := e.cursor[x.X]; isCur {
				e.curAt[x] = e.cursor[x.X]
			}
		}
	case *ssa.BinOp:
		// cursor arithmetic: t = *pos + k keeps a delta
		if x.Op == token.ADD {
			if d, ok := e.curAt[x.X]; ok {
				if k, ok := evalInt(x.Y); ok {
					e.curAt[x] = d + k
				}
			}
		}
		if x.Op == token.SUB {
			if d, ok := e.curAt[x.X]; ok {
				if k, ok := evalInt(x.Y); ok {
					e.curAt[x] = d - k
				}
			}
		}
	case *ssa.Store:
		// whole-array copy into a local (array value parameter spilled)
		if al, ok := x.Addr.(*ssa.Alloc); ok {
			if _, isArr := al.Type().(*types.Pointer).Elem().Underlying().(*types.Array); isArr {
				switch src := x.Val.(type) {
				case *ssa.Parameter:
					e.alias[al] = src
					return
				case *ssa.UnOp:
					if src.Op == token.MUL {
						e.alias[al] = e.arrayRootOf(src.X)
						return
					}
				}
			}
		}
		if _, isCur := e.cursor[x.Addr]; isCur {
			if d, ok := e.curAt[x.Val]; ok {
				e.cursor[x.Addr] = d
			}
			return
		}
		if ia, ok := x.Addr.(*ssa.IndexAddr); ok {
			if i, ok := e.index(ia.Index); ok {
				v := e.eval(x.Val)
				var by bv
				for k := 0; k < 8; k++ {
					by[k] = v[k]
				}
				e.arr(e.arrayRootOf(ia.X))[i] = by
				// a later load of the same element must see the new value
				for k := range e.memo {
					if u, ok := k.(*ssa.UnOp); ok {
						if ia2, ok := u.X.(*ssa.IndexAddr); ok && e.arrayRootOf(ia2.X) == e.arrayRootOf(ia.X) {
							delete(e.memo, k)
						}
					}
				}
			}
			return
		}
		if f, _, ok := fieldAddr(x.Addr); ok {
			e.fields[f.Name()] = e.eval(x.Val)
			for k := range e.memo {
				if u, ok := k.(*ssa.UnOp); ok {
					if f2, _, ok := fieldAddr(u.X); ok && f2 == f {
						delete(e.memo, k)
					}
				}
			}
		}
	case *ssa.Call:
		n := calleeName(&x.Call)
		for _, suf := range []string{"16", "32", "64"} {
			if strings.HasSuffix(n, "binary.bigEndian).PutUint"+suf) {
				nb := map[string]int{"16": 2, "32": 4, "64": 8}[suf]
				root, lo, ok := e.sliceOf(x.Call.Args[1])
				if !ok {
					return
				}
				v := e.eval(x.Call.Args[2])
				for k := 0; k < nb; k++ {
					sh := (nb - 1 - k) * 8
					var by bv
					for i := 0; i < 8; i++ {
						by[i] = v[sh+i]
					}
					e.arr(root)[lo+int64(k)] = by
				}
			}
		}
	case *ssa.Return:
		for i := range x.Results {
			e.rets = append(e.rets, e.eval(retValue(x, i)))
		}
	}
}

// bytesOf renders array bytes lo..hi-1 MSB first.
func (e *bitEval) bytesOf(root ssa.Value, lo, hi int64) []string {
	var out []string
	for i := lo; i < hi; i++ {
		out = append(out, byteString(e.readByte(root, i)))
	}
	return out
}

func byteString(b bv) string {
	var parts []string
	for i := 7; i >= 0; i-- {
		parts = append(parts, b[i].String())
	}
	return strings.Join(parts, " ")
}

// wordString renders the low n bits MSB first.
func wordString(b bv, n int) string {
	var parts []string
	for i := n - 1; i >= 0; i-- {
		parts = append(parts, b[i].String())
	}
	return strings.Join(parts, " ")
}

// specByte builds an expected byte from a compact description, MSB first, e.g.
// "fb[3] fb[2] fb[1] fb[0] pts[32] pts[31] pts[30] 1".
func matchBits(got bv, n int, want string) bool {
	return wordString(got, n) == want
}

// rangeBits renders name[hi..lo] MSB first.
func rangeBits(name string, hi, lo int) string {
	var parts []string
	for i := hi; i >= lo; i-- {
		parts = append(parts, fmt.Sprintf("%s[%d]", name, i))
	}
	return strings.Join(parts, " ")
}

func sortedKeys(m map[string]bv) []string {
	var ks []string
	for k := range m {
		ks = append(ks, k)
	}
	sort.Strings(ks)
	return ks
}

// ---------------------------------------------------------------- constant propagation under an assumed configuration

// constOf returns the constant a fully-constant vector denotes.
func constOf(v bv, t types.Type) (int64, bool) {
	var u uint64
	for i := 0; i < 64; i++ {
		switch v[i].K {
		case 0:
		case 1:
			u |= 1 << uint(i)
		default:
			return 0, false
		}
	}
	return int64(u), true
}

// condValue evaluates a branch condition to a constant when its operands are constant under env.
func (e *bitEval) condValue(cond ssa.Value) (bool, bool) {
	switch x := cond.(type) {
	case *ssa.Const:
		return constBool(x)
	case *ssa.UnOp:
		if x.Op == token.NOT {
			v, ok := e.condValue(x.X)
			return !v, ok
		}
		if f, _, ok := fieldLoad(x); ok {
			if k, ok := e.env[f.Name()]; ok {
				return k != 0, true
			}
		}
	case *ssa.Phi:
		if v, ok := e.phiBool[x]; ok {
			return v, true
		}
	case *ssa.BinOp:
		a, oka := constOf(e.eval(x.X), x.X.Type())
		b, okb := constOf(e.eval(x.Y), x.Y.Type())
		if !oka || !okb {
			return false, false
		}
		switch x.Op {
		case token.EQL:
			return a == b, true
		case token.NEQ:
			return a != b, true
		case token.LSS:
			return a < b, true
		case token.LEQ:
			return a <= b, true
		case token.GTR:
			return a > b, true
		case token.GEQ:
			return a >= b, true
		}
	}
	return false, false
}

// runPath interprets fn along the single path determined by env (constant
// values assumed for the named struct fields / parameters): classic
// conditional constant propagation specialised to one configuration. It stops
// at the first branch whose condition is not constant. Returns whether a
// Return was reached.
func (e *bitEval) runPath(env map[string]int64) bool {
	e.env = env
	e.phiBool = map[*ssa.Phi]bool{}
	b := e.fn.Blocks[0]
	var prev *ssa.BasicBlock
	for steps := 0; steps < 400; steps++ {
		// phis take the value of the incoming edge
		if prev != nil {
			for i, pr := range b.Preds {
				if pr != prev {
					continue
				}
				for _, ins := range b.Instrs {
					ph, ok := ins.(*ssa.Phi)
					if !ok {
						break
					}
					if bv2, isc := constBool(ph.Edges[i]); isc {
						e.phiBool[ph] = bv2
					} else if cv, ok := e.condValue(ph.Edges[i]); ok && ph.Type().String() == "bool" {
						e.phiBool[ph] = cv
					}
					e.memo[ph] = e.eval(ph.Edges[i])
				}
			}
		}
		for _, ins := range b.Instrs {
			e.step(ins)
			switch x := ins.(type) {
			case *ssa.Return:
				_ = x
				return true
			case *ssa.If:
				v, ok := e.condValue(x.Cond)
				if !ok {
					return false
				}
				prev = b
				if v {
					b = b.Succs[0]
				} else {
					b = b.Succs[1]
				}
			case *ssa.Jump:
				prev = b
				b = b.Succs[0]
			}
		}
		if len(b.Instrs) == 0 {
			return false
		}
	}
	return false
}
