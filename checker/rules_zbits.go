package main

// Bit-level layout rules (engine E9, bits.go): the byte layouts that writers
// produce are evaluated symbolically from source and compared with the
// specification, or composed with the repository's own reader.

import (
	"fmt"
	"go/token"
	"go/types"
	"strings"

	"golang.org/x/tools/go/ssa"
)

func init() {
	add := func(prop string, r *RuleDoc) {
		if p := properties[prop]; p != nil {
			p.Rules = append(p.Rules, r)
		}
	}
	add("C08", &RuleDoc{Name: "R-TAG-HEADER-BITS", Text: "Bit-provenance evaluation of writeTag: byte 0 = filter/type, bytes 1-3 = len(Data)[23:0], bytes 4-6 = timestamp[23:0], byte 7 = timestamp[31:24], bytes 8-10 = StreamID[23:0]; composed with Tag.Read the transported fields come back bit for bit.", Run: ruleTagHeaderBits})
	add("C09", &RuleDoc{Name: "R-PTS-PCR-BITS", Text: "Bit-provenance evaluation of writePts and writePcr against ISO/IEC 13818-1: 5-byte PTS/DTS = prefix(4) ts[32:30] 1 | ts[29:22] | ts[21:15] 1 | ts[14:7] | ts[6:0] 1; 6-byte PCR = base[32:25] | [24:17] | [16:9] | [8:1] | base[0] 111111 0 | 00000000.", Run: rulePtsPcrBits})
	add("C09", &RuleDoc{Name: "R-TS-HEADER-BITS", Text: "TS packet header bytes: byte 1 = 000 PID[12:8], byte 2 = PID[7:0], byte 3 = 0001 CC[3:0] before the conditional flag bits are ORed in.", Run: ruleTSHeaderBits})
	add("C09", &RuleDoc{Name: "R-PES-LENGTH-GUARD", Text: "The value written as PES_packet_length is the very value that was compared with 0xffff (0 is written when it exceeds), and it includes the PES header overhead.", Run: rulePESLengthGuard})
	add("C09", &RuleDoc{Name: "R-ADTS-BITS", Text: "NewADTSHeader composed with the ADTSHeader accessors returns profile[1:0], sampling index[3:0], channel configuration[2:0] and frame length[12:0] unchanged.", Run: ruleADTSBits})
	add("C14", &RuleDoc{Name: "R-FRAME-PREFIX-BITS", Text: "Packet.Write's 4-byte prefix composed with ReadPacket's decoding returns the channel byte and len(Data)[15:0] unchanged.", Run: ruleFramePrefixBits})
	addMutants(
		&Mutant{Prop: "C08", Name: "c08-no-extended-timestamp", File: "av/format/flv/tag.go",
			Old: "(timestamp<<8)|(timestamp>>24))", New: "timestamp<<8)", Expect: "R-TAG-HEADER-BITS"},
		&Mutant{Prop: "C08", Name: "c08-reader-ts-shift", File: "av/format/flv/tag.go",
			Old: "\ttag.Timestamp = (timestamp >> 8) | (timestamp << 24)", New: "\ttag.Timestamp = (timestamp >> 8) | (timestamp << 23)", Expect: "R-TAG-HEADER-BITS"},
		&Mutant{Prop: "C09", Name: "c09-pts-top-bits", File: "av/format/mpegts/writer.go",
			Old: "\tval = int(int(fb)<<4 | int(((pts>>30)&0x07)<<1) | 1)", New: "\tval = int(fb)<<4 | (int(pts>>29) & 0x06) | 1", Expect: "R-PTS-PCR-BITS"},
		&Mutant{Prop: "C09", Name: "c09-pcr-reserved-bits", File: "av/format/mpegts/writer.go",
			Old: "\tpkt[*pos] = byte(v<<7 | 0x7e)", New: "\tpkt[*pos] = byte(v<<7 | 0x3e)", Expect: "R-PTS-PCR-BITS"},
		&Mutant{Prop: "C09", Name: "c09-pid-mask", File: "av/format/mpegts/writer.go",
			Old: "\t\tpkt[p] = byte((frame.Pid >> 8) & 0x1f)", New: "\t\tpkt[p] = byte((frame.Pid >> 8) & 0x0f)", Expect: "R-TS-HEADER-BITS"},
		&Mutant{Prop: "C09", Name: "c09-pes-length-guard-early", File: "av/format/mpegts/writer.go",
			Old: "\t\t\tpesSize := (last - pos) + int(headerSize) + 3\n\t\t\tif pesSize > 0xffff {", New: "\t\t\tpesSize := (last - pos)\n\t\t\tif pesSize > 0xffff {\n\t\t\t\tpesSize = 0\n\t\t\t} else {\n\t\t\t\tpesSize += int(headerSize) + 3\n\t\t\t}\n\t\t\tif false {", Expect: "R-PES-LENGTH-GUARD"},
		&Mutant{Prop: "C09", Name: "c09-adts-length-shift", File: "av/codec/aac/adtsheader.go",
			Old: "\tadtsHeader[4] = uint8((frameLen >> 3) & 0xff)", New: "\tadtsHeader[4] = uint8((frameLen >> 2) & 0xff)", Expect: "R-ADTS-BITS"},
		&Mutant{Prop: "C14", Name: "c14-prefix-length-truncated", File: "av/format/rtp/packet.go",
			Old: "\tbinary.BigEndian.PutUint16(prefix[2:], uint16(len(p.Data)))", New: "\tbinary.BigEndian.PutUint16(prefix[2:], uint16(len(p.Data))&0x7fff)", Expect: "R-FRAME-PREFIX-BITS"},
	)
}

// firstArrayAlloc returns the local byte array of fn with the given length.
func byteArrayAlloc(fn *ssa.Function, n int64) *ssa.Alloc {
	var out *ssa.Alloc
	instrs(fn, func(ins ssa.Instruction) {
		al, ok := ins.(*ssa.Alloc)
		if !ok || out != nil {
			return
		}
		if arr, ok := al.Type().(*types.Pointer).Elem().Underlying().(*types.Array); ok && arr.Len() == n {
			if b, ok := arr.Elem().Underlying().(*types.Basic); ok && b.Kind() == types.Uint8 {
				out = al
			}
		}
	})
	return out
}

func checkBits(c *Ctx, key, pos string, got bv, n int, want, what string) bool {
	g := wordString(got, n)
	if g == want {
		return true
	}
	c.Bad(key, pos, fmt.Sprintf("%s: evaluated layout {%s}, required {%s}", what, g, want))
	return false
}

func ruleTagHeaderBits(c *Ctx) {
	p := c.P
	wt := p.Func("av/format/flv", "writeTag")
	rd := p.Func("av/format/flv", "(*Tag).Read")
	if wt == nil || rd == nil {
		c.Lost("flv.writeTag/Tag.Read", "not found")
		return
	}
	c.touched(fname(wt))
	c.touched(fname(rd))
	e := newBitEval(p, wt)
	// the value rotated into the timestamp bytes is called "timestamp" whatever the local is named
	instrs(wt, func(ins ssa.Instruction) {
		or, ok := ins.(*ssa.BinOp)
		if !ok || or.Op != token.OR {
			return
		}
		l, ok1 := or.X.(*ssa.BinOp)
		r, ok2 := or.Y.(*ssa.BinOp)
		if !ok1 || !ok2 {
			return
		}
		if l.Op == token.SHR {
			l, r = r, l
		}
		if l.Op == token.SHL && r.Op == token.SHR && l.X == r.X {
			if a, ok := constInt(l.Y); ok && a == 8 {
				if b, ok := constInt(r.Y); ok && b == 24 {
					e.names[l.X] = "timestamp"
				}
			}
		}
	})
	e.run()
	arr := byteArrayAlloc(wt, 12)
	if arr == nil {
		arr = byteArrayAlloc(wt, 11)
	}
	if arr == nil {
		c.Lost("writeTag.header-array", "tag header array not found")
		return
	}
	pos := p.Pos(wt.Pos())
	ok := true
	ok = checkBits(c, "tag-bits:byte0", pos, e.readByte(arr, 0), 8, "0 0 tag.Filter[0] "+rangeBits("tag.TagType", 4, 0), "tag byte 0 (filter bit, tag type)") && ok
	for i, hi := range []int{23, 15, 7} {
		ok = checkBits(c, "tag-bits:datasize", pos, e.readByte(arr, int64(1+i)), 8, rangeBits("len(tag.Data)", hi, hi-7), fmt.Sprintf("tag byte %d (DataSize)", 1+i)) && ok
	}
	for i, hi := range []int{23, 15, 7} {
		ok = checkBits(c, "tag-bits:timestamp", pos, e.readByte(arr, int64(4+i)), 8, rangeBits("timestamp", hi, hi-7), fmt.Sprintf("tag byte %d (Timestamp low 24 bits)", 4+i)) && ok
	}
	ok = checkBits(c, "tag-bits:timestamp-extended", pos, e.readByte(arr, 7), 8, rangeBits("timestamp", 31, 24), "tag byte 7 (TimestampExtended = timestamp[31:24]); without it timestamps wrap after 2^24 ms (4h39m)") && ok
	for i, hi := range []int{23, 15, 7} {
		ok = checkBits(c, "tag-bits:streamid", pos, e.readByte(arr, int64(8+i)), 8, rangeBits("tag.StreamID", hi, hi-7), fmt.Sprintf("tag byte %d (StreamID)", 8+i)) && ok
	}
	if ok {
		c.OK("tag-bits:writer", pos, "11 header bytes carry type, size, timestamp (with extension byte) and stream id at the FLV bit positions")
	}
	// composition with the reader
	er := newBitEval(p, rd)
	rarr := byteArrayAlloc(rd, 11)
	if rarr == nil {
		c.Lost("Tag.Read.header-array", "reader's header array not found")
		return
	}
	for i := int64(0); i < 11; i++ {
		er.arr(rarr)[i] = e.readByte(arr, i)
	}
	er.run()
	rpos := p.Pos(rd.Pos())
	okr := true
	want := map[string]struct {
		n    int
		bits string
	}{
		"Timestamp": {32, rangeBits("timestamp", 31, 0)},
		"DataSize":  {32, strings.TrimSpace(strings.Repeat("0 ", 8) + rangeBits("len(tag.Data)", 23, 0))},
		"TagType":   {8, "0 0 0 " + rangeBits("tag.TagType", 4, 0)},
		"Filter":    {8, "0 0 0 0 0 0 0 tag.Filter[0]"},
		"StreamID":  {32, strings.TrimSpace(strings.Repeat("0 ", 8) + rangeBits("tag.StreamID", 23, 0))},
	}
	for _, f := range []string{"Timestamp", "DataSize", "TagType", "Filter", "StreamID"} {
		got, has := er.fields[f]
		if !has {
			okr = false
			c.Bad("tag-bits:roundtrip:"+f, rpos, "Tag.Read never assigns "+f)
			continue
		}
		okr = checkBits(c, "tag-bits:roundtrip:"+f, rpos, got, want[f].n, want[f].bits, "Tag.Read applied to writeTag's header does not return "+f+" bit for bit") && okr
	}
	if okr {
		c.OK("tag-bits:roundtrip", rpos, "Tag.Read o writeTag is the identity on type, filter, size, timestamp (32 bits) and stream id")
	}
}

func rulePtsPcrBits(c *Ctx) {
	p := c.P
	wp := p.Func("av/format/mpegts", "writePts")
	wc := p.Func("av/format/mpegts", "writePcr")
	if wp == nil || wc == nil {
		c.Lost("mpegts.writePts/writePcr", "not found")
		return
	}
	for _, fn := range []*ssa.Function{wp, wc} {
		c.touched(fname(fn))
		e := newBitEval(p, fn)
		pkt, cur := fn.Params[0], fn.Params[1]
		e.cursor[cur] = 0
		e.run()
		pos := p.Pos(fn.Pos())
		var spec []string
		name := fn.Name()
		if fn == wp {
			spec = []string{
				rangeBits("fb", 3, 0) + " " + rangeBits("pts", 32, 30) + " 1",
				rangeBits("pts", 29, 22),
				rangeBits("pts", 21, 15) + " 1",
				rangeBits("pts", 14, 7),
				rangeBits("pts", 6, 0) + " 1",
			}
		} else {
			spec = []string{
				rangeBits("pcr", 32, 25), rangeBits("pcr", 24, 17), rangeBits("pcr", 16, 9), rangeBits("pcr", 8, 1),
				"pcr[0] 1 1 1 1 1 1 0",
				"0 0 0 0 0 0 0 0",
			}
		}
		ok := true
		for i, want := range spec {
			ok = checkBits(c, fmt.Sprintf("%s-bits:byte%d", name, i), pos, e.readByte(pkt, int64(i)), 8, want, fmt.Sprintf("%s byte %d", name, i)) && ok
		}
		// the cursor advanced by exactly the number of bytes written
		if e.cursor[cur] != int64(len(spec)) {
			ok = false
			c.Bad(name+"-bits:cursor", pos, fmt.Sprintf("%s advances the write position by %d, it writes %d bytes", name, e.cursor[cur], len(spec)))
		}
		if ok {
			c.OK(name+"-bits", pos, fmt.Sprintf("%d bytes at the ISO/IEC 13818-1 bit positions, position advanced by %d", len(spec), len(spec)))
		}
	}
}

func ruleTSHeaderBits(c *Ctx) {
	p := c.P
	fn := p.Func("av/format/mpegts", "(*Writer).WriteMpegtsFrame")
	if fn == nil {
		c.Lost("mpegts.Writer.WriteMpegtsFrame", "not found")
		return
	}
	c.touched(fname(fn))
	pkt := byteArrayAlloc(fn, 188)
	if pkt == nil {
		c.Lost("WriteMpegtsFrame.packet-array", "188-byte packet array not found")
		return
	}
	e := newBitEval(p, fn)
	// first (dominating) store to each of bytes 0..3
	first := map[int64]*ssa.Store{}
	instrs(fn, func(ins ssa.Instruction) {
		st, ok := ins.(*ssa.Store)
		if !ok {
			return
		}
		ia, ok := st.Addr.(*ssa.IndexAddr)
		if !ok || ia.X != ssa.Value(pkt) {
			return
		}
		i, ok := evalInt(ia.Index)
		if !ok || i > 3 {
			return
		}
		if cur, has := first[i]; !has || dominatesInstr(st, cur) {
			first[i] = st
		}
	})
	pos := p.Pos(fn.Pos())
	want := map[int64]string{
		0: "0 1 0 0 0 1 1 1",
		1: "0 0 0 " + rangeBits("frame.Pid", 12, 8),
		2: rangeBits("frame.Pid", 7, 0),
	}
	ok := true
	for i := int64(0); i < 3; i++ {
		st := first[i]
		if st == nil {
			ok = false
			c.Bad(fmt.Sprintf("ts-header-bits:byte%d", i), pos, fmt.Sprintf("TS header byte %d is never stored at a constant position", i))
			continue
		}
		v := e.eval(st.Val)
		ok = checkBits(c, fmt.Sprintf("ts-header-bits:byte%d", i), p.InstrPos(st), v, 8, want[i], fmt.Sprintf("TS header byte %d", i)) && ok
	}
	// byte 3: 0001 cccc where cccc are the low bits of one value (the selected counter)
	if st := first[3]; st != nil {
		v := e.eval(st.Val)
		good := v[7].K == 0 && v[6].K == 0 && v[5].K == 0 && v[4].K == 1
		for i := 0; i < 4; i++ {
			if v[i].K != 2 || int(v[i].Idx) != i || v[i].Src != v[0].Src {
				good = false
			}
		}
		if !good {
			ok = false
			c.Bad("ts-header-bits:byte3", p.InstrPos(st), "TS header byte 3 evaluates to {"+wordString(v, 8)+"}, required {0 0 0 1 cc[3] cc[2] cc[1] cc[0]} (payload only, continuity counter modulo 16)")
		}
	} else {
		ok = false
		c.Bad("ts-header-bits:byte3", pos, "TS header byte 3 is never stored")
	}
	if ok {
		c.OK("ts-header-bits", pos, "sync byte, 13-bit PID and 4-bit continuity counter at their positions")
	}
}

func rulePESLengthGuard(c *Ctx) {
	p := c.P
	fn := p.Func("av/format/mpegts", "(*Writer).WriteMpegtsFrame")
	if fn == nil {
		c.Lost("mpegts.Writer.WriteMpegtsFrame", "not found")
		return
	}
	// the two consecutive stores byte(v>>8), byte(v)
	var lenVal ssa.Value
	var at ssa.Instruction
	instrs(fn, func(ins ssa.Instruction) {
		st, ok := ins.(*ssa.Store)
		if !ok {
			return
		}
		cv, ok := st.Val.(*ssa.Convert)
		if !ok {
			return
		}
		sh, ok := cv.X.(*ssa.BinOp)
		if !ok || sh.Op != token.SHR {
			return
		}
		if k, ok := evalInt(sh.Y); !ok || k != 8 {
			return
		}
		// a later store of byte(v) of the same v in the same block
		for _, i2 := range ins.Block().Instrs {
			if s2, ok := i2.(*ssa.Store); ok && s2 != st {
				if c2, ok := s2.Val.(*ssa.Convert); ok && c2.X == sh.X && dominatesInstr(st, s2) {
					if _, isPhi := sh.X.(*ssa.Phi); isPhi {
						lenVal, at = sh.X, ins
					}
				}
			}
		}
	})
	if lenVal == nil {
		c.Lost("pes-length:stores", "the two-byte PES_packet_length store (value chosen between the size and 0) was not found")
		return
	}
	ph := lenVal.(*ssa.Phi)
	var sizeV ssa.Value
	zero := false
	for _, e := range ph.Edges {
		if k, ok := evalInt(e); ok && k == 0 {
			zero = true
		} else {
			sizeV = e
		}
	}
	// the guard: an If on sizeV > 0xffff whose true edge supplies the zero
	guarded := false
	for _, b := range fn.Blocks {
		ifi, ok := b.Instrs[len(b.Instrs)-1].(*ssa.If)
		if !ok {
			continue
		}
		bo, ok := ifi.Cond.(*ssa.BinOp)
		if !ok || bo.Op != token.GTR {
			continue
		}
		if k, ok := evalInt(bo.Y); ok && k == 0xffff && bo.X == sizeV {
			guarded = true
		}
	}
	c.Decide(zero && sizeV != nil && guarded, "pes-length:compared-value-is-written", p.InstrPos(at), "the length written is the compared value, or 0 above 65535", "PES_packet_length is not (the value that was compared with 0xffff, or 0 when it exceeds): sizes near 64 KiB are written truncated modulo 65536 instead of 0")
	// the size includes the header overhead: depends on headerSize and the constant 3
	if sizeV != nil {
		has3, hasHdr := false, false
		walkDeps(sizeV, func(x ssa.Value) bool {
			if b, ok := x.(*ssa.BinOp); ok && b.Op == token.ADD {
				if k, ok := evalInt(b.Y); ok && k == 3 {
					has3 = true
				}
			}
			if ph2, ok := x.(*ssa.Phi); ok && ph2.Comment == "headerSize" {
				hasHdr = true
			}
			return true
		})
		c.Decide(has3 && hasHdr, "pes-length:includes-header", p.InstrPos(at), "length = payload + PES header data + 3", "PES_packet_length does not include the PES header bytes (headerSize + 3)")
	}
}

func ruleADTSBits(c *Ctx) {
	p := c.P
	nw := p.Func("av/codec/aac", "NewADTSHeader")
	if nw == nil {
		c.Lost("aac.NewADTSHeader", "not found")
		return
	}
	c.touched(fname(nw))
	e := newBitEval(p, nw)
	e.run()
	arr := byteArrayAlloc(nw, 7)
	if arr == nil {
		c.Lost("NewADTSHeader.array", "7-byte header array not found")
		return
	}
	pos := p.Pos(nw.Pos())
	// frame length source name: the sum payloadSize + 7 is opaque
	flName := ""
	instrs(nw, func(ins ssa.Instruction) {
		if b, ok := ins.(*ssa.BinOp); ok && b.Op == token.ADD && b.X == ssa.Value(nw.Params[3]) {
			flName = e.name(b)
		}
	})
	for _, a := range []struct {
		method string
		n      int
		want   string
	}{
		{"Profile", 8, "0 0 0 0 0 0 " + rangeBits("profile", 1, 0)},
		{"SamplingIndex", 8, "0 0 0 0 " + rangeBits("sampleRateIdx", 3, 0)},
		{"ChannelConfig", 8, "0 0 0 0 0 " + rangeBits("channelConfig", 2, 0)},
		{"FrameLength", 13, rangeBits(flName, 12, 0)},
	} {
		fn := p.Func("av/codec/aac", "ADTSHeader."+a.method)
		if fn == nil {
			c.Lost("aac.ADTSHeader."+a.method, "accessor not found")
			continue
		}
		c.touched(fname(fn))
		er := newBitEval(p, fn)
		recv := fn.Params[0]
		for i := int64(0); i < 7; i++ {
			er.arr(recv)[i] = e.readByte(arr, i)
		}
		er.run()
		if len(er.rets) == 0 {
			c.Undecided("adts-bits:"+a.method, p.Pos(fn.Pos()), "cannot evaluate the accessor's result")
			continue
		}
		if checkBits(c, "adts-bits:"+a.method, pos, er.rets[0], a.n, a.want, "ADTSHeader."+a.method+"() applied to NewADTSHeader(...) does not return the field that was packed") {
			c.OK("adts-bits:"+a.method, pos, a.method+" o NewADTSHeader is the identity on the field")
		}
	}
	// fixed bits: syncword fff, ID 0, layer 00, protection_absent 1; buffer fullness 0x7ff
	fixed := wordString(e.readByte(arr, 0), 8) == "1 1 1 1 1 1 1 1" && wordString(e.readByte(arr, 1), 8) == "1 1 1 1 0 0 0 1"
	c.Decide(fixed, "adts-bits:syncword", pos, "syncword/ID/layer/protection bits", "ADTS bytes 0-1 are not ff f1")
}

func ruleFramePrefixBits(c *Ctx) {
	p := c.P
	wr := p.Func("av/format/rtp", "(*Packet).Write")
	rd := p.Func("av/format/rtp", "ReadPacket")
	if wr == nil || rd == nil {
		c.Lost("rtp.Packet.Write/ReadPacket", "not found")
		return
	}
	c.touched(fname(wr))
	// the writer has early returns; evaluate its blocks on the straight path to the first write
	e := newBitEval(p, wr)
	for _, b := range wr.DomPreorder() {
		// blocks that dominate the prefix write
		e.uncond[b] = false
	}
	var firstWrite ssa.Instruction
	instrs(wr, func(ins ssa.Instruction) {
		if cc := callCommon(ins); cc != nil && cc.IsInvoke() && cc.Method.Name() == "Write" && firstWrite == nil {
			firstWrite = ins
		}
	})
	if firstWrite == nil {
		c.Lost("Packet.Write.write", "no write found")
		return
	}
	for _, b := range wr.Blocks {
		if b == firstWrite.Block() || b.Dominates(firstWrite.Block()) {
			e.uncond[b] = true
		}
	}
	e.run()
	warr := byteArrayAlloc(wr, 4)
	rarr := byteArrayAlloc(rd, 4)
	if warr == nil || rarr == nil {
		c.Lost("prefix arrays", "4-byte prefix arrays not found")
		return
	}
	pos := p.Pos(wr.Pos())
	ok := checkBits(c, "prefix-bits:dollar", pos, e.readByte(warr, 0), 8, "0 0 1 0 0 1 0 0", "prefix byte 0 ('$')")
	er := newBitEval(p, rd)
	for i := int64(0); i < 4; i++ {
		er.arr(rarr)[i] = e.readByte(warr, i)
	}
	// evaluate the reader's length and channel expressions directly
	var lenV, chV ssa.Value
	instrs(rd, func(ins ssa.Instruction) {
		if mk, isMk := ins.(*ssa.MakeSlice); isMk {
			lenV = mk.Len
		}
		if cv, isCv := ins.(*ssa.Convert); isCv {
			if u, isU := cv.X.(*ssa.UnOp); isU {
				if ia, isIA := u.X.(*ssa.IndexAddr); isIA && ia.X == ssa.Value(rarr) {
					if k, okk := evalInt(ia.Index); okk && k == 1 {
						chV = cv
					}
				}
			}
		}
	})
	if lenV == nil || chV == nil {
		c.Lost("ReadPacket.fields", "length / channel expressions not found")
		return
	}
	lenGot := er.eval(lenV)
	ok = checkBits(c, "prefix-bits:length-roundtrip", p.Pos(rd.Pos()), lenGot, 16, rangeBits("len(p.Data)", 15, 0), "ReadPacket's frame length applied to Packet.Write's prefix does not return len(Data)[15:0]") && ok
	chGot := er.eval(chV)
	src := chGot[0].Src
	good := true
	for i := 0; i < 8; i++ {
		if chGot[i].K != 2 || chGot[i].Src != src || int(chGot[i].Idx) != i {
			good = false
		}
	}
	if !good {
		ok = false
		c.Bad("prefix-bits:channel-roundtrip", p.Pos(rd.Pos()), "the channel byte read back is {"+wordString(chGot, 8)+"}, not the 8 bits of the channel that was written")
	}
	if ok {
		c.OK("prefix-bits", pos, "'$', channel and 16-bit length survive Packet.Write -> ReadPacket bit for bit")
	}
}

// ---------------------------------------------------------------- configuration-specialised rules

func init() {
	add := func(prop string, r *RuleDoc) {
		if p := properties[prop]; p != nil {
			p.Rules = append(p.Rules, r)
		}
	}
	add("C15", &RuleDoc{Name: "R-CROP-UNIT-TABLE", Text: "Constant propagation of the cropping-unit coefficients of Width()/Height() under every (chroma_format_idc, separate_colour_plane_flag, frame_mbs_only_flag) configuration equals H.264 Table 6-1 / H.265 Table 6-1 (SubWidthC, SubHeightC x (2 - frame_mbs_only_flag)).", Run: ruleCropUnitTable})
	add("C08", &RuleDoc{Name: "R-MEDIA-TAG-BODY-BITS", Text: "VIDEODATA (AVC/HEVC NALU) and AUDIODATA (AAC) headers evaluated under their configuration: frame type/codec id nibbles, packet type, 24-bit composition time, 32-bit NAL length; sound format/rate/size/type bits, AAC packet type.", Run: ruleMediaTagBodyBits})
	addMutants(
		&Mutant{Prop: "C15", Name: "c15-422-height-unit", File: "av/codec/h264/sps.go",
			Old: "\t\tcase 2: // 4:2:2\n\t\t\tsubWidthC, subHeightC = 2, 1", New: "\t\tcase 2: // 4:2:2\n\t\t\tsubWidthC, subHeightC = 2, 2", Expect: "R-CROP-UNIT-TABLE"},
		&Mutant{Prop: "C15", Name: "c15-hevc-422-height-unit", File: "av/codec/hevc/sps.go",
			Old: "\t\tif sps.Chroma_format_idc == 1 &&\n\t\t\tsps.Separate_colour_plane_flag == 0 {\n\t\t\tsub_height_c = 2", New: "\t\tif (sps.Chroma_format_idc == 1 || sps.Chroma_format_idc == 2) &&\n\t\t\tsps.Separate_colour_plane_flag == 0 {\n\t\t\tsub_height_c = 2", Expect: "R-CROP-UNIT-TABLE"},
		&Mutant{Prop: "C08", Name: "c08-cts-16-bits", File: "av/format/flv/videodata.go",
			Old: "(videoData.CompositionTime&0x00ffffff))", New: "(videoData.CompositionTime&0x0000ffff))", Expect: "R-MEDIA-TAG-BODY-BITS"},
		&Mutant{Prop: "C08", Name: "c08-sound-rate-shift", File: "av/format/flv/audiodata.go",
			Old: "\t\t((audioData.SoundRate & 0x03) << 2) |", New: "\t\t((audioData.SoundRate & 0x03) << 1) |", Expect: "R-MEDIA-TAG-BODY-BITS"},
	)
}

func ruleCropUnitTable(c *Ctx) {
	p := c.P
	type spec struct {
		rel, fn string
		crop    []string // crop offset fields whose sum is multiplied by the unit
		h265    bool
		height  bool
	}
	for _, s := range []spec{
		{"av/codec/h264", "(*RawSPS).Width", []string{"FrameCropLeftOffset", "FrameCropRightOffset"}, false, false},
		{"av/codec/h264", "(*RawSPS).Height", []string{"FrameCropTopOffset", "FrameCropBottomOffset"}, false, true},
		{"av/codec/hevc", "(*H265RawSPS).Width", []string{"Conf_win_left_offset", "Conf_win_right_offset"}, true, false},
		{"av/codec/hevc", "(*H265RawSPS).Height", []string{"Conf_win_top_offset", "Conf_win_bottom_offset"}, true, true},
	} {
		fn := p.Func(s.rel, s.fn)
		if fn == nil {
			c.Lost(s.rel+"."+s.fn, "not found")
			continue
		}
		c.touched(fname(fn))
		// the multiplication whose one operand depends on the crop offsets
		var mul *ssa.BinOp
		var coef ssa.Value
		instrs(fn, func(ins ssa.Instruction) {
			b, ok := ins.(*ssa.BinOp)
			if !ok || b.Op != token.MUL {
				return
			}
			dx := dependsOnField(b.X, s.crop[0]) && dependsOnField(b.X, s.crop[1])
			dy := dependsOnField(b.Y, s.crop[0]) && dependsOnField(b.Y, s.crop[1])
			if dx && !dy {
				mul, coef = b, b.Y
			} else if dy && !dx {
				mul, coef = b, b.X
			}
		})
		key := "crop-unit:" + fname(fn)
		if mul == nil {
			c.Undecided(key, p.Pos(fn.Pos()), "cannot identify `unit x (offset + offset)` in the dimension function")
			continue
		}
		bad := 0
		cells := 0
		for idc := int64(0); idc <= 3; idc++ {
			for sep := int64(0); sep <= 1; sep++ {
				if sep == 1 && idc != 3 {
					continue // separate_colour_plane_flag is only present for 4:4:4
				}
				for fmo := int64(0); fmo <= 1; fmo++ {
					if s.h265 && fmo == 0 {
						continue
					}
					env := map[string]int64{}
					if s.h265 {
						env["Chroma_format_idc"], env["Separate_colour_plane_flag"], env["Conformance_window_flag"] = idc, sep, 1
					} else {
						env["ChromaFormatIdc"], env["SeparateColourPlaneFlag"], env["FrameMbsOnlyFlag"] = idc, sep, fmo
					}
					e := newBitEval(p, fn)
					e.runPath(env) // may stop at a non-constant branch; the coefficient must already be determined
					got, ok := constOf(e.eval(coef), coef.Type())
					cells++
					// Table 6-1
					cat := idc
					if sep == 1 {
						cat = 0
					}
					sw, sh := int64(1), int64(1)
					switch cat {
					case 1:
						sw, sh = 2, 2
					case 2:
						sw, sh = 2, 1
					}
					want := sw
					if s.height {
						want = sh
						if !s.h265 {
							want = sh * (2 - fmo)
						}
					}
					if !ok || got != want {
						bad++
						c.Bad(key, p.InstrPos(mul), fmt.Sprintf("for chroma_format_idc=%d separate_colour_plane=%d frame_mbs_only=%d the crop offsets are multiplied by %d (constant=%v); the standard's crop unit is %d", idc, sep, fmo, got, ok, want))
					}
				}
			}
		}
		if bad == 0 {
			c.OK(key, p.InstrPos(mul), fmt.Sprintf("crop unit equals Table 6-1 in all %d configurations", cells))
		}
	}
}

func ruleMediaTagBodyBits(c *Ctx) {
	p := c.P
	// VIDEODATA, AVC NALU
	vm := p.Func("av/format/flv", "(*VideoData).Marshal")
	am := p.Func("av/format/flv", "(*AudioData).Marshal")
	if vm == nil || am == nil {
		c.Lost("flv.VideoData/AudioData.Marshal", "not found")
		return
	}
	avc, _ := pkgConst(p, "av/format/flv", "CodecIDAVC")
	hevc, _ := pkgConst(p, "av/format/flv", "CodecIDHEVC")
	nalu, _ := pkgConst(p, "av/format/flv", "H2645PacketTypeNALU")
	aac, _ := pkgConst(p, "av/format/flv", "SoundFormatAAC")
	mk := func(fn *ssa.Function) ssa.Value {
		var out ssa.Value
		instrs(fn, func(ins ssa.Instruction) {
			if m, ok := ins.(*ssa.MakeSlice); ok && out == nil {
				out = m
			}
		})
		return out
	}
	nib := func(k int64) string {
		var parts []string
		for i := 3; i >= 0; i-- {
			parts = append(parts, fmt.Sprint((k>>uint(i))&1))
		}
		return strings.Join(parts, " ")
	}
	byteConst := func(k int64) string { return nib(k>>4) + " " + nib(k&15) }
	for _, codec := range []int64{avc, hevc} {
		c.touched(fname(vm))
		e := newBitEval(p, vm)
		e.runPath(map[string]int64{"CodecID": codec, "H2645PacketType": nalu})
		buf := mk(vm)
		if buf == nil {
			c.Lost("VideoData.Marshal.buffer", "no buffer")
			return
		}
		pos := p.Pos(vm.Pos())
		key := fmt.Sprintf("videodata-bits:codec%d", codec)
		ok := checkBits(c, key, pos, e.readByte(buf, 0), 8, rangeBits("videoData.FrameType", 3, 0)+" "+nib(codec), "VIDEODATA byte 0 (frame type nibble, codec id nibble)")
		ok = checkBits(c, key, pos, e.readByte(buf, 1), 8, byteConst(nalu), "VIDEODATA byte 1 (AVCPacketType)") && ok
		for i, hi := range []int{23, 15, 7} {
			ok = checkBits(c, key, pos, e.readByte(buf, int64(2+i)), 8, rangeBits("videoData.CompositionTime", hi, hi-7), fmt.Sprintf("VIDEODATA byte %d (24-bit composition time)", 2+i)) && ok
		}
		for i, hi := range []int{31, 23, 15, 7} {
			ok = checkBits(c, key, pos, e.readByte(buf, int64(5+i)), 8, rangeBits("len(videoData.Body)", hi, hi-7), fmt.Sprintf("VIDEODATA byte %d (32-bit NAL length)", 5+i)) && ok
		}
		if ok {
			c.OK(key, pos, "frame type|codec, packet type, composition time, NAL length at their positions")
		}
	}
	c.touched(fname(am))
	e := newBitEval(p, am)
	e.runPath(map[string]int64{"SoundFormat": aac})
	buf := mk(am)
	if buf == nil {
		c.Lost("AudioData.Marshal.buffer", "no buffer")
		return
	}
	pos := p.Pos(am.Pos())
	ok := checkBits(c, "audiodata-bits", pos, e.readByte(buf, 0), 8, nib(aac)+" "+rangeBits("audioData.SoundRate", 1, 0)+" audioData.SoundSize[0] audioData.SoundType[0]", "AUDIODATA byte 0 (format, rate, size, type)")
	ok = checkBits(c, "audiodata-bits", pos, e.readByte(buf, 1), 8, rangeBits("audioData.AACPacketType", 7, 0), "AUDIODATA byte 1 (AACPacketType)") && ok
	if ok {
		c.OK("audiodata-bits", pos, "sound format/rate/size/type and AAC packet type at their positions")
	}
}
