package main

import (
	"golang.org/x/tools/go/ssa"
)

// E1 pathstate: path-sensitive propagation of a finite abstract state over a
// function's SSA control-flow graph. Each block holds the *set* of states
// reachable at its entry (no join), so disjunctive guards are handled exactly.
type PathRule[S comparable] struct {
	Fn   *ssa.Function
	Init []S
	// Transfer returns the successor states of s after ins (nil = unchanged).
	Transfer func(s S, ins ssa.Instruction) []S
	// Branch refines s on the taken edge of a conditional; ok=false prunes the edge.
	Branch func(s S, cond ssa.Value, taken bool) (S, bool)
	// Phi (optional) is told, when control flows along an edge into a block,
	// which value each phi of that block takes (edge = index into Preds).
	Phi func(s S, phi *ssa.Phi, val ssa.Value) S
	// Follow enables the interprocedural step: a static call to a function of the same package is
	// followed (bounded depth, no recursion), so that extracting a block into a private helper does
	// not change what the rule sees.
	Follow bool
	// OwnPhi: the rule tracks boolean phis itself (Phi hook); the engine then does not resolve
	// `if phi` per incoming edge.
	OwnPhi bool
	depth  int
	stack  []*ssa.Function
}

type PathResult[S comparable] struct {
	rule *PathRule[S]
	In   map[*ssa.BasicBlock]map[S]bool
	N    int // number of (block,state) pairs explored
}

func RunPath[S comparable](r *PathRule[S]) *PathResult[S] {
	res := &PathResult[S]{rule: r, In: map[*ssa.BasicBlock]map[S]bool{}}
	if r.Fn == nil || len(r.Fn.Blocks) == 0 {
		return res
	}
	type item struct {
		b    *ssa.BasicBlock
		s    S
		pred int
	}
	// phiCond: the block ends in `if t` where t is a boolean phi of the same block (the shape of
	// `t := a && b; if t`, of `switch { case a && b: }` ...): the branch is then decided per incoming edge.
	phiCond := func(b *ssa.BasicBlock) *ssa.Phi {
		if len(b.Instrs) == 0 || r.OwnPhi {
			return nil
		}
		ifi, ok := b.Instrs[len(b.Instrs)-1].(*ssa.If)
		if !ok {
			return nil
		}
		c, _ := condNeg(ifi.Cond) // `if !t` with t a boolean phi of this block
		if ph, ok := c.(*ssa.Phi); ok && ph.Block() == b {
			return ph
		}
		return nil
	}
	type key struct {
		b    *ssa.BasicBlock
		s    S
		pred int
	}
	seenItem := map[key]bool{}
	var work []item
	add := func(b *ssa.BasicBlock, s S, pred int) {
		if phiCond(b) == nil {
			pred = -1
		}
		k := key{b, s, pred}
		if seenItem[k] {
			return
		}
		seenItem[k] = true
		m := res.In[b]
		if m == nil {
			m = map[S]bool{}
			res.In[b] = m
		}
		if !m[s] {
			m[s] = true
			res.N++
		}
		work = append(work, item{b, s, pred})
	}
	for _, s := range r.Init {
		add(r.Fn.Blocks[0], s, -1)
	}
	addEdge := func(from, to *ssa.BasicBlock, s S) {
		idx := -1
		for i, p := range to.Preds {
			if p == from {
				idx = i
			}
		}
		if r.Phi != nil && idx >= 0 {
			for _, ins := range to.Instrs {
				ph, ok := ins.(*ssa.Phi)
				if !ok {
					break
				}
				s = r.Phi(s, ph, ph.Edges[idx])
			}
		}
		add(to, s, idx)
	}
	// Recover block (if any) is entered with the init states as well: it runs
	// after a recovered panic; rules that care handle it explicitly.
	for len(work) > 0 {
		it := work[len(work)-1]
		work = work[:len(work)-1]
		outs := res.flow(it.b, it.s, nil)
		last := it.b.Instrs[len(it.b.Instrs)-1]
		if ifi, ok := last.(*ssa.If); ok {
			cond := ifi.Cond
			only := -1 // successor forced by a constant incoming phi value
			if ph := phiCond(it.b); ph != nil && it.pred >= 0 && it.pred < len(ph.Edges) {
				eff := ph.Edges[it.pred]
				_, negated := condNeg(ifi.Cond)
				if cb, isConst := constBool(eff); isConst {
					if cb != negated {
						only = 0
					} else {
						only = 1
					}
				} else if !negated {
					cond = eff
				}
			}
			for _, s := range outs {
				for k, succ := range it.b.Succs {
					if only >= 0 {
						if k == only {
							addEdge(it.b, succ, s)
						}
						continue
					}
					ns, ok := s, true
					if r.Branch != nil {
						ns, ok = r.Branch(s, cond, k == 0)
					}
					if ok {
						addEdge(it.b, succ, ns)
					}
				}
			}
		} else {
			for _, s := range outs {
				for _, succ := range it.b.Succs {
					addEdge(it.b, succ, s)
				}
			}
		}
	}
	return res
}

// flow pushes state s through block b; visit (if non-nil) sees the state
// before each instruction.
func (res *PathResult[S]) flow(b *ssa.BasicBlock, s S, visit func(ins ssa.Instruction, s S)) []S {
	cur := []S{s}
	for _, ins := range b.Instrs {
		var next []S
		seen := map[S]bool{}
		for _, st := range cur {
			if visit != nil {
				visit(ins, st)
			}
			var outs []S
			if res.rule.Transfer != nil {
				outs = res.rule.Transfer(st, ins)
			}
			if outs == nil {
				outs = []S{st}
			}
			if callee := res.followable(ins); callee != nil {
				var after []S
				for _, o := range outs {
					after = append(after, res.summary(callee, ins.(*ssa.Call), o, visit)...)
				}
				outs = after
			}
			for _, o := range outs {
				if !seen[o] {
					seen[o] = true
					next = append(next, o)
				}
			}
		}
		cur = next
	}
	return cur
}

// followable: a plain (not go/defer) static call to a function of the analysed function's
// package that has a body, within the depth bound and not already on the stack.
func (res *PathResult[S]) followable(ins ssa.Instruction) *ssa.Function {
	r := res.rule
	if r.depth >= 3 {
		return nil
	}
	call, ok := ins.(*ssa.Call)
	if !ok {
		return nil
	}
	callee := call.Call.StaticCallee()
	if callee == nil || len(callee.Blocks) == 0 {
		return nil
	}
	// an immediately invoked function literal of the analysed function is inline code (this is also
	// the shape the normalisation pre-pass gives a helper with early returns): always followed
	iife := callee.Parent() == r.Fn
	if !iife && !r.Follow {
		return nil
	}
	if !iife && (callee.Pkg == nil || r.Fn.Pkg == nil || callee.Pkg != r.Fn.Pkg) {
		return nil
	}
	if callee == r.Fn {
		return nil
	}
	for _, f := range r.stack {
		if f == callee {
			return nil
		}
	}
	return callee
}

// summary runs the rule over callee from state s and returns the states at its returns. The
// callee's parameters are bound to the call's arguments for origin() while it runs.
func (res *PathResult[S]) summary(callee *ssa.Function, call *ssa.Call, s S, visit func(ins ssa.Instruction, s S)) []S {
	r := res.rule
	sub := &PathRule[S]{Fn: callee, Init: []S{s}, Transfer: r.Transfer, Branch: r.Branch, Phi: r.Phi, Follow: true, OwnPhi: r.OwnPhi, depth: r.depth + 1, stack: append(append([]*ssa.Function{}, r.stack...), r.Fn)}
	var saved []ssa.Value
	for i, par := range callee.Params {
		saved = append(saved, paramBinding[par])
		if i < len(call.Call.Args) {
			paramBinding[par] = call.Call.Args[i]
		}
	}
	defer func() {
		for i, par := range callee.Params {
			if saved[i] == nil {
				delete(paramBinding, par)
			} else {
				paramBinding[par] = saved[i]
			}
		}
	}()
	subRes := RunPath(sub)
	res.N += subRes.N
	var outs []S
	seen := map[S]bool{}
	collect := func(ins ssa.Instruction, st S) {
		if visit != nil {
			visit(ins, st)
		}
		if _, ok := ins.(*ssa.Return); ok && !seen[st] {
			seen[st] = true
			outs = append(outs, st)
		}
	}
	subRes.Visit(collect)
	if len(outs) == 0 {
		// the callee never returns normally (panics / loops): the caller does not continue
		return nil
	}
	return outs
}

// paramBinding maps a parameter of a function that is currently being followed to the argument
// of the call being followed; origin() looks through it.
var paramBinding = map[*ssa.Parameter]ssa.Value{}

// Visit calls f with every (instruction, state-before) pair reachable at the fixpoint.
func (res *PathResult[S]) Visit(f func(ins ssa.Instruction, s S)) {
	if res.rule.Fn == nil {
		return
	}
	for _, b := range res.rule.Fn.Blocks {
		for s := range res.In[b] {
			res.flow(b, s, f)
		}
	}
}

// Exits returns the states reaching each Return (before it) and each Panic.
func (res *PathResult[S]) Exits() map[ssa.Instruction][]S {
	out := map[ssa.Instruction][]S{}
	res.Visit(func(ins ssa.Instruction, s S) {
		switch ins.(type) {
		case *ssa.Return:
			out[ins] = append(out[ins], s)
		}
	})
	return out
}

// condField recognises conditions that are (possibly negated) loads of a bool
// field: returns the field, the base, and whether the condition is negated.
func condNeg(cond ssa.Value) (ssa.Value, bool) {
	neg := false
	for {
		u, ok := cond.(*ssa.UnOp)
		if !ok || u.Op.String() != "!" {
			return cond, neg
		}
		cond = u.X
		neg = !neg
	}
}

// dominatesInstr reports whether instruction a dominates instruction b
// (same function).
func dominatesInstr(a, b ssa.Instruction) bool {
	ba, bb := a.Block(), b.Block()
	if ba == bb {
		for _, i := range ba.Instrs {
			if i == a {
				return true
			}
			if i == b {
				return false
			}
		}
		return false
	}
	return ba.Dominates(bb)
}

// reachableFrom computes the set of blocks reachable from b (excluding b
// itself unless on a cycle).
func reachableBlocks(from *ssa.BasicBlock) map[*ssa.BasicBlock]bool {
	seen := map[*ssa.BasicBlock]bool{}
	var stack []*ssa.BasicBlock
	stack = append(stack, from.Succs...)
	for len(stack) > 0 {
		b := stack[len(stack)-1]
		stack = stack[:len(stack)-1]
		if seen[b] {
			continue
		}
		seen[b] = true
		stack = append(stack, b.Succs...)
	}
	return seen
}
