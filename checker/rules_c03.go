package main

import (
	"fmt"
	"go/token"
	"go/types"
	"sort"
	"strings"

	"golang.org/x/tools/go/ssa"
)

func init() {
	register(&PropertyDef{
		ID: "C03",
		Explanation: "Static analysis of the release paths. Decided: (1) R-NO-LOST-WAKEUP - for every worker loop of the form `for !x.closed { x.queue.Pop() ... }` (found by shape: 4 today) every function that sets the flag also changes the queue's state under the queue's lock (Push) on every path afterwards; a bare Signal/Broadcast is rejected because Pop tests emptiness and waits under the lock the closer does not hold, so a close between the loop test and the wait is lost forever; (2) R-ATTACH-VS-CLOSE - the joining method re-reads the stream status after registering the consumer and on the not-OK edge detaches and closes it, so an attach that races with (or follows) close cannot survive; (3) R-CLOSE-ALL-FIELDS - Stream.close closes every closable field on every path past the status test; (4) R-CONN-COUNTER-PAIRED - every connection-counter Add has its Release in a deferred closure registered before it, on the same counter, on every path; (5) R-COUNT-ATOMIC - the consumer count is updated in the same critical section as the map mutation (or only after an atomic LoadAndDelete) and the sweep cannot overwrite it concurrently; (6) R-CONSUMER-CLOSE-CLOSES - the Close of every type registered as stream consumer closes its connection or releases its waiting handler; role objects detach from the stream.",
		NotDecided: "Promptness, goroutine census at quiescence, a consumer whose Consume blocks forever inside the kernel.",
		Rules: []*RuleDoc{
			{Name: "R-NO-LOST-WAKEUP", Text: "Every function that sets the closed flag of a `for !closed { queue.Pop() }` worker changes the queue state under the queue lock (Push) afterwards on every path; Signal/Broadcast alone can be lost.", Run: ruleNoLostWakeup},
			{Name: "R-ATTACH-VS-CLOSE", Text: "After consumptions.Add the joining method loads Stream.status and, on the not-OK edge, removes and closes the new consumer.", Run: ruleAttachVsClose},
			{Name: "R-CLOSE-ALL-FIELDS", Text: "Stream.close calls Close/RemoveAndCloseAll on every field of Stream whose type has such a method, on every path that passed the status test (a nil guard on a closable field is accepted).", Run: ruleCloseAllFields},
			{Name: "R-CONN-COUNTER-PAIRED", Text: "Each function that calls stats.<X>Conns.Add has the matching Release in a deferred closure registered on every path before Add; Add happens exactly once on every path after the defer.", Run: ruleConnCounterPaired},
			{Name: "R-COUNT-ATOMIC", Text: "consumptions.count is only changed in the critical section (or atomic LoadAndDelete success edge) that changes the map; the close sweep does not blindly overwrite it while removers run.", Run: ruleCountAtomic},
			{Name: "R-CONSUMER-CLOSE-CLOSES", Text: "Close of every type passed to Stream.StartConsume* reaches a Close of its connection field(s) or closes its wait channel; role consumers detach (StopConsume/ReleaseMember).", Run: ruleConsumerCloseCloses},
		},
	})
	addMutants(
		&Mutant{Prop: "C03", Name: "c03-close-drops-flv-sweep", File: "media/stream.go",
			Old: "\ts.flvConsumptions.RemoveAndCloseAll()\n", New: "", Expect: "R-CLOSE-ALL-FIELDS"},
		&Mutant{Prop: "C03", Name: "c03-release-lost", File: "service/flv/httpflv.go",
			Old: "\t\tstream.StopConsume(cid)\n\t\tstats.FlvConns.Release()", New: "\t\tstream.StopConsume(cid)\n\t\tif cid != 0 {\n\t\t\tstats.FlvConns.Release()\n\t\t}", Expect: "R-CONN-COUNTER-PAIRED"},
		&Mutant{Prop: "C03", Name: "c03-add-before-defer", File: "service/wsp/session.go",
			Old: "\tvar err error\n\tdefer func() {\n\t\tif r := recover(); r != nil {\n\t\t\ts.logger.Errorf(\"wsp channel panic",
			New: "\tvar err error\n\tstats.WspConns.Add()\n\tif s.conn == nil {\n\t\treturn\n\t}\n\tdefer func() {\n\t\tif r := recover(); r != nil {\n\t\t\ts.logger.Errorf(\"wsp channel panic",
			More: []Edit{{"service/wsp/session.go", "\tstats.WspConns.Add() // 增加一个 RTSP 连接计数\n", ""}}, Expect: "R-CONN-COUNTER-PAIRED"},
		&Mutant{Prop: "C03", Name: "c03-wsflv-close-keeps-conn", File: "service/flv/wsflv.go",
			Old: "\tc.closed = true\n\tc.conn.Close()\n\treturn nil", New: "\tc.closed = true\n\treturn nil", Expect: "R-CONSUMER-CLOSE-CLOSES"},
		&Mutant{Prop: "C03", Name: "c03-signal-only", File: "media/consumption.go",
			Old: "\tc.closed = true\n\tc.recvQueue.Push(nil)", New: "\tc.closed = true\n\tc.recvQueue.Signal()", Expect: "R-NO-LOST-WAKEUP"},
		&Mutant{Prop: "C03", Name: "c03-no-status-recheck", File: "media/stream.go",
			Old: "\tif atomic.LoadInt32(&s.status) != StreamOK {\n\t\ts.StopConsume(c.cid)", New: "\tif atomic.LoadInt32(&s.status) != StreamOK && cs.Count() == 0 {\n\t\ts.StopConsume(c.cid)", Expect: "R-ATTACH-VS-CLOSE"},
		&Mutant{Prop: "C03", Name: "c03-count-outside-lock", File: "media/consumptions.go",
			Old: "\tm.l.Lock()\n\tdefer m.l.Unlock()\n\n\tci, ok := m.Load(cid)", New: "\tci, ok := m.Load(cid)", Expect: "R-COUNT-ATOMIC"},
		&Mutant{Prop: "C03", Name: "c03-tcpconsumer-no-detach", File: "service/rtsp/session_roles.go",
			Old: "\tc.closed = true\n\tc.source.StopConsume(c.cid)\n\tc.source = nil\n\treturn nil\n}\n\ntype udpConsumer", New: "\tc.closed = true\n\tc.source = nil\n\treturn nil\n}\n\ntype udpConsumer", Expect: "R-CONSUMER-CLOSE-CLOSES"},
	)
}

// ------------------------------------------------------------ R-NO-LOST-WAKEUP

type workerLoop struct {
	fn    *ssa.Function
	owner *types.Named
	flag  *types.Var
	queue *types.Var
	pop   ssa.Instruction
}

// findWorkerLoops finds loops whose condition loads a bool field F of the
// receiver and whose body blocks in (*SyncQueue).Pop on a queue field Q of the
// same receiver.
func findWorkerLoops(p *Program) []workerLoop {
	var out []workerLoop
	for _, fn := range p.ModFuncs() {
		if len(fn.Params) == 0 || fn.Signature.Recv() == nil {
			continue
		}
		recv := fn.Params[0]
		instrs(fn, func(ins ssa.Instruction) {
			cc := callCommon(ins)
			if cc == nil || calleeName(cc) != "(*"+queuePkg+".SyncQueue).Pop" {
				return
			}
			qf, qbase, ok := fieldLoad(origin(cc.Args[0]))
			if !ok || origin(qbase) != recv {
				return
			}
			pb := ins.Block()
			// loop header: a block that dominates pb, is reachable from pb, ends in If on a bool field of recv
			for _, h := range fn.Blocks {
				if !h.Dominates(pb) || h == pb && false {
					continue
				}
				if !reachableBlocks(pb)[h] {
					continue
				}
				ifi, ok := h.Instrs[len(h.Instrs)-1].(*ssa.If)
				if !ok {
					continue
				}
				cv, _ := condNeg(ifi.Cond)
				ff, fbase, ok := fieldLoad(cv)
				if !ok || origin(fbase) != recv {
					continue
				}
				if b, ok := ff.Type().Underlying().(*types.Basic); !ok || b.Kind() != types.Bool {
					continue
				}
				out = append(out, workerLoop{fn, namedOf(recv.Type()), ff, qf, ins})
				return
			}
		})
	}
	sort.Slice(out, func(i, j int) bool { return out[i].fn.String() < out[j].fn.String() })
	return out
}

func ruleNoLostWakeup(c *Ctx) {
	p := c.P
	loops := findWorkerLoops(p)
	c.Floor("worker loops `for !closed { queue.Pop() }`", len(loops), 4)
	for _, wl := range loops {
		c.touched(fname(wl.fn))
		setters := 0
		for _, fn := range p.ModFuncs() {
			// stores of true to flag
			var stores []ssa.Instruction
			instrs(fn, func(ins ssa.Instruction) {
				st, ok := ins.(*ssa.Store)
				if !ok {
					return
				}
				f, _, ok := fieldAddr(st.Addr)
				if !ok || f != wl.flag {
					return
				}
				if b, isc := constBool(st.Val); isc && !b {
					return // clearing the flag (construction) is not a close
				}
				stores = append(stores, ins)
			})
			if len(stores) == 0 {
				continue
			}
			setters++
			c.touched(fname(fn))
			type st struct{ Pending bool }
			isStore := map[ssa.Instruction]bool{}
			for _, s := range stores {
				isStore[s] = true
			}
			var sawSignal ssa.Instruction
			r := &PathRule[st]{Fn: fn, Init: []st{{}},
				Transfer: func(s st, ins ssa.Instruction) []st {
					if isStore[ins] {
						return []st{{true}}
					}
					if cc := callCommon(ins); cc != nil {
						n := calleeName(cc)
						if strings.HasPrefix(n, "(*"+queuePkg+".SyncQueue).") && len(cc.Args) > 0 {
							if qf, _, ok := fieldLoad(origin(cc.Args[0])); ok && qf == wl.queue {
								if strings.HasSuffix(n, ").Push") {
									return []st{{false}}
								}
								if strings.HasSuffix(n, ").Signal") || strings.HasSuffix(n, ").Broadcast") {
									sawSignal = ins
								}
							}
						}
					}
					return nil
				}}
			res := RunPath(r)
			c.paths += res.N
			bad := false
			for ret, sts := range res.Exits() {
				for _, s := range sts {
					if s.Pending {
						bad = true
						msg := "sets " + wl.owner.Obj().Name() + "." + wl.flag.Name() + " and returns without changing the queue under its lock"
						if sawSignal != nil {
							msg += " (only Signal/Broadcast at " + p.InstrPos(sawSignal) + "): if the worker has already tested the flag but not yet entered cond.Wait inside Pop, the wake-up is lost and the goroutine (and what it holds) never returns"
						}
						c.Bad("wakeup:"+fname(fn), p.InstrPos(ret), msg, "worker loop: "+fname(wl.fn)+" at "+p.InstrPos(wl.pop))
					}
				}
			}
			if !bad {
				c.OK("wakeup:"+fname(fn), p.Pos(fn.Pos()), "close flag published with a queue Push (state change under the queue lock) on every path")
			}
		}
		if setters == 0 {
			c.Bad("no-closer:"+fname(wl.fn), p.Pos(wl.fn.Pos()), "no function ever sets "+wl.flag.Name()+": the worker can never be stopped")
		}
		// the loop must tolerate the nil sentinel: result of Pop compared with nil before use
		popv, _ := wl.pop.(ssa.Value)
		guarded := false
		for _, r := range referrersOf(popv) {
			if b, ok := r.(*ssa.BinOp); ok && (b.Op == token.EQL || b.Op == token.NEQ) && (isNilConst(b.X) || isNilConst(b.Y)) {
				guarded = true
			}
		}
		c.Decide(guarded, "nil-sentinel:"+fname(wl.fn), p.InstrPos(wl.pop), "popped element is nil-checked before use", "the worker uses the popped element without a nil check: the wake-up sentinel / an empty wake-up would panic the worker")
	}
}

// ------------------------------------------------------------ R-ATTACH-VS-CLOSE

func ruleAttachVsClose(c *Ctx) {
	p := c.P
	add := p.Func("media", "(*consumptions).Add")
	stop := p.Func("media", "(*Stream).StopConsume")
	remove := p.Func("media", "(*consumptions).Remove")
	status := p.FieldVar("media", "Stream", "status")
	if add == nil || stop == nil || status == nil {
		c.Lost("consumptions.Add/StopConsume/status", "not found")
		return
	}
	var J []*ssa.Function
	for _, fn := range p.FuncsInPkg("media") {
		has := false
		instrs(fn, func(ins ssa.Instruction) {
			if callsFunc(ins, add) {
				has = true
			}
		})
		if has {
			J = append(J, fn)
		}
	}
	c.Floor("functions registering a consumer", len(J), 1)
	isStatusLoad := func(v ssa.Value) bool {
		call, ok := origin(v).(*ssa.Call)
		if !ok || calleeName(&call.Call) != "sync/atomic.LoadInt32" {
			return false
		}
		f, _, ok := fieldAddr(call.Call.Args[0])
		return ok && f == status
	}
	for _, fn := range J {
		c.touched(fname(fn))
		// state: 0 before Add, 1 added (unchecked), 2 checked OK, 3 checked not-OK (must detach), 4 detached
		r := &PathRule[int8]{Fn: fn, Init: []int8{0},
			Transfer: func(s int8, ins ssa.Instruction) []int8 {
				if callsFunc(ins, add) {
					return []int8{1}
				}
				if s == 3 && (callsFunc(ins, stop) || callsFunc(ins, remove)) {
					return []int8{4}
				}
				return nil
			},
			Branch: func(s int8, cond ssa.Value, taken bool) (int8, bool) {
				if s != 1 {
					return s, true
				}
				b, ok := cond.(*ssa.BinOp)
				if !ok || (b.Op != token.NEQ && b.Op != token.EQL) {
					return s, true
				}
				x, y := b.X, b.Y
				if _, isc := constInt(x); isc {
					x, y = y, x
				}
				k, isc := constInt(y)
				if !isc || k != 0 || !isStatusLoad(x) {
					return s, true
				}
				// the load must come after Add: checked by dominance below
				notOK := (b.Op == token.NEQ) == taken
				if notOK {
					return 3, true
				}
				return 2, true
			}}
		res := RunPath(r)
		c.paths += res.N
		bad := false
		// the status load must be executed after Add (not a stale value read before)
		var addI ssa.Instruction
		instrs(fn, func(ins ssa.Instruction) {
			if callsFunc(ins, add) {
				addI = ins
			}
		})
		stale := false
		instrs(fn, func(ins ssa.Instruction) {
			if call, ok := ins.(*ssa.Call); ok && isStatusLoad(call) {
				for _, r := range referrersOf(call) {
					if _, isB := r.(*ssa.BinOp); isB && dominatesInstr(addI, r.(ssa.Instruction)) && !dominatesInstr(addI, ins) {
						stale = true
					}
				}
			}
		})
		for ret, sts := range res.Exits() {
			for _, s := range sts {
				switch s {
				case 1:
					bad = true
					c.Bad("attach:"+fname(fn), p.InstrPos(ret), "a path registers the consumer and returns without re-reading Stream.status: an attach that follows or races with close leaves a consumer that nobody will ever close (history: Close(); StartConsume())")
				case 3:
					bad = true
					c.Bad("attach:"+fname(fn), p.InstrPos(ret), "status found not-OK after registering but the consumer is not removed and closed on that path")
				}
			}
		}
		if stale {
			bad = true
			c.Bad("attach:"+fname(fn), p.InstrPos(addI), "the status value tested after Add was loaded before Add (stale)")
		}
		if !bad {
			c.OK("attach:"+fname(fn), p.InstrPos(addI), "status re-read after registration; not-OK edge detaches and closes")
		}
	}
	// close must publish the status before sweeping
	cl := p.Func("media", "(*Stream).close")
	if cl == nil {
		c.Lost("Stream.close", "not found")
		return
	}
	var storeI ssa.Instruction
	var sweeps []ssa.Instruction
	instrs(cl, func(ins ssa.Instruction) {
		cc := callCommon(ins)
		if cc == nil {
			return
		}
		if calleeName(cc) == "sync/atomic.StoreInt32" {
			if f, _, ok := fieldAddr(cc.Args[0]); ok && f == status {
				storeI = ins
			}
		}
		if strings.HasSuffix(calleeName(cc), "consumptions).RemoveAndCloseAll") {
			sweeps = append(sweeps, ins)
		}
	})
	if storeI == nil || len(sweeps) == 0 {
		c.Bad("close:status-before-sweep", p.Pos(cl.Pos()), "Stream.close does not (atomically) store the status or does not sweep the consumers")
		return
	}
	ok := true
	for _, s := range sweeps {
		if !dominatesInstr(storeI, s) {
			ok = false
		}
	}
	c.Decide(ok, "close:status-before-sweep", p.InstrPos(storeI), "status is published before the consumer sweeps", "a consumer sweep can run before the closed status is published: a concurrent attach that sees OK is then missed by the sweep")
}

// ------------------------------------------------------------ R-CLOSE-ALL-FIELDS

func hasMethod(p *Program, t types.Type, names ...string) string {
	for _, recv := range []types.Type{t, types.NewPointer(t)} {
		ms := p.SSA.MethodSets.MethodSet(recv)
		for _, n := range names {
			for i := 0; i < ms.Len(); i++ {
				if ms.At(i).Obj().Name() == n {
					if sig, ok := ms.At(i).Type().(*types.Signature); ok && sig.Params().Len() == 0 {
						return n
					}
				}
			}
		}
	}
	return ""
}

func ruleCloseAllFields(c *Ctx) {
	p := c.P
	cl := p.Func("media", "(*Stream).close")
	sn := p.Named("media", "Stream")
	status := p.FieldVar("media", "Stream", "status")
	if cl == nil || sn == nil || status == nil {
		c.Lost("Stream.close", "not found")
		return
	}
	c.touched(fname(cl))
	st := sn.Underlying().(*types.Struct)
	type cf struct {
		v      *types.Var
		method string
	}
	var closable []cf
	for i := 0; i < st.NumFields(); i++ {
		f := st.Field(i)
		t := f.Type()
		if pt, ok := t.(*types.Pointer); ok {
			t = pt.Elem()
		}
		if m := hasMethod(p, t, "RemoveAndCloseAll", "Close"); m != "" {
			closable = append(closable, cf{f, m})
		}
	}
	c.Floor("closable fields of Stream", len(closable), 7)
	idx := map[*types.Var]int{}
	for i, f := range closable {
		idx[f.v] = i
	}
	recv := cl.Params[0]
	type cs struct {
		Closed  uint16
		NilEdge bool
		Stored  bool
	}
	r := &PathRule[cs]{Fn: cl, Init: []cs{{}},
		Transfer: func(s cs, ins ssa.Instruction) []cs {
			cc := callCommon(ins)
			if cc == nil {
				return nil
			}
			if calleeName(cc) == "sync/atomic.StoreInt32" {
				if f, _, ok := fieldAddr(cc.Args[0]); ok && f == status {
					s.Stored = true
					return []cs{s}
				}
			}
			var rv ssa.Value
			mname := ""
			if cc.IsInvoke() {
				rv, mname = cc.Value, cc.Method.Name()
			} else if cal := cc.StaticCallee(); cal != nil && len(cc.Args) > 0 {
				rv, mname = cc.Args[0], cal.Name()
			}
			if rv == nil {
				return nil
			}
			var f *types.Var
			var base ssa.Value
			if ff, b, ok := fieldLoad(origin(rv)); ok {
				f, base = ff, b
			} else if ff, b, ok := fieldAddr(rv); ok {
				f, base = ff, b
			}
			if f == nil || origin(base) != recv {
				return nil
			}
			if i, ok := idx[f]; ok && closable[i].method == mname {
				s.Closed |= 1 << i
				return []cs{s}
			}
			return nil
		},
		Branch: func(s cs, cond ssa.Value, taken bool) (cs, bool) {
			cv, neg := condNeg(cond)
			val := taken != neg
			if b, ok := cv.(*ssa.BinOp); ok && (b.Op == token.EQL || b.Op == token.NEQ) {
				other := b.X
				if isNilConst(b.X) {
					other = b.Y
				} else if !isNilConst(b.Y) {
					return s, true
				}
				if f, base, ok := fieldLoad(other); ok && origin(base) == recv {
					if _, isClosable := idx[f]; isClosable && (b.Op == token.EQL) == val {
						s.NilEdge = true
					}
				}
			}
			return s, true
		}}
	res := RunPath(r)
	c.paths += res.N
	missing := map[string]ssa.Instruction{}
	for ret, sts := range res.Exits() {
		for _, s := range sts {
			if !s.Stored {
				continue // status test failed: already closed
			}
			for i, f := range closable {
				if s.Closed&(1<<i) == 0 {
					_, isPtr := f.v.Type().(*types.Pointer)
					if s.NilEdge && isPtr {
						continue
					}
					missing[f.v.Name()] = ret
				}
			}
		}
	}
	for _, f := range closable {
		if ret, bad := missing[f.v.Name()]; bad {
			c.Bad("close-field:"+f.v.Name(), p.InstrPos(ret), "a path through Stream.close that marks the stream closed returns without calling "+f.v.Name()+"."+f.method+"(): what it holds (consumers, goroutine, files) is never released")
		} else {
			c.OK("close-field:"+f.v.Name(), p.Pos(cl.Pos()), f.method+" called on every closing path")
		}
	}
}

// ------------------------------------------------------------ R-CONN-COUNTER-PAIRED

func counterCall(ins ssa.Instruction, method string) *ssa.Global {
	cc := callCommon(ins)
	if cc == nil || !cc.IsInvoke() || cc.Method.Name() != method {
		return nil
	}
	if !typeIs(cc.Value.Type(), modRel("stats"), "Conns") {
		return nil
	}
	u, ok := cc.Value.(*ssa.UnOp)
	if !ok {
		return nil
	}
	g, _ := u.X.(*ssa.Global)
	return g
}

func ruleConnCounterPaired(c *Ctx) {
	p := c.P
	n := 0
	for _, fn := range p.ModFuncs() {
		var adds []ssa.Instruction
		instrs(fn, func(ins ssa.Instruction) {
			if _, isDefer := ins.(*ssa.Defer); isDefer {
				return
			}
			if g := counterCall(ins, "Add"); g != nil {
				adds = append(adds, ins)
			}
		})
		if len(adds) == 0 {
			continue
		}
		c.touched(fname(fn))
		for _, a := range adds {
			n++
			g := counterCall(a, "Add")
			key := "counter:" + g.Name() + "@" + fname(fn)
			// find a Defer dominating the Add whose closure releases g on every path
			var good *ssa.Defer
			why := "no deferred closure releasing " + g.Name() + " is registered before Add"
			instrs(fn, func(ins ssa.Instruction) {
				d, ok := ins.(*ssa.Defer)
				if !ok || !dominatesInstr(d, a) {
					return
				}
				df := deferredFunc(d)
				if df == nil {
					return
				}
				ex, np := countPaths(df, func(i ssa.Instruction) bool { return counterCall(i, "Release") == g }, nil)
				c.paths += np
				all := len(ex) > 0
				any := false
				for _, sts := range ex {
					for _, s := range sts {
						if s.N > 0 {
							any = true
						}
						if s.N != 1 {
							all = false
						}
					}
				}
				if all {
					good = d
				} else if any {
					why = "the deferred closure at " + p.InstrPos(d) + " releases " + g.Name() + " on some paths only (or more than once)"
				}
			})
			if good == nil {
				c.Bad(key, p.InstrPos(a), why+": the active-connection counter does not return to its prior value")
				continue
			}
			// every exit after the defer passes Add exactly once
			type st struct {
				D bool
				N int8
			}
			r := &PathRule[st]{Fn: fn, Init: []st{{}},
				Transfer: func(s st, ins ssa.Instruction) []st {
					if ins == ssa.Instruction(good) {
						s.D = true
						return []st{s}
					}
					if counterCall(ins, "Add") == g {
						if _, isDefer := ins.(*ssa.Defer); !isDefer {
							if s.N < 2 {
								s.N++
							}
							return []st{s}
						}
					}
					return nil
				}}
			res := RunPath(r)
			c.paths += res.N
			ok := true
			for ret, sts := range res.Exits() {
				for _, s := range sts {
					if s.D && s.N != 1 || !s.D && s.N != 0 {
						ok = false
						c.Bad(key, p.InstrPos(ret), fmt.Sprintf("a path returns with the release deferred=%v but Add executed %d times: counter drifts", s.D, s.N))
					}
				}
			}
			if ok {
				c.OK(key, p.InstrPos(a), "Release deferred before Add on every path, same counter")
			}
		}
	}
	c.Floor("connection counter Add sites", n, 5)
}

// ------------------------------------------------------------ R-COUNT-ATOMIC

func ruleCountAtomic(c *Ctx) {
	p := c.P
	cnt := p.FieldVar("media", "consumptions", "count")
	if cnt == nil {
		c.Lost("consumptions.count", "field not found")
		return
	}
	isMapMut := func(ins ssa.Instruction) string {
		cc := callCommon(ins)
		if cc == nil {
			return ""
		}
		switch calleeName(cc) {
		case "(*sync.Map).Delete":
			return "Delete"
		case "(*sync.Map).Store":
			return "Store"
		case "(*sync.Map).LoadAndDelete":
			return "LoadAndDelete"
		}
		return ""
	}
	n := 0
	for _, fn := range p.FuncsInPkg("media") {
		root := fn
		for root.Parent() != nil {
			root = root.Parent()
		}
		var updates []ssa.Instruction
		instrs(fn, func(ins ssa.Instruction) {
			cc := callCommon(ins)
			if cc == nil {
				return
			}
			nm := calleeName(cc)
			if nm == "sync/atomic.AddInt32" || nm == "sync/atomic.StoreInt32" {
				if f, _, ok := fieldAddr(cc.Args[0]); ok && f == cnt {
					updates = append(updates, ins)
				}
			}
		})
		instrs(fn, func(ins ssa.Instruction) {
			if st, ok := ins.(*ssa.Store); ok {
				if f, _, ok := fieldAddr(st.Addr); ok && f == cnt {
					updates = append(updates, ins)
				}
			}
		})
		if len(updates) == 0 {
			continue
		}
		c.touched(fname(fn))
		// lockset at updates and at map mutations of the same (outer) function incl. closures
		heldAt := map[ssa.Instruction]lockSet{}
		for _, f := range withAnons(root) {
			entry := lockSet("")
			if f != root {
				// closure passed to Range inside the critical section: inherit the lockset at the MakeClosure
				instrs(f.Parent(), func(ins ssa.Instruction) {
					if mc, ok := ins.(*ssa.MakeClosure); ok && mc.Fn == f {
						if h, ok := heldAt[mc]; ok {
							entry = h
						}
					}
				})
			}
			c.paths += locksAt(f, entry, func(ins ssa.Instruction, held lockSet) {
				if old, ok := heldAt[ins]; ok {
					// intersection over paths
					m := old.toMap()
					h := held.toMap()
					for k := range m {
						if _, ok := h[k]; !ok {
							delete(m, k)
						}
					}
					heldAt[ins] = fromMap(m)
				} else {
					heldAt[ins] = held
				}
			})
		}
		for _, u := range updates {
			n++
			key := "count-update@" + fname(fn)
			held := heldAt[u].toMap()
			var wl []string
			for k, m := range held {
				if m == 'W' && strings.HasPrefix(k, "consumptions.") {
					wl = append(wl, k)
				}
			}
			if len(wl) > 0 {
				// all map mutations in the same root function must hold it too
				okAll := true
				loadOutside := false
				for _, f := range withAnons(root) {
					instrs(f, func(ins ssa.Instruction) {
						if isMapMut(ins) != "" && !heldAt[ins].holds(wl[0], true) {
							okAll = false
						}
						// the lookup that decides whether to delete/decrement belongs to the same section (check-then-act)
						if cc := callCommon(ins); cc != nil && calleeName(cc) == "(*sync.Map).Load" && !heldAt[ins].holds(wl[0], true) {
							loadOutside = true
						}
					})
				}
				if okAll && loadOutside {
					c.Bad(key, p.InstrPos(u), "the map lookup that decides this count update is made before "+wl[0]+" is taken (check-then-act): T1 Remove.Load ok; T2 close sweep Delete + Store(0) under the lock; T1 takes the lock, Delete, Add(-1) -> count = -1 after the stream ended (two concurrent stops of one consumer decrement twice the same way)")
					continue
				}
				c.Decide(okAll, key, p.InstrPos(u), "lookup, map change and count change are one critical section ("+wl[0]+")", "count is updated under "+wl[0]+" but the map mutation is outside that critical section")
				continue
			}
			// lock-free variant: decrement only on LoadAndDelete success; no blind Store
			cc := callCommon(u)
			if cc != nil && calleeName(cc) == "sync/atomic.StoreInt32" {
				c.Bad(key, p.InstrPos(u), "the close sweep overwrites the consumer count without excluding concurrent removers: T1 Remove.Load ok; T2 sweep Delete+Store(0); T1 Delete, Add(-1) -> count = -1")
				continue
			}
			if cc != nil && calleeName(cc) == "sync/atomic.AddInt32" {
				if k, ok := constInt(cc.Args[1]); ok && k < 0 {
					// must be dominated by LoadAndDelete success
					good := false
					instrs(fn, func(ins ssa.Instruction) {
						if isMapMut(ins) == "LoadAndDelete" && dominatesInstr(ins, u) {
							good = true
						}
					})
					c.Decide(good, key, p.InstrPos(u), "decrement only after an atomic LoadAndDelete", "the count is decremented after a non-atomic Load+Delete: two removers of the same consumer (Remove vs. the close sweep) both decrement")
					continue
				}
				c.OK(key, p.InstrPos(u), "increment paired with Store")
				continue
			}
			c.Undecided(key, p.InstrPos(u), "unrecognised count update")
		}
	}
	c.Floor("updates of consumptions.count", n, 3)
}

// ------------------------------------------------------------ R-CONSUMER-CLOSE-CLOSES

func ruleConsumerCloseCloses(c *Ctx) {
	p := c.P
	// concrete types flowing into StartConsume*'s consumer parameter
	starts := []*ssa.Function{p.Func("media", "(*Stream).StartConsume"), p.Func("media", "(*Stream).StartConsumeNoGopCache")}
	typesSeen := map[string]types.Type{}
	for _, sf := range starts {
		if sf == nil {
			c.Lost("Stream.StartConsume*", "not found")
			return
		}
		for _, site := range p.CallersOf(sf) {
			cc := callCommon(site)
			if len(cc.Args) < 2 {
				continue
			}
			c.sites++
			v := cc.Args[1]
			if mi, ok := v.(*ssa.MakeInterface); ok {
				typesSeen[mi.X.Type().String()] = mi.X.Type()
			} else {
				c.Undecided("consumer-type@"+fname(site.Parent()), p.InstrPos(site), "cannot determine the concrete consumer type passed to StartConsume")
			}
		}
	}
	c.Floor("consumer types registered with streams", len(typesSeen), 5)
	var names []string
	for n := range typesSeen {
		names = append(names, n)
	}
	sort.Strings(names)
	for _, n := range names {
		t := typesSeen[n]
		sel := p.SSA.MethodSets.MethodSet(t).Lookup(nil, "Close")
		if sel == nil {
			c.Bad("close:"+n, "", "registered consumer type has no Close method")
			continue
		}
		cf := unwrap(p.SSA.MethodValue(sel))
		c.touched(fname(cf))
		// closes a connection-like field (Close on a field whose type has Close), or closes a channel
		r := p.Reach([]*ssa.Function{cf}, func(from *ssa.Function, e Edge) bool { return e.Kind != EdgeGo })
		closes := false
		for f := range r.Funcs {
			instrs(f, func(ins ssa.Instruction) {
				cc := callCommon(ins)
				if cc == nil {
					return
				}
				nm := calleeName(cc)
				if nm == "builtin.close" {
					closes = true
				}
				if strings.HasSuffix(nm, ".Close") {
					var rv ssa.Value
					if cc.IsInvoke() {
						rv = cc.Value
					} else if len(cc.Args) > 0 {
						rv = cc.Args[0]
					}
					if fl, _, ok := fieldLoad(origin(rv)); ok {
						tn := fl.Type().String()
						if strings.Contains(tn, "Conn") || strings.Contains(tn, "net.") {
							closes = true
						}
					}
				}
			})
		}
		short := strings.ReplaceAll(n, modPath+"/", "")
		c.Decide(closes, "close:"+short, p.Pos(cf.Pos()), "Close reaches a Close of its connection / closes its wait channel", "Close of registered consumer type "+short+" neither closes a connection field nor a wait channel: when the stream ends the client stays connected (or the HTTP handler blocks) forever")
	}
	// role consumers detach
	for _, role := range []struct{ typ, want string }{{"tcpConsumer", "StopConsume"}, {"udpConsumer", "StopConsume"}, {"multicastConsumer", "ReleaseMember"}} {
		cf := p.Func("service/rtsp", "(*"+role.typ+").Close")
		if cf == nil {
			c.Lost("rtsp."+role.typ+".Close", "not found")
			continue
		}
		c.touched(fname(cf))
		closedF := p.FieldVar("service/rtsp", role.typ, "closed")
		ex, np := countPaths(cf, func(i ssa.Instruction) bool {
			cc := callCommon(i)
			if cc == nil {
				return false
			}
			if cc.IsInvoke() {
				return cc.Method.Name() == role.want
			}
			return cc.StaticCallee() != nil && baseFuncName(cc.StaticCallee()) == role.want
		}, func(s cnt, cond ssa.Value, taken bool) (cnt, bool) {
			cv, neg := condNeg(cond)
			if f, _, ok := fieldLoad(cv); ok && f == closedF && taken != neg {
				s.Flag = 1
			}
			return s, true
		})
		c.paths += np
		ok := len(ex) > 0
		for ret, sts := range ex {
			for _, s := range sts {
				if s.Flag == 0 && s.N != 1 {
					ok = false
					c.Bad("role-detach:"+role.typ, p.InstrPos(ret), fmt.Sprintf("a not-yet-closed path of %s.Close returns with %d calls of %s: the role stays attached to the stream", role.typ, s.N, role.want))
				}
			}
		}
		if ok {
			c.OK("role-detach:"+role.typ, p.Pos(cf.Pos()), "detaches exactly once unless already closed")
		}
	}
}
