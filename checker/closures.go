package main

// Normalisation step: a function literal bound once to a local variable and used only by calling
// it (`push := func(t *Tag) {...}; push(a); push(b)`) is expanded at its call sites into an
// immediately invoked literal whose parameters are local declarations; the flattening step then
// turns those into straight-line code. Behaviour is unchanged: arguments are evaluated in order
// before the body, the body captures the same variables (checked: no captured name is shadowed at a
// call site), and the literal has no defer/recover.

import (
	"fmt"
	"go/ast"
	"go/token"
	"go/types"
	"os"
	"sort"
	"strings"

	"golang.org/x/tools/go/packages"
)

// expandOneClosure expands at most one closure per file content; returns true if out was changed.
func expandOneClosure(pk *packages.Package, out map[string][]byte, root string) (bool, string) {
	for _, f := range pk.Syntax {
		tf := pk.Fset.File(f.Pos())
		name := tf.Name()
		src, ok := out[name]
		if !ok {
			b, err := os.ReadFile(name)
			if err != nil {
				continue
			}
			src = b
		}
		off := func(p token.Pos) int { return tf.Offset(p) }
		text := func(a, b token.Pos) string { return string(src[off(a):off(b)]) }
		var done bool
		var what string
		for _, d := range f.Decls {
			fd, ok := d.(*ast.FuncDecl)
			if !ok || fd.Body == nil || done {
				continue
			}
			ast.Inspect(fd.Body, func(n ast.Node) bool {
				if done {
					return false
				}
				as, ok := n.(*ast.AssignStmt)
				if !ok || as.Tok != token.DEFINE || len(as.Lhs) != 1 || len(as.Rhs) != 1 {
					return true
				}
				id, ok := as.Lhs[0].(*ast.Ident)
				fl, ok2 := as.Rhs[0].(*ast.FuncLit)
				if !ok || !ok2 || !simpleBody(fl.Body) {
					return true
				}
				obj := pk.TypesInfo.Defs[id]
				if obj == nil {
					return true
				}
				// parameters: named, not variadic
				type par struct{ name, typ string }
				var pars []par
				if fl.Type.Params != nil {
					for _, fld := range fl.Type.Params.List {
						if _, variadic := fld.Type.(*ast.Ellipsis); variadic || len(fld.Names) == 0 {
							return true
						}
						for _, nm := range fld.Names {
							pars = append(pars, par{nm.Name, text(fld.Type.Pos(), fld.Type.End())})
						}
					}
				}
				// every use is the callee of a plain call outside the literal
				var calls []*ast.CallExpr
				good := true
				callFun := map[*ast.Ident]*ast.CallExpr{}
				banned := map[*ast.CallExpr]bool{}
				ast.Inspect(fd.Body, func(m ast.Node) bool {
					switch x := m.(type) {
					case *ast.CallExpr:
						if fi, ok := x.Fun.(*ast.Ident); ok {
							callFun[fi] = x
						}
					case *ast.GoStmt:
						banned[x.Call] = true
					case *ast.DeferStmt:
						banned[x.Call] = true
					}
					return true
				})
				for uid, uobj := range pk.TypesInfo.Uses {
					if uobj != obj {
						continue
					}
					call := callFun[uid]
					if call == nil || banned[call] || (uid.Pos() >= fl.Pos() && uid.Pos() < fl.End()) || len(call.Args) != len(pars) || call.Ellipsis.IsValid() {
						good = false
						break
					}
					calls = append(calls, call)
				}
				if !good || len(calls) == 0 {
					return true
				}
				// captured local variables must mean the same object at every call site
				captured := map[string]types.Object{}
				ast.Inspect(fl.Body, func(m ast.Node) bool {
					uid, ok := m.(*ast.Ident)
					if !ok {
						return true
					}
					o := pk.TypesInfo.Uses[uid]
					if o == nil || o.Pkg() == nil || o.Parent() == nil || o.Parent() == pk.Types.Scope() || o.Parent() == types.Universe {
						return true
					}
					if o.Pos() >= fl.Pos() && o.Pos() < fl.End() {
						return true // declared inside the literal
					}
					captured[uid.Name] = o
					return true
				})
				for _, call := range calls {
					sc := pk.Types.Scope().Innermost(call.Pos())
					if sc == nil {
						return true
					}
					for nm, o := range captured {
						if _, o2 := sc.LookupParent(nm, call.Pos()); o2 != o {
							return true
						}
					}
					// nested calls of the closure inside another call's arguments are not handled
					for _, other := range calls {
						if other != call && other.Pos() > call.Pos() && other.End() <= call.End() {
							return true
						}
					}
				}
				res := ""
				if fl.Type.Results != nil {
					res = " " + text(fl.Type.Results.Pos(), fl.Type.Results.End())
				}
				body := text(fl.Body.Lbrace+1, fl.Body.Rbrace)
				type edit struct {
					a, b int
					s    string
				}
				var edits []edit
				for _, call := range calls {
					var b strings.Builder
					b.WriteString("func()" + res + " {\n")
					for i, p := range pars {
						if p.name == "_" {
							b.WriteString("_ = " + text(call.Args[i].Pos(), call.Args[i].End()) + "\n")
							continue
						}
						b.WriteString("var " + p.name + " " + p.typ + " = " + text(call.Args[i].Pos(), call.Args[i].End()) + "\n_ = " + p.name + "\n")
					}
					b.WriteString(body + "\n}()")
					edits = append(edits, edit{off(call.Pos()), off(call.End()), b.String()})
				}
				edits = append(edits, edit{off(as.Pos()), off(as.End()), ""})
				sort.Slice(edits, func(i, j int) bool { return edits[i].a > edits[j].a })
				nb := append([]byte{}, src...)
				for _, e := range edits {
					nb = append(append(append([]byte{}, nb[:e.a]...), e.s...), nb[e.b:]...)
				}
				out[name] = nb
				done = true
				what = fmt.Sprintf("expanded the local closure %s at its %d call site(s) in %s", id.Name, len(calls), shortPos(pk.Fset, fd.Pos(), root))
				return false
			})
		}
		if done {
			return true, what
		}
	}
	return false, ""
}
