// ipcheck decides structural necessary conditions of the ipchub properties
// C01..C20 by static analysis of /repo's current source. Nothing under /repo
// is executed. See /verif/DESIGN.md.
package main

import (
	"golang.org/x/tools/go/ssa"
	"flag"
	"fmt"
	"os"
	"os/exec"
	"path/filepath"
	"runtime/debug"
	"sort"
	"strconv"
	"strings"
	"sync"
	"time"
)

// PropertyDef binds a property to its rules.
type PropertyDef struct {
	ID          string
	Explanation string
	NotDecided  string
	Rules       []*RuleDoc
}

var properties = map[string]*PropertyDef{}

func register(p *PropertyDef) { properties[p.ID] = p }

func main() {
	prop := flag.String("property", "", "property id (C01..C20)")
	tier := flag.String("tier", "", "quick|thorough (default $VERIF_TIER or quick)")
	root := flag.String("root", "/repo", "repository root")
	verif := flag.String("verif", "/verif", "verif directory")
	only := flag.String("only", "", "replay: evaluate the property and report only this obligation key")
	mutant := flag.String("mutant", "", "self-test: apply the named in-memory mutant (overlay) before analysing; no evidence written")
	list := flag.Bool("list", false, "list properties, rules and mutants")
	replay := flag.String("replay", "", "replay file written by a previous violation")
	selftest := flag.Bool("selftest", false, "run all mutants of the property (or all properties) and report")
	wbase := flag.Bool("write-baseline", false, "write <verif>/baseline_funcs.txt from the functions of <root>")
	flag.Parse()
	if *wbase {
		if err := writeBaseline(*root, *verif); err != nil {
			fmt.Fprintln(os.Stderr, err)
			os.Exit(2)
		}
		return
	}

	if *list {
		ids := sortedProps()
		for _, id := range ids {
			fmt.Println(id)
			for _, r := range properties[id].Rules {
				fmt.Printf("  %s%s\n", r.Name, map[bool]string{true: " (thorough)", false: ""}[r.Thorough])
			}
			for _, m := range mutants {
				if m.Prop == id {
					fmt.Printf("  mutant %s -> %s\n", m.Name, m.Expect)
				}
			}
		}
		return
	}
	if *replay != "" {
		os.Exit(doReplay(*replay, *root, *verif))
	}
	if *tier == "" {
		*tier = os.Getenv("VERIF_TIER")
	}
	if *tier != "thorough" {
		*tier = "quick"
	}
	seed := 0
	if s := os.Getenv("VERIF_SEED"); s != "" {
		seed, _ = strconv.Atoi(s)
	}
	if *selftest {
		os.Exit(runSelftestAll(*prop, *root))
	}
	def := properties[*prop]
	if def == nil {
		fmt.Fprintf(os.Stderr, "unknown property %q\n", *prop)
		os.Exit(2)
	}
	os.Exit(runProperty(def, *tier, *root, *verif, *only, *mutant, seed))
}

func sortedProps() []string {
	var ids []string
	for id := range properties {
		ids = append(ids, id)
	}
	sort.Strings(ids)
	return ids
}

func runProperty(def *PropertyDef, tier, root, verif, only, mutant string, seed int) (code int) {
	start := time.Now()
	defer func() {
		if r := recover(); r != nil {
			fmt.Fprintf(os.Stderr, "checker panic: %v\n%s\n", r, debug.Stack())
			code = 2
		}
	}()
	var overlay map[string][]byte
	var mut *Mutant
	if mutant != "" {
		mut = findMutant(mutant)
		if mut == nil {
			fmt.Fprintf(os.Stderr, "unknown mutant %q\n", mutant)
			return 2
		}
		var err error
		overlay, err = mut.overlay(root)
		if err != nil {
			fmt.Printf("MUTANT-SKIPPED %s: %v\n", mutant, err)
			return 3
		}
	}
	eval := func(ov map[string][]byte) (*Ctx, error) {
		currentOverlay = ov
		p, err := loadProgram(root, ov)
		if err != nil {
			return nil, err
		}
		theProgram = p
		paramBinding = map[*ssa.Parameter]ssa.Value{}
		c := newCtx(p, def.ID, tier)
		for _, r := range def.Rules {
			if r.Thorough && tier != "thorough" {
				continue
			}
			c.rule = r
			n0 := len(c.Obs)
			func() {
				defer func() {
					if rec := recover(); rec != nil {
						c.add("undecided", "rule-panic", "", fmt.Sprintf("rule panicked: %v\n%s", rec, debug.Stack()), false, nil)
					}
				}()
				r.Run(c)
			}()
			if len(c.Obs) == n0 {
				c.add("vacuous", "no-instances", "", "rule produced no obligations", false, nil)
			}
		}
		return c, nil
	}
	c, err := eval(overlay)
	if err != nil {
		fmt.Fprintf(os.Stderr, "cannot load program: %v\n", err)
		if mut != nil {
			fmt.Printf("MUTANT-SKIPPED %s: does not compile: %v\n", mutant, err)
			return 3
		}
		// a tree that does not load cannot be decided
		fmt.Printf("UNDECIDED property=%s reason=load-failure\n", def.ID)
		return 2
	}
	// If something is not discharged on the tree as written, evaluate once more on the normalised
	// tree (calls to functions outside the baseline symbol table inlined); see normalize.go.
	if kf, kerr := loadFindings(filepath.Join(verif, "known_findings.json")); kerr == nil {
		known := map[string]bool{}
		for _, f := range kf {
			if f.Status == "known" && f.Property == def.ID {
				known[f.Key] = true
			}
		}
		open := 0
		for _, o := range c.Obs {
			if o.Status != "discharged" && !known[o.Key] {
				open++
			}
		}
		if open > 0 {
			if baseline, berr := loadBaseline(verif); berr == nil {
				nov, nlog, nerr := normalize(root, overlay, baseline)
				if nerr != nil {
					c.Note("normalisation pre-pass failed: %v", nerr)
				} else {
					if len(nlog) == 0 {
						nlog = []string{"no call to inline; private functions and fields that were renamed are looked up through the baseline symbol table"}
					}
					if d := os.Getenv("IPCHECK_DUMP"); d != "" {
						os.MkdirAll(d, 0o755)
						for name, b := range nov {
							os.WriteFile(filepath.Join(d, strings.ReplaceAll(strings.TrimPrefix(name, root+"/"), "/", "_")), b, 0o644)
						}
					}
					if c2, err2 := eval(nov); err2 == nil {
						c2.Note("%d obligation(s) were not discharged on the tree as written; the verdict below is for the normalised tree (%d step(s): %s)", open, len(nlog), strings.Join(nlog, "; "))
						c = c2
					} else {
						c.Note("normalised tree does not load: %v", err2)
					}
				}
			}
		}
	}
	if only != "" {
		var keep []*Obligation
		for _, o := range c.Obs {
			if o.Key == only {
				keep = append(keep, o)
			}
		}
		if len(keep) == 0 {
			fmt.Printf("obligation %s no longer exists on this tree\n", only)
			return 0
		}
		bad := 0
		for _, o := range keep {
			fmt.Printf("[%s] %s at %s: %s\n", o.Status, o.Key, o.Pos, o.Msg)
			for _, pp := range o.Path {
				fmt.Printf("   | %s\n", pp)
			}
			if o.Status != "discharged" {
				bad++
			}
		}
		if bad > 0 {
			return 1
		}
		fmt.Println("no longer violated")
		return 0
	}
	if mut != nil {
		// self-test mode: did the expected obligation fire?
		hit := false
		kf, _ := loadFindings(filepath.Join(verif, "known_findings.json"))
		knownKey := map[string]bool{}
		for _, f := range kf {
			if f.Status == "known" && f.Property == def.ID {
				knownKey[f.Key] = true
			}
		}
		for _, o := range c.Obs {
			if o.Status != "discharged" && !knownKey[o.Key] {
				fmt.Printf("  mutant %s: [%s] %s at %s: %s\n", mutant, o.Status, o.Key, o.Pos, o.Msg)
				if strings.HasPrefix(o.Key, mut.Expect) {
					hit = true
				}
			}
		}
		if hit {
			fmt.Printf("MUTANT-CAUGHT %s by %s\n", mutant, mut.Expect)
			return 0
		}
		fmt.Printf("MUTANT-MISSED %s (expected %s)\n", mutant, mut.Expect)
		return 1
	}
	findings, err := loadFindings(filepath.Join(verif, "known_findings.json"))
	if err != nil {
		fmt.Fprintf(os.Stderr, "cannot read known_findings.json: %v\n", err)
		return 2
	}
	var st map[string]interface{}
	if tier == "thorough" {
		st = runSelftest(def.ID, root)
	}
	return report(c, def.Rules, verif, findings, start, seed, def.Explanation, def.NotDecided, st)
}

// runSelftest runs every mutant of the property in a separate process
// (in-memory overlay; /repo is not touched) and reports how many were caught.
func runSelftest(prop, root string) map[string]interface{} {
	var ms []*Mutant
	for _, m := range mutants {
		if m.Prop == prop {
			ms = append(ms, m)
		}
	}
	res := map[string]interface{}{}
	var mu sync.Mutex
	caught, missed, skipped := []string{}, []string{}, []string{}
	sem := make(chan struct{}, 4)
	var wg sync.WaitGroup
	self, _ := os.Executable()
	for _, m := range ms {
		wg.Add(1)
		go func(m *Mutant) {
			defer wg.Done()
			sem <- struct{}{}
			defer func() { <-sem }()
			cmd := exec.Command(self, "-property", prop, "-root", root, "-mutant", m.Name)
			out, err := cmd.CombinedOutput()
			code := 0
			if ee, ok := err.(*exec.ExitError); ok {
				code = ee.ExitCode()
			} else if err != nil {
				code = 2
			}
			mu.Lock()
			defer mu.Unlock()
			switch {
			case code == 0 && strings.Contains(string(out), "MUTANT-CAUGHT"):
				caught = append(caught, m.Name)
			case code == 3:
				skipped = append(skipped, m.Name)
			default:
				missed = append(missed, m.Name)
			}
		}(m)
	}
	wg.Wait()
	sort.Strings(caught)
	sort.Strings(missed)
	sort.Strings(skipped)
	res["mutants"] = len(ms)
	res["caught"] = caught
	res["missed"] = missed
	res["skipped_not_applicable_to_current_tree"] = skipped
	fmt.Printf("selftest property=%s mutants=%d caught=%d missed=%d skipped=%d\n", prop, len(ms), len(caught), len(missed), len(skipped))
	for _, m := range missed {
		fmt.Printf("SELFTEST-MISS %s\n", m)
	}
	return res
}

func runSelftestAll(prop, root string) int {
	ids := sortedProps()
	bad := 0
	for _, id := range ids {
		if prop != "" && prop != id {
			continue
		}
		r := runSelftest(id, root)
		if len(r["missed"].([]string)) > 0 {
			bad++
		}
	}
	if bad > 0 {
		return 1
	}
	return 0
}
