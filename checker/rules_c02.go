package main

import (
	"fmt"
	"go/token"
	"go/types"
	"sort"
	"strings"

	"golang.org/x/tools/go/ssa"
)

func init() {
	register(&PropertyDef{
		ID: "C02",
		Explanation: "Static analysis of the join path and the three packet caches. Decided: (1) R-JOIN-ATOMIC - in every Stream method that caches and then broadcasts a packet, and in the method that snapshots the cache into a new consumer's queue and then registers it, one and the same Stream mutex is held continuously across the pair (otherwise the interleavings snapshot|cache(p)|broadcast(p)|Add lose p and cache(p)|snapshot|Add|broadcast(p) repeat p); (2) R-REPLAY-ORDER - every PushTo pushes each cached parameter set that is non-nil, in declaration order, before the GOP, and the GOP exactly once when caching is on; the FLV variant pushes restamped copies whose timestamp is the first GOP tag's (or 0); (3) R-CACHE-SIBLINGS - in each CachePack a parameter-set field is stored only on the true edge of its own classification flag with the packet itself, returning false; the GOP is reset only on the key-frame edge, appended only after a reset or when non-empty, only when caching is enabled; the result is the key-frame flag; all under the cache's write lock (PushTo under the read lock). The three siblings must satisfy the same rule.",
		NotDecided: "That the classification inside STAP/AP/FU payloads is right for every packetisation, the numeric timestamp values, cache_gop on/off observational equivalence.",
		Rules: []*RuleDoc{
			{Name: "R-JOIN-ATOMIC", Text: "A single Stream mutex is held from CachePack through SendToAll in every publishing method and from the cache snapshot (sendGop) through consumptions.Add in the joining method.", Run: ruleJoinAtomic},
			{Name: "R-REPLAY-ORDER", Text: "Each packCache.PushTo pushes every non-nil parameter-set field in declaration order, never after the GOP; pushes the GOP exactly once when caching is enabled; FLV headers are pushed as copies stamped with the first GOP tag's timestamp.", Run: ruleReplayOrder},
			{Name: "R-CACHE-SIBLINGS", Text: "Each CachePack stores a parameter-set field only under its own flag (then returns false), resets the GOP only at a key frame, appends only after reset or when non-empty and only when caching is on, returns the key-frame flag; all under the write lock.", Run: ruleCacheSiblings},
			{Name: "R-REPLAY-BEFORE-REGISTER", Text: "(shared with C01) startConsume replays before registering and starts the delivery goroutine last.", Run: ruleQueueOwners},
		},
	})
	addMutants(
		&Mutant{Prop: "C02", Name: "c02-gop-no-reset", File: "media/cache/h264cache.go",
			Old: "\t\t\tcache.gop.Reset()\n\t\t\tcache.gop.Push(rtppack)", New: "\t\t\tcache.gop.Push(rtppack)", Expect: "R-CACHE-SIBLINGS"},
		&Mutant{Prop: "C02", Name: "c02-hevc-len-guard-lost", File: "media/cache/hevccache.go",
			Old: "} else if cache.gop.Len() > 0 {", New: "} else {", Expect: "R-CACHE-SIBLINGS"},
		&Mutant{Prop: "C02", Name: "c02-sps-after-gop", File: "media/cache/h264cache.go",
			Old:    "\tif cache.pps != nil {\n\t\tq.Queue().Push(cache.pps)\n\t\tbytes += cache.pps.Size()\n\t}\n\n\t// 如果必要，写 GopCache\n\tif cache.cacheGop {\n\t\tpacks := cache.gop.Elems()\n\t\tq.Queue().PushN(packs) // 启动阶段调用，无需加锁\n\t\tfor _, p := range packs {\n\t\t\tbytes += p.(Pack).Size()\n\t\t}\n\t}\n",
			New:    "\t// 如果必要，写 GopCache\n\tif cache.cacheGop {\n\t\tpacks := cache.gop.Elems()\n\t\tq.Queue().PushN(packs) // 启动阶段调用，无需加锁\n\t\tfor _, p := range packs {\n\t\t\tbytes += p.(Pack).Size()\n\t\t}\n\t}\n\tif cache.pps != nil {\n\t\tq.Queue().Push(cache.pps)\n\t\tbytes += cache.pps.Size()\n\t}\n",
			Expect: "R-REPLAY-ORDER"},
		&Mutant{Prop: "C02", Name: "c02-vps-not-replayed", File: "media/cache/hevccache.go",
			Old: "\tif cache.vps != nil {\n\t\tq.Queue().Push(cache.vps)", New: "\tif cache.vps != nil && cache.cacheGop {\n\t\tq.Queue().Push(cache.vps)", Expect: "R-REPLAY-ORDER"},
		&Mutant{Prop: "C02", Name: "c02-flv-header-stamp-zero", File: "media/cache/flvcache.go",
			Old: "\t\tvideoSequenceHeader.Timestamp = initTimestamp", New: "\t\tvideoSequenceHeader.Timestamp = 0", Expect: "R-REPLAY-ORDER"},
		&Mutant{Prop: "C02", Name: "c02-pps-under-sps-flag", File: "media/cache/h264cache.go",
			Old: "\tif pps { // 新图像参数，重置 GopCahce\n\t\tcache.pps = rtppack", New: "\tif pps { // 新图像参数，重置 GopCahce\n\t\tcache.sps = rtppack", Expect: "R-CACHE-SIBLINGS"},
		&Mutant{Prop: "C02", Name: "c02-flv-keyframe-result", File: "media/cache/flvcache.go",
			Old: "\t\t} else if cache.gop.Len() > 0 { // 必须关键帧作为cache的第一个包\n\t\t\tcache.gop.Push(pack)\n\t\t}\n\t}\n\treturn keyframe",
			New: "\t\t} else if cache.gop.Len() > 0 { // 必须关键帧作为cache的第一个包\n\t\t\tcache.gop.Push(pack)\n\t\t}\n\t}\n\treturn keyframe && cache.cacheGop", Expect: "R-CACHE-SIBLINGS"},
		&Mutant{Prop: "C02", Name: "c02-join-unlocked-register-first", File: "media/stream.go",
			Old: "\tif useGopCache {\n\t\tc.sendGop(cache) // 新消费者，先发送gop缓存\n\t}\n\tcs.Add(c)",
			New: "\tcs.Add(c)\n\tif useGopCache {\n\t\tc.sendGop(cache) // 新消费者，先发送gop缓存\n\t}", Expect: "R-REPLAY-BEFORE-REGISTER"},
		&Mutant{Prop: "C02", Name: "c02-join-lock-narrowed", File: "media/stream.go",
			Old: "\t\tc.sendGop(cache) // 新消费者，先发送gop缓存\n\t}\n\tcs.Add(c)\n\ts.joinLock.Unlock()", New: "\t\tc.sendGop(cache) // 新消费者，先发送gop缓存\n\t}\n\ts.joinLock.Unlock()\n\tcs.Add(c)", Expect: "R-JOIN-ATOMIC"},
		&Mutant{Prop: "C02", Name: "c02-publisher-unlocks-early", File: "media/stream.go",
			Old: "\tkeyframe := s.flvCache.CachePack(tag)\n\ts.flvConsumptions.SendToAll(tag, keyframe)\n\ts.joinLock.RUnlock()", New: "\tkeyframe := s.flvCache.CachePack(tag)\n\ts.joinLock.RUnlock()\n\ts.flvConsumptions.SendToAll(tag, keyframe)", Expect: "R-JOIN-ATOMIC"},
	)
}

// ------------------------------------------------------------ R-JOIN-ATOMIC

type joinState struct {
	Held    lockSet
	Since   lockSet
	Started bool
}

// heldAcross runs fn and reports, for every `end` instruction reached after a
// `start` instruction, the set of locks held continuously since the start.
func heldAcross(fn *ssa.Function, isStart, isEnd func(ssa.Instruction) bool, needWrite bool) (results []lockSet, ends []ssa.Instruction, n int) {
	r := &PathRule[joinState]{Fn: fn, Init: []joinState{{}},
		Transfer: func(s joinState, ins ssa.Instruction) []joinState {
			if ns, ok := lockTransfer(s.Held, ins); ok {
				name, op, _ := lockOp(ins)
				s.Held = ns
				if op == "Unlock" || op == "RUnlock" {
					s.Since = s.Since.without(name)
				}
				return []joinState{s}
			}
			if isStart(ins) {
				s.Started = true
				m := s.Held.toMap()
				if needWrite {
					for k, v := range m {
						if v != 'W' {
							delete(m, k)
						}
					}
				}
				s.Since = fromMap(m)
				return []joinState{s}
			}
			return nil
		}}
	res := RunPath(r)
	res.Visit(func(ins ssa.Instruction, s joinState) {
		if isEnd(ins) && s.Started {
			results = append(results, s.Since)
			ends = append(ends, ins)
		}
	})
	return results, ends, res.N
}

func ruleJoinAtomic(c *Ctx) {
	p := c.P
	sta := p.Func("media", "(*consumptions).SendToAll")
	add := p.Func("media", "(*consumptions).Add")
	sendGop := p.Func("media", "(*consumption).sendGop")
	if sta == nil || add == nil || sendGop == nil {
		c.Lost("SendToAll/Add/sendGop", "not found")
		return
	}
	isCachePack := func(ins ssa.Instruction) bool {
		cc := callCommon(ins)
		return cc != nil && strings.HasSuffix(calleeName(cc), "packCache).CachePack")
	}
	// P: Stream methods calling both CachePack and SendToAll; J: calling sendGop and Add
	var P, J []*ssa.Function
	for _, fn := range p.FuncsInPkg("media") {
		hasCache, hasSend, hasGop, hasAdd := false, false, false, false
		instrs(fn, func(ins ssa.Instruction) {
			if isCachePack(ins) {
				hasCache = true
			}
			if callsFunc(ins, sta) {
				hasSend = true
			}
			if callsFunc(ins, sendGop) {
				hasGop = true
			}
			if callsFunc(ins, add) {
				hasAdd = true
			}
		})
		if hasCache && hasSend {
			P = append(P, fn)
		}
		if hasGop && hasAdd {
			J = append(J, fn)
		}
	}
	c.Floor("publishing methods (CachePack+SendToAll)", len(P), 2)
	c.Floor("joining methods (sendGop+Add)", len(J), 1)
	common := map[string]int{}
	total := 0
	record := func(fn *ssa.Function, what string, sets []lockSet, ends []ssa.Instruction) {
		if len(sets) == 0 {
			c.Bad(what+":"+fname(fn), p.Pos(fn.Pos()), "the second half of the pair is never reached after the first on any path")
			return
		}
		// intersection over all paths
		inter := sets[0].toMap()
		for _, s := range sets[1:] {
			m := s.toMap()
			for k := range inter {
				if _, ok := m[k]; !ok {
					delete(inter, k)
				}
			}
		}
		total++
		if len(inter) == 0 {
			c.Bad(what+":"+fname(fn), p.InstrPos(ends[0]), "no mutex is held continuously across the pair: a concurrent join/publish can interleave between the two steps (the joiner then misses a packet, or receives it both from the cache snapshot and live)")
			return
		}
		var names []string
		for k := range inter {
			if strings.HasPrefix(k, "Stream.") {
				common[k]++
			}
			names = append(names, k)
		}
		sort.Strings(names)
		c.OK(what+":"+fname(fn), p.InstrPos(ends[0]), "held across the pair: "+strings.Join(names, ","))
	}
	for _, fn := range P {
		c.touched(fname(fn))
		sets, ends, n := heldAcross(fn, isCachePack, func(i ssa.Instruction) bool { return callsFunc(i, sta) }, false)
		c.paths += n
		record(fn, "cache-broadcast", sets, ends)
	}
	for _, fn := range J {
		c.touched(fname(fn))
		sets, ends, n := heldAcross(fn, func(i ssa.Instruction) bool { return callsFunc(i, sendGop) }, func(i ssa.Instruction) bool { return callsFunc(i, add) }, true)
		c.paths += n
		record(fn, "snapshot-register", sets, ends)
	}
	okCommon := false
	for k, n := range common {
		if n == total && total > 0 {
			okCommon = true
			c.OK("common-lock", "", "all publishing and joining methods share "+k)
		}
	}
	if !okCommon {
		c.Bad("common-lock", p.Pos(J[0].Pos()), "there is no single Stream mutex shared by every publishing method and the joining method")
	}
}

// ------------------------------------------------------------ R-REPLAY-ORDER

// cacheImpls returns the concrete packCache implementations (name -> method).
func cacheMethods(p *Program, method string) []*ssa.Function {
	var out []*ssa.Function
	for _, tn := range []string{"H264Cache", "HevcCache", "FlvCache"} {
		f := p.Func("media/cache", "(*"+tn+")."+method)
		if f != nil {
			out = append(out, f)
		}
	}
	return out
}

// paramFieldOf resolves a pushed/stored value to the cache field it was
// loaded from (possibly through a by-value copy).
func paramFieldOf(v ssa.Value) *types.Var {
	for i := 0; i < 8; i++ {
		v = stripConv(v)
		if f, _, ok := fieldLoad(v); ok {
			return f
		}
		switch x := v.(type) {
		case *ssa.Alloc:
			s := singleStoreDirect(x)
			if s == nil {
				return nil
			}
			v = s
		case *ssa.UnOp:
			if x.Op != token.MUL {
				return nil
			}
			v = x.X
		default:
			return nil
		}
	}
	return nil
}

// singleStoreDirect: the only `*a = v` store whose address is a itself.
func singleStoreDirect(a *ssa.Alloc) ssa.Value {
	var val ssa.Value
	n := 0
	for _, r := range referrersOf(a) {
		if st, ok := r.(*ssa.Store); ok && st.Addr == a {
			n++
			val = st.Val
		}
	}
	if n == 1 {
		return val
	}
	return nil
}

func paramFields(recv types.Type) []*types.Var {
	st := derefStruct(recv)
	var out []*types.Var
	if st == nil {
		return nil
	}
	for i := 0; i < st.NumFields(); i++ {
		f := st.Field(i)
		if typeIs(f.Type(), modRel("av/format/rtp"), "Packet") || typeIs(f.Type(), modRel("av/format/flv"), "Tag") {
			if _, isPtr := f.Type().(*types.Pointer); isPtr {
				out = append(out, f)
			}
		}
	}
	return out
}

type replayState struct {
	Pushed  uint8 // bit i: param field i pushed
	Nil     uint8 // bit i: field i known nil on this path
	Gop     int8  // PushN count
	NoCache bool  // cacheGop false edge taken
	Bad     int8  // 1: param after gop, 2: out of declaration order, 3: pushed twice
}

func ruleReplayOrder(c *Ctx) {
	p := c.P
	impls := cacheMethods(p, "PushTo")
	c.Floor("PushTo implementations", len(impls), 3)
	for _, fn := range impls {
		c.touched(fname(fn))
		fields := paramFields(fn.Signature.Recv().Type())
		idx := map[*types.Var]int{}
		for i, f := range fields {
			idx[f] = i
		}
		if len(fields) < 2 {
			c.Lost("param-fields:"+fname(fn), "cache has fewer than 2 parameter-set fields")
			continue
		}
		cacheGop := (*types.Var)(nil)
		st := derefStruct(fn.Signature.Recv().Type())
		for i := 0; i < st.NumFields(); i++ {
			if st.Field(i).Name() == "cacheGop" {
				cacheGop = st.Field(i)
			}
		}
		isQPush := func(ins ssa.Instruction, m string) (ssa.Value, bool) {
			cc := callCommon(ins)
			if cc == nil {
				return nil, false
			}
			n := calleeName(cc)
			if n == "(*"+queuePkg+".Queue)."+m || n == "(*"+queuePkg+".SyncQueue)."+m {
				return cc.Args[1], true
			}
			return nil, false
		}
		r := &PathRule[replayState]{Fn: fn, Init: []replayState{{}},
			Transfer: func(s replayState, ins ssa.Instruction) []replayState {
				if v, ok := isQPush(ins, "Push"); ok {
					f := paramFieldOf(v)
					i, known := idx[f]
					if !known {
						return nil
					}
					if s.Gop > 0 && s.Bad == 0 {
						s.Bad = 1
					}
					if s.Pushed&(1<<i) != 0 && s.Bad == 0 {
						s.Bad = 3
					}
					if s.Pushed>>(i+1) != 0 && s.Bad == 0 {
						s.Bad = 2
					}
					s.Pushed |= 1 << i
					return []replayState{s}
				}
				if _, ok := isQPush(ins, "PushN"); ok {
					if s.Gop < 2 {
						s.Gop++
					}
					return []replayState{s}
				}
				return nil
			},
			Branch: func(s replayState, cond ssa.Value, taken bool) (replayState, bool) {
				cv, neg := condNeg(cond)
				val := taken != neg
				if b, ok := cv.(*ssa.BinOp); ok && (b.Op == token.NEQ || b.Op == token.EQL) {
					other := b.X
					if isNilConst(b.X) {
						other = b.Y
					} else if !isNilConst(b.Y) {
						return s, true
					}
					if f, _, ok := fieldLoad(other); ok {
						if i, known := idx[f]; known {
							isNil := (b.Op == token.EQL) == val
							if isNil {
								s.Nil |= 1 << i
							}
						}
					}
					return s, true
				}
				if f, _, ok := fieldLoad(cv); ok && f == cacheGop && !val {
					s.NoCache = true
				}
				return s, true
			}}
		res := RunPath(r)
		c.paths += res.N
		ok := true
		for ret, sts := range res.Exits() {
			for _, s := range sts {
				msg := ""
				switch {
				case s.Bad == 1:
					msg = "a parameter set is pushed after the GOP: the joiner's decoder sees slices before their parameter sets"
				case s.Bad == 2:
					msg = "parameter sets are pushed out of declaration order (VPS,SPS,PPS / metadata,video header,audio header)"
				case s.Bad == 3:
					msg = "a parameter set is pushed twice"
				case s.Gop > 1:
					msg = "the GOP is pushed more than once"
				case s.Gop == 0 && !s.NoCache:
					msg = "a path with GOP caching enabled returns without pushing the GOP"
				default:
					for i, f := range fields {
						if s.Pushed&(1<<i) == 0 && s.Nil&(1<<i) == 0 {
							msg = "a path returns without pushing cached parameter set " + f.Name() + " although it is not known to be nil"
						}
					}
				}
				if msg != "" {
					ok = false
					c.Bad("replay:"+fname(fn), p.InstrPos(ret), msg)
				}
			}
		}
		if ok {
			c.OK("replay:"+fname(fn), p.Pos(fn.Pos()), fmt.Sprintf("%d parameter fields pushed in order before the GOP on every path (%d path states)", len(fields), res.N))
		}
		// lock: every read of cache fields under l (R or W)
		checkCacheLocked(c, fn, false)
	}
	// FLV restamp: Timestamp of each pushed copy = first GOP tag's timestamp or 0
	flvPush := p.Func("media/cache", "(*FlvCache).PushTo")
	if flvPush == nil {
		c.Lost("FlvCache.PushTo", "not found")
		return
	}
	nstamp := 0
	instrs(flvPush, func(ins ssa.Instruction) {
		st, ok := ins.(*ssa.Store)
		if !ok {
			return
		}
		f, base, ok := fieldAddr(st.Addr)
		if !ok || theProgram.baseFieldName(f) != "Timestamp" || !typeIs(base.Type(), modRel("av/format/flv"), "Tag") {
			return
		}
		nstamp++
		fld := paramFieldOf(base)
		name := "?"
		if fld != nil {
			name = fld.Name()
		}
		good := false
		if ph, ok := st.Val.(*ssa.Phi); ok && len(ph.Edges) == 2 {
			var zero, first bool
			for _, e := range ph.Edges {
				if k, ok := constInt(e); ok && k == 0 {
					zero = true
				}
				if tf, tb, ok := fieldLoad(e); ok && tf.Name() == "Timestamp" {
					// base must be gop[0]
					root := tb
					if ta, ok := root.(*ssa.TypeAssert); ok {
						root = ta.X
					}
					if u, ok := root.(*ssa.UnOp); ok {
						if ia, ok := u.X.(*ssa.IndexAddr); ok {
							if k, ok := constInt(ia.Index); ok && k == 0 {
								if call, ok := ia.X.(*ssa.Call); ok && strings.HasSuffix(calleeName(&call.Call), "Queue).Elems") {
									first = true
								}
							}
						}
					}
				}
			}
			good = zero && first
		}
		c.Decide(good, "flv-restamp:"+name, p.InstrPos(ins), "replayed header copy is stamped with the first GOP tag's timestamp (0 if no GOP)", "replayed FLV header "+name+" is not stamped with the first replayed media tag's timestamp: the consumer's timeline does not start at the GOP")
	})
	c.Floor("FLV header restamp stores", nstamp, 3)
}

// checkCacheLocked: every access to a field of the cache struct (other than
// the lock itself and the immutable cacheGop) happens with cache.l held.
func checkCacheLocked(c *Ctx, fn *ssa.Function, write bool) {
	p := c.P
	recv := fn.Params[0]
	tn := namedOf(recv.Type())
	if tn == nil {
		return
	}
	lname := tn.Obj().Name() + ".l"
	bad := map[string]ssa.Instruction{}
	n := locksAt(fn, "", func(ins ssa.Instruction, held lockSet) {
		fa, ok := ins.(*ssa.FieldAddr)
		if !ok || origin(fa.X) != recv {
			return
		}
		f, _, _ := fieldAddr(fa)
		if f == nil || theProgram.baseFieldName(f) == "l" || theProgram.baseFieldName(f) == "cacheGop" {
			return
		}
		// how is it used: store => write
		isW := false
		for _, r := range referrersOf(fa) {
			if st, ok := r.(*ssa.Store); ok && st.Addr == fa {
				isW = true
			}
			if cc := callCommon(r); cc != nil && len(cc.Args) > 0 && cc.Args[0] == fa {
				n := calleeName(cc)
				if strings.HasSuffix(n, ".Push") || strings.HasSuffix(n, ".Reset") || strings.HasSuffix(n, ".PushN") || strings.HasSuffix(n, ".Pop") {
					isW = true
				}
			}
		}
		if !held.holds(lname, isW) {
			bad[f.Name()] = ins
		}
	})
	c.paths += n
	if len(bad) == 0 {
		c.OK("locked:"+fname(fn), p.Pos(fn.Pos()), "every cache field access holds "+lname)
		return
	}
	for f, ins := range bad {
		c.Bad("locked:"+fname(fn)+"."+f, p.InstrPos(ins), "cache field "+f+" accessed without holding "+lname+" in the required mode (publisher and joiners run concurrently)")
	}
}

// ------------------------------------------------------------ R-CACHE-SIBLINGS

type cpState struct {
	Flag   string // classification flag whose true edge this path took last ("" none)
	Key    int8   // key-frame flag: 0 unknown, 1 true, 2 false
	Cache  int8   // cacheGop: 0 unknown, 1 true, 2 false
	Reset  bool
	LenPos bool // gop.Len() > 0 true edge
	Stored string
}

func ruleCacheSiblings(c *Ctx) {
	p := c.P
	impls := cacheMethods(p, "CachePack")
	c.Floor("CachePack implementations", len(impls), 3)
	// FLV classification method -> field
	flvFlag := map[string]string{"IsMetadata": "metaData", "IsH2645SequenceHeader": "videoSequenceHeader", "IsAACSequenceHeader": "audioSequenceHeader", "IsH2645KeyFrame": "#key"}
	for _, fn := range impls {
		c.touched(fname(fn))
		recv := fn.Params[0]
		pack := fn.Params[1]
		fields := paramFields(recv.Type())
		fset := map[*types.Var]bool{}
		for _, f := range fields {
			fset[f] = true
		}
		// flagName: classify a condition value as a named classification flag
		flagName := func(v ssa.Value) string {
			v = origin(v)
			switch x := v.(type) {
			case *ssa.Extract:
				call, ok := x.Tuple.(*ssa.Call)
				if !ok {
					return ""
				}
				cal := call.Call.StaticCallee()
				if cal == nil || cal.Signature.Results().Len() <= x.Index {
					return ""
				}
				// the classifier must be applied to this packet's payload
				okArg := false
				for _, a := range call.Call.Args {
					if pc, ok := origin(a).(*ssa.Call); ok && strings.HasSuffix(calleeName(&pc.Call), "Packet).Payload") {
						if origin(addrRoot(pc.Call.Args[0])) == pack || isAssertOf(pc.Call.Args[0], pack) {
							okArg = true
						}
					}
				}
				if !okArg {
					return ""
				}
				n := cal.Signature.Results().At(x.Index).Name()
				if n == "islice" {
					return "#key"
				}
				return n
			case *ssa.Call:
				cal := x.Call.StaticCallee()
				if cal == nil || len(x.Call.Args) == 0 || !isAssertOf(x.Call.Args[0], pack) {
					return ""
				}
				return flvFlag[cal.Name()]
			}
			return ""
		}
		isGopOp := func(ins ssa.Instruction, m string) bool {
			cc := callCommon(ins)
			if cc == nil || calleeName(cc) != "(*"+queuePkg+".Queue)."+m {
				return false
			}
			f, base, ok := fieldAddr(cc.Args[0])
			return ok && theProgram.baseFieldName(f) == "gop" && origin(base) == recv
		}
		violations := map[string]ssa.Instruction{}
		npush, nstore, nreset := 0, 0, 0
		r := &PathRule[cpState]{Fn: fn, Init: []cpState{{}},
			Transfer: func(s cpState, ins ssa.Instruction) []cpState {
				if isGopOp(ins, "Reset") {
					s.Reset = true
					return []cpState{s}
				}
				if st, ok := ins.(*ssa.Store); ok {
					if f, base, ok := fieldAddr(st.Addr); ok && fset[f] && origin(base) == recv {
						if s.Stored != "" && s.Stored != f.Name() {
							violations["one packet is stored into two parameter-set slots ("+s.Stored+" and "+f.Name()+"): PushTo replays every slot, so a late joiner receives that packet twice"] = ins
						}
						s.Stored = f.Name()
						return []cpState{s}
					}
				}
				return nil
			},
			Branch: func(s cpState, cond ssa.Value, taken bool) (cpState, bool) {
				cv, neg := condNeg(cond)
				val := taken != neg
				if fl := flagName(cv); fl != "" {
					if fl == "#key" {
						want := int8(2)
						if val {
							want = 1
						}
						if s.Key != 0 && s.Key != want {
							return s, false
						}
						s.Key = want
					} else if val {
						s.Flag = fl
					}
					return s, true
				}
				if f, base, ok := fieldLoad(cv); ok && theProgram.baseFieldName(f) == "cacheGop" && origin(base) == recv {
					if val {
						s.Cache = 1
					} else {
						s.Cache = 2
					}
					return s, true
				}
				if b, ok := cv.(*ssa.BinOp); ok && b.Op == token.GTR {
					if call, ok := b.X.(*ssa.Call); ok && isGopOp(call, "Len") {
						if k, ok := constInt(b.Y); ok && k == 0 && val {
							s.LenPos = true
						}
					}
				}
				return s, true
			}}
		res := RunPath(r)
		c.paths += res.N
		res.Visit(func(ins ssa.Instruction, s cpState) {
			if isGopOp(ins, "Reset") {
				nreset++
				if s.Key != 1 || s.Cache != 1 {
					violations["gop.Reset outside the key-frame branch (with caching on)"] = ins
				}
			}
			if isGopOp(ins, "Push") {
				npush++
				cc := callCommon(ins)
				if origin(cc.Args[1]) != pack && !isAssertOf(cc.Args[1], pack) {
					violations["gop.Push of something other than the packet being cached"] = ins
				}
				if s.Cache != 1 {
					violations["gop.Push although GOP caching is not known to be enabled"] = ins
				}
				if !(s.Key == 1 && s.Reset) && !s.LenPos {
					violations["gop.Push that neither follows gop.Reset() in the key-frame branch nor is guarded by gop.Len() > 0: the cached GOP would not start at a key frame"] = ins
				}
			}
			if st, ok := ins.(*ssa.Store); ok {
				if f, base, ok := fieldAddr(st.Addr); ok && fset[f] && origin(base) == recv {
					nstore++
					if s.Flag != f.Name() {
						violations[fmt.Sprintf("field %s stored on the edge of classification flag %q", f.Name(), s.Flag)] = ins
					}
					if origin(st.Val) != pack && !isAssertOf(st.Val, pack) {
						violations["parameter-set field "+f.Name()+" stored a value other than the packet being cached"] = ins
					}
				}
			}
			if ret, ok := ins.(*ssa.Return); ok && len(ret.Results) == 1 {
				rv := retValue(ret, 0)
				b, isc := constBool(rv)
				switch {
				case s.Stored != "":
					if !isc || b {
						violations["a parameter-set packet is reported as key frame (must return false)"] = ins
					}
				case isc && !b:
					// early false (non-video channel etc.) is fine if nothing was classified as key
					if s.Key == 1 {
						violations["a key-frame path returns false"] = ins
					}
				case isc && b && s.Key == 1:
					// `return true` on the edge where the packet was classified as key frame: same value as the flag
				default:
					if flagName(rv) != "#key" {
						violations["the result is not the key-frame classification of this packet"] = ins
					}
				}
			}
		})
		if npush < 2 || nstore < len(fields) || nreset < 1 {
			c.Bad("shape:"+fname(fn), p.Pos(fn.Pos()), fmt.Sprintf("expected >=2 gop pushes, %d parameter stores, >=1 reset; found %d/%d/%d", len(fields), npush, nstore, nreset))
		}
		if len(violations) == 0 {
			c.OK("cachepack:"+fname(fn), p.Pos(fn.Pos()), fmt.Sprintf("%d parameter fields, GOP reset/append guards and result conform (%d path states)", len(fields), res.N))
		}
		var keys []string
		for k := range violations {
			keys = append(keys, k)
		}
		sort.Strings(keys)
		for _, k := range keys {
			c.Bad("cachepack:"+fname(fn), p.InstrPos(violations[k]), k)
		}
		checkCacheLocked(c, fn, true)
	}
}

// isAssertOf: v is (a load of a cell holding) a type assertion of `of`.
func isAssertOf(v ssa.Value, of ssa.Value) bool {
	v = origin(v)
	if ta, ok := v.(*ssa.TypeAssert); ok {
		return origin(ta.X) == of
	}
	return v == of
}
