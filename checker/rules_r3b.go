package main

// Rule extensions after the third seeded round, properties C11..C20 (DESIGN §9.4).

import (
	"fmt"
	"go/constant"
	"go/token"
	"strings"

	"golang.org/x/tools/go/ssa"
)

func init() {
	share := func(prop string, r *RuleDoc) {
		if p := properties[prop]; p != nil {
			p.Rules = append(p.Rules, r)
		}
	}
	reuse := func(from, name, to, text string) {
		if pf := properties[from]; pf != nil {
			for _, r := range pf.Rules {
				if r.Name == name {
					share(to, &RuleDoc{Name: name, Text: "(shared with " + from + ") " + text, Run: r.Run})
					return
				}
			}
		}
	}
	reuse("C05", "R-DELETE-IF-SAME", "C20", "a retired pulled stream's idle task never removes the registration of the stream that replaced it.")
	reuse("C03", "R-CONN-COUNTER-PAIRED", "C20", "the RTSP connection counter is incremented only where a deferred release is registered: a pull that fails after connecting does not leak a count.")
	reuse("C11", "R-RIGHTS-RECOMPILED", "C16", "the compiled patterns of a user are rebuilt from scratch whenever its right strings change.")
	reuse("C18", "R-CANON-BEFORE-KEY", "C11", "user names are lower-cased before every table lookup (Get, Save and Del alike): a delete spelled with another case cannot leave the user and its rights in place.")
	reuse("C03", "R-CLOSED-FLAG-OWNED", "C12", "a consumer's closed flag is set only by its own Close, which also detaches it: no other site can mark it closed and thereby turn the release at TEARDOWN / disconnect into a no-op.")
	reuse("C13", "R-POOL-USE-AFTER-PUT", "C14", "the header writer does not hand its pooled sorter back while it still ranges over the slice that shares its storage.")
	share("C11", &RuleDoc{Name: "R-IDENTITY-HEADER-SET", Text: "The identity header the interceptors read (first value) is written with Header.Set, never Add: a client-supplied header of that name is replaced, not kept in front of the verified one.", Run: ruleIdentityHeaderSet})
	share("C12", &RuleDoc{Name: "R-MODE-ON-SUCCESS", Text: "onAnnounce marks the session as a record session only on its success exit: no refusal (error status stored into the response) follows the assignment.", Run: ruleModeOnSuccess})
	share("C14", &RuleDoc{Name: "R-HEADER-MULTI-VALUE", Text: "ReadHeader appends each field line's value to the values already read for that (case-folded) field name; a repeated field keeps every line.", Run: ruleHeaderMultiValue})
	share("C15", &RuleDoc{Name: "R-PTL-LEVEL-INDEPENDENT", Text: "profile_tier_level: sub_layer_level_idc[i] is read under sub_layer_level_present_flag[i] alone (H.265 7.3.3), not nested under the profile flag.", Run: rulePtlLevelIndependent})
	share("C15", &RuleDoc{Name: "R-SCALING-LIST-COUNT", Text: "H.264 SPS: twelve scaling-list flags are read exactly when chroma_format_idc == 3 (7.3.2.1.1), whatever separate_colour_plane_flag is.", Run: ruleScalingListCount})
	share("C15", &RuleDoc{Name: "R-ASC-RATE-VIA-ESCAPE", Text: "Every sampling frequency of the AudioSpecificConfig (core, explicit extension, sync extension) is read through getSampleRate, which handles the 24-bit escape (index 15).", Run: ruleAscRateViaEscape})
	share("C16", &RuleDoc{Name: "R-SCAN-TRIMS-BOTH", Text: "Scanner.Scan trims the token on both of its return paths (delimiter found / not found).", Run: ruleScanTrimsBoth})
	share("C17", &RuleDoc{Name: "R-DEL-REMOVES-FROM-MAP", Text: "routetable.Del removes the pattern from the lookup map on every path on which the route was found.", Run: ruleDelRemovesFromMap})
	share("C17", &RuleDoc{Name: "R-RESET-KEY-CANONICAL", Text: "routetable.Reset keys the lookup map by the route's pattern as it is after init() canonicalised it.", Run: ruleResetKeyCanonical})
	share("C18", &RuleDoc{Name: "R-TEMP-FILE-TRUNC", Text: "The temporary file of the atomic replacement is opened with O_TRUNC (or O_EXCL): a stale temporary left by a crash never contributes bytes to the file that is renamed into place.", Run: ruleTempFileTrunc})
	share("C19", &RuleDoc{Name: "R-MATCH-BUFFER-PER-CALL", Text: "The prefix matchers read the sniff window into a buffer allocated by that call: the trees are shared by every connection being sniffed.", Run: ruleMatchBufferPerCall})
	share("C19", &RuleDoc{Name: "R-MATCH-WHOLE-PREFIX", Text: "A trie node matches only if the bytes read equal its whole prefix (a truncated method token is not a match).", Run: ruleMatchWholePrefix})
	share("C20", &RuleDoc{Name: "R-READ-ERROR-ENDS-PLAY", Text: "In the play loop every error of the blocking receive ends the loop (no error class is retried): a camera that falls silent is dropped by the read deadline.", Run: ruleReadErrorEndsPlay})
	addMutants(
		&Mutant{Prop: "C11", Name: "c11-identity-header-added", File: "service/apis.go",
			Old: "\t\t\tr.Header.Set(usernameHeaderKey, username)", New: "\t\t\tr.Header.Add(usernameHeaderKey, username)", Expect: "R-IDENTITY-HEADER-SET"},
		&Mutant{Prop: "C11", Name: "c11-del-case-sensitive", File: "provider/auth/manager.go",
			Old: "\tuserName = strings.ToLower(userName)\n\tu, ok := m.m[userName]\n\n\tif ok {\n\t\tdelete(m.m, userName)", New: "\tu, ok := m.m[userName]\n\n\tif ok {\n\t\tdelete(m.m, userName)", Expect: "R-CANON-BEFORE-KEY"},
		&Mutant{Prop: "C12", Name: "c12-mode-before-checks", File: "service/rtsp/session.go",
			Old: "\ts.path = utils.CanonicalPath(req.URL.Path)\n\n\tif !s.checkPermission(auth.PushRight) {", New: "\ts.path = utils.CanonicalPath(req.URL.Path)\n\ts.mode = RecordSession\n\n\tif !s.checkPermission(auth.PushRight) {", Expect: "R-MODE-ON-SUCCESS"},
		&Mutant{Prop: "C14", Name: "c14-header-last-line-wins", File: "av/format/rtsp/header.go",
			Old: "\t\th[key] = append(h[key], value)", New: "\t\th.set(key, value)", Expect: "R-HEADER-MULTI-VALUE"},
		&Mutant{Prop: "C14", Name: "c14-sorter-put-early", File: "av/format/rtsp/header.go",
			Old: "\tdefer headerSorterPool.Put(sorter)", New: "\theaderSorterPool.Put(sorter)", Expect: "R-POOL-USE-AFTER-PUT"},
		&Mutant{Prop: "C15", Name: "c15-ptl-level-under-profile", File: "av/codec/hevc/vps.go",
			Old: "\t\t}\n\t\tif ptl.Sub_layer_level_present_flag[i] == 1 {\n\t\t\tptl.Sub_layer_level_idc[i] = r.ReadUint8(8)\n\t\t}", New: "\t\t\tif ptl.Sub_layer_level_present_flag[i] == 1 {\n\t\t\t\tptl.Sub_layer_level_idc[i] = r.ReadUint8(8)\n\t\t\t}\n\t\t}", Expect: "R-PTL-LEVEL-INDEPENDENT"},
		&Mutant{Prop: "C15", Name: "c15-scaling-lists-chroma-array-type", File: "av/codec/h264/sps.go",
			Old: "\t\t\tif sps.ChromaFormatIdc == 3 {\n\t\t\t\tmaxI = 12", New: "\t\t\tif sps.ChromaFormatIdc == 3 && sps.SeparateColourPlaneFlag == 0 {\n\t\t\t\tmaxI = 12", Expect: "R-SCALING-LIST-COUNT"},
		&Mutant{Prop: "C15", Name: "c15-sync-ext-rate-no-escape", File: "av/codec/aac/asc.go",
			Old: "\t\t\t\t\t\tasc.ExtSamplingIndex, asc.ExtSampleRate = getSampleRate(r)\n\t\t\t\t\t\tif asc.ExtSampleRate == asc.SampleRate {", New: "\t\t\t\t\t\tasc.ExtSamplingIndex = r.ReadUint8(4)\n\t\t\t\t\t\tasc.ExtSampleRate = SampleRate(int(asc.ExtSamplingIndex))\n\t\t\t\t\t\tif asc.ExtSampleRate == asc.SampleRate {", Expect: "R-ASC-RATE-VIA-ESCAPE"},
		&Mutant{Prop: "C16", Name: "c16-scan-untrimmed-tail", File: "utils/scan/scanner.go",
			Old: "\t\treturn \"\", strings.TrimFunc(str, s.trimFunc), false", New: "\t\treturn \"\", str, false", Expect: "R-SCAN-TRIMS-BOTH"},
		&Mutant{Prop: "C17", Name: "c17-del-keeps-pending", File: "provider/route/routetable.go",
			Old: "\tif ok {\n\t\tdelete(t.m, pattern)\n", New: "\tif ok {\n\t\tfor _, r2 := range t.saves {\n\t\t\tif r.Pattern == r2.Pattern {\n\t\t\t\treturn nil\n\t\t\t}\n\t\t}\n\t\tdelete(t.m, pattern)\n", Expect: "R-DEL-REMOVES-FROM-MAP"},
		&Mutant{Prop: "C17", Name: "c17-reset-key-before-init", File: "provider/route/routetable.go",
			Old: "\tfor _, r := range routes {\n\t\tif err := r.init(); err != nil {", New: "\tfor _, r := range routes {\n\t\tpattern := r.Pattern\n\t\tif err := r.init(); err != nil {", Expect: "R-RESET-KEY-CANONICAL",
			More: []Edit{{File: "provider/route/routetable.go", Old: "\t\tt.m[r.Pattern] = r\n\t\tt.l = append(t.l, r)\n\t}\n}", New: "\t\tt.m[pattern] = r\n\t\tt.l = append(t.l, r)\n\t}\n}"}}},
		&Mutant{Prop: "C18", Name: "c18-temp-not-truncated", File: "utils/io.go",
			Old: "os.OpenFile(tmp, os.O_CREATE|os.O_TRUNC|os.O_WRONLY, os.ModePerm)", New: "os.OpenFile(tmp, os.O_CREATE|os.O_WRONLY, os.ModePerm)", Expect: "R-TEMP-FILE-TRUNC"},
		&Mutant{Prop: "C19", Name: "c19-matcher-shared-buffer", File: "network/socket/listener/matcher.go",
			Old: "\tmaxDepth int // max depth of the tree.\n}", New: "\tmaxDepth int // max depth of the tree.\n\tbuf      []byte\n}", Expect: "R-MATCH-BUFFER-PER-CALL",
			More: []Edit{{File: "network/socket/listener/matcher.go", Old: "func (t *patriciaTree) matchPrefix(r io.Reader) bool {\n\tbuf := make([]byte, t.maxDepth)", New: "func (t *patriciaTree) matchPrefix(r io.Reader) bool {\n\tif t.buf == nil {\n\t\tt.buf = make([]byte, t.maxDepth)\n\t}\n\tbuf := t.buf[:t.maxDepth]"}}},
		&Mutant{Prop: "C19", Name: "c19-match-truncated-prefix", File: "network/socket/listener/matcher.go",
			Old: "\t\tif !bytes.Equal(b[:l], n.prefix) {", New: "\t\tif !bytes.Equal(b[:l], n.prefix[:l]) {", Expect: "R-MATCH-WHOLE-PREFIX"},
		&Mutant{Prop: "C20", Name: "c20-temporary-errors-retried", File: "service/rtsp/pull_client.go",
			Old: "\t\tif err != nil {\n\t\t\tif err == io.EOF { // 如果对方断开", New: "\t\tif err != nil {\n\t\t\tif ne, ok := err.(net.Error); ok && ne.Temporary() && !c.closed {\n\t\t\t\tcontinue\n\t\t\t}\n\t\t\tif err == io.EOF { // 如果对方断开", Expect: "R-READ-ERROR-ENDS-PLAY"},
	)
}

func ruleIdentityHeaderSet(c *Ctx) {
	p := c.P
	n := 0
	for _, fn := range p.FuncsInPkg("service") {
		instrs(fn, func(ins ssa.Instruction) {
			cc := callCommon(ins)
			if cc == nil || cc.StaticCallee() == nil || len(cc.Args) < 2 {
				return
			}
			name := funcFullName(cc.StaticCallee())
			if !strings.HasPrefix(name, "(net/http.Header).") {
				return
			}
			k, ok := cc.Args[1].(*ssa.Const)
			if !ok || k.Value == nil || k.Value.Kind() != constant.String {
				return
			}
			// the identity header: the constant the role/permission interceptors Get
			if constant.StringVal(k.Value) != identityHeaderName(p) {
				return
			}
			m := baseFuncName(cc.StaticCallee())
			if m == "Get" {
				return
			}
			n++
			c.touched(fname(fn))
			c.Decide(m == "Set" || m == "Del", "identity-header@"+fname(fn), p.InstrPos(ins), "written with Set", "the verified user name is written with Header."+m+": a header of that name sent by the client stays in front of it and every reader (Get returns the first value) takes the client's word - any valid token plus `"+identityHeaderName(p)+": admin` is an administrator")
		})
	}
	c.Floor("writes of the identity header", n, 1)
}

func identityHeaderName(p *Program) string {
	sp := p.Pkg("service")
	if sp == nil {
		return "?"
	}
	if cst, ok := sp.Members["usernameHeaderKey"].(*ssa.NamedConst); ok && cst.Value != nil && cst.Value.Value != nil {
		return constant.StringVal(cst.Value.Value)
	}
	return "?"
}

func ruleModeOnSuccess(c *Ctx) {
	p := c.P
	fn := p.Func("service/rtsp", "(*Session).onAnnounce")
	rec, ok := pkgConst(p, "service/rtsp", "RecordSession")
	if fn == nil || !ok {
		c.Lost("rtsp.Session.onAnnounce/RecordSession", "not found")
		return
	}
	c.touched(fname(fn))
	found := false
	var bad ssa.Instruction
	res := RunPath(&PathRule[bool]{Fn: fn, Init: []bool{false},
		Transfer: func(s bool, ins ssa.Instruction) []bool {
			st, ok := ins.(*ssa.Store)
			if !ok {
				return nil
			}
			f, _, ok := fieldAddr(st.Addr)
			if !ok {
				return nil
			}
			if theProgram.baseFieldName(f) == "mode" {
				if k, ok := constInt(st.Val); ok && k == rec {
					found = true
					return []bool{true}
				}
			}
			if theProgram.baseFieldName(f) == "StatusCode" && s {
				if k, ok := evalInt(st.Val); ok && k >= 400 {
					bad = ins
				}
			}
			return nil
		}})
	c.paths += res.N
	if !found {
		c.Lost("mode-on-success", "onAnnounce no longer marks the session as a record session")
		return
	}
	c.Decide(bad == nil, "mode-on-success", p.Pos(fn.Pos()), "no refusal follows the mode assignment", "the session is marked RecordSession before the permission check / SDP parse can still refuse the ANNOUNCE: after DESCRIBE, a refused ANNOUNCE (403 / 400) leaves a record session behind, SETUP mode=record is then accepted and RECORD publishes a stream although no ANNOUNCE succeeded")
}

func ruleHeaderMultiValue(c *Ctx) {
	p := c.P
	fn := p.Func("av/format/rtsp", "ReadHeader")
	if fn == nil {
		c.Lost("rtsp.ReadHeader", "not found")
		return
	}
	c.touched(fname(fn))
	good := false
	n := 0
	instrs(fn, func(ins ssa.Instruction) {
		mu, ok := ins.(*ssa.MapUpdate)
		if !ok {
			return
		}
		n++
		if call, ok := stripConv(mu.Value).(*ssa.Call); ok && calleeName(&call.Call) == "builtin.append" {
			if lk, ok := stripConv(call.Call.Args[0]).(*ssa.Lookup); ok && lk.X == mu.Map {
				good = true
			}
		}
	})
	if n == 0 {
		c.Bad("header-multi-value", p.Pos(fn.Pos()), "ReadHeader stores field values through a helper that replaces the previous value(s): a field sent on several lines (two WWW-Authenticate challenges, repeated Require) keeps only its last line")
		return
	}
	c.Decide(good, "header-multi-value", p.Pos(fn.Pos()), "values appended per field name", "ReadHeader does not append to the values already read for the field")
}

func rulePtlLevelIndependent(c *Ctx) {
	p := c.P
	fn := p.Func("av/codec/hevc", "(*H265RawProfileTierLevel).decode")
	if fn == nil {
		c.Lost("hevc.H265RawProfileTierLevel.decode", "not found")
		return
	}
	c.touched(fname(fn))
	n := 0
	instrs(fn, func(ins ssa.Instruction) {
		st, ok := ins.(*ssa.Store)
		if !ok {
			return
		}
		root, ok := addrRootField(st.Addr)
		if !ok || root != "Sub_layer_level_idc" {
			return
		}
		n++
		underProfile := false
		underLevel := false
		domConds(st, func(cond ssa.Value, taken bool) {
			walkDeps(cond, func(x ssa.Value) bool {
				if ld, ok := x.(*ssa.UnOp); ok && ld.Op == token.MUL {
					if nm, ok := addrRootField(ld.X); ok {
						if nm == "Sub_layer_profile_present_flag" {
							underProfile = true
						}
						if nm == "Sub_layer_level_present_flag" {
							underLevel = true
						}
					}
				}
				return true
			})
		})
		c.Decide(underLevel && !underProfile, "ptl-level-independent", p.InstrPos(st), "read under the level flag alone", "sub_layer_level_idc is read only when sub_layer_profile_present_flag is set as well: for a sub-layer with the level but not the profile present (temporal-layer streams) eight bits stay unread and every later field of the SPS/VPS is misaligned")
	})
	if n == 0 {
		c.Lost("ptl-level-independent", "sub_layer_level_idc is no longer read")
	}
}

func ruleScalingListCount(c *Ctx) {
	p := c.P
	fn := p.Func("av/codec/h264", "(*RawSPS).Decode")
	if fn == nil {
		c.Lost("h264.RawSPS.Decode", "not found")
		return
	}
	c.touched(fname(fn))
	// the loop bound of the scaling-list flags: a phi of 8 and 12; the 12 edge must depend on chroma_format_idc == 3 only
	n := 0
	instrs(fn, func(ins ssa.Instruction) {
		phi, ok := ins.(*ssa.Phi)
		if !ok || len(phi.Edges) < 2 {
			return
		}
		i12 := -1
		var i8 []int
		for i, e := range phi.Edges {
			k, ok := constInt(e)
			switch {
			case ok && k == 12 && i12 < 0:
				i12 = i
			case ok && k == 8:
				i8 = append(i8, i)
			default:
				return
			}
		}
		if i12 < 0 || len(i8) == 0 {
			return
		}
		n++
		pred := phi.Block().Preds[i12]
		last := pred.Instrs[len(pred.Instrs)-1]
		// conditions shared by every 8-edge do not distinguish 8 from 12
		var common map[ssa.Value]bool
		for _, i := range i8 {
			pred8 := phi.Block().Preds[i]
			cur := map[ssa.Value]bool{}
			domConds(pred8.Instrs[len(pred8.Instrs)-1], func(cond ssa.Value, taken bool) { cur[cond] = true })
			if common == nil {
				common = cur
			} else {
				for k := range common {
					if !cur[k] {
						delete(common, k)
					}
				}
			}
		}
		onlyChroma, sawChroma := true, false
		check := func(cond ssa.Value) {
			if common[cond] {
				return
			}
			walkDeps(cond, func(x ssa.Value) bool {
				if f, _, ok := fieldLoad(x); ok {
					if theProgram.baseFieldName(f) == "ChromaFormatIdc" {
						sawChroma = true
					} else {
						onlyChroma = false
					}
				}
				return true
			})
		}
		if ifi, isIf := last.(*ssa.If); isIf {
			check(ifi.Cond)
		}
		domConds(last, func(cond ssa.Value, taken bool) { check(cond) })
		c.Decide(sawChroma && onlyChroma, "scaling-list-count", p.InstrPos(phi), "12 lists exactly when chroma_format_idc == 3", "the number of seq_scaling_list_present_flag bits depends on something besides chroma_format_idc == 3: with chroma_format_idc 3 and separate_colour_plane_flag 1 the last four flags and their lists are skipped and everything from log2_max_frame_num on (size, cropping, VUI timing) is misread")
	})
	if n == 0 {
		c.Undecided("scaling-list-count", p.Pos(fn.Pos()), "the 8/12 loop bound of the scaling lists was not found")
	}
}

func ruleAscRateViaEscape(c *Ctx) {
	p := c.P
	fn := p.Func("av/codec/aac", "(*AudioSpecificConfig).Decode")
	if fn == nil {
		c.Lost("aac.AudioSpecificConfig.Decode", "not found")
		return
	}
	c.touched(fname(fn))
	n := 0
	for _, name := range []string{"SampleRate", "ExtSampleRate"} {
		ord := 0
		for _, st := range storesToField(fn, modRel("av/codec/aac"), "AudioSpecificConfig", name) {
			if _, isC := constInt(st.Val); isC {
				continue // reset to 0
			}
			ord++
			n++
			viaEscape := false
			walkDeps(st.Val, func(x ssa.Value) bool {
				if call, ok := x.(*ssa.Call); ok && call.Call.StaticCallee() != nil {
					switch baseFuncName(call.Call.StaticCallee()) {
					case "getSampleRate", "parseConfigALS", "ReadInt":
						viaEscape = true
					}
				}
				return true
			})
			c.Decide(viaEscape, fmt.Sprintf("asc-rate:%s#%d", name, ord), p.InstrPos(st), "read through getSampleRate", name+" is taken from a bare 4-bit index: with the explicit-frequency escape (index 15) the 24 frequency bits stay unread, the rate is 0 / the core rate (half the real output rate) and the rest of the config is misaligned")
		}
	}
	c.Floor("sampling-rate stores", n, 2)
}

func ruleScanTrimsBoth(c *Ctx) {
	p := c.P
	fn := p.Func("utils/scan", "Scanner.Scan")
	if fn == nil {
		fn = p.Func("utils/scan", "(Scanner).Scan")
	}
	if fn == nil {
		c.Lost("scan.Scanner.Scan", "not found")
		return
	}
	c.touched(fname(fn))
	n := 0
	ok := true
	for _, b := range fn.Blocks {
		ret, isRet := b.Instrs[len(b.Instrs)-1].(*ssa.Return)
		if !isRet || len(ret.Results) < 2 {
			continue
		}
		n++
		tok := retValue(ret, 1)
		trimmed := false
		walkDeps(tok, func(x ssa.Value) bool {
			if call, isCall := x.(*ssa.Call); isCall && strings.HasPrefix(calleeName(&call.Call), "strings.Trim") {
				trimmed = true
			}
			return true
		})
		if k, isC := tok.(*ssa.Const); isC && k.Value != nil && constant.StringVal(k.Value) == "" {
			trimmed = true
		}
		if !trimmed {
			ok = false
			c.Bad("scan-trims-both", p.InstrPos(ret), "a return path of Scanner.Scan hands back the token untrimmed: a single right pattern with surrounding blanks (` /a/* `, no ';') compiles to segments containing blanks and permits nothing")
		}
	}
	if ok {
		c.OK("scan-trims-both", p.Pos(fn.Pos()), fmt.Sprintf("token trimmed on all %d return paths", n))
	}
}

func ruleDelRemovesFromMap(c *Ctx) {
	p := c.P
	fn := p.Func("provider/route", "(*routetable).Del")
	if fn == nil {
		c.Lost("route.routetable.Del", "not found")
		return
	}
	c.touched(fname(fn))
	var okVal ssa.Value
	instrs(fn, func(ins ssa.Instruction) {
		if ex, ok := ins.(*ssa.Extract); ok && ex.Index == 1 {
			if lk, ok := ex.Tuple.(*ssa.Lookup); ok && lk.CommaOk {
				okVal = ex
			}
		}
	})
	if okVal == nil {
		c.Lost("del:lookup", "the map lookup in Del was not found")
		return
	}
	type st struct {
		Found   int8
		Deleted bool
	}
	res := RunPath(&PathRule[st]{Fn: fn, Init: []st{{}},
		Branch: func(s st, cond ssa.Value, taken bool) (st, bool) {
			if cond == okVal {
				if taken {
					s.Found = 1
				} else {
					s.Found = 2
				}
			}
			return s, true
		},
		Transfer: func(s st, ins ssa.Instruction) []st {
			if cc := callCommon(ins); cc != nil && calleeName(cc) == "builtin.delete" {
				s.Deleted = true
				return []st{s}
			}
			return nil
		}})
	c.paths += res.N
	bad := false
	for ret, sts := range res.Exits() {
		for _, s := range sts {
			if s.Found == 1 && !s.Deleted {
				bad = true
				c.Bad("del-removes-from-map", p.InstrPos(ret), "a path of Del returns with the route found but still in the lookup map: a route deleted while it is pending (saved since the last flush) keeps resolving - an exact route still matches, a deleted nested directory keeps shadowing the shorter one")
			}
		}
	}
	if !bad {
		c.OK("del-removes-from-map", p.Pos(fn.Pos()), "every found path deletes the map entry")
	}
}

func ruleResetKeyCanonical(c *Ctx) {
	p := c.P
	fn := p.Func("provider/route", "(*routetable).Reset")
	if fn == nil {
		c.Lost("route.routetable.Reset", "not found")
		return
	}
	c.touched(fname(fn))
	n := 0
	instrs(fn, func(ins ssa.Instruction) {
		mu, ok := ins.(*ssa.MapUpdate)
		if !ok {
			return
		}
		n++
		// the key must be a load of Pattern that is executed after the init() call of that iteration
		var initCall ssa.Instruction
		instrs(fn, func(i2 ssa.Instruction) {
			if cc := callCommon(i2); cc != nil && cc.StaticCallee() != nil && baseFuncName(cc.StaticCallee()) == "init" {
				initCall = i2
			}
		})
		good := false
		if ld, ok := stripConv(mu.Key).(*ssa.UnOp); ok && ld.Op == token.MUL {
			if f, _, ok := fieldAddr(ld.X); ok && theProgram.baseFieldName(f) == "Pattern" && initCall != nil && dominatesInstr(initCall, ld) {
				good = true
			}
		}
		c.Decide(good, "reset-key-canonical", p.InstrPos(mu), "keyed by the pattern as canonicalised by init()", "the lookup map is keyed by a pattern value taken before init() canonicalised it: loaded routes with non-canonical patterns (/Easy/HD/, lobby/door) never resolve and cannot be reached by Get/Del")
	})
	if n == 0 {
		c.Lost("reset-key-canonical", "Reset no longer fills the lookup map")
	}
}

func ruleTempFileTrunc(c *Ctx) {
	p := c.P
	fn := p.Func("utils", "EncodeJSONFile")
	if fn == nil {
		c.Lost("utils.EncodeJSONFile", "not found")
		return
	}
	n := 0
	for _, g := range unitFuncs(fn) {
		instrs(g, func(ins ssa.Instruction) {
			cc := callCommon(ins)
			if cc == nil || calleeName(cc) != "os.OpenFile" {
				return
			}
			flags, ok := evalInt(cc.Args[1])
			if !ok {
				c.Undecided("temp-file-trunc", p.InstrPos(ins), "open flags are not constant")
				return
			}
			const oWRONLY, oRDWR, oEXCL, oTRUNC = 0x1, 0x2, 0x80, 0x200
			if flags&(oWRONLY|oRDWR) == 0 {
				return
			}
			n++
			c.touched(fname(g))
			c.Decide(flags&oTRUNC != 0 || flags&oEXCL != 0, "temp-file-trunc", p.InstrPos(ins), "temporary opened with O_TRUNC/O_EXCL", fmt.Sprintf("the temporary file is opened for writing with flags %#x, without O_TRUNC: after a crash between write and rename a later, shorter table overwrites only the head of the stale temporary, the result (new table followed by old bytes) is renamed into place and the next start cannot load it", flags))
		})
	}
	if n == 0 {
		c.Lost("temp-file-trunc", "no file is opened for writing by the persisting function")
	}
}

func ruleMatchBufferPerCall(c *Ctx) {
	p := c.P
	n := 0
	for _, name := range []string{"(*patriciaTree).matchPrefix", "(*patriciaTree).match"} {
		fn := p.Func("network/socket/listener", name)
		if fn == nil {
			continue
		}
		c.touched(fname(fn))
		for _, g := range unitFuncs(fn) {
			instrs(g, func(ins ssa.Instruction) {
				cc := callCommon(ins)
				if cc == nil {
					return
				}
				nm := calleeName(cc)
				if nm != "io.ReadFull" && nm != "io.ReadAtLeast" {
					return
				}
				n++
				root := originDeep(cc.Args[1])
				for i := 0; i < 4; i++ {
					if sl, ok := root.(*ssa.Slice); ok {
						root = originDeep(sl.X)
						continue
					}
					break
				}
				_, fresh := root.(*ssa.MakeSlice)
				if al, ok := root.(*ssa.Alloc); ok {
					fresh = al.Heap || true
				}
				c.Decide(fresh, "match-buffer@"+fname(fn), p.InstrPos(ins), "sniff window read into a buffer made by this call", "the sniff window is read into a buffer that is not allocated by this call (a field of the shared trie): two connections sniffed at the same time read into the same bytes - a slow DESCRIBE overlapped by an HTTP GET is rejected by both matchers, a slow DELETE overlapped by a DESCRIBE is handed to RTSP")
			})
		}
	}
	c.Floor("matcher reads", n, 1)
}

func ruleMatchWholePrefix(c *Ctx) {
	p := c.P
	fn := p.Func("network/socket/listener", "(*ptNode).match")
	if fn == nil {
		c.Lost("listener.ptNode.match", "not found")
		return
	}
	c.touched(fname(fn))
	n := 0
	instrs(fn, func(ins ssa.Instruction) {
		cc := callCommon(ins)
		if cc == nil || calleeName(cc) != "bytes.Equal" || len(cc.Args) != 2 {
			return
		}
		n++
		whole := false
		for _, a := range cc.Args {
			if f, _, ok := fieldLoad(stripConv(a)); ok && theProgram.baseFieldName(f) == "prefix" {
				whole = true
			}
		}
		c.Decide(whole, "match-whole-prefix", p.InstrPos(ins), "compared with the node's whole prefix", "the bytes read are compared with a slice of the node's prefix cut to their length: a truncated method token (\"D\", \"GE\", \"TEAR\" followed by silence, \"GET\" + EOF) counts as a match and the connection is handed to a service instead of being closed")
	})
	if n == 0 {
		c.Undecided("match-whole-prefix", p.Pos(fn.Pos()), "no bytes.Equal in the node matcher")
	}
}

func ruleReadErrorEndsPlay(c *Ctx) {
	p := c.P
	fn := p.Func("service/rtsp", "(*PullClient).playStream")
	if fn == nil {
		c.Lost("rtsp.PullClient.playStream", "not found")
		return
	}
	c.touched(fname(fn))
	var recv *ssa.Call
	instrs(fn, func(ins ssa.Instruction) {
		if call, ok := ins.(*ssa.Call); ok && call.Call.StaticCallee() != nil && baseFuncName(call.Call.StaticCallee()) == "receive" && call.Parent() == fn {
			recv = call
		}
	})
	if recv == nil {
		c.Lost("play-loop:receive", "the blocking receive of the play loop was not found")
		return
	}
	// state: 0 no error known, 1 err != nil established
	type st int8
	loopHead := recv.Block()
	bad := false
	var where ssa.Instruction
	res := RunPath(&PathRule[st]{Fn: fn, Init: []st{0},
		Transfer: func(s st, ins ssa.Instruction) []st {
			if ins == ssa.Instruction(recv) {
				if s == 1 {
					bad = true
					where = ins
				}
				return []st{0}
			}
			return nil
		},
		Branch: func(s st, cond ssa.Value, taken bool) (st, bool) {
			if bo, ok := cond.(*ssa.BinOp); ok && (isNilConst(bo.X) || isNilConst(bo.Y)) && (bo.Op == token.NEQ || bo.Op == token.EQL) {
				other := bo.X
				if isNilConst(other) {
					other = bo.Y
				}
				if origin(other) == ssa.Value(recv) {
					if (bo.Op == token.NEQ) == taken {
						return 1, true
					}
					return 0, true
				}
			}
			return s, true
		}})
	c.paths += res.N
	_ = loopHead
	if bad {
		c.Bad("read-error-ends-play", p.InstrPos(where), "the play loop calls receive again on a path where the previous receive returned an error: a read-deadline expiry reports Temporary() == true, so a camera that completes the handshake and then falls silent is retried forever - the stream stays registered, the connection, goroutine and count stay alive and later requests are handed the dead stream")
	} else {
		c.OK("read-error-ends-play", p.InstrPos(recv), "every receive error leaves the loop")
	}
}
