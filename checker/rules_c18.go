package main

import (
	"fmt"
	"go/token"
	"go/types"
	"strings"

	"golang.org/x/tools/go/ssa"
)

func init() {
	register(&PropertyDef{
		ID: "C18",
		Explanation: "Static analysis of table persistence and the table objects. Decided: (1) R-ATOMIC-REPLACE - in the function that persists a table (found by role: the file-writing function reached from both JSON providers' Flush) the destination path is never opened for writing; the data goes to a different path derived from it; on every successful path the order is Write -> Sync -> Rename(temp, destination), the handle is closed, and Rename's result is what is returned: at every crash point the destination is either the complete old or the complete new file; (2) R-TABLE-LOCKED - the fields m, l, saves, removes, provider of auth.manager and route.routetable are accessed only with the table's lock held, in write mode for mutation; (3) R-PASSWORD-KEPT - CopyFrom overwrites the password only on the true edge of its withPassword parameter; (4) R-CANON-BEFORE-KEY - Save canonicalises (init) before the first map access, Get/Del canonicalise their argument before using it as key; (5) R-FLUSH-FULL-LIST - the providers persist the full list they are given and the tables pass their full list, clearing the pending lists only after a successful flush; (6) R-DEFAULT-ONLY-IF-MISSING - the built-in administrator is produced only when the users file does not exist.",
		NotDecided: "Equality of table contents with a model over operation histories; file-system semantics beyond POSIX rename atomicity (trusted).",
		Rules: []*RuleDoc{
			{Name: "R-ATOMIC-REPLACE", Text: "temp -> write -> sync -> close -> rename(temp, dest); dest never opened for writing.", Run: ruleAtomicReplace},
			{Name: "R-TABLE-LOCKED", Text: "Table fields accessed only under the table lock (W for writes).", Run: ruleTableLocked},
			{Name: "R-PASSWORD-KEPT", Text: "User.Password stored in CopyFrom only on the withPassword edge.", Run: rulePasswordKept},
			{Name: "R-CANON-BEFORE-KEY", Text: "Save: init() before map access; Get/Del: key is canonicalised.", Run: ruleCanonBeforeKey},
			{Name: "R-FLUSH-FULL-LIST", Text: "Flush passes the full list; pending lists cleared only after success; JSON providers encode `full`.", Run: ruleFlushFullList},
			{Name: "R-DEFAULT-ONLY-IF-MISSING", Text: "Default admin only on os.IsNotExist.", Run: ruleDefaultOnlyIfMissing},
		},
	})
	addMutants(
		&Mutant{Prop: "C18", Name: "c18-truncate-in-place", File: "utils/io.go",
			Old: "\treturn os.Rename(tmp, path)", New: "\tb, err := os.ReadFile(tmp)\n\tif err != nil {\n\t\treturn err\n\t}\n\treturn os.WriteFile(path, b, os.ModePerm)", Expect: "R-ATOMIC-REPLACE"},
		&Mutant{Prop: "C18", Name: "c18-remove-dest-first", File: "utils/io.go",
			Old: "\treturn os.Rename(tmp, path)", New: "\tos.Remove(path)\n\treturn os.Rename(tmp, path)", Expect: "R-ATOMIC-REPLACE"},
		&Mutant{Prop: "C18", Name: "c18-no-sync-before-rename", File: "utils/io.go",
			Old: "\tif _, err = f.Write(formatted.Bytes()); err == nil {\n\t\terr = f.Sync()\n\t}", New: "\t_, err = f.Write(formatted.Bytes())", Expect: "R-ATOMIC-REPLACE"},
		&Mutant{Prop: "C18", Name: "c18-get-unlocked", File: "provider/auth/manager.go",
			Old: "func (m *manager) Get(userName string) *User {\n\tm.lock.RLock()\n\tdefer m.lock.RUnlock()\n", New: "func (m *manager) Get(userName string) *User {\n", Expect: "R-TABLE-LOCKED"},
		&Mutant{Prop: "C18", Name: "c18-del-under-read-lock", File: "provider/route/routetable.go",
			Old: "func (t *routetable) Del(pattern string) error {\n\tt.lock.Lock()\n\tdefer t.lock.Unlock()", New: "func (t *routetable) Del(pattern string) error {\n\tt.lock.RLock()\n\tdefer t.lock.RUnlock()", Expect: "R-TABLE-LOCKED"},
		&Mutant{Prop: "C18", Name: "c18-password-always-copied", File: "provider/auth/user.go",
			Old: "\tif withPassword {\n\t\tu.Password = src.Password\n\t}", New: "\tif withPassword || len(src.Password) > 0 {\n\t\tu.Password = src.Password\n\t}", Expect: "R-PASSWORD-KEPT"},
		&Mutant{Prop: "C18", Name: "c18-route-get-not-canonical", File: "provider/route/routetable.go",
			Old: "\tpattern = utils.CanonicalPath(pattern)\n\tr, _ := t.m[pattern]", New: "\tr, _ := t.m[pattern]", Expect: "R-CANON-BEFORE-KEY"},
		&Mutant{Prop: "C18", Name: "c18-flush-saves-only", File: "provider/auth/manager.go",
			Old: "\terr := m.provider.Flush(m.l, m.saves, m.removes)", New: "\terr := m.provider.Flush(m.saves, m.saves, m.removes)", Expect: "R-FLUSH-FULL-LIST"},
		&Mutant{Prop: "C18", Name: "c18-default-admin-on-any-error", File: "provider/auth/json.go",
			Old: "\t\tif os.IsNotExist(err) {", New: "\t\tif os.IsNotExist(err) || os.IsPermission(err) {", Expect: "R-DEFAULT-ONLY-IF-MISSING"},
		&Mutant{Prop: "C18", Name: "c18-pending-cleared-before-flush", File: "provider/route/routetable.go",
			Old: "\terr := t.provider.Flush(t.l, t.saves, t.removes)\n\tif err != nil {\n\t\treturn err\n\t}\n", New: "\tsaves, removes := t.saves, t.removes\n\tt.saves = t.saves[:0]\n\tt.removes = t.removes[:0]\n\terr := t.provider.Flush(t.l, saves, removes)\n\tif err != nil {\n\t\treturn err\n\t}\n", Expect: "R-FLUSH-FULL-LIST"},
	)
}

func ruleAtomicReplace(c *Ctx) {
	p := c.P
	// role: module function that opens/creates a file, reachable from both JSON providers' Flush
	var flushes []*ssa.Function
	for _, rel := range []string{"provider/auth", "provider/route"} {
		if f := p.Func(rel, "(*jsonProvider).Flush"); f != nil {
			flushes = append(flushes, f)
		} else {
			c.Lost(rel+".jsonProvider.Flush", "not found")
		}
	}
	if len(flushes) != 2 {
		return
	}
	opensFile := func(f *ssa.Function) bool {
		found := false
		instrs(f, func(ins ssa.Instruction) {
			if cc := callCommon(ins); cc != nil {
				switch calleeName(cc) {
				case "os.OpenFile", "os.Create", "os.WriteFile", "io/ioutil.WriteFile", "os.CreateTemp", "io/ioutil.TempFile":
					found = true
				}
			}
		})
		return found
	}
	common := map[*ssa.Function]int{}
	for _, fl := range flushes {
		r := p.Reach([]*ssa.Function{fl}, nil)
		for f := range r.Funcs {
			if opensFile(f) {
				common[f]++
			}
		}
	}
	var writer *ssa.Function
	for f, n := range common {
		if n == 2 {
			writer = f
		}
	}
	if writer == nil {
		c.Bad("atomic:writer-found", "", "no single file-writing function is shared by both providers' Flush")
		return
	}
	c.touched(fname(writer))
	dest := writer.Params[0]
	derivesFromDest := func(v ssa.Value) bool {
		dep := false
		walkDeps(v, func(x ssa.Value) bool {
			if x == ssa.Value(dest) {
				dep = true
			}
			return !dep
		})
		return dep
	}
	// 1. destination never opened/written directly
	direct := false
	var tmpVal ssa.Value
	instrs(writer, func(ins ssa.Instruction) {
		cc := callCommon(ins)
		if cc == nil {
			return
		}
		switch calleeName(cc) {
		case "os.OpenFile", "os.Create", "os.WriteFile", "io/ioutil.WriteFile":
			if origin(cc.Args[0]) == ssa.Value(dest) {
				direct = true
				c.Bad("atomic:dest-not-opened", p.InstrPos(ins), "the destination file itself is opened/truncated for writing: a crash after this call and before the write completes leaves an empty or partial users/routes file")
			} else if derivesFromDest(cc.Args[0]) {
				tmpVal = cc.Args[0]
			}
		case "os.CreateTemp", "io/ioutil.TempFile":
			tmpVal = ins.(ssa.Value)
		case "os.Remove", "os.RemoveAll", "os.Truncate":
			if origin(cc.Args[0]) == ssa.Value(dest) {
				direct = true
				c.Bad("atomic:dest-not-removed", p.InstrPos(ins), "the destination file is removed/truncated before the new one is renamed over it: a crash between the two leaves no users/routes file at all (restart falls back to the default administrator and loses every route)")
			}
		}
	})
	if !direct {
		c.OK("atomic:dest-not-opened", p.Pos(writer.Pos()), "destination is never opened for writing")
	}
	c.Decide(tmpVal != nil, "atomic:temp-in-same-dir", p.Pos(writer.Pos()), "data is written to a temporary path derived from the destination", "no temporary file derived from the destination path (same directory) is used")
	// 2. order on success paths
	type st struct {
		Stage int8    // 0 none, 1 written, 2 synced, 3 renamed ; -1 bad order
		Nil   factSet // nil-ness of error values known on this path: "n:<v>" nil, "x:<v>" non-nil
	}
	nilness := func(s st, v ssa.Value) int8 { // 0 unknown 1 nil 2 non-nil
		if isNilConst(v) {
			return 1
		}
		if s.Nil.has("n:" + v.Name()) {
			return 1
		}
		if s.Nil.has("x:" + v.Name()) {
			return 2
		}
		return 0
	}
	var renameCall *ssa.Call
	r := &PathRule[st]{Fn: writer, Init: []st{{}},
		Transfer: func(s st, ins ssa.Instruction) []st {
			cc := callCommon(ins)
			if cc == nil {
				return nil
			}
			if _, isDefer := ins.(*ssa.Defer); isDefer {
				return nil
			}
			n := calleeName(cc)
			switch {
			case n == "(*os.File).Write" || n == "(*os.File).WriteString" || n == "(*bufio.Writer).Flush":
				if s.Stage == 0 || s.Stage == 1 {
					s.Stage = 1
				} else {
					s.Stage = -1
				}
				return []st{s}
			case n == "(*os.File).Sync":
				if s.Stage == 1 {
					s.Stage = 2
				} else {
					s.Stage = -1
				}
				return []st{s}
			case n == "os.Rename":
				if call, ok := ins.(*ssa.Call); ok {
					renameCall = call
				}
				if s.Stage == 2 && origin(cc.Args[1]) == ssa.Value(dest) && origin(cc.Args[0]) != ssa.Value(dest) {
					s.Stage = 3
				} else {
					s.Stage = -1
				}
				return []st{s}
			}
			return nil
		},
		Branch: func(s st, cond ssa.Value, taken bool) (st, bool) {
			b, ok := cond.(*ssa.BinOp)
			if !ok || (b.Op != token.EQL && b.Op != token.NEQ) || !(isNilConst(b.X) || isNilConst(b.Y)) {
				return s, true
			}
			v := b.X
			if isNilConst(v) {
				v = b.Y
			}
			isNil := (b.Op == token.EQL) == taken
			switch nilness(s, v) {
			case 1:
				return s, isNil
			case 2:
				return s, !isNil
			}
			if isNil {
				s.Nil = s.Nil.with("n:" + v.Name())
			} else {
				s.Nil = s.Nil.with("x:" + v.Name())
			}
			return s, true
		},
		Phi: func(s st, ph *ssa.Phi, val ssa.Value) st {
			// forget what was known about the phi, then inherit the incoming value's nil-ness
			parts := []string{}
			for _, f := range strings.Split(string(s.Nil), "|") {
				if f != "" && f != "n:"+ph.Name() && f != "x:"+ph.Name() {
					parts = append(parts, f)
				}
			}
			s.Nil = factSet(strings.Join(parts, "|"))
			switch nilness(s, val) {
			case 1:
				s.Nil = s.Nil.with("n:" + ph.Name())
			case 2:
				s.Nil = s.Nil.with("x:" + ph.Name())
			}
			return s
		}}
	res := RunPath(r)
	c.paths += res.N
	okOrder, nSuccess := true, 0
	for ret, sts := range res.Exits() {
		rr := ret.(*ssa.Return)
		v := retValue(rr, 0)
		for _, s := range sts {
			success := isNilConst(v) || (renameCall != nil && origin(v) == ssa.Value(renameCall))
			if !success {
				continue
			}
			nSuccess++
			if s.Stage != 3 {
				okOrder = false
				c.Bad("atomic:write-sync-rename", p.InstrPos(ret), fmt.Sprintf("a path can report success at stage %d of write(1)->sync(2)->rename(3) (-1 = out of order): the new content is not durably complete before it replaces the old file, or never replaces it", s.Stage))
			}
		}
	}
	if nSuccess == 0 {
		c.Bad("atomic:write-sync-rename", p.Pos(writer.Pos()), "no success path found")
	} else if okOrder {
		c.OK("atomic:write-sync-rename", p.Pos(writer.Pos()), "every success path: write, sync, then rename(temp, dest)")
	}
	// the file handle is closed (call or defer)
	closed := false
	instrs(writer, func(ins ssa.Instruction) {
		if cc := callCommon(ins); cc != nil && calleeName(cc) == "(*os.File).Close" {
			closed = true
		}
	})
	c.Decide(closed, "atomic:closed", p.Pos(writer.Pos()), "handle closed", "the temporary file is never closed")
}

func ruleTableLocked(c *Ctx) {
	p := c.P
	for _, t := range []struct{ rel, typ string }{{"provider/auth", "manager"}, {"provider/route", "routetable"}} {
		n := p.Named(t.rel, t.typ)
		if n == nil {
			c.Lost(t.rel+"."+t.typ, "type not found")
			continue
		}
		lk := t.typ + ".lock"
		guarded := map[string]bool{"m": true, "l": true, "saves": true, "removes": true, "provider": true}
		nacc := 0
		for _, fn := range p.FuncsInPkg(t.rel) {
			if fn.Signature.Recv() == nil || namedOf(fn.Signature.Recv().Type()) != n {
				continue
			}
			recv := fn.Params[0]
			bad := map[string]ssa.Instruction{}
			np := locksAt(fn, "", func(ins ssa.Instruction, h lockSet) {
				fa, ok := ins.(*ssa.FieldAddr)
				if !ok || origin(fa.X) != ssa.Value(recv) {
					return
				}
				f, _, _ := fieldAddr(fa)
				if f == nil || !guarded[f.Name()] {
					return
				}
				nacc++
				isW := false
				for _, r := range referrersOf(fa) {
					if st, ok := r.(*ssa.Store); ok && st.Addr == fa {
						isW = true
					}
					if u, ok := r.(*ssa.UnOp); ok {
						for _, r2 := range referrersOf(u) {
							switch x := r2.(type) {
							case *ssa.MapUpdate:
								if x.Map == ssa.Value(u) {
									isW = true
								}
							case *ssa.Call:
								if calleeName(&x.Call) == "builtin.delete" && x.Call.Args[0] == ssa.Value(u) {
									isW = true
								}
							}
						}
					}
				}
				if !h.holds(lk, isW) {
					mode := "read"
					if isW {
						mode = "written"
					}
					bad[f.Name()+" "+mode] = ins
				}
			})
			c.paths += np
			c.touched(fname(fn))
			if len(bad) == 0 {
				c.OK("table-locked:"+fname(fn), p.Pos(fn.Pos()), "table fields accessed under "+lk)
			}
			for k, ins := range bad {
				c.Bad("table-locked:"+fname(fn), p.InstrPos(ins), "table field "+k+" without holding "+lk+" in the required mode: concurrent API edits and the periodic flush see a half-updated table")
			}
		}
		c.Floor("guarded field accesses in "+t.typ, nacc, 15)
	}
}

func rulePasswordKept(c *Ctx) {
	p := c.P
	fn := p.Func("provider/auth", "(*User).CopyFrom")
	if fn == nil {
		c.Lost("auth.User.CopyFrom", "not found")
		return
	}
	c.touched(fname(fn))
	wp := fn.Params[2]
	sts := storesToField(fn, modRel("provider/auth"), "User", "Password")
	if len(sts) == 0 {
		c.Bad("password-kept", p.Pos(fn.Pos()), "CopyFrom never updates the password, even when asked to")
		return
	}
	for _, st := range sts {
		blk := st.Block()
		good := false
		if len(blk.Preds) == 1 {
			pr := blk.Preds[0]
			if ifi, ok := pr.Instrs[len(pr.Instrs)-1].(*ssa.If); ok && pr.Succs[0] == blk && origin(ifi.Cond) == ssa.Value(wp) {
				good = true
			}
		}
		lf, base, okv := fieldLoad(st.Val)
		fromSrc := okv && lf.Name() == "Password" && origin(base) == ssa.Value(fn.Params[1])
		c.Decide(good && fromSrc, "password-kept", p.InstrPos(st), "password replaced only when asked, with the source's password", "the stored password is overwritten on a path not decided solely by the withPassword flag (or not with the source's password): an update that should keep the password changes or clears it")
	}
}

func ruleCanonBeforeKey(c *Ctx) {
	p := c.P
	type tb struct {
		rel, typ string
		canon    string // callee name that canonicalises
	}
	for _, t := range []tb{{"provider/auth", "manager", "strings.ToLower"}, {"provider/route", "routetable", modRel("utils") + ".CanonicalPath"}} {
		for _, m := range []string{"Get", "Del"} {
			fn := p.Func(t.rel, "(*"+t.typ+")."+m)
			if fn == nil {
				c.Lost(t.rel+"."+t.typ+"."+m, "not found")
				continue
			}
			c.touched(fname(fn))
			n, ok := 0, true
			instrs(fn, func(ins ssa.Instruction) {
				var key ssa.Value
				switch x := ins.(type) {
				case *ssa.Lookup:
					if _, isMap := x.X.Type().Underlying().(*types.Map); isMap {
						key = x.Index
					}
				case *ssa.Call:
					if calleeName(&x.Call) == "builtin.delete" {
						key = x.Call.Args[1]
					}
				}
				if key == nil {
					return
				}
				n++
				call, isCall := origin(key).(*ssa.Call)
				if !isCall || calleeName(&call.Call) != t.canon || origin(call.Call.Args[0]) != ssa.Value(fn.Params[1]) {
					ok = false
				}
			})
			c.Decide(n > 0 && ok, "canon-key:"+t.typ+"."+m, p.Pos(fn.Pos()), "map key is the canonicalised argument", t.typ+"."+m+" uses its argument as map key without canonicalising it: differently-cased / non-canonical spellings address different entries")
		}
		// Save: init() dominates the first map access, and the key is the initialised object's name/pattern
		fn := p.Func(t.rel, "(*"+t.typ+").Save")
		if fn == nil {
			c.Lost(t.rel+"."+t.typ+".Save", "not found")
			continue
		}
		c.touched(fname(fn))
		var initCall ssa.Instruction
		instrs(fn, func(ins ssa.Instruction) {
			if cc := callCommon(ins); cc != nil && cc.StaticCallee() != nil && baseFuncName(cc.StaticCallee()) == "init" && origin(cc.Args[0]) == ssa.Value(fn.Params[1]) {
				initCall = ins
			}
		})
		okSave := initCall != nil
		instrs(fn, func(ins ssa.Instruction) {
			switch x := ins.(type) {
			case *ssa.Lookup:
				if _, isMap := x.X.Type().Underlying().(*types.Map); isMap && (initCall == nil || !dominatesInstr(initCall, ins)) {
					okSave = false
				}
			case *ssa.MapUpdate:
				if initCall == nil || !dominatesInstr(initCall, ins) {
					okSave = false
				}
			}
		})
		c.Decide(okSave, "canon-key:"+t.typ+".Save", p.Pos(fn.Pos()), "Save canonicalises (init) before touching the map", t.typ+".Save accesses the map before the saved object was canonicalised by init()")
	}
	// init itself canonicalises
	ui := p.Func("provider/auth", "(*User).init")
	ri := p.Func("provider/route", "(*Route).init")
	if ui != nil {
		okU := false
		for _, st := range storesToField(ui, modRel("provider/auth"), "User", "Name") {
			if call, ok := st.Val.(*ssa.Call); ok && calleeName(&call.Call) == "strings.ToLower" {
				okU = true
			}
		}
		c.Decide(okU, "canon-key:User.init", p.Pos(ui.Pos()), "user names are lower-cased", "User.init no longer lower-cases the name")
	}
	if ri != nil {
		okR := false
		for _, st := range storesToField(ri, modRel("provider/route"), "Route", "Pattern") {
			if call, ok := st.Val.(*ssa.Call); ok && calleeName(&call.Call) == modRel("utils")+".CanonicalPath" {
				okR = true
			}
		}
		c.Decide(okR, "canon-key:Route.init", p.Pos(ri.Pos()), "route patterns are canonicalised", "Route.init no longer canonicalises the pattern")
	}
}

func ruleFlushFullList(c *Ctx) {
	p := c.P
	for _, t := range []struct{ rel, typ string }{{"provider/auth", "manager"}, {"provider/route", "routetable"}} {
		fn := p.Func(t.rel, "(*"+t.typ+").Flush")
		if fn == nil {
			c.Lost(t.rel+"."+t.typ+".Flush", "not found")
			continue
		}
		c.touched(fname(fn))
		var flushCall *ssa.Call
		instrs(fn, func(ins ssa.Instruction) {
			if call, ok := ins.(*ssa.Call); ok && call.Call.IsInvoke() && call.Call.Method.Name() == "Flush" {
				flushCall = call
			}
		})
		if flushCall == nil {
			c.Bad("flush:"+t.typ, p.Pos(fn.Pos()), "the table's Flush never calls the provider")
			continue
		}
		names := []string{"l", "saves", "removes"}
		okArgs := true
		for i, a := range flushCall.Call.Args {
			f, _, ok := fieldLoad(a)
			if !ok || i >= len(names) || f.Name() != names[i] {
				okArgs = false
			}
		}
		c.Decide(okArgs, "flush:args:"+t.typ, p.InstrPos(flushCall), "provider receives (full list, saves, removes)", "the provider is not handed the table's full list / pending lists in that order: the file written is not the table")
		// pending lists cleared only after the call, on the err == nil path
		bad := false
		for _, fld := range []string{"saves", "removes"} {
			for _, st := range storesToField(fn, modRel(t.rel), t.typ, fld) {
				if !dominatesInstr(flushCall, st) {
					bad = true
				}
				// must be on the nil-error side
				okSide := false
				for _, d := range fn.Blocks {
					ifi, ok := d.Instrs[len(d.Instrs)-1].(*ssa.If)
					if !ok || !d.Dominates(st.Block()) {
						continue
					}
					if bo, ok := ifi.Cond.(*ssa.BinOp); ok && (bo.Op == token.NEQ || bo.Op == token.EQL) && (isNilConst(bo.X) || isNilConst(bo.Y)) {
						nilSide := d.Succs[1]
						if bo.Op == token.EQL {
							nilSide = d.Succs[0]
						}
						if nilSide == st.Block() || nilSide.Dominates(st.Block()) {
							okSide = true
						}
					}
				}
				if !okSide {
					bad = true
				}
			}
		}
		c.Decide(!bad, "flush:pending-cleared-after-success:"+t.typ, p.Pos(fn.Pos()), "pending saves/removes cleared only after the provider succeeded", "the pending saves/removes are cleared before (or regardless of) a successful provider flush: after a failed flush the changes are never retried")
	}
	for _, rel := range []string{"provider/auth", "provider/route"} {
		fn := p.Func(rel, "(*jsonProvider).Flush")
		if fn == nil {
			continue
		}
		ok := false
		instrs(fn, func(ins ssa.Instruction) {
			if cc := callCommon(ins); cc != nil && cc.StaticCallee() != nil && baseFuncName(cc.StaticCallee()) == "EncodeJSONFile" {
				if origin(cc.Args[1]) == ssa.Value(fn.Params[1]) {
					if f, _, okf := fieldLoad(cc.Args[0]); okf && theProgram.baseFieldName(f) == "filePath" {
						ok = true
					}
				}
			}
		})
		c.Decide(ok, "flush:json-full:"+rel, p.Pos(fn.Pos()), "JSON provider writes the full list to its file", "the JSON provider does not write the full list to its configured file")
	}
}

func ruleDefaultOnlyIfMissing(c *Ctx) {
	p := c.P
	fn := p.Func("provider/auth", "(*jsonProvider).LoadAll")
	if fn == nil {
		c.Lost("auth.jsonProvider.LoadAll", "not found")
		return
	}
	c.touched(fname(fn))
	// returns a freshly built slice (default account) only with fact os.IsNotExist=true and nothing else disjoined
	bad, found := false, false
	c.paths += factsAt(p, fn, nil, nil, func(ins ssa.Instruction, s factSet) {
		ret, ok := ins.(*ssa.Return)
		if !ok {
			return
		}
		v := retValue(ret, 0)
		if isNilConst(v) {
			return
		}
		// a literal slice: Slice of a new array
		if sl, ok := v.(*ssa.Slice); ok {
			if _, isAlloc := sl.X.(*ssa.Alloc); isAlloc {
				found = true
				if !s.has("os.IsNotExist=true") {
					bad = true
					c.Bad("default-admin", p.InstrPos(ret), "the built-in administrator account is returned on a path with facts {"+string(s)+"}: an unreadable (not merely missing) users file silently falls back to admin/admin")
				}
			}
		}
	})
	// the IsNotExist test must not be widened by a disjunction: the block returning the default must have exactly one predecessor
	instrs(fn, func(ins ssa.Instruction) {
		if ret, ok := ins.(*ssa.Return); ok {
			if sl, ok := retValue(ret, 0).(*ssa.Slice); ok {
				if _, isAlloc := sl.X.(*ssa.Alloc); isAlloc {
					// walk back to the block that builds the literal
					b := sl.X.(*ssa.Alloc).Block()
					if len(b.Preds) != 1 {
						bad = true
						c.Bad("default-admin", p.InstrPos(ret), "the default-account branch is reachable through more than one condition")
					}
				}
			}
		}
	})
	if !found {
		c.Note("no built-in default account returned by LoadAll")
		c.OK("default-admin", p.Pos(fn.Pos()), "no default account")
	} else if !bad {
		c.OK("default-admin", p.Pos(fn.Pos()), "default account only when the file does not exist")
	}
	_ = strings.TrimSpace
}
