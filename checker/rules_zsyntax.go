package main

// Syntax-structure rules for the parameter-set decoders (C15), each a clause of the
// standards' syntax tables that is visible in the shape of the decoder:
//   R-LOOP-EXIT-SATISFIABLE  no decoder loop/branch condition is a tautology on an unsigned value
//   R-SUBLAYER-LOOP-START    H.265 7.3.2.1/7.3.2.2: for(i = flag ? 0 : max_sub_layers_minus1; ...)
//   R-RPS-COUNTS-DERIVED     H.265 7.4.8: inferred num_negative/positive_pics come from the running count
//   R-ASC-EXT-TABLE          ISO 14496-3 1.6.2.1: explicit SBR/PS signalling branch, as a truth table

import (
	"fmt"
	"go/token"
	"go/types"
	"strings"

	"golang.org/x/tools/go/ssa"
)

func init() {
	add := func(r *RuleDoc) {
		if p := properties["C15"]; p != nil {
			p.Rules = append(p.Rules, r)
		}
	}
	add(&RuleDoc{Name: "R-LOOP-EXIT-SATISFIABLE", Text: "No comparison that guards a loop or branch of the parameter-set decoders and the bit reader is decided by the operand type alone (unsigned >= 0, unsigned < 0): a count-down loop over an unsigned counter never reaches its exit and ends only by an index panic, i.e. every parameter set that takes the branch is rejected.", Run: ruleLoopExitSatisfiable})
	add(&RuleDoc{Name: "R-SUBLAYER-LOOP-START", Text: "In the H.265 VPS and SPS decoders the sub-layer ordering info loop starts at 0 when *_sub_layer_ordering_info_present_flag is 1 and at *_max_sub_layers_minus1 when it is 0 (H.265 7.3.2.1, 7.3.2.2); the sibling decoders agree.", Run: ruleSublayerLoopStart})
	add(&RuleDoc{Name: "R-RPS-COUNTS-DERIVED", Text: "In the short-term reference picture set decoder every store to Num_negative_pics / Num_positive_pics is a value read from the stream or derived from the running count of the prediction process (H.265 7.4.8), never a literal: later predicted sets size their flag loops from these counts.", Run: ruleRpsCountsDerived})
	add(&RuleDoc{Name: "R-ASC-EXT-TABLE", Text: "AudioSpecificConfig: the explicit-extension branch (extension sampling frequency + inner object type) is taken for object type 5 (SBR) always, for 29 (PS) whenever the 9 bits that follow are not the MP3onMP4 escape (low 6 bits non-zero), and for no other object type; decided by evaluating the decoder's branch chain over the finite table object type x (peek3&3 == 0) x (peek9&0x3f == 0) (ISO 14496-3 1.6.2.1).", Run: ruleAscExtTable})
	add(&RuleDoc{Name: "R-SIGNED-BEFORE-SUBTRACT", Text: "In the parameter-set decoders a subtraction whose result is used as a signed quantity (converted to a signed integer type) is computed in a signed type, or the minuend is established >= the subtrahend: `int(1 - 2*flag)` over uint8 yields 255, not -1 (H.265 eq. 7-60 deltaRps, H.264 offsets).", Run: ruleSignedBeforeSubtract})
	add(&RuleDoc{Name: "R-RATE-ARITH-WIDE", Text: "The FrameRate accessors do their arithmetic in float64 (or 64-bit): time_scale and num_units_in_tick are full-range u(32), so a product or sum formed in uint32 before the conversion wraps for valid parameter sets.", Run: ruleRateArithWide})
	add(&RuleDoc{Name: "R-H264-HIGH-PROFILE-SET", Text: "The profile_idc values under which the H.264 SPS decoder reads chroma_format_idc .. seq_scaling_matrix are a superset of the list in H.264 7.3.2.1.1 (100, 110, 122, 244, 44, 83, 86, 118, 128, 138, 139, 134, 135) and contain no Baseline/Main/Extended value (66, 77, 88).", Run: ruleH264HighProfileSet})
	add(&RuleDoc{Name: "R-FIXED-RATE-FROM-SYNTAX", Text: "The fixed-frame-rate accessors are functions of the syntax elements that signal a fixed rate: fixed_frame_rate_flag (H.264 E.1.1), fixed_pic_rate_general_flag / fixed_pic_rate_within_cvs_flag (H.265 E.2.2).", Run: ruleFixedRateFromSyntax})
	add(&RuleDoc{Name: "R-ASC-DECODED-ON-SDP-PATH", Text: "When the SDP carries an AudioSpecificConfig, the audio metadata of the stream is taken from decoding it: at the call of aac.MetadataIsReady in parseAudioMeta the callee's decode branch (guarded by SampleRate == 0) is feasible, i.e. SampleRate is not already known non-zero on every path to the call.", Run: ruleAscDecodedOnSdpPath})
	addMutants(
		&Mutant{Prop: "C15", Name: "c15-sdp-asc-not-decoded", File: "av/format/sdp/parsemeta.go",
			Old: "\t\t\tvar asc aac.AudioSpecificConfig\n\t\t\tif asc.Decode(config) == nil {\n\t\t\t\tif asc.Channels > 0 {\n\t\t\t\t\taudio.Channels = int(asc.Channels)\n\t\t\t\t}\n\t\t\t\tif m.ClockRate <= 0 && asc.SampleRate > 0 {\n\t\t\t\t\taudio.SampleRate = asc.SampleRate\n\t\t\t\t\tif asc.ExtSampleRate > 0 {\n\t\t\t\t\t\taudio.SampleRate = asc.ExtSampleRate\n\t\t\t\t\t}\n\t\t\t\t}\n\t\t\t}\n", New: "\t\t\t_ = aac.MetadataIsReady(audio)\n", Expect: "R-ASC-DECODED-ON-SDP-PATH"},
		&Mutant{Prop: "C15", Name: "c15-hevc-delta-rps-unsigned", File: "av/codec/hevc/sps.go",
			Old: "delta_rps = (1 - 2*int(ps.Delta_rps_sign)) * (int(ps.Abs_delta_rps_minus1) + 1)", New: "delta_rps = int(1-2*ps.Delta_rps_sign) * (int(ps.Abs_delta_rps_minus1) + 1)", Expect: "R-SIGNED-BEFORE-SUBTRACT"},
		&Mutant{Prop: "C15", Name: "c15-hevc-rate-narrow-mul", File: "av/codec/hevc/sps.go",
			Old: "	return float64(sps.Vui.Vui_time_scale) / float64(sps.Vui.Vui_num_units_in_tick)", New: "	return float64(sps.Vui.Vui_time_scale*2) / float64(sps.Vui.Vui_num_units_in_tick*2)", Expect: "R-RATE-ARITH-WIDE"},
		&Mutant{Prop: "C15", Name: "c15-h264-profile-list-short", File: "av/codec/h264/sps.go",
			Old: "		sps.ProfileIdc == 86 || sps.ProfileIdc == 118 ", New: "		sps.ProfileIdc == 86 ", Expect: "R-H264-HIGH-PROFILE-SET"},
		&Mutant{Prop: "C15", Name: "c15-h264-fixed-rate-from-rate", File: "av/codec/h264/sps.go",
			Old: "	return sps.Vui.FixedFrameRateFlag == 1", New: "	return sps.FrameRate() > 0", Expect: "R-FIXED-RATE-FROM-SYNTAX"},
		&Mutant{Prop: "C15", Name: "c15-uint-countdown", File: "av/codec/h264/sps.go",
			Old: "\tfor i := 0; i <= int(hrd.CpbCntMinus1); i++ {", New: "\tfor i := hrd.CpbCntMinus1; i >= 0; i-- {", Expect: "R-LOOP-EXIT-SATISFIABLE"},
		&Mutant{Prop: "C15", Name: "c15-vps-sublayer-start-inverted", File: "av/codec/hevc/vps.go",
			Old: "\tif vps.Vps_sub_layer_ordering_info_present_flag == 1 {\n\t\ti = 0\n\t}", New: "\tif vps.Vps_sub_layer_ordering_info_present_flag == 0 {\n\t\ti = 0\n\t}", Expect: "R-SUBLAYER-LOOP-START"},
		&Mutant{Prop: "C15", Name: "c15-rps-negative-count-literal", File: "av/codec/hevc/sps.go",
			Old: "\t\tps.Num_negative_pics = uint8(i)", New: "\t\tps.Num_negative_pics = 1", Expect: "R-RPS-COUNTS-DERIVED"},
		&Mutant{Prop: "C15", Name: "c15-asc-sbr-needs-escape", File: "av/codec/aac/asc.go",
			Old: "\tif asc.ObjectType == AOT_SBR || (asc.ObjectType == AOT_PS &&", New: "\tif asc.ObjectType == AOT_ER_BSAC || (asc.ObjectType == AOT_PS &&", Expect: "R-ASC-EXT-TABLE"},
	)
}

// ------------------------------------------------------------ R-LOOP-EXIT-SATISFIABLE

func isUnsigned(t types.Type) bool {
	b, ok := t.Underlying().(*types.Basic)
	return ok && b.Info()&types.IsUnsigned != 0
}

func ruleLoopExitSatisfiable(c *Ctx) {
	p := c.P
	n := 0
	for _, pkg := range []string{"av/codec/h264", "av/codec/hevc", "av/codec/aac", "utils/bits", "utils"} {
		for _, fn := range p.FuncsInPkg(pkg) {
			ord := 0
			for _, b := range fn.Blocks {
				if len(b.Instrs) == 0 {
					continue
				}
				ifi, ok := b.Instrs[len(b.Instrs)-1].(*ssa.If)
				if !ok {
					continue
				}
				bo, ok := ifi.Cond.(*ssa.BinOp)
				if !ok {
					continue
				}
				n++
				taut := ""
				if k, ok := constInt(bo.Y); ok && k == 0 && isUnsigned(bo.X.Type()) {
					switch bo.Op {
					case token.GEQ:
						taut = "always true"
					case token.LSS:
						taut = "never true"
					}
				}
				if k, ok := constInt(bo.X); ok && k == 0 && isUnsigned(bo.Y.Type()) {
					switch bo.Op {
					case token.LEQ:
						taut = "always true"
					case token.GTR:
						taut = "never true"
					}
				}
				if taut == "" {
					continue
				}
				ord++
				c.touched(fname(fn))
				c.Bad(fmt.Sprintf("tautology#%d@%s", ord, fname(fn)), p.InstrPos(bo), fmt.Sprintf("comparison of an unsigned %s value with 0 is %s: a count-down loop guarded by it cannot exit (the counter wraps to the type's maximum and the next table access panics), so every parameter set taking this branch is rejected instead of parsed", bo.X.Type(), taut))
			}
		}
	}
	c.sites += n
	c.Note(fmt.Sprintf("branch conditions examined: %d", n))
	c.Floor("decoder branch conditions", n, 100)
	if !c.anyBad("R-LOOP-EXIT-SATISFIABLE") {
		c.OK("no-tautology", "", fmt.Sprintf("none of %d branch conditions of the decoders is decided by its operand type", n))
	}
}

// ------------------------------------------------------------ R-SUBLAYER-LOOP-START

func ruleSublayerLoopStart(c *Ctx) {
	p := c.P
	n := 0
	isFlagTest := func(b *ssa.BasicBlock) (*ssa.BinOp, *types.Var, int64, bool) {
		if len(b.Instrs) == 0 {
			return nil, nil, 0, false
		}
		ifi, ok := b.Instrs[len(b.Instrs)-1].(*ssa.If)
		if !ok {
			return nil, nil, 0, false
		}
		bo, ok := ifi.Cond.(*ssa.BinOp)
		if !ok || (bo.Op != token.EQL && bo.Op != token.NEQ) {
			return nil, nil, 0, false
		}
		f, _, ok := fieldLoad(stripConv(bo.X))
		k, okk := constInt(bo.Y)
		if !ok || !okk || !strings.HasSuffix(f.Name(), "sub_layer_ordering_info_present_flag") || (k != 0 && k != 1) {
			return nil, nil, 0, false
		}
		return bo, f, k, true
	}
	for _, fn := range p.FuncsInPkg("av/codec/hevc") {
		instrs(fn, func(ins ssa.Instruction) {
			loop, ok := ins.(*ssa.Phi)
			if !ok {
				return
			}
			// loop counter: one edge is counter+1; the others are start values
			type start struct {
				pred *ssa.BasicBlock
				v    ssa.Value
			}
			var starts []start
			back := false
			for i, e := range loop.Edges {
				if bo, ok := e.(*ssa.BinOp); ok && bo.Op == token.ADD && bo.X == ssa.Value(loop) {
					back = true
					continue
				}
				starts = append(starts, start{loop.Block().Preds[i], e})
			}
			if !back {
				return
			}
			if len(starts) == 1 {
				sel, ok := starts[0].v.(*ssa.Phi)
				if !ok {
					return
				}
				starts = nil
				for i, e := range sel.Edges {
					starts = append(starts, start{sel.Block().Preds[i], e})
				}
			}
			if len(starts) != 2 {
				return
			}
			// the flag test that separates the two start values
			for _, d := range fn.Blocks {
				bo, f, k, ok := isFlagTest(d)
				if !ok {
					continue
				}
				side := func(pred *ssa.BasicBlock) int { // 1: condition true, 2: false
					onT := pred != d && d.Succs[0].Dominates(pred) && len(d.Succs[0].Preds) == 1
					onF := pred != d && d.Succs[1].Dominates(pred) && len(d.Succs[1].Preds) == 1
					switch {
					case onT && !onF:
						return 1
					case onF && !onT:
						return 2
					case pred == d:
						// falls through from the test itself: the side that is NOT a separate single-pred block
						if len(d.Succs[0].Preds) == 1 && d.Succs[0] != pred {
							return 2
						}
						return 1
					}
					return 0
				}
				s0, s1 := side(starts[0].pred), side(starts[1].pred)
				if s0 == 0 || s1 == 0 || s0 == s1 {
					continue
				}
				vT, vF := starts[0].v, starts[1].v
				if s0 == 2 {
					vT, vF = vF, vT
				}
				n++
				c.touched(fname(fn))
				condMeansFlag1 := (bo.Op == token.EQL) == (k == 1)
				v1, v0 := vT, vF
				if !condMeansFlag1 {
					v1, v0 = vF, vT
				}
				key := "sublayer-loop@" + fname(fn)
				show := func(v ssa.Value) string {
					if k, ok := constInt(stripConv(v)); ok {
						return fmt.Sprint(k)
					}
					return describeValue(p, stripConv(v))
				}
				k1, is0 := constInt(stripConv(v1))
				f0, _, isMax := fieldLoad(stripConv(v0))
				if is0 && k1 == 0 && isMax && strings.HasSuffix(f0.Name(), "max_sub_layers_minus1") {
					c.OK(key, p.InstrPos(loop), "flag=1: loop from 0; flag=0: only entry [max_sub_layers_minus1] is read")
				} else {
					c.Bad(key, p.InstrPos(loop), fmt.Sprintf("the sub-layer ordering info loop starts at %s when %s is 1 and at %s when it is 0; H.265 7.3.2.1/7.3.2.2 read entries 0..max when the flag is 1 and only entry max when it is 0, so with max_sub_layers_minus1 > 0 the wrong number of ue(v) triples is consumed and every later element (VUI timing: frame rate) is out of sync", show(v1), f.Name(), show(v0)))
				}
				return
			}
		})
	}
	c.Floor("sub-layer ordering info loops (VPS, SPS)", n, 2)
}

// ------------------------------------------------------------ R-RPS-COUNTS-DERIVED

func ruleRpsCountsDerived(c *Ctx) {
	p := c.P
	fn := p.Func("av/codec/hevc", "(*H265RawSTRefPicSet).decode")
	if fn == nil {
		c.Lost("hevc.H265RawSTRefPicSet.decode", "short-term reference picture set decoder not found")
		return
	}
	c.touched(fname(fn))
	n := 0
	for _, name := range []string{"Num_negative_pics", "Num_positive_pics"} {
		ord := 0
		for _, st := range storesToField(fn, modRel("av/codec/hevc"), "H265RawSTRefPicSet", name) {
			ord++
			n++
			key := fmt.Sprintf("%s#%d@%s", name, ord, fname(fn))
			if k, ok := constInt(stripConv(st.Val)); ok {
				c.Bad(key, p.InstrPos(st), fmt.Sprintf("%s is set to the literal %d: the prediction process (7.4.8) yields the number of entries it produced; a later set predicted from this one reads num_negative_pics+num_positive_pics+1 flag pairs, so a wrong count desynchronises the rest of the SPS (VUI timing)", name, k))
			} else {
				c.OK(key, p.InstrPos(st), "stored from "+describeValue(p, stripConv(st.Val)))
			}
		}
	}
	c.Floor("Num_*_pics stores", n, 4)
}

// ------------------------------------------------------------ R-ASC-EXT-TABLE

func ruleAscExtTable(c *Ctx) {
	p := c.P
	fn := p.Func("av/codec/aac", "(*AudioSpecificConfig).Decode")
	if fn == nil {
		c.Lost("aac.AudioSpecificConfig.Decode", "decoder not found")
		return
	}
	c.touched(fname(fn))
	sbr, ok1 := pkgConst(p, "av/codec/aac", "AOT_SBR")
	ps, ok2 := pkgConst(p, "av/codec/aac", "AOT_PS")
	lc, ok3 := pkgConst(p, "av/codec/aac", "AOT_AAC_LC")
	if !ok1 || !ok2 || !ok3 || sbr != 5 || ps != 29 || lc != 2 {
		c.Bad("object-type-consts", "", fmt.Sprintf("AOT_SBR=%d AOT_PS=%d AOT_AAC_LC=%d, ISO 14496-3 table 1.17 says 5, 29, 2", sbr, ps, lc))
		return
	}
	c.OK("object-type-consts", "", "AOT_AAC_LC=2 AOT_SBR=5 AOT_PS=29")
	// blocks that store ExtObjectType
	taken := map[*ssa.BasicBlock]bool{}
	notTaken := map[*ssa.BasicBlock]bool{}
	for _, st := range storesToField(fn, modRel("av/codec/aac"), "AudioSpecificConfig", "ExtObjectType") {
		if k, ok := constInt(st.Val); ok && k == sbr {
			taken[st.Block()] = true
		} else if ok && k == 0 {
			notTaken[st.Block()] = true
		}
	}
	// start: first block (dominating all 'taken') whose If tests ObjectType == AOT_SBR
	var start *ssa.BasicBlock
	isOT := func(v ssa.Value) bool {
		f, _, ok := fieldLoad(stripConv(v))
		return ok && theProgram.baseFieldName(f) == "ObjectType"
	}
	for _, b := range fn.Blocks {
		if len(b.Instrs) == 0 {
			continue
		}
		if ifi, ok := b.Instrs[len(b.Instrs)-1].(*ssa.If); ok {
			if bo, ok := ifi.Cond.(*ssa.BinOp); ok && isOT(bo.X) {
				domAll := len(taken) > 0
				for t := range taken {
					if !b.Dominates(t) {
						domAll = false
					}
				}
				if domAll && (start == nil || b.Dominates(start)) {
					start = b
				}
			}
		}
	}
	if start == nil || len(taken) == 0 || len(notTaken) == 0 {
		c.Lost("asc-ext-branch", "explicit-extension branch (stores ExtObjectType = AOT_SBR / AOT_NULL under a test of ObjectType) not found")
		return
	}
	peekAtom := func(v ssa.Value) (int64, bool) { // (Peek(n) & m) -> n
		bo, ok := stripConv(v).(*ssa.BinOp)
		if !ok || bo.Op != token.AND {
			return 0, false
		}
		call, ok := stripConv(bo.X).(*ssa.Call)
		if !ok || call.Call.StaticCallee() == nil || baseFuncName(call.Call.StaticCallee()) != "Peek" {
			return 0, false
		}
		nb, ok := constInt(call.Call.Args[1])
		m, ok2 := constInt(bo.Y)
		if !ok || !ok2 || !(nb == 3 && m == 3 || nb == 9 && m == 0x3f) {
			return 0, false
		}
		return nb, true
	}
	// evaluate the chain under an assignment
	eval := func(ot int64, a0, b0 bool) (string, string) {
		b := start
		for steps := 0; steps < 32; steps++ {
			if taken[b] {
				return "taken", ""
			}
			if notTaken[b] {
				return "not-taken", ""
			}
			if len(b.Instrs) == 0 {
				return "", "empty block"
			}
			switch t := b.Instrs[len(b.Instrs)-1].(type) {
			case *ssa.Jump:
				b = b.Succs[0]
				continue
			case *ssa.If:
				bo, ok := t.Cond.(*ssa.BinOp)
				if !ok || (bo.Op != token.EQL && bo.Op != token.NEQ) {
					return "", "condition not over the table's atoms: " + describeValue(p, t.Cond)
				}
				var val bool
				x, y := bo.X, bo.Y
				if _, isC := constInt(x); isC {
					x, y = y, x
				}
				k, okk := constInt(y)
				if !okk {
					return "", "condition not over the table's atoms: " + describeValue(p, t.Cond)
				}
				if isOT(x) {
					val = ot == k
				} else if nb, ok := peekAtom(x); ok && k == 0 {
					if nb == 3 {
						val = a0
					} else {
						val = b0
					}
				} else {
					return "", "condition not over the table's atoms: " + describeValue(p, t.Cond)
				}
				if bo.Op == token.NEQ {
					val = !val
				}
				if val {
					b = b.Succs[0]
				} else {
					b = b.Succs[1]
				}
			default:
				return "", "chain leaves the function"
			}
		}
		return "", "chain too long"
	}
	type row struct {
		ot     int64
		a0, b0 bool
		want   string // "taken", "not-taken", "" = either (FFmpeg's MP3onMP4 escape)
	}
	var rows []row
	for _, a0 := range []bool{false, true} {
		for _, b0 := range []bool{false, true} {
			rows = append(rows, row{sbr, a0, b0, "taken"}, row{lc, a0, b0, "not-taken"}, row{22, a0, b0, "not-taken"})
			w := "taken"
			if b0 {
				w = "" // low 6 of the next 9 bits zero = inner object type 0: not a valid config; FFmpeg treats A!=0,B==0 as the MP3onMP4 draft
			}
			rows = append(rows, row{ps, a0, b0, w})
		}
	}
	for _, r := range rows {
		got, why := eval(r.ot, r.a0, r.b0)
		key := fmt.Sprintf("asc-ext[ot=%d,peek3&3==0:%v,peek9&63==0:%v]", r.ot, r.a0, r.b0)
		switch {
		case got == "":
			c.Undecided(key, p.Pos(fn.Pos()), why)
		case r.want == "" || got == r.want:
			c.OK(key, p.Pos(fn.Pos()), got)
		default:
			c.Bad(key, p.Pos(fn.Pos()), fmt.Sprintf("for audio object type %d with (next 3 bits & 3 == 0) = %v and (next 9 bits & 0x3f == 0) = %v the explicit-extension branch is %s; ISO 14496-3 1.6.2.1 requires %s: an explicit HE-AAC v2 (PS) config whose extension sampling-frequency index has bit 1 or 2 set (e.g. 44100 Hz = index 4) is parsed as a plain config and the stream's sample rate is reported as the core rate (half the real one)", r.ot, r.a0, r.b0, got, r.want))
		}
	}
}

// ------------------------------------------------------------ R-SIGNED-BEFORE-SUBTRACT

func isSigned(t types.Type) bool {
	b, ok := t.Underlying().(*types.Basic)
	return ok && b.Info()&types.IsInteger != 0 && b.Info()&types.IsUnsigned == 0
}

func ruleSignedBeforeSubtract(c *Ctx) {
	p := c.P
	n := 0
	for _, pkg := range []string{"av/codec/h264", "av/codec/hevc", "av/codec/aac"} {
		for _, fn := range p.FuncsInPkg(pkg) {
			ord := 0
			instrs(fn, func(ins ssa.Instruction) {
				cv, ok := ins.(*ssa.Convert)
				if !ok || !isSigned(cv.Type()) {
					return
				}
				bo, ok := cv.X.(*ssa.BinOp)
				if !ok || bo.Op != token.SUB || !isUnsigned(bo.Type()) {
					return
				}
				n++
				ord++
				c.touched(fname(fn))
				key := fmt.Sprintf("signed-sub#%d@%s", ord, fname(fn))
				if geEstablished(cv, bo.X, bo.Y) {
					c.OK(key, p.InstrPos(bo), "minuend >= subtrahend established before the subtraction")
					return
				}
				c.Bad(key, p.InstrPos(bo), fmt.Sprintf("`%s - %s` is computed in %s and only then converted to %s: whenever the subtrahend exceeds the minuend the result is the wrapped positive value, not the negative one the syntax defines (e.g. deltaRps = (1 - 2*delta_rps_sign) * ... becomes +255*... for sign=1, so every predicted reference picture lands on the wrong side and later sets read the wrong number of flags)", describeValue(p, bo.X), describeValue(p, bo.Y), bo.Type(), cv.Type()))
			})
		}
	}
	c.Note(fmt.Sprintf("signed conversions of unsigned differences: %d", n))
	if n == 0 {
		c.OK("signed-sub", "", "no unsigned difference is reinterpreted as signed in the decoders")
	}
}

// ------------------------------------------------------------ R-RATE-ARITH-WIDE

func ruleRateArithWide(c *Ctx) {
	p := c.P
	for _, t := range []struct{ rel, fn string }{{"av/codec/h264", "(*RawSPS).FrameRate"}, {"av/codec/hevc", "(*H265RawSPS).FrameRate"}} {
		fn := p.Func(t.rel, t.fn)
		if fn == nil {
			c.Lost(t.rel+"."+t.fn, "frame rate accessor not found")
			continue
		}
		c.touched(fname(fn))
		var bad *ssa.BinOp
		instrs(fn, func(ins ssa.Instruction) {
			bo, ok := ins.(*ssa.BinOp)
			if !ok {
				return
			}
			switch bo.Op {
			case token.MUL, token.ADD, token.SHL:
			default:
				return
			}
			b, ok := bo.Type().Underlying().(*types.Basic)
			if !ok || b.Info()&types.IsInteger == 0 {
				return
			}
			if sz := types.SizesFor("gc", "amd64").Sizeof(b); sz < 8 {
				bad = bo
			}
		})
		if bad != nil {
			c.Bad("rate-arith@"+fname(fn), p.InstrPos(bad), fmt.Sprintf("`%s %s %s` is formed in %s before the conversion to float64: num_units_in_tick / time_scale are u(32) with the full range valid, so the product wraps (num_units_in_tick = 0x80000000 gives a frame rate of +Inf)", describeValue(p, bad.X), bad.Op, describeValue(p, bad.Y), bad.Type()))
		} else {
			c.OK("rate-arith@"+fname(fn), p.Pos(fn.Pos()), "no integer product/sum narrower than 64 bits")
		}
	}
}

// ------------------------------------------------------------ R-H264-HIGH-PROFILE-SET

func ruleH264HighProfileSet(c *Ctx) {
	p := c.P
	fn := p.Func("av/codec/h264", "(*RawSPS).Decode")
	if fn == nil {
		c.Lost("h264.RawSPS.Decode", "decoder not found")
		return
	}
	c.touched(fname(fn))
	// the store of ChromaFormatIdc fed by the bit reader marks the high-profile block
	var blk *ssa.BasicBlock
	for _, st := range storesToField(fn, modRel("av/codec/h264"), "RawSPS", "ChromaFormatIdc") {
		if call, ok := stripConv(st.Val).(*ssa.Call); ok && strings.Contains(calleeName(&call.Call), "bits.Reader).Read") {
			blk = st.Block()
		}
	}
	if blk == nil {
		c.Lost("h264.high-profile-block", "no read of chroma_format_idc from the bit stream")
		return
	}
	// profile values for which the block is reachable: the function's branches on ProfileIdc are
	// evaluated for each of the 256 values (other conditions stay open), boolean phis are resolved per
	// incoming edge by the path engine - so an ||-chain, a switch, or a predicate helper decide alike
	isProfile := func(v ssa.Value) bool {
		f, _, ok := fieldLoad(stripConv(v))
		return ok && theProgram.baseFieldName(f) == "ProfileIdc"
	}
	tests := 0
	for _, b := range fn.Blocks {
		for _, ins := range b.Instrs {
			if bo, ok := ins.(*ssa.BinOp); ok && (bo.Op == token.EQL || bo.Op == token.NEQ) && isProfile(bo.X) {
				tests++
			}
		}
	}
	have := map[int64]bool{}
	if tests > 0 {
		for k := int64(0); k < 256; k++ {
			kk := k
			res := RunPath(&PathRule[int8]{Fn: fn, Init: []int8{0},
				Branch: func(s int8, cond ssa.Value, taken bool) (int8, bool) {
					bo, ok := cond.(*ssa.BinOp)
					if !ok || (bo.Op != token.EQL && bo.Op != token.NEQ) || !isProfile(bo.X) {
						return s, true
					}
					cst, ok := constInt(bo.Y)
					if !ok {
						return s, true
					}
					val := kk == cst
					if bo.Op == token.NEQ {
						val = !val
					}
					return s, val == taken
				}})
			c.paths += res.N
			if len(res.In[blk]) > 0 {
				have[k] = true
			}
		}
		if len(have) == 256 {
			have = map[int64]bool{} // the block does not depend on the profile tests that were found
		}
	}
	var missing, wrong []string
	for _, k := range []int64{100, 110, 122, 244, 44, 83, 86, 118, 128, 138, 139, 134, 135} {
		if !have[k] {
			missing = append(missing, fmt.Sprint(k))
		}
	}
	for _, k := range []int64{66, 77, 88} {
		if have[k] {
			wrong = append(wrong, fmt.Sprint(k))
		}
	}
	c.sites += len(have)
	switch {
	case len(have) == 0:
		c.Undecided("high-profile-set", p.Pos(fn.Pos()), "the guard of the chroma_format_idc block is not a chain of ProfileIdc == const tests")
	case len(missing) > 0 || len(wrong) > 0:
		c.Bad("high-profile-set", p.InstrPos(blk.Instrs[0]), fmt.Sprintf("chroma_format_idc/bit depths/scaling matrix are read for %d profile_idc values; missing from H.264 7.3.2.1.1: [%s], wrongly included: [%s] - for a missing profile the decoder takes the bits of chroma_format_idc as log2_max_frame_num_minus4 and every later element (width, height, VUI timing) is out of sync", len(have), strings.Join(missing, " "), strings.Join(wrong, " ")))
	default:
		c.OK("high-profile-set", p.InstrPos(blk.Instrs[0]), fmt.Sprintf("%d profile_idc values, superset of the standard's list", len(have)))
	}
}

// ------------------------------------------------------------ R-FIXED-RATE-FROM-SYNTAX

func ruleFixedRateFromSyntax(c *Ctx) {
	p := c.P
	for _, t := range []struct {
		rel, fn string
		any     []string
	}{
		{"av/codec/h264", "(*RawSPS).IsFixedFrameRate", []string{"FixedFrameRateFlag"}},
		{"av/codec/hevc", "(*H265RawSPS).IsFixedFrameRate", []string{"Fixed_pic_rate_general_flag", "Fixed_pic_rate_within_cvs_flag"}},
	} {
		fn := p.Func(t.rel, t.fn)
		if fn == nil {
			c.Lost(t.rel+"."+t.fn, "fixed-rate accessor not found")
			continue
		}
		c.touched(fname(fn))
		got := map[string]bool{}
		fieldsRead(p, fn, 2, got)
		ok := false
		for _, f := range t.any {
			ok = ok || got[f]
		}
		c.Decide(ok, "fixed-rate:"+fname(fn), p.Pos(fn.Pos()), "reads "+strings.Join(t.any, " / "), fname(fn)+" never reads "+strings.Join(t.any, " / ")+": the reported fixed-rate flag is not the one the stream signals (a stream with timing info but no fixed_pic_rate flag set is reported as fixed-rate)")
	}
}

// ------------------------------------------------------------ R-ASC-DECODED-ON-SDP-PATH

func ruleAscDecodedOnSdpPath(c *Ctx) {
	p := c.P
	caller := p.Func("av/format/sdp", "parseAudioMeta")
	callee := p.Func("av/codec/aac", "MetadataIsReady")
	if caller == nil || callee == nil {
		c.Lost("sdp.parseAudioMeta/aac.MetadataIsReady", "not found")
		return
	}
	c.touched(fname(caller))
	c.touched(fname(callee))
	// callee: is every Decode call dominated by the true edge of `SampleRate == 0`?
	guarded, decodes := true, 0
	instrs(callee, func(ins ssa.Instruction) {
		cc := callCommon(ins)
		if cc == nil || cc.StaticCallee() == nil || baseFuncName(cc.StaticCallee()) != "Decode" {
			return
		}
		decodes++
		ok := false
		for _, d := range callee.Blocks {
			if len(d.Instrs) == 0 || !d.Dominates(ins.Block()) || d == ins.Block() {
				continue
			}
			ifi, isIf := d.Instrs[len(d.Instrs)-1].(*ssa.If)
			if !isIf {
				continue
			}
			bo, isBo := ifi.Cond.(*ssa.BinOp)
			if !isBo || bo.Op != token.EQL {
				continue
			}
			f, _, isF := fieldLoad(stripConv(bo.X))
			k, isK := constInt(bo.Y)
			if isF && isK && k == 0 && theProgram.baseFieldName(f) == "SampleRate" && d.Succs[0].Dominates(ins.Block()) && len(d.Succs[0].Preds) == 1 {
				ok = true
			}
		}
		guarded = guarded && ok
	})
	if decodes == 0 {
		c.Lost("aac.MetadataIsReady:decode", "MetadataIsReady no longer decodes the config")
		return
	}
	// caller: abstract value of audio.SampleRate on every path to the call
	type st int8 // 0 unknown, 1 zero, 2 non-zero
	var atCall []st
	var callIns ssa.Instruction
	rule := &PathRule[st]{Fn: caller, Init: []st{0},
		Transfer: func(s st, ins ssa.Instruction) []st {
			if store, ok := ins.(*ssa.Store); ok {
				if f, _, ok := fieldAddr(store.Addr); ok && theProgram.baseFieldName(f) == "SampleRate" {
					if k, ok := constInt(stripConv(store.Val)); ok {
						if k == 0 {
							return []st{1}
						}
						return []st{2}
					}
					if lo, ok := lowerBound(store, stripConv(store.Val)); ok && lo >= 1 {
						return []st{2}
					}
					// a value loaded from a field that a dominating test showed > 0
					if f2, b2, ok := fieldLoad(stripConv(store.Val)); ok {
						for _, d := range caller.Blocks {
							if len(d.Instrs) == 0 || !d.Dominates(store.Block()) || d == store.Block() {
								continue
							}
							if ifi, ok := d.Instrs[len(d.Instrs)-1].(*ssa.If); ok {
								if bo, ok := ifi.Cond.(*ssa.BinOp); ok && bo.Op == token.GTR {
									f3, b3, ok3 := fieldLoad(stripConv(bo.X))
									k, okk := constInt(bo.Y)
									if ok3 && okk && k >= 0 && f3 == f2 && origin(b3) == origin(b2) && d.Succs[0].Dominates(store.Block()) && len(d.Succs[0].Preds) == 1 {
										return []st{2}
									}
								}
							}
						}
					}
					return []st{0}
				}
			}
			if cc := callCommon(ins); cc != nil && cc.StaticCallee() == callee {
				callIns = ins
				atCall = append(atCall, s)
			}
			return nil
		}}
	RunPath(rule)
	allNZ := len(atCall) > 0
	for _, s := range atCall {
		if s != 2 {
			allNZ = false
		}
	}
	key := "asc-decoded@" + fname(caller)
	// accepted alternative: parseAudioMeta decodes the config itself and stores the channel count from it
	direct, fromAsc := false, false
	instrs(caller, func(ins ssa.Instruction) {
		if cc := callCommon(ins); cc != nil && cc.StaticCallee() != nil && baseFuncName(cc.StaticCallee()) == "Decode" && strings.Contains(funcFullName(cc.StaticCallee()), "AudioSpecificConfig") {
			direct = true
		}
		if store, ok := ins.(*ssa.Store); ok {
			if f, _, ok := fieldAddr(store.Addr); ok && theProgram.baseFieldName(f) == "Channels" {
				if f2, b2, ok := fieldLoad(stripConv(store.Val)); ok && f2.Name() == "Channels" && typeIs(b2.Type(), modRel("av/codec/aac"), "AudioSpecificConfig") {
					fromAsc = true
				}
			}
		}
	})
	if direct && fromAsc {
		c.OK(key, p.Pos(caller.Pos()), "parseAudioMeta decodes the config and stores the channel count from it")
		return
	}
	if callIns == nil {
		c.Lost("sdp.parseAudioMeta:MetadataIsReady", "parseAudioMeta neither decodes the config itself nor calls aac.MetadataIsReady")
		return
	}
	if guarded && allNZ {
		c.Bad(key, p.InstrPos(callIns), "on every path to aac.MetadataIsReady(audio) the field audio.SampleRate already holds a non-zero value (the 44100 default or the rtpmap clock rate), and MetadataIsReady decodes the config only when SampleRate == 0: the AudioSpecificConfig of the SDP is never decoded, the stream reports the rtpmap rate and a default of 2 channels (config=1208, mono, without a channel count in rtpmap is reported as stereo)")
	} else {
		c.OK(key, p.InstrPos(callIns), "the config decode in MetadataIsReady is reachable from the SDP path")
	}
}
