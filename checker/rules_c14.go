package main

import (
	"fmt"
	"go/token"
	"go/types"
	"strings"

	"golang.org/x/tools/go/ssa"
)

func init() {
	register(&PropertyDef{
		ID: "C14",
		Explanation: "Static analysis of the RTSP wire reader. Decided: (1) R-ALLOC-BOUNDED - every make([]byte, n) in the rtsp/rtp format packages whose n comes from wire data is either bounded by its 16-bit origin or dominated by a comparison of n with a constant that rejects larger values; (2) R-LINE-BOUNDED - the line accumulation loop has an exit that returns an error once the accumulated length exceeds a constant; (3) R-BODY-ERR - the error of reading the message body is propagated (a message cut short is an error, not a zero-padded message); (4) R-DISPATCH-ONE - receive peeks, then calls exactly one of ReadPacket / ReadResponse / ReadRequest on every path and consumes nothing else from the reader; (5) R-PACKET-CTOR - rtp.Packet values are constructed only in ReadPacket, whose length is a 16-bit field (so Packet.Write's uint16(len(Data)) cannot truncate and the payload offset invariant holds); (6) R-FRAME-SYMMETRY - ReadPacket and Packet.Write agree on the 4-byte prefix layout ('$', channel, big-endian 16-bit length).",
		NotDecided: "Round-trip equality of messages, chunking independence (bufio semantics trusted), error-never-panic for arbitrary bytes beyond the bounds above.",
		Rules: []*RuleDoc{
			{Name: "R-ALLOC-BOUNDED", Text: "Wire-sized allocations are bounded by a 16-bit origin or a dominating comparison with a constant.", Run: ruleAllocBounded},
			{Name: "R-LINE-BOUNDED", Text: "readLine's accumulation loop exits with an error when the accumulated length exceeds a constant.", Run: ruleLineBounded},
			{Name: "R-BODY-ERR", Text: "ReadRequest/ReadResponse return the body read error.", Run: ruleBodyErr},
			{Name: "R-DISPATCH-ONE", Text: "receive calls exactly one reader per invocation after Peek and consumes nothing else.", Run: ruleDispatchOne},
			{Name: "R-PACKET-CTOR", Text: "rtp.Packet is constructed only in rtp.ReadPacket.", Run: rulePacketCtor},
			{Name: "R-FRAME-SYMMETRY", Text: "ReadPacket and Packet.Write agree on prefix[0]='$', prefix[1]=channel, prefix[2:4]=big-endian length.", Run: ruleFrameSymmetry},
		},
	})
	addMutants(
		&Mutant{Prop: "C14", Name: "c14-body-unbounded", File: "av/format/rtsp/request.go",
			Old: "\tif cl > maxContentLength { // 拒绝荒谬的长度，避免按对端声明的大小分配内存\n\t\treturn nil, &badStringError{\"Content-Length over the maximum length\", strconv.Itoa(cl)}\n\t}\n", New: "\t_ = strconv.Itoa\n", Expect: "R-ALLOC-BOUNDED"},
		&Mutant{Prop: "C14", Name: "c14-line-unbounded", File: "av/format/rtsp/header.go",
			Old: "\t\tif len(line) > maxLineLenght {\n\t\t\treturn \"\", &badStringError{\"line over the maximum length\", string(line[:64])}\n\t\t}", New: "\t\t_ = maxLineLenght", Expect: "R-LINE-BOUNDED"},
		&Mutant{Prop: "C14", Name: "c14-body-error-dropped", File: "av/format/rtsp/response.go",
			Old: "\t\tif _, err = io.ReadFull(r, body); err != nil {\n\t\t\treturn nil, err\n\t\t}", New: "\t\t_, err = io.ReadFull(r, body)", Expect: "R-BODY-ERR"},
		&Mutant{Prop: "C14", Name: "c14-dispatch-eats-byte", File: "service/rtsp/io.go",
			Old: "\t// 是请求\n\treq, err := ReadRequest(r)", New: "\t// 是请求\n\tif sl[0] == '\\r' {\n\t\tr.Discard(2)\n\t}\n\treq, err := ReadRequest(r)", Expect: "R-DISPATCH-ONE"},
		&Mutant{Prop: "C14", Name: "c14-packet-built-elsewhere", File: "av/format/rtp/demuxer.go",
			Old: "func (demuxer *Demuxer) WriteRtpPacket(packet *Packet) error {\n\tdemuxer.recvQueue.Push(packet)", New: "func (demuxer *Demuxer) WriteRtpPacket(packet *Packet) error {\n\tif packet.Channel > ChannelAudioControl {\n\t\tpacket = &Packet{Channel: ChannelVideo, Data: packet.Data}\n\t}\n\tdemuxer.recvQueue.Push(packet)", Expect: "R-PACKET-CTOR"},
		&Mutant{Prop: "C14", Name: "c14-length-little-endian", File: "av/format/rtp/packet.go",
			Old: "\tbinary.BigEndian.PutUint16(prefix[2:], uint16(len(p.Data)))", New: "\tbinary.LittleEndian.PutUint16(prefix[2:], uint16(len(p.Data)))", Expect: "R-FRAME-SYMMETRY"},
	)
}

// boundedByConst: is `make` dominated by an If comparing n with a constant, the make being on the small side?
func boundedByConst(mk ssa.Instruction, n ssa.Value) (bool, int64) {
	n0 := origin(n)
	for _, d := range mk.Parent().Blocks {
		ifi, ok := d.Instrs[len(d.Instrs)-1].(*ssa.If)
		if !ok || !d.Dominates(mk.Block()) || d == mk.Block() {
			continue
		}
		b, ok := ifi.Cond.(*ssa.BinOp)
		if !ok {
			continue
		}
		x, y := origin(b.X), origin(b.Y)
		var k int64
		var isc bool
		op := b.Op
		if x == n0 || stripConv(b.X) == n0 {
			k, isc = evalInt(y)
		} else if y == n0 || stripConv(b.Y) == n0 {
			k, isc = evalInt(x)
			switch op { // flip
			case token.GTR:
				op = token.LSS
			case token.GEQ:
				op = token.LEQ
			case token.LSS:
				op = token.GTR
			case token.LEQ:
				op = token.GEQ
			}
		} else {
			continue
		}
		if !isc || k <= 0 {
			continue // comparisons with 0 (cl > 0) do not bound from above
		}
		// n > k : make must be reachable only via the false edge; n <= k / n < k : via the true edge
		viaTrue := d.Succs[0].Dominates(mk.Block())
		viaFalse := d.Succs[1].Dominates(mk.Block())
		switch op {
		case token.GTR, token.GEQ:
			if viaFalse && !viaTrue {
				return true, k
			}
		case token.LSS, token.LEQ:
			if viaTrue && !viaFalse {
				return true, k
			}
		}
	}
	return false, 0
}

func ruleAllocBounded(c *Ctx) {
	p := c.P
	n := 0
	for _, rel := range []string{"av/format/rtsp", "av/format/rtp"} {
		for _, fn := range p.FuncsInPkg(rel) {
			instrs(fn, func(ins ssa.Instruction) {
				mk, ok := ins.(*ssa.MakeSlice)
				if !ok {
					return
				}
				if _, isc := evalInt(mk.Len); isc {
					return
				}
				sl, ok := mk.Type().Underlying().(*types.Slice)
				if !ok {
					return
				}
				if b, ok := sl.Elem().Underlying().(*types.Basic); !ok || b.Kind() != types.Uint8 {
					return
				}
				// only sizes that come from wire data: depend on a Header lookup or on bytes read
				wire, sixteen := false, false
				walkDeps(mk.Len, func(x ssa.Value) bool {
					if call, ok := x.(*ssa.Call); ok {
						nm := calleeName(&call.Call)
						if strings.HasSuffix(nm, "rtsp.Header).Int") || strings.HasSuffix(nm, "rtsp.Header).Get") || nm == "strconv.Atoi" {
							wire = true
						}
						if strings.HasSuffix(nm, "bigEndian).Uint16") {
							wire, sixteen = true, true
							return false
						}
						if nm == "builtin.len" {
							return false // derived from an existing in-memory object
						}
					}
					return true
				})
				if !wire {
					return
				}
				n++
				c.touched(fname(fn))
				key := "alloc@" + fname(fn)
				if sixteen {
					c.OK(key, p.InstrPos(ins), "size is a 16-bit wire field (<= 65535)")
					return
				}
				ok2, k := boundedByConst(ins, mk.Len)
				c.Decide(ok2, key, p.InstrPos(ins), fmt.Sprintf("size rejected above %d before allocation", k), "a buffer is allocated with a size taken from the wire (Content-Length) without any upper bound: one message can make the server allocate gigabytes")
			})
		}
	}
	c.Floor("wire-sized allocations", n, 3)
}

func ruleLineBounded(c *Ctx) {
	p := c.P
	fn := p.Func("av/format/rtsp", "readLine")
	if fn == nil {
		c.Lost("rtsp.readLine", "not found")
		return
	}
	c.touched(fname(fn))
	// the append that accumulates
	var app *ssa.Call
	instrs(fn, func(ins ssa.Instruction) {
		if call, ok := ins.(*ssa.Call); ok && calleeName(&call.Call) == "builtin.append" && reachableBlocks(ins.Block())[ins.Block()] {
			app = call
		}
	})
	if app == nil {
		c.Lost("readLine.append", "accumulating append in a loop not found")
		return
	}
	bounded := false
	for _, b := range fn.Blocks {
		if !reachableBlocks(b)[b] { // must be inside the loop
			continue
		}
		ifi, ok := b.Instrs[len(b.Instrs)-1].(*ssa.If)
		if !ok {
			continue
		}
		bo, ok := ifi.Cond.(*ssa.BinOp)
		if !ok || (bo.Op != token.GTR && bo.Op != token.GEQ) {
			continue
		}
		lc, ok := bo.X.(*ssa.Call)
		if !ok || calleeName(&lc.Call) != "builtin.len" {
			continue
		}
		// len of the accumulated line
		if origin(lc.Call.Args[0]) != ssa.Value(app) {
			if ph, isPhi := lc.Call.Args[0].(*ssa.Phi); !isPhi || !phiHas(ph, app) {
				continue
			}
		}
		k, isc := evalInt(bo.Y)
		if !isc || k <= 0 {
			continue
		}
		// true edge leaves the loop and returns a non-nil error
		exit := b.Succs[0]
		if reachableBlocks(exit)[b] {
			continue
		}
		errRet := false
		for _, ins := range exit.Instrs {
			if ret, ok := ins.(*ssa.Return); ok && len(ret.Results) == 2 && !isNilConst(retValue(ret, 1)) {
				errRet = true
			}
		}
		if errRet {
			bounded = true
		}
	}
	c.Decide(bounded, "readLine:bounded", p.Pos(fn.Pos()), "accumulated line length is compared with a constant and rejected with an error", "the header line is accumulated without any length limit: a peer that never sends a line end makes the server buffer without bound")
}

func phiHas(ph *ssa.Phi, v ssa.Value) bool {
	for _, e := range ph.Edges {
		if e == v {
			return true
		}
	}
	return false
}

func ruleBodyErr(c *Ctx) {
	p := c.P
	for _, name := range []string{"ReadRequest", "ReadResponse"} {
		fn := p.Func("av/format/rtsp", name)
		if fn == nil {
			c.Lost("rtsp."+name, "not found")
			continue
		}
		c.touched(fname(fn))
		found := false
		instrs(fn, func(ins ssa.Instruction) {
			call, ok := ins.(*ssa.Call)
			if !ok || calleeName(&call.Call) != "io.ReadFull" {
				return
			}
			found = true
			// the error result (#1) must be tested against nil with the non-nil edge returning it, or be returned
			tested := false
			for _, r := range referrersOf(call) {
				ex, ok := r.(*ssa.Extract)
				if !ok || ex.Index != 1 {
					continue
				}
				// direct use, or through the err variable cell
				vals := []ssa.Value{ex}
				for _, r2 := range referrersOf(ex) {
					if st, ok := r2.(*ssa.Store); ok {
						if al, ok := st.Addr.(*ssa.Alloc); ok {
							for _, r3 := range referrersOf(al) {
								if u, ok := r3.(*ssa.UnOp); ok && dominatesInstr(st, u) {
									vals = append(vals, u)
								}
							}
						}
					}
				}
				for _, v := range vals {
					for _, r2 := range referrersOf(v) {
						switch x := r2.(type) {
						case *ssa.BinOp:
							if (x.Op == token.NEQ || x.Op == token.EQL) && (isNilConst(x.X) || isNilConst(x.Y)) {
								for _, r3 := range referrersOf(x) {
									if _, isIf := r3.(*ssa.If); isIf {
										tested = true
									}
								}
							}
						case *ssa.Return:
							tested = true
						}
					}
				}
			}
			c.Decide(tested, "body-err:"+name, p.InstrPos(ins), "body read error is checked/returned", name+" discards the error of reading the message body: a message cut short by the peer is returned as a complete message whose body is padded with zero bytes")
		})
		if !found {
			c.Lost("body-read:"+name, "io.ReadFull of the body not found")
		}
	}
}

func ruleDispatchOne(c *Ctx) {
	p := c.P
	fn := p.Func("service/rtsp", "receive")
	if fn == nil {
		c.Lost("rtsp.receive", "not found")
		return
	}
	c.touched(fname(fn))
	reader := fn.Params[1]
	isReaderCall := func(ins ssa.Instruction) string {
		cc := callCommon(ins)
		if cc == nil {
			return ""
		}
		// package-level func variables ReadPacket/ReadRequest/ReadResponse or static functions
		name := ""
		if cal := cc.StaticCallee(); cal != nil {
			name = cal.Name()
		} else if u, ok := cc.Value.(*ssa.UnOp); ok {
			if g, ok := u.X.(*ssa.Global); ok {
				name = g.Name()
			}
		}
		switch name {
		case "ReadPacket", "ReadRequest", "ReadResponse":
			if len(cc.Args) > 0 && origin(cc.Args[0]) == ssa.Value(reader) {
				return name
			}
		}
		return ""
	}
	type st struct {
		Peeked bool
		N      int8
	}
	var other ssa.Instruction
	r := &PathRule[st]{Fn: fn, Init: []st{{}},
		Transfer: func(s st, ins ssa.Instruction) []st {
			if isReaderCall(ins) != "" {
				if s.N < 2 {
					s.N++
				}
				return []st{s}
			}
			if cc := callCommon(ins); cc != nil && len(cc.Args) > 0 && origin(cc.Args[0]) == ssa.Value(reader) && !cc.IsInvoke() {
				if cal := cc.StaticCallee(); cal != nil && cal.Signature.Recv() != nil {
					if cal.Name() == "Peek" {
						s.Peeked = true
						return []st{s}
					}
					other = ins // any other bufio.Reader method consumes or disturbs the stream
				}
			}
			return nil
		}}
	res := RunPath(r)
	c.paths += res.N
	ok := true
	res.Visit(func(ins ssa.Instruction, s st) {
		if isReaderCall(ins) != "" && (!s.Peeked || s.N != 0) {
			ok = false
			c.Bad("dispatch:one-reader", p.InstrPos(ins), fmt.Sprintf("a message reader is called with peeked=%v after %d earlier reader calls in the same receive(): one invocation must consume exactly one message", s.Peeked, s.N))
		}
	})
	for ret, sts := range res.Exits() {
		for _, s := range sts {
			if s.Peeked && s.N == 0 {
				// only legal when Peek itself failed: the return value is Peek's error
				if v := retValue(ret.(*ssa.Return), 0); !isPeekErr(v) {
					ok = false
					c.Bad("dispatch:one-reader", p.InstrPos(ret), "receive returns without having read a message although the peek succeeded")
				}
			}
		}
	}
	if other != nil {
		ok = false
		c.Bad("dispatch:no-other-consumption", p.InstrPos(other), "receive calls "+calleeName(callCommon(other))+" on the connection reader besides Peek and the message readers: bytes are consumed outside message boundaries, the stream loses framing")
	}
	if ok {
		c.OK("dispatch:one-reader", p.Pos(fn.Pos()), "peek, then exactly one of ReadPacket/ReadResponse/ReadRequest on every path; nothing else consumed")
	}
	// the three package-level reader variables point at the format functions
	for _, v := range []struct{ glob, rel, fn string }{{"ReadPacket", "av/format/rtp", "ReadPacket"}, {"ReadRequest", "av/format/rtsp", "ReadRequest"}, {"ReadResponse", "av/format/rtsp", "ReadResponse"}} {
		g := p.Global("service/rtsp", v.glob)
		if g == nil {
			continue // direct calls
		}
		target := p.Func(v.rel, v.fn)
		okb := false
		nst := 0
		for _, f := range p.ModFuncs() {
			instrs(f, func(ins ssa.Instruction) {
				if st, ok := ins.(*ssa.Store); ok && st.Addr == ssa.Value(g) {
					nst++
					if funcValue(st.Val) == target {
						okb = true
					}
				}
			})
		}
		c.Decide(okb && nst == 1, "dispatch:binding:"+v.glob, "", "reader variable bound once to the format function", "rtsp."+v.glob+" is not bound exactly once to "+v.rel+"."+v.fn)
	}
}

func isPeekErr(v ssa.Value) bool {
	ex, ok := origin(v).(*ssa.Extract)
	if !ok {
		return false
	}
	call, ok := ex.Tuple.(*ssa.Call)
	return ok && call.Call.StaticCallee() != nil && baseFuncName(call.Call.StaticCallee()) == "Peek"
}

func rulePacketCtor(c *Ctx) {
	p := c.P
	rp := p.Func("av/format/rtp", "ReadPacket")
	if rp == nil {
		c.Lost("rtp.ReadPacket", "not found")
		return
	}
	n := 0
	for _, fn := range p.ModFuncs() {
		instrs(fn, func(ins ssa.Instruction) {
			al, ok := ins.(*ssa.Alloc)
			if !ok || !isPtrToNamed(al.Type(), modRel("av/format/rtp"), "Packet") {
				return
			}
			n++
			c.Decide(fn == rp, "packet-ctor@"+fname(fn), p.InstrPos(ins), "constructed by the wire reader", "an rtp.Packet is constructed outside rtp.ReadPacket: its Data length is no longer bounded by the 16-bit frame length (Packet.Write truncates it) and the payload-offset invariant is not established")
		})
	}
	c.Floor("rtp.Packet constructions", n, 1)
}

func ruleFrameSymmetry(c *Ctx) {
	p := c.P
	rp := p.Func("av/format/rtp", "ReadPacket")
	wp := p.Func("av/format/rtp", "(*Packet).Write")
	if rp == nil || wp == nil {
		c.Lost("rtp.ReadPacket/Packet.Write", "not found")
		return
	}
	c.touched(fname(rp))
	c.touched(fname(wp))
	pre, _ := pkgConst(p, "av/format/rtp", "TransferPrefix")
	c.Decide(pre == 0x24, "frame:prefix-const", "", "TransferPrefix = '$'", fmt.Sprintf("TransferPrefix is %#x, interleaved frames start with '$' (0x24)", pre))
	// reader: prefix[0] compared with TransferPrefix; channel = prefix[1]; length = BigEndian.Uint16(prefix[2:])
	// writer: prefix[0] = TransferPrefix; prefix[1] = byte(ch); BigEndian.PutUint16(prefix[2:], uint16(len(p.Data)))
	idxLoad := func(fn *ssa.Function, idx int64) bool { // prefix[idx] is loaded
		found := false
		instrs(fn, func(ins ssa.Instruction) {
			if ia, ok := ins.(*ssa.IndexAddr); ok {
				if k, ok := evalInt(ia.Index); ok && k == idx {
					if _, isAlloc := ia.X.(*ssa.Alloc); isAlloc {
						for _, r := range referrersOf(ia) {
							if u, ok := r.(*ssa.UnOp); ok && u.Op == token.MUL {
								found = true
							}
						}
					}
				}
			}
		})
		return found
	}
	idxStoreVal := func(fn *ssa.Function, idx int64) ssa.Value {
		var val ssa.Value
		instrs(fn, func(ins ssa.Instruction) {
			if st, ok := ins.(*ssa.Store); ok {
				if ia, ok := st.Addr.(*ssa.IndexAddr); ok {
					if k, ok := evalInt(ia.Index); ok && k == idx {
						if _, isAlloc := ia.X.(*ssa.Alloc); isAlloc {
							val = st.Val
						}
					}
				}
			}
		})
		return val
	}
	sliceFrom2 := func(fn *ssa.Function, callee string) *ssa.Call {
		var out *ssa.Call
		instrs(fn, func(ins ssa.Instruction) {
			call, ok := ins.(*ssa.Call)
			if !ok || !strings.HasSuffix(calleeName(&call.Call), callee) {
				return
			}
			for _, a := range call.Call.Args {
				if sl, ok := a.(*ssa.Slice); ok {
					if k, ok := evalInt(sl.Low); ok && k == 2 {
						out = call
					}
				}
			}
		})
		return out
	}
	rOK := idxLoad(rp, 0) && idxLoad(rp, 1) && sliceFrom2(rp, "binary.bigEndian).Uint16") != nil
	c.Decide(rOK, "frame:reader-layout", p.Pos(rp.Pos()), "reader: '$', channel, BE16 length at 2", "ReadPacket does not decode prefix[0], prefix[1] and a big-endian 16-bit length at prefix[2:]")
	v0 := idxStoreVal(wp, 0)
	k0, ok0 := int64(0), false
	if v0 != nil {
		k0, ok0 = evalInt(v0)
	}
	put := sliceFrom2(wp, "binary.bigEndian).PutUint16")
	lenOK := false
	if put != nil {
		if lc, ok := stripConv(put.Call.Args[2]).(*ssa.Call); ok && calleeName(&lc.Call) == "builtin.len" {
			if f, _, ok := fieldLoad(lc.Call.Args[0]); ok && theProgram.baseFieldName(f) == "Data" {
				lenOK = true
			}
		}
	}
	wOK := ok0 && k0 == pre && idxStoreVal(wp, 1) != nil && put != nil && lenOK
	c.Decide(wOK, "frame:writer-layout", p.Pos(wp.Pos()), "writer: '$', channel, BE16 len(Data) at 2", "Packet.Write does not encode '$', the channel and a big-endian 16-bit len(Data) at prefix[2:]: the reader on the other side cannot frame the data")
	// writer sends prefix then Data
	var writes []*ssa.Call
	instrs(wp, func(ins ssa.Instruction) {
		if call, ok := ins.(*ssa.Call); ok && call.Call.IsInvoke() && call.Call.Method.Name() == "Write" {
			writes = append(writes, call)
		}
	})
	two := len(writes) == 2
	if two {
		a, b := writes[0], writes[1]
		if !dominatesInstr(a, b) {
			a, b = b, a
		}
		sl, isSl := a.Call.Args[0].(*ssa.Slice)
		f, _, isData := fieldLoad(b.Call.Args[0])
		two = isSl && sl.Low == nil && sl.High == nil && isData && theProgram.baseFieldName(f) == "Data" && a.Call.Value == b.Call.Value
	}
	c.Decide(two, "frame:writer-prefix-then-data", p.Pos(wp.Pos()), "whole 4-byte prefix then the whole Data to the same writer", "Packet.Write does not write the whole 4-byte prefix followed by the whole Data to the same writer")
}
