package main

import (
	"fmt"
	"go/token"
	"go/types"
	"sort"
	"strings"

	"golang.org/x/tools/go/ssa"
)

func init() {
	register(&PropertyDef{
		ID: "C06",
		Explanation: "Static analysis of the RTP depacketisers. Decided: (1) R-FU-GUARDED-APPEND - in each fragmentation-unit handler (H.264 FU-A, H.265 FU; sibling rule) a fragment is appended only on a path where the start bit was seen on this packet or a unit is open (len(fragments) != 0 established and not since reset), so a continuation/end fragment whose start was lost can never produce a head-less unit; (2) R-FU-GAP-RESETS - every non-start append is preceded by the sequence-number continuity comparison, and its mismatch edge clears the fragments and returns without appending or emitting; (3) R-FU-EMIT - a unit is emitted only on the end-bit edge after this packet was appended, and the fragment list is cleared before/after emission; (4) R-AGG-VERBATIM - in each aggregation handler (STAP-A, AP; sibling rule) the bytes of an emitted unit are written only by copying from the packet payload (no rewriting of the unit's own header), into a buffer of exactly the declared size, after the declared size was checked against the remaining payload; (5) R-ONE-TIMESTAMP - every emission of a depacketiser passes the RTP timestamp of the packet being processed, and the AAC handler advances it by the per-frame sample constant.",
		NotDecided: "Byte equality of reassembled units, AU-header bit arithmetic, timestamp-to-time mapping values, 32-bit RTP timestamp wrap.",
		Rules: []*RuleDoc{
			{Name: "R-FU-GUARDED-APPEND", Text: "Every append to fragments in an FU handler is reached only with the start bit seen on this packet or with len(fragments) != 0 established and not since reset.", Run: func(c *Ctx) { ruleFU(c, "append") }},
			{Name: "R-FU-GAP-RESETS", Text: "The sequence-number comparison precedes every non-start append; its mismatch edge clears fragments and returns without appending or emitting.", Run: func(c *Ctx) { ruleFU(c, "gap") }},
			{Name: "R-FU-EMIT", Text: "A reassembled unit is emitted only on the end-bit edge after this packet's fragment was appended, and fragments is cleared on that path.", Run: func(c *Ctx) { ruleFU(c, "emit") }},
			{Name: "R-AGG-VERBATIM", Text: "In STAP-A/AP handlers the emitted unit's bytes are written only by copy from the packet payload, into make([]byte, declaredSize), after declaredSize was compared with the remaining payload; the two siblings agree.", Run: ruleAggVerbatim},
			{Name: "R-ONE-TIMESTAMP", Text: "Every writeFrame/rtp2ntp call of a depacketiser passes the Timestamp of the packet being processed (AAC: advanced by SamplesPerFrame per AU).", Run: ruleOneTimestamp},
		},
	})
	addMutants(
		&Mutant{Prop: "C06", Name: "c06-h265-len-guard-lost", File: "av/format/rtp/h265_depacketizer.go",
			Old: "\tif len(h265dp.fragments) == 0 || (len(h265dp.fragments) != 0 &&", New: "\tif (len(h265dp.fragments) != 0 &&", Expect: "R-FU-GUARDED-APPEND"},
		&Mutant{Prop: "C06", Name: "c06-h264-gap-no-reset", File: "av/format/rtp/h264_depacketizer.go",
			Old: "\t\t// Packet loss ?\n\t\th264dp.fragments = h264dp.fragments[:0]\n\t\treturn", New: "\t\t// Packet loss ?", Expect: "R-FU-GAP-RESETS"},
		&Mutant{Prop: "C06", Name: "c06-h265-emit-no-clear", File: "av/format/rtp/h265_depacketizer.go",
			Old: "\t\t// 清空分片缓存\n\t\th265dp.fragments = h265dp.fragments[:0]\n", New: "", Expect: "R-FU-EMIT"},
		&Mutant{Prop: "C06", Name: "c06-h265-ap-patches-header", File: "av/format/rtp/h265_depacketizer.go",
			Old: "\t\tcopy(frame.Payload, payload[off:off+nalSize])\n\t\tif err = h265dp.writeFrame", New: "\t\tcopy(frame.Payload, payload[off:off+nalSize])\n\t\tframe.Payload[1] = payload[1]\n\t\tif err = h265dp.writeFrame", Expect: "R-AGG-VERBATIM"},
		&Mutant{Prop: "C06", Name: "c06-h264-stap-size-unchecked", File: "av/format/rtp/h264_depacketizer.go",
			Old: "\t\tif nalSize < 1 || off+nalSize > len(payload) {", New: "\t\tif nalSize < 1 {", Expect: "R-AGG-VERBATIM"},
		&Mutant{Prop: "C06", Name: "c06-h264-fu-start-guard-lost", File: "av/format/rtp/h264_depacketizer.go",
			Old: "\t} else if len(h264dp.fragments) == 0 {", New: "\t} else if len(h264dp.fragments) == 0 && packet.Marker {", Expect: "R-FU-GUARDED-APPEND"},
		&Mutant{Prop: "C06", Name: "c06-aac-timestamp-not-advanced", File: "av/format/rtp/aac_depacketizer.go",
			Old: "\t\tauHeaders = auHeaders[2:]\n\t\tframesPayload = framesPayload[frameSize:]\n\t\tframeTimeStamp += aac.SamplesPerFrame", New: "\t\tauHeaders = auHeaders[2:]\n\t\tframesPayload = framesPayload[frameSize:]\n\t\tframeTimeStamp += 0", Expect: "R-ONE-TIMESTAMP"},
		&Mutant{Prop: "C06", Name: "c06-h264-seq-compare-dropped", File: "av/format/rtp/h264_depacketizer.go",
			Old: "h264dp.fragments[len(h264dp.fragments)-1].SequenceNumber != packet.SequenceNumber-1 {", New: "h264dp.fragments[len(h264dp.fragments)-1].Timestamp != packet.Timestamp {", Expect: "R-FU-GAP-RESETS"},
	)
}

type fuHandler struct {
	fn   *ssa.Function
	frag *types.Var
}

func fuHandlers(p *Program) []fuHandler {
	var out []fuHandler
	for _, x := range []struct{ typ, fn string }{{"h264Depacketizer", "depacketizeFuA"}, {"h265Depacketizer", "depacketizeFu"}} {
		f := p.Func("av/format/rtp", "(*"+x.typ+")."+x.fn)
		v := p.FieldVar("av/format/rtp", x.typ, "fragments")
		if f != nil && v != nil {
			out = append(out, fuHandler{f, v})
		}
	}
	return out
}

// bitTest recognises a test of bit k of a byte that is true when the bit is set:
// (x>>k)&1 == 1, (x>>k)&1 != 0, x&(1<<k) != 0, x&(1<<k) == 1<<k. Use bitTestPol for the negative forms.
func bitTest(cond ssa.Value) (int64, bool) {
	k, pos, ok := bitTestPol(cond)
	if !ok || !pos {
		return 0, false
	}
	return k, true
}

// bitTestPol: (bit index, true if the condition holds when the bit is SET, ok).
func bitTestPol(cond ssa.Value) (int64, bool, bool) {
	b, ok := cond.(*ssa.BinOp)
	if !ok || (b.Op != token.EQL && b.Op != token.NEQ) {
		return 0, false, false
	}
	rhs, ok := constInt(b.Y)
	if !ok {
		return 0, false, false
	}
	and, ok := stripConv(b.X).(*ssa.BinOp)
	if !ok || and.Op != token.AND {
		return 0, false, false
	}
	mask, ok := constInt(and.Y)
	if !ok {
		return 0, false, false
	}
	if shr, isShr := stripConv(and.X).(*ssa.BinOp); isShr && shr.Op == token.SHR && mask == 1 {
		k, ok := constInt(shr.Y)
		if !ok {
			return 0, false, false
		}
		switch {
		case b.Op == token.EQL && rhs == 1, b.Op == token.NEQ && rhs == 0:
			return k, true, true
		case b.Op == token.EQL && rhs == 0, b.Op == token.NEQ && rhs == 1:
			return k, false, true
		}
		return 0, false, false
	}
	// x & (1<<k)
	if mask > 0 && mask&(mask-1) == 0 {
		k := int64(0)
		for m := mask; m > 1; m >>= 1 {
			k++
		}
		switch {
		case b.Op == token.NEQ && rhs == 0, b.Op == token.EQL && rhs == mask:
			return k, true, true
		case b.Op == token.EQL && rhs == 0, b.Op == token.NEQ && rhs == mask:
			return k, false, true
		}
	}
	return 0, false, false
}

type fuState struct {
	Start    int8 // 0 unknown, 1 start bit set, 2 clear
	Open     int8 // 0 unknown, 1 len(fragments)!=0, 2 len==0
	SeqOK    bool
	Mismatch bool
	Appended bool
	End      int8
	Cleared  bool
	Emitted  bool
}

func ruleFU(c *Ctx, part string) {
	p := c.P
	hs := fuHandlers(p)
	c.Floor("FU handlers", len(hs), 2)
	for _, h := range hs {
		fn := h.fn
		c.touched(fname(fn))
		recv := fn.Params[0]
		isFragLoad := func(v ssa.Value) bool {
			f, base, ok := fieldLoad(v)
			return ok && f == h.frag && origin(base) == recv
		}
		isLenFrag := func(v ssa.Value) bool {
			call, ok := v.(*ssa.Call)
			if !ok || calleeName(&call.Call) != "builtin.len" {
				return false
			}
			return isFragLoad(call.Call.Args[0])
		}
		seqWidthBad := map[*ssa.BinOp]bool{}
		isSeqCmp := func(b *ssa.BinOp) bool {
			if bt, ok := b.X.Type().Underlying().(*types.Basic); !ok || bt.Kind() != types.Uint16 {
				seqWidthBad[b] = true
			}
			n := 0
			for _, side := range []ssa.Value{b.X, b.Y} {
				walkDeps(side, func(x ssa.Value) bool {
					if f, _, ok := fieldLoad(x); ok && theProgram.baseFieldName(f) == "SequenceNumber" {
						n++
						return false
					}
					return true
				})
			}
			return n >= 2
		}
		var writeFrame *ssa.Function
		instrs(fn, func(ins ssa.Instruction) {
			if cc := callCommon(ins); cc != nil && cc.StaticCallee() != nil && baseFuncName(cc.StaticCallee()) == "writeFrame" {
				writeFrame = cc.StaticCallee()
			}
		})
		r := &PathRule[fuState]{Fn: fn, Init: []fuState{{}},
			Transfer: func(s fuState, ins ssa.Instruction) []fuState {
				if st, ok := ins.(*ssa.Store); ok {
					if f, base, ok := fieldAddr(st.Addr); ok && f == h.frag && origin(base) == recv {
						switch v := st.Val.(type) {
						case *ssa.Slice:
							if k, ok := constInt(v.High); ok && k == 0 && isFragLoad(v.X) {
								s.Open = 2
								s.Cleared = true
								s.Appended = false
								return []fuState{s}
							}
						case *ssa.Call:
							if calleeName(&v.Call) == "builtin.append" {
								s.Appended = true
								s.Open = 1
								s.Cleared = false
								return []fuState{s}
							}
						}
						s.Open = 0
						return []fuState{s}
					}
				}
				if writeFrame != nil && callsFunc(ins, writeFrame) {
					s.Emitted = true
					return []fuState{s}
				}
				return nil
			},
			Branch: func(s fuState, cond ssa.Value, taken bool) (fuState, bool) {
				cv, neg := condNeg(cond)
				val := taken != neg
				if k, pos, ok := bitTestPol(cv); ok {
					if !pos {
						val = !val
					}
					set := func(cur int8) (int8, bool) {
						want := int8(2)
						if val {
							want = 1
						}
						if cur != 0 && cur != want {
							return cur, false
						}
						return want, true
					}
					var ok2 bool
					switch k {
					case 7:
						s.Start, ok2 = set(s.Start)
						return s, ok2
					case 6:
						s.End, ok2 = set(s.End)
						return s, ok2
					}
					return s, true
				}
				if b, ok := cv.(*ssa.BinOp); ok {
					if (b.Op == token.NEQ || b.Op == token.EQL) && isLenFrag(b.X) {
						if k, ok := constInt(b.Y); ok && k == 0 {
							nonzero := (b.Op == token.NEQ) == val
							want := int8(2)
							if nonzero {
								want = 1
							}
							if s.Open != 0 && s.Open != want {
								return s, false
							}
							s.Open = want
							return s, true
						}
					}
					if (b.Op == token.NEQ || b.Op == token.EQL) && isSeqCmp(b) {
						mismatch := (b.Op == token.NEQ) == val
						if mismatch {
							s.Mismatch = true
						} else {
							s.SeqOK = true
						}
						return s, true
					}
				}
				return s, true
			}}
		res := RunPath(r)
		c.paths += res.N
		viol := map[string]ssa.Instruction{}
		nAppend, nEmit := 0, 0
		res.Visit(func(ins ssa.Instruction, s fuState) {
			if st, ok := ins.(*ssa.Store); ok {
				if f, base, ok := fieldAddr(st.Addr); ok && f == h.frag && origin(base) == recv {
					if call, ok := st.Val.(*ssa.Call); ok && calleeName(&call.Call) == "builtin.append" {
						nAppend++
						if part == "append" && s.Start == 1 && !s.Cleared {
							viol["a start fragment is appended without the fragment list having been cleared first: when an earlier unit lost its end fragment, its stale fragments are assembled in front of the next, complete unit (spliced unit)"] = ins
						}
						if part == "append" && !(s.Start == 1 || s.Open == 1) {
							viol["a fragment is appended on a path where neither the start bit was seen on this packet nor a unit is open (len(fragments) != 0): after a lost start fragment, a middle/end fragment opens a unit without its head and the end fragment emits it"] = ins
						}
						if part == "gap" {
							if s.Start != 1 && !s.SeqOK {
								viol["a continuation fragment is appended without the sequence-number continuity comparison having passed"] = ins
							}
							if s.Mismatch {
								viol["a fragment is appended after the sequence-number comparison found a gap"] = ins
							}
						}
					}
				}
			}
			if writeFrame != nil && callsFunc(ins, writeFrame) {
				nEmit++
				if part == "emit" {
					if s.End != 1 {
						viol["a unit is emitted on a path that did not take the end-bit edge"] = ins
					}
					if !s.Appended && !s.Cleared {
						viol["a unit is emitted without this packet's fragment having been appended"] = ins
					}
				}
				if part == "gap" && s.Mismatch {
					viol["a unit is emitted after a sequence gap was detected"] = ins
				}
			}
			if ret, ok := ins.(*ssa.Return); ok {
				if part == "gap" && s.Mismatch && s.Start != 2 {
					viol["the sequence-gap edge is taken before the start bit of the packet was examined: when the tail of a fragmented unit was lost, the start fragment of the next unit is taken for the gap and that complete unit is dropped although all of its packets arrived"] = ret
				}
				if part == "gap" && s.Mismatch && !s.Cleared {
					viol["the sequence-gap edge returns without clearing fragments: the broken unit is later completed by unrelated fragments (spliced unit)"] = ret
				}
				if part == "emit" && s.Emitted && !(s.Cleared || s.Open == 2) {
					viol["after emitting a unit the fragment list is not cleared: the next unit is spliced onto the previous fragments"] = ret
				}
			}
		})
		if part == "gap" {
			for b, bad := range seqWidthBad {
				n := 0
				for _, side := range []ssa.Value{b.X, b.Y} {
					walkDeps(side, func(x ssa.Value) bool {
						if f, _, ok := fieldLoad(x); ok && theProgram.baseFieldName(f) == "SequenceNumber" {
							n++
							return false
						}
						return true
					})
				}
				if bad && n >= 2 {
					viol["the sequence-number continuity comparison is not done in 16-bit unsigned arithmetic (operands are "+b.X.Type().String()+"): across the 65535->0 wrap consecutive fragments compare as a gap and the whole unit is dropped although nothing was lost"] = b
				}
			}
		}
		if nAppend == 0 || nEmit == 0 {
			c.Lost("fu-shape:"+fname(fn), fmt.Sprintf("append sites=%d, emission sites=%d", nAppend, nEmit))
			continue
		}
		if len(viol) == 0 {
			c.OK("fu-"+part+":"+fname(fn), p.Pos(fn.Pos()), fmt.Sprintf("holds on all %d path states", res.N))
			continue
		}
		var ks []string
		for k := range viol {
			ks = append(ks, k)
		}
		sort.Strings(ks)
		for _, k := range ks {
			c.Bad("fu-"+part+":"+fname(fn), p.InstrPos(viol[k]), k)
		}
	}
}

func ruleAggVerbatim(c *Ctx) {
	p := c.P
	var hs []*ssa.Function
	for _, n := range []string{"(*h264Depacketizer).depacketizeStapa", "(*h265Depacketizer).depacketizeStap"} {
		if f := p.Func("av/format/rtp", n); f != nil {
			hs = append(hs, f)
		} else {
			c.Lost(n, "aggregation handler not found")
		}
	}
	for _, fn := range hs {
		c.touched(fname(fn))
		// the payload slice of the packet
		isPayload := func(v ssa.Value) bool {
			root := addrRoot(v)
			call, ok := root.(*ssa.Call)
			return ok && strings.HasSuffix(calleeName(&call.Call), "Packet).Payload")
		}
		// element stores into a codec.Frame Payload
		nCopy := 0
		ok := true
		instrs(fn, func(ins ssa.Instruction) {
			switch x := ins.(type) {
			case *ssa.Store:
				if ia, isIdx := x.Addr.(*ssa.IndexAddr); isIdx {
					if f, _, okf := fieldLoad(ia.X); okf && theProgram.baseFieldName(f) == "Payload" {
						ok = false
						c.Bad("agg-verbatim:"+fname(fn), p.InstrPos(ins), "an aggregated unit's bytes are rewritten after the copy (element store into frame.Payload): the emitted NAL unit differs from the unit the sender packetised (e.g. its header's NRI bits replaced by the aggregation header's)")
					}
				}
			case *ssa.Call:
				if calleeName(&x.Call) == "builtin.copy" {
					if f, _, okf := fieldLoad(x.Call.Args[0]); okf && theProgram.baseFieldName(f) == "Payload" {
						nCopy++
						if !isPayload(x.Call.Args[1]) {
							ok = false
							c.Bad("agg-verbatim:"+fname(fn), p.InstrPos(ins), "the unit is not copied from the packet payload")
						}
					}
				}
			}
		})
		if nCopy == 0 {
			c.Lost("agg-copy:"+fname(fn), "no copy into frame.Payload found")
			continue
		}
		if ok {
			c.OK("agg-verbatim:"+fname(fn), p.Pos(fn.Pos()), "unit bytes come from a single copy out of the packet payload")
		}
		// size check: make([]byte, n) for the frame payload must be dominated by a comparison involving n (or off+n) and len(payload)
		var mk *ssa.MakeSlice
		instrs(fn, func(ins ssa.Instruction) {
			if m, isM := ins.(*ssa.MakeSlice); isM {
				mk = m
			}
		})
		if mk == nil {
			c.Lost("agg-make:"+fname(fn), "no make for the unit buffer")
			continue
		}
		sizeV := origin(mk.Len)
		// make([]byte, len(s)) with s := payload[lo:hi]: the size is hi-lo; a comparison of hi (or of the
		// declared size hi is computed from) with len(payload) checks it
		sizeAlt := map[ssa.Value]bool{}
		if call, isC := stripConv(sizeV).(*ssa.Call); isC && calleeName(&call.Call) == "builtin.len" && len(call.Call.Args) == 1 {
			if sl, isS := origin(call.Call.Args[0]).(*ssa.Slice); isS && sl.High != nil {
				sizeAlt[origin(sl.High)] = true
				if bo, isB := origin(sl.High).(*ssa.BinOp); isB && bo.Op == token.ADD {
					sizeAlt[origin(bo.X)] = true
					sizeAlt[origin(bo.Y)] = true
				}
			}
		}
		checked := false
		for _, b := range fn.Blocks {
			ifi, isIf := b.Instrs[len(b.Instrs)-1].(*ssa.If)
			if !isIf || !b.Dominates(mk.Block()) {
				continue
			}
			bo, isB := ifi.Cond.(*ssa.BinOp)
			if !isB {
				continue
			}
			switch bo.Op {
			case token.GTR, token.GEQ, token.LSS, token.LEQ:
			default:
				continue
			}
			usesSize, usesLen := false, false
			for _, side := range []ssa.Value{bo.X, bo.Y} {
				walkDeps(side, func(x ssa.Value) bool {
					if _, isPhi := x.(*ssa.Phi); isPhi {
						return false // only this iteration's values: do not follow loop-carried dependences
					}
					if origin(x) == sizeV || x == sizeV || sizeAlt[origin(x)] || sizeAlt[x] {
						usesSize = true
					}
					if call, isC := x.(*ssa.Call); isC && calleeName(&call.Call) == "builtin.len" && isPayload(call.Call.Args[0]) {
						usesLen = true
					}
					return true
				})
			}
			if usesSize && usesLen {
				checked = true
			}
		}
		c.Decide(checked, "agg-size-checked:"+fname(fn), p.InstrPos(mk), "declared unit size compared with the remaining payload before the unit is built", "the declared unit size is never compared with the remaining payload before make([]byte, size)+copy: a truncated aggregation packet emits a unit padded with zero bytes (a truncated unit is emitted)")
	}
}

func ruleOneTimestamp(c *Ctx) {
	p := c.P
	n := 0
	for _, fn := range p.FuncsInPkg("av/format/rtp") {
		if fn.Signature.Recv() == nil || len(fn.Params) < 2 {
			continue
		}
		if !strings.HasSuffix(fn.Signature.Recv().Type().String(), "epacketizer") {
			continue
		}
		// packet parameter
		var pkt *ssa.Parameter
		for _, par := range fn.Params[1:] {
			if typeIs(par.Type(), modRel("av/format/rtp"), "Packet") {
				pkt = par
			}
		}
		if pkt == nil {
			continue
		}
		instrs(fn, func(ins ssa.Instruction) {
			cc := callCommon(ins)
			if cc == nil || cc.StaticCallee() == nil {
				return
			}
			name := baseFuncName(cc.StaticCallee())
			if name != "writeFrame" && name != "rtp2ntp" {
				return
			}
			n++
			c.sites++
			c.touched(fname(fn))
			arg := cc.Args[1]
			key := "timestamp:" + name + "@" + fname(fn)
			// direct: load of pkt.Timestamp
			isPktTS := func(v ssa.Value) bool {
				f, base, ok := fieldLoad(v)
				if !ok || theProgram.baseFieldName(f) != "Timestamp" {
					return false
				}
				return origin(addrRoot(base)) == pkt
			}
			if isPktTS(arg) {
				c.OK(key, p.InstrPos(ins), "timestamp of the packet being processed")
				return
			}
			// AAC: phi(pkt.Timestamp, prev + SamplesPerFrame)
			if ph, ok := arg.(*ssa.Phi); ok {
				okInit, okStep := false, false
				for _, e := range ph.Edges {
					if isPktTS(e) {
						okInit = true
					}
					if b, ok := e.(*ssa.BinOp); ok && b.Op == token.ADD && b.X == ph {
						if k, ok := constInt(b.Y); ok && k == 1024 {
							okStep = true
						}
					}
				}
				c.Decide(okInit && okStep, key, p.InstrPos(ins), "packet timestamp advanced by SamplesPerFrame per AU", "the per-AU timestamp is not the packet timestamp advanced by 1024 samples per access unit")
				return
			}
			c.Bad(key, p.InstrPos(ins), "emission does not use the RTP timestamp of the packet being processed ("+arg.String()+"): units from one packet no longer share its presentation time")
		})
	}
	c.Floor("depacketiser emission/timestamp sites", n, 6)
}
