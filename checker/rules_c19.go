package main

import (
	"fmt"
	"go/constant"
	"go/token"
	"go/types"
	"sort"
	"strings"

	"golang.org/x/tools/go/ssa"
)

func init() {
	register(&PropertyDef{
		ID:          "C19",
		Explanation: "Static evaluation of the port multiplexer's tables and hand-off. Decided: (1) R-PREFIX-TABLES - the RTSP prefix list (constant arguments of MatchPrefix in MatchRTSP) and the HTTP method list are evaluated from source: every RTSP method constant of the rtsp format package except OPTIONS is listed, OPTIONS appears in exactly the four qualified forms of the property ('OPTIONS * RTSP', 'OPTIONS * rtsp', 'OPTIONS rtsp://', 'OPTIONS RTSP://'), no RTSP entry is a prefix of an HTTP method (so no HTTP request line is captured by RTSP), and wherever an HTTP method is a prefix of an RTSP entry (OPTIONS, GET/GET_PARAMETER) the RTSP matcher is registered before the HTTP matcher in Service.listen; (2) R-ONE-SERVICE - in Listener.serve a connection is handed over by at most one channel send, only after doneSniffing, and every path that hands nothing over closes the connection; the sniff deadline is set before matching when a read timeout is configured and cleared only on the matched path; the listener's read timeout is set from configuration.",
		NotDecided:  "That sniffed bytes are replayed exactly once for every chunking (buffer arithmetic of sniffer.Read), patricia-tree matching correctness.",
		Rules: []*RuleDoc{
			{Name: "R-PREFIX-TABLES", Text: "RTSP/HTTP prefix tables complete and conflict-free; registration order resolves overlaps.", Run: rulePrefixTables},
			{Name: "R-ONE-SERVICE", Text: "At most one hand-off per connection after doneSniffing; unmatched connections are closed; deadline handling.", Run: ruleOneService},
		},
	})
	addMutants(
		&Mutant{Prop: "C19", Name: "c19-plain-options-is-rtsp", File: "service/rtsp/rtsp.go",
			Old: "\treturn listener.MatchPrefix(\"OPTIONS * RTSP\", \"OPTIONS * rtsp\",", New: "\treturn listener.MatchPrefix(\"OPTIONS\", \"OPTIONS * rtsp\",", Expect: "R-PREFIX-TABLES"},
		&Mutant{Prop: "C19", Name: "c19-method-missing", File: "service/rtsp/rtsp.go",
			Old: "\t\tMethodPlay, MethodPause, MethodTeardown,", New: "\t\tMethodPlay, MethodTeardown,", Expect: "R-PREFIX-TABLES"},
		&Mutant{Prop: "C19", Name: "c19-http-registered-first", File: "service/service.go",
			Old: "\tl.ServeAsync(rtsp.MatchRTSP(), s.rtsp.Serve)\n\tl.ServeAsync(listener.MatchHTTP(), s.http.Serve)", New: "\tl.ServeAsync(listener.MatchHTTP(), s.http.Serve)\n\tl.ServeAsync(rtsp.MatchRTSP(), s.rtsp.Serve)", Expect: "R-PREFIX-TABLES"},
		&Mutant{Prop: "C19", Name: "c19-unmatched-not-closed", File: "network/socket/listener/listener.go",
			Old: "\t_ = c.Close()\n\terr := ErrNotMatched{c: c}", New: "\terr := ErrNotMatched{c: c}", Expect: "R-ONE-SERVICE"},
		&Mutant{Prop: "C19", Name: "c19-handoff-to-all-matching", File: "network/socket/listener/listener.go",
			Old: "\t\t\t\tcase <-donec:\n\t\t\t\t\t_ = c.Close()\n\t\t\t\t}\n\t\t\t\treturn", New: "\t\t\t\tcase <-donec:\n\t\t\t\t\t_ = c.Close()\n\t\t\t\t\treturn\n\t\t\t\t}", Expect: "R-ONE-SERVICE"},
		&Mutant{Prop: "C19", Name: "c19-send-before-done-sniffing", File: "network/socket/listener/listener.go",
			Old: "\t\t\t\tmuc.doneSniffing()\n\t\t\t\tif m.readTimeout > noTimeout {", New: "\t\t\t\tif m.readTimeout > noTimeout {", Expect: "R-ONE-SERVICE"},
	)
}

// constStringArgs evaluates the variadic string arguments of a call.
func constStringArgs(call *ssa.Call, argIdx int) ([]string, bool) {
	if argIdx >= len(call.Call.Args) {
		return nil, false
	}
	sl, ok := call.Call.Args[argIdx].(*ssa.Slice)
	if !ok {
		// the list may live in a package-level variable passed with `...`; it counts as constant only if
		// nothing in the module stores into the variable or its elements after initialisation
		if ld, isLd := call.Call.Args[argIdx].(*ssa.UnOp); isLd && ld.Op == token.MUL {
			if g, isG := ld.X.(*ssa.Global); isG && theProgram != nil && g.Pkg != nil {
				rel := strings.TrimPrefix(strings.TrimPrefix(g.Pkg.Pkg.Path(), modPath), "/")
				writes := 0
				for _, f := range theProgram.ModFuncs() {
					if f.Name() == "init" && f.Pkg == g.Pkg {
						continue
					}
					instrs(f, func(ins ssa.Instruction) {
						for _, op := range ins.Operands(nil) {
							if op != nil && *op == ssa.Value(g) {
								if st, isSt := ins.(*ssa.Store); isSt && st.Addr == ssa.Value(g) {
									writes++
								}
								if u, isU := ins.(*ssa.UnOp); isU && u.Op == token.MUL {
									for _, r := range referrersOf(u) {
										if ia, isIa := r.(*ssa.IndexAddr); isIa {
											for _, r2 := range referrersOf(ia) {
												if _, isSt := r2.(*ssa.Store); isSt {
													writes++
												}
											}
										}
									}
								}
							}
						}
					})
				}
				if writes == 0 {
					return globalStrings(theProgram, rel, g.Name())
				}
			}
		}
		return nil, false
	}
	idx := map[int64]string{}
	okAll := true
	for _, r := range referrersOf(sl.X) {
		ia, ok := r.(*ssa.IndexAddr)
		if !ok {
			continue
		}
		i, _ := evalInt(ia.Index)
		for _, r2 := range referrersOf(ia) {
			if st, ok := r2.(*ssa.Store); ok {
				k, isc := st.Val.(*ssa.Const)
				if !isc || k.Value == nil || k.Value.Kind() != constant.String {
					okAll = false
					continue
				}
				idx[i] = constant.StringVal(k.Value)
			}
		}
	}
	var out []string
	for i := int64(0); i < int64(len(idx)); i++ {
		out = append(out, idx[i])
	}
	return out, okAll
}

// globalStrings evaluates a package-level []string literal.
func globalStrings(p *Program, rel, name string) ([]string, bool) {
	g := p.Global(rel, name)
	sp := p.Pkg(rel)
	if g == nil || sp == nil {
		return nil, false
	}
	initf := sp.Func("init")
	var arr ssa.Value
	instrs(initf, func(ins ssa.Instruction) {
		if st, ok := ins.(*ssa.Store); ok && st.Addr == ssa.Value(g) {
			if sl, ok := st.Val.(*ssa.Slice); ok {
				arr = sl.X
			}
		}
	})
	if arr == nil {
		return nil, false
	}
	idx := map[int64]string{}
	for _, r := range referrersOf(arr) {
		if ia, ok := r.(*ssa.IndexAddr); ok {
			i, _ := evalInt(ia.Index)
			for _, r2 := range referrersOf(ia) {
				if st, ok := r2.(*ssa.Store); ok {
					if k, ok := st.Val.(*ssa.Const); ok && k.Value != nil && k.Value.Kind() == constant.String {
						idx[i] = constant.StringVal(k.Value)
					} else {
						return nil, false
					}
				}
			}
		}
	}
	var out []string
	for i := int64(0); i < int64(len(idx)); i++ {
		out = append(out, idx[i])
	}
	return out, true
}

func rulePrefixTables(c *Ctx) {
	p := c.P
	mr := p.Func("service/rtsp", "MatchRTSP")
	if mr == nil {
		c.Lost("rtsp.MatchRTSP", "not found")
		return
	}
	c.touched(fname(mr))
	var rtspList []string
	okEval := false
	instrs(mr, func(ins ssa.Instruction) {
		if call, ok := ins.(*ssa.Call); ok && calleeName(&call.Call) == modRel("network/socket/listener")+".MatchPrefix" {
			rtspList, okEval = constStringArgs(call, 0)
		}
	})
	if !okEval || len(rtspList) == 0 {
		c.Undecided("prefix:rtsp-list", p.Pos(mr.Pos()), "cannot evaluate the RTSP prefix list as constants")
		return
	}
	httpList, okH := globalStrings(p, "network/socket/listener", "defaultHTTPMethods")
	if !okH {
		c.Undecided("prefix:http-list", "", "cannot evaluate defaultHTTPMethods")
		return
	}
	// every RTSP method constant except OPTIONS listed
	sp := p.Pkg("av/format/rtsp")
	var methods []string
	for _, n := range sp.Pkg.Scope().Names() {
		if !strings.HasPrefix(n, "Method") {
			continue
		}
		if k, ok := sp.Pkg.Scope().Lookup(n).(*types.Const); ok && k.Val().Kind() == constant.String {
			methods = append(methods, constant.StringVal(k.Val()))
		}
	}
	sort.Strings(methods)
	c.Floor("RTSP method constants", len(methods), 11)
	in := map[string]bool{}
	for _, e := range rtspList {
		in[e] = true
	}
	for _, m := range methods {
		if m == "OPTIONS" {
			continue
		}
		c.Decide(in[m], "prefix:rtsp-method:"+m, p.Pos(mr.Pos()), "listed", "RTSP method "+m+" is not in the RTSP prefix list: such a request line is handed to HTTP or the connection is closed")
	}
	wantOpt := []string{"OPTIONS * RTSP", "OPTIONS * rtsp", "OPTIONS rtsp://", "OPTIONS RTSP://"}
	var gotOpt []string
	for _, e := range rtspList {
		if strings.HasPrefix(e, "OPTIONS") {
			gotOpt = append(gotOpt, e)
		}
	}
	sort.Strings(wantOpt)
	sort.Strings(gotOpt)
	c.Decide(strings.Join(wantOpt, "|") == strings.Join(gotOpt, "|"), "prefix:options-forms", p.Pos(mr.Pos()), "OPTIONS is RTSP exactly for '*' + RTSP version or an rtsp:// URL", fmt.Sprintf("the OPTIONS forms routed to RTSP are %q, expected %q", gotOpt, wantOpt))
	// nothing else in the list
	for _, e := range rtspList {
		known := strings.HasPrefix(e, "OPTIONS")
		for _, m := range methods {
			if e == m {
				known = true
			}
		}
		if !known {
			c.Bad("prefix:unknown-entry:"+e, p.Pos(mr.Pos()), "RTSP prefix list contains "+e+", which is not an RTSP method")
		}
	}
	// no RTSP entry captures an HTTP request line
	capt := false
	for _, e := range rtspList {
		for _, h := range httpList {
			if strings.HasPrefix(h+" ", e) || strings.HasPrefix(h, e) {
				capt = true
				c.Bad("prefix:rtsp-captures-http:"+e, p.Pos(mr.Pos()), "RTSP prefix "+e+" matches the HTTP request line '"+h+" ...': HTTP requests with that method are handed to the RTSP service")
			}
		}
	}
	if !capt {
		c.OK("prefix:rtsp-captures-http", p.Pos(mr.Pos()), fmt.Sprintf("none of %d RTSP prefixes is a prefix of any of %d HTTP methods", len(rtspList), len(httpList)))
	}
	c.Decide(len(httpList) >= 9 && contains(httpList, "GET") && contains(httpList, "POST") && contains(httpList, "OPTIONS") && contains(httpList, "DELETE"), "prefix:http-methods", "", "HTTP method list evaluated", fmt.Sprintf("HTTP method list is %q", httpList))
	// overlaps: HTTP method is a prefix of an RTSP entry => RTSP must be registered first
	overlap := []string{}
	for _, e := range rtspList {
		for _, h := range httpList {
			if strings.HasPrefix(e, h) {
				overlap = append(overlap, h+"<"+e)
			}
		}
	}
	lst := p.Func("service", "(*Service).listen")
	if lst == nil {
		c.Lost("service.Service.listen", "not found")
		return
	}
	c.touched(fname(lst))
	var order []string
	var sites []ssa.Instruction
	instrs(lst, func(ins ssa.Instruction) {
		cc := callCommon(ins)
		if cc == nil || cc.StaticCallee() == nil || baseFuncName(cc.StaticCallee()) != "ServeAsync" {
			return
		}
		if mc, ok := cc.Args[1].(*ssa.Call); ok && mc.Call.StaticCallee() != nil {
			order = append(order, baseFuncName(mc.Call.StaticCallee()))
			sites = append(sites, ins)
		}
	})
	okOrder := len(order) == 2 && order[0] == "MatchRTSP" && order[1] == "MatchHTTP" && dominatesInstr(sites[0], sites[1])
	if len(overlap) > 0 {
		c.Decide(okOrder, "prefix:registration-order", p.Pos(lst.Pos()), fmt.Sprintf("RTSP matcher registered before HTTP (overlaps: %v)", overlap), fmt.Sprintf("matchers are registered in order %v although HTTP methods are prefixes of RTSP entries (%v): 'OPTIONS * RTSP/1.0' and 'GET_PARAMETER ...' would be handed to HTTP", order, overlap))
	} else {
		c.OK("prefix:registration-order", p.Pos(lst.Pos()), "no overlapping prefixes")
	}
	// MatchHTTP uses defaultHTTPMethods
	mh := p.Func("network/socket/listener", "MatchHTTP")
	if mh != nil {
		uses := false
		g := p.Global("network/socket/listener", "defaultHTTPMethods")
		instrs(mh, func(ins ssa.Instruction) {
			if u, ok := ins.(*ssa.UnOp); ok && u.X == ssa.Value(g) {
				uses = true
			}
		})
		c.Decide(uses, "prefix:http-matcher-uses-table", p.Pos(mh.Pos()), "MatchHTTP built from defaultHTTPMethods", "MatchHTTP is not built from defaultHTTPMethods")
	}
}

func contains(l []string, s string) bool {
	for _, x := range l {
		if x == s {
			return true
		}
	}
	return false
}

func ruleOneService(c *Ctx) {
	p := c.P
	fn := p.Func("network/socket/listener", "(*Listener).serve")
	if fn == nil {
		c.Lost("listener.Listener.serve", "not found")
		return
	}
	c.touched(fname(fn))
	conn := fn.Params[1]
	isHandoff := func(ins ssa.Instruction) bool {
		switch x := ins.(type) {
		case *ssa.Select:
			for _, s := range x.States {
				if s.Dir == types.SendOnly {
					return true
				}
			}
		case *ssa.Send:
			return true
		}
		return false
	}
	isClose := func(ins ssa.Instruction) bool {
		cc := callCommon(ins)
		return cc != nil && cc.IsInvoke() && cc.Method.Name() == "Close" && origin(cc.Value) == ssa.Value(conn)
	}
	isDone := func(ins ssa.Instruction) bool {
		cc := callCommon(ins)
		return cc != nil && cc.StaticCallee() != nil && baseFuncName(cc.StaticCallee()) == "doneSniffing"
	}
	isDeadline := func(ins ssa.Instruction) (bool, bool) { // (is, clears)
		cc := callCommon(ins)
		if cc == nil || !cc.IsInvoke() || cc.Method.Name() != "SetReadDeadline" {
			return false, false
		}
		// clearing: argument is the zero time.Time (a load of a zero-initialised local or a zero const struct)
		clears := true
		walkDeps(cc.Args[0], func(x ssa.Value) bool {
			if call, ok := x.(*ssa.Call); ok && strings.HasPrefix(calleeName(&call.Call), "time.Now") {
				clears = false
			}
			if call, ok := x.(*ssa.Call); ok && strings.HasSuffix(calleeName(&call.Call), "Time).Add") {
				clears = false
			}
			return true
		})
		return true, clears
	}
	type st struct {
		N       int8
		Done    bool
		Closed  bool
		Cleared bool
		Armed   bool
		Matched int8 // 0 unknown 1 matched 2 not
	}
	var badSend, badClear ssa.Instruction
	r := &PathRule[st]{Fn: fn, Init: []st{{}},
		Transfer: func(s st, ins ssa.Instruction) []st {
			switch {
			case isHandoff(ins):
				if s.N < 2 {
					s.N++
				}
				// a select with a send state may take the other (closing) branch: both outcomes
				return []st{s}
			case isClose(ins):
				s.Closed = true
				return []st{s}
			case isDone(ins):
				s.Done = true
				return []st{s}
			}
			if is, clears := isDeadline(ins); is {
				if clears {
					s.Cleared = true
				} else {
					s.Armed = true
				}
				return []st{s}
			}
			return nil
		},
		Branch: func(s st, cond ssa.Value, taken bool) (st, bool) {
			// the matcher's result: a dynamic call of a Matcher func value
			if call, ok := cond.(*ssa.Call); ok && call.Call.StaticCallee() == nil && !call.Call.IsInvoke() {
				if taken {
					s.Matched = 1
				} else {
					s.Matched = 2
				}
			}
			return s, true
		}}
	res := RunPath(r)
	c.paths += res.N
	res.Visit(func(ins ssa.Instruction, s st) {
		if isHandoff(ins) {
			if !s.Done || s.N != 0 {
				badSend = ins
			}
		}
		if is, clears := isDeadline(ins); is && clears && s.Matched != 1 {
			badClear = ins
		}
	})
	c.Decide(badSend == nil, "one-service:single-handoff-after-done-sniffing", p.Pos(fn.Pos()), "one hand-off per connection, after doneSniffing", "a connection can be handed to a service before doneSniffing (the service would not see the sniffed bytes from the first byte) or more than once")
	okExit := true
	for ret, sts := range res.Exits() {
		for _, s := range sts {
			if s.N == 0 && !s.Closed {
				okExit = false
				c.Bad("one-service:unmatched-closed", p.InstrPos(ret), "a path hands the connection to no service and does not close it: unmatched or silent connections stay open")
			}
			if s.N > 1 {
				okExit = false
				c.Bad("one-service:single-handoff", p.InstrPos(ret), "a connection reaches more than one service")
			}
		}
	}
	if okExit {
		c.OK("one-service:unmatched-closed", p.Pos(fn.Pos()), "every path hands over exactly once or closes")
	}
	c.Decide(badClear == nil, "one-service:deadline-cleared-only-when-matched", p.Pos(fn.Pos()), "sniff deadline cleared only for matched connections", "the sniff read deadline is cleared on a path that did not match: silent connections are never timed out")
	// the deadline is armed before matching when configured
	armed := false
	instrs(fn, func(ins ssa.Instruction) {
		if is, clears := isDeadline(ins); is && !clears {
			armed = true
		}
	})
	c.Decide(armed, "one-service:sniff-deadline-armed", p.Pos(fn.Pos()), "a read deadline is armed for sniffing", "no read deadline is armed before sniffing: a silent connection is held forever")
	// listen sets the read timeout from configuration
	lst := p.Func("service", "(*Service).listen")
	if lst != nil {
		okT := false
		instrs(lst, func(ins ssa.Instruction) {
			cc := callCommon(ins)
			if cc == nil || cc.StaticCallee() == nil || baseFuncName(cc.StaticCallee()) != "SetReadTimeout" {
				return
			}
			walkDeps(cc.Args[1], func(x ssa.Value) bool {
				if call, ok := x.(*ssa.Call); ok && call.Call.StaticCallee() != nil && strings.HasPrefix(funcPkgPath(call.Call.StaticCallee()), modPath+"/config") {
					okT = true
				}
				return true
			})
		})
		c.Decide(okT, "one-service:timeout-configured", p.Pos(lst.Pos()), "sniff timeout taken from configuration", "the listener's sniff timeout is not set from configuration")
	}
}
