package main

import (
	"fmt"
	"go/token"
	"go/types"
	"strings"

	"golang.org/x/tools/go/ssa"
)

func init() {
	register(&PropertyDef{
		ID: "C05",
		Explanation: "Static analysis of the stream registry (media.streams). Decided: (1) R-KEY-CANONICAL - every key used with the registry map is Stream.path (only ever assigned from utils.CanonicalPath in NewStream), a CanonicalPath result, or the key handed out by the map's own Range; (2) R-DELETE-IF-SAME - outside the shutdown sweep a Delete happens only on the equal edge of comparing the loaded entry with the stream being removed, so a retired stream never removes its successor; (3) R-NO-ORPHAN-CLOSE - at every call of Stream.Close/close outside Stream's own methods the registry has been brought up to date on that path (Delete/Store executed, or the entry was loaded and found absent/different), otherwise Get returns a closed stream; (4) R-IDLE-READS-ALL-SETS - the idle-close guard depends on the count of every consumptions-typed field of Stream; (5) R-REPLACE-RETIRES-OLD - Regist stores the new stream and then closes or schedules the retirement of the previous one on every path where one existed; (6) R-LOOKUP-FROM-REGISTRY - Get returns only what the registry map holds under the canonical key.",
		NotDecided: "Two concurrent Regist on one path (Load/Store is not atomic; schedule-dependent), listings equal to the live set at an instant, HLS last-access timing.",
		Rules: []*RuleDoc{
			{Name: "R-KEY-CANONICAL", Text: "Every key passed to streams.Load/Store/Delete is a load of Stream.path, the result of utils.CanonicalPath, or the key parameter of a Range callback over the same map; Stream.path is stored only in NewStream from CanonicalPath.", Run: ruleKeyCanonical},
			{Name: "R-DELETE-IF-SAME", Text: "streams.Delete (outside the Range sweep) lies on the equal edge of the pointer comparison between the loaded entry and the stream argument.", Run: ruleDeleteIfSame},
			{Name: "R-NO-ORPHAN-CLOSE", Text: "At every call of (*Stream).Close/close outside Stream's own methods the registry was updated on that path (Delete/Store, or Load found the entry absent/different).", Run: ruleNoOrphanClose},
			{Name: "R-IDLE-READS-ALL-SETS", Text: "The branch guarding the idle close depends on the count of every field of Stream of type consumptions.", Run: ruleIdleReadsAllSets},
			{Name: "R-REPLACE-RETIRES-OLD", Text: "In Regist, on every path where a different previous entry was loaded, the new stream is stored and the old one is closed as replaced or handed to the retire task.", Run: ruleReplaceRetiresOld},
			{Name: "R-LOOKUP-FROM-REGISTRY", Text: "Get returns nil or the value loaded from the registry under CanonicalPath(path).", Run: ruleLookupFromRegistry},
		},
	})
	addMutants(
		&Mutant{Prop: "C05", Name: "c05-get-no-canonical", File: "media/global.go",
			Old: "func Get(path string) *Stream {\n\tpath = utils.CanonicalPath(path)\n", New: "func Get(path string) *Stream {\n", Expect: "R-KEY-CANONICAL"},
		&Mutant{Prop: "C05", Name: "c05-unregist-unconditional", File: "media/global.go",
			Old: "\t\tif s2 == s {\n\t\t\tstreams.Delete(s.path)\n\t\t}", New: "\t\tif s2 != nil {\n\t\t\tstreams.Delete(s.path)\n\t\t}", Expect: "R-DELETE-IF-SAME"},
		&Mutant{Prop: "C05", Name: "c05-api-close-without-unregister", File: "service/apis.go",
			Old: "\t\tmedia.Unregist(rt)", New: "\t\trt.Close()", Expect: "R-NO-ORPHAN-CLOSE"},
		&Mutant{Prop: "C05", Name: "c05-idle-ignores-flv", File: "media/global.go",
			Old: "\tif r.s.ConsumerCount() <= 0 {", New: "\tif r.s.consumptions.Count() <= 0 {", Expect: "R-IDLE-READS-ALL-SETS"},
		&Mutant{Prop: "C05", Name: "c05-replace-forgets-old", File: "media/global.go",
			Old: "\t\t} else { // 有消费者个5分钟检查一次，直到没有消费者就关闭\n\t\t\trunZeroConsumersCloseTask(oldS, StreamReplaced)\n\t\t}", New: "\t\t}", Expect: "R-REPLACE-RETIRES-OLD"},
		&Mutant{Prop: "C05", Name: "c05-path-not-canonical", File: "media/stream.go",
			Old: "\t\tpath:                 utils.CanonicalPath(path),", New: "\t\tpath:                 strings.TrimSpace(utils.CanonicalPath(path)[0:]),", Expect: "R-KEY-CANONICAL"},
		&Mutant{Prop: "C05", Name: "c05-consumercount-partial", File: "media/stream.go",
			Old: "\treturn s.consumptions.Count() + s.flvConsumptions.Count()", New: "\treturn s.consumptions.Count()", Expect: "R-IDLE-READS-ALL-SETS"},
	)
}

// registryOp recognises sync.Map operations on the global media.streams.
func registryOp(p *Program, ins ssa.Instruction) (op string, cc *ssa.CallCommon) {
	cc = callCommon(ins)
	if cc == nil || cc.IsInvoke() || len(cc.Args) == 0 {
		return "", nil
	}
	n := calleeName(cc)
	if !strings.HasPrefix(n, "(*sync.Map).") {
		return "", nil
	}
	g, ok := cc.Args[0].(*ssa.Global)
	if !ok || g != p.Global("media", "streams") {
		return "", nil
	}
	return strings.TrimPrefix(n, "(*sync.Map)."), cc
}

func ruleKeyCanonical(c *Ctx) {
	p := c.P
	if p.Global("media", "streams") == nil {
		c.Lost("media.streams", "registry map not found")
		return
	}
	pathF := p.FieldVar("media", "Stream", "path")
	canon := p.Func("utils", "CanonicalPath")
	if pathF == nil || canon == nil {
		c.Lost("Stream.path/CanonicalPath", "not found")
		return
	}
	isCanonical := func(v ssa.Value, fn *ssa.Function) (bool, string) {
		v = origin(v)
		if f, _, ok := fieldLoad(v); ok && f == pathF {
			return true, "Stream.path"
		}
		if call, ok := v.(*ssa.Call); ok && call.Call.StaticCallee() == canon {
			return true, "CanonicalPath result"
		}
		if par, ok := v.(*ssa.Parameter); ok && fn.Parent() != nil {
			// key parameter of a Range callback over the registry
			okRange := false
			instrs(fn.Parent(), func(ins ssa.Instruction) {
				if op, cc := registryOp(p, ins); op == "Range" && funcValue(cc.Args[1]) == fn && par == fn.Params[0] {
					okRange = true
				}
			})
			if okRange {
				return true, "key handed out by Range over the registry"
			}
		}
		return false, v.String()
	}
	n := 0
	for _, fn := range p.ModFuncs() {
		instrs(fn, func(ins ssa.Instruction) {
			op, cc := registryOp(p, ins)
			if op != "Load" && op != "Store" && op != "Delete" && op != "LoadOrStore" && op != "LoadAndDelete" {
				return
			}
			n++
			c.sites++
			c.touched(fname(fn))
			ok, why := isCanonical(cc.Args[1], fn)
			c.Decide(ok, "key:"+op+"@"+fname(fn), p.InstrPos(ins), "key is "+why, "registry key is not canonical ("+why+"): differently-cased or non-canonical spellings of one path would resolve to different entries")
		})
	}
	c.Floor("registry key uses", n, 6)
	// stores to Stream.path
	ns := 0
	newStream := p.Func("media", "NewStream")
	for _, fn := range p.ModFuncs() {
		instrs(fn, func(ins ssa.Instruction) {
			st, ok := ins.(*ssa.Store)
			if !ok {
				return
			}
			if f, _, ok := fieldAddr(st.Addr); ok && f == pathF {
				ns++
				call, isCall := origin(st.Val).(*ssa.Call)
				c.Decide(fn == newStream && isCall && call.Call.StaticCallee() == canon, "path-store@"+fname(fn), p.InstrPos(ins), "Stream.path assigned once from CanonicalPath", "Stream.path assigned a value that is not the result of utils.CanonicalPath (or outside NewStream)")
			}
		})
	}
	c.Floor("stores to Stream.path", ns, 1)
}

// loadedEntry: v is the *Stream obtained from streams.Load's first result.
func isLoadedEntry(p *Program, v ssa.Value) bool {
	v = origin(v)
	if ta, ok := v.(*ssa.TypeAssert); ok {
		v = origin(ta.X)
	}
	ex, ok := v.(*ssa.Extract)
	if !ok || ex.Index != 0 {
		return false
	}
	call, ok := ex.Tuple.(*ssa.Call)
	if !ok {
		return false
	}
	op, _ := registryOp(p, call)
	return op == "Load"
}

func isLoadOK(p *Program, v ssa.Value) bool {
	ex, ok := origin(v).(*ssa.Extract)
	if !ok || ex.Index != 1 {
		return false
	}
	call, ok := ex.Tuple.(*ssa.Call)
	if !ok {
		return false
	}
	op, _ := registryOp(p, call)
	return op == "Load"
}

// regState: abstract knowledge about the registry entry for the stream at hand.
type regState struct {
	Same    int8 // loaded entry vs the stream: 0 unknown, 1 same, 2 different/absent
	Updated bool // Delete/Store executed on this path
}

func regBranch(p *Program) func(s regState, cond ssa.Value, taken bool) (regState, bool) {
	return func(s regState, cond ssa.Value, taken bool) (regState, bool) {
		cv, neg := condNeg(cond)
		val := taken != neg
		if isLoadOK(p, cv) {
			if !val {
				s.Same = 2
			}
			return s, true
		}
		if b, ok := cv.(*ssa.BinOp); ok && (b.Op == token.EQL || b.Op == token.NEQ) {
			if isLoadedEntry(p, b.X) || isLoadedEntry(p, b.Y) {
				eq := (b.Op == token.EQL) == val
				if eq {
					s.Same = 1
				} else {
					s.Same = 2
				}
			}
		}
		return s, true
	}
}

func ruleDeleteIfSame(c *Ctx) {
	p := c.P
	n := 0
	for _, fn := range p.FuncsInPkg("media") {
		has := false
		instrs(fn, func(ins ssa.Instruction) {
			if op, _ := registryOp(p, ins); op == "Delete" {
				has = true
			}
		})
		if !has {
			continue
		}
		c.touched(fname(fn))
		// inside a Range callback over the registry the delete of the visited key is the shutdown sweep
		if fn.Parent() != nil {
			inRange := false
			instrs(fn.Parent(), func(ins ssa.Instruction) {
				if op, cc := registryOp(p, ins); op == "Range" && funcValue(cc.Args[1]) == fn {
					inRange = true
				}
			})
			if inRange {
				n++
				c.OK("delete@"+fname(fn), p.Pos(fn.Pos()), "sweep over the registry's own keys")
				continue
			}
		}
		r := &PathRule[regState]{Fn: fn, Init: []regState{{}}, Branch: regBranch(p)}
		res := RunPath(r)
		c.paths += res.N
		ok := true
		var at ssa.Instruction
		res.Visit(func(ins ssa.Instruction, s regState) {
			if op, _ := registryOp(p, ins); op == "Delete" {
				at = ins
				if s.Same != 1 {
					ok = false
				}
			}
		})
		n++
		c.Decide(ok, "delete@"+fname(fn), p.InstrPos(at), "Delete only on the edge where the loaded entry is the stream being removed", "the registry entry is deleted without having established that it is the same stream: unregistering a retired stream removes its successor")
	}
	c.Floor("registry Delete sites", n, 2)
}

func ruleNoOrphanClose(c *Ctx) {
	p := c.P
	closeFns := []*ssa.Function{p.Func("media", "(*Stream).Close"), p.Func("media", "(*Stream).close")}
	if closeFns[0] == nil || closeFns[1] == nil {
		c.Lost("Stream.Close/close", "not found")
		return
	}
	n := 0
	for _, cf := range closeFns {
		for _, site := range p.CallersOf(cf) {
			fn := site.Parent()
			// Stream's own methods (Close -> close) are the implementation
			if fn.Signature.Recv() != nil && typeIs(fn.Signature.Recv().Type(), modRel("media"), "Stream") {
				continue
			}
			n++
			c.sites++
			c.touched(fname(fn))
			key := "close@" + fname(fn)
			// Range-sweep callback: Delete precedes
			r := &PathRule[regState]{Fn: fn, Init: []regState{{}},
				Transfer: func(s regState, ins ssa.Instruction) []regState {
					if op, _ := registryOp(p, ins); op == "Delete" || op == "Store" || op == "LoadAndDelete" {
						s.Updated = true
						return []regState{s}
					}
					return nil
				},
				Branch: regBranch(p)}
			res := RunPath(r)
			c.paths += res.N
			ok := true
			res.Visit(func(ins ssa.Instruction, s regState) {
				if ins == site && !(s.Updated || s.Same == 2) {
					ok = false
				}
			})
			c.Decide(ok, key, p.InstrPos(site), "registry brought up to date before the stream is closed", "the stream is closed while it may still be the registered entry for its path: lookup (Get/GetOrCreate) returns a closed stream until some later event; call media.Unregist / delete-if-same first")
		}
	}
	c.Floor("external Stream.Close/close call sites", n, 4)
}

func ruleIdleReadsAllSets(c *Ctx) {
	p := c.P
	run := p.Func("media", "(*runZeroConsumersClose).run")
	cl := p.Func("media", "(*Stream).close")
	sn := p.Named("media", "Stream")
	if run == nil || cl == nil || sn == nil {
		c.Lost("runZeroConsumersClose.run", "not found")
		return
	}
	c.touched(fname(run))
	st := sn.Underlying().(*types.Struct)
	var sets []*types.Var
	for i := 0; i < st.NumFields(); i++ {
		if typeIs(st.Field(i).Type(), modRel("media"), "consumptions") {
			sets = append(sets, st.Field(i))
		}
	}
	c.Floor("consumptions-typed fields of Stream", len(sets), 2)
	countFn := p.Func("media", "(*consumptions).Count")
	// fieldsCounted: which consumptions fields' Count() feed value v (through module calls, depth 2)
	var fieldsCounted func(v ssa.Value, depth int, out map[*types.Var]bool)
	fieldsCounted = func(v ssa.Value, depth int, out map[*types.Var]bool) {
		walkDeps(v, func(x ssa.Value) bool {
			call, ok := x.(*ssa.Call)
			if !ok {
				return true
			}
			cal := call.Call.StaticCallee()
			if cal == countFn && len(call.Call.Args) > 0 {
				if f, _, ok := fieldAddr(call.Call.Args[0]); ok {
					out[f] = true
				}
				return false
			}
			if cal != nil && p.InModule(cal) && depth > 0 {
				instrs(cal, func(ins ssa.Instruction) {
					if ret, ok := ins.(*ssa.Return); ok {
						for i := range ret.Results {
							fieldsCounted(retValue(ret, i), depth-1, out)
						}
					}
				})
				return false
			}
			return true
		})
	}
	var closeCall ssa.Instruction
	instrs(run, func(ins ssa.Instruction) {
		if callsFunc(ins, cl) || callsFunc(ins, p.Func("media", "(*Stream).Close")) {
			closeCall = ins
		}
		if cc := callCommon(ins); cc != nil && cc.StaticCallee() != nil && p.InModule(cc.StaticCallee()) && closeCall == nil {
			// a helper that closes (e.g. unregister-and-close)
			r := p.Reach([]*ssa.Function{cc.StaticCallee()}, nil)
			if r.Funcs[cl] {
				closeCall = ins
			}
		}
	})
	if closeCall == nil {
		c.Lost("run.close-call", "idle close call not found in run")
		return
	}
	covered := map[*types.Var]bool{}
	for _, b := range run.Blocks {
		ifi, ok := b.Instrs[len(b.Instrs)-1].(*ssa.If)
		if !ok || !b.Dominates(closeCall.Block()) {
			continue
		}
		fieldsCounted(ifi.Cond, 2, covered)
	}
	for _, f := range sets {
		c.Decide(covered[f], "idle-guard:"+f.Name(), p.InstrPos(closeCall), "idle close depends on the count of "+f.Name(), "the idle-close guard never reads the count of Stream."+f.Name()+": a stream watched only through that consumer set is closed for idleness while it has consumers")
	}
}

func ruleReplaceRetiresOld(c *Ctx) {
	p := c.P
	reg := p.Func("media", "Regist")
	cl := p.Func("media", "(*Stream).close")
	task := p.Func("media", "runZeroConsumersCloseTask")
	if reg == nil || cl == nil || task == nil {
		c.Lost("media.Regist", "not found")
		return
	}
	c.touched(fname(reg))
	type st struct {
		OK      int8 // Load ok flag: 0 unknown 1 true 2 false
		Stored  bool
		Retired int8
		SameRet bool
	}
	isReplaced := func(v ssa.Value) bool {
		k, ok := constInt(v)
		return ok && k == 2 // StreamReplaced
	}
	r := &PathRule[st]{Fn: reg, Init: []st{{}},
		Transfer: func(s st, ins ssa.Instruction) []st {
			if op, _ := registryOp(p, ins); op == "Store" {
				s.Stored = true
				return []st{s}
			}
			cc := callCommon(ins)
			if cc == nil {
				return nil
			}
			if (cc.StaticCallee() == cl || cc.StaticCallee() == task) && len(cc.Args) == 2 && isLoadedEntry(p, cc.Args[0]) && isReplaced(cc.Args[1]) {
				if !s.Stored {
					s.Retired = 3 // retired before the new one is visible
				} else if s.Retired < 2 {
					s.Retired++
				}
				return []st{s}
			}
			return nil
		},
		Branch: func(s st, cond ssa.Value, taken bool) (st, bool) {
			cv, neg := condNeg(cond)
			val := taken != neg
			if isLoadOK(p, cv) {
				want := int8(2)
				if val {
					want = 1
				}
				if s.OK != 0 && s.OK != want {
					return s, false
				}
				s.OK = want
			}
			return s, true
		}}
	res := RunPath(r)
	c.paths += res.N
	ok := true
	for ret, sts := range res.Exits() {
		for _, s := range sts {
			if !s.Stored {
				continue // same stream registered again: early return
			}
			if s.OK == 1 && s.Retired != 1 {
				ok = false
				c.Bad("regist:retire-old", p.InstrPos(ret), fmt.Sprintf("a path replaces an existing entry and retires the old stream %d times (3 = before the new one was stored): the replaced stream and its consumers are never closed, or are closed while still registered", s.Retired))
			}
		}
	}
	if ok {
		c.OK("regist:retire-old", p.Pos(reg.Pos()), "new stream stored, then the previous one is closed as replaced or handed to the retire task, on every path")
	}
	// early return only when the loaded entry is the very same stream
	instrs(reg, func(ins ssa.Instruction) {
		if ret, ok := ins.(*ssa.Return); ok {
			_ = ret
		}
	})
}

func ruleLookupFromRegistry(c *Ctx) {
	p := c.P
	get := p.Func("media", "Get")
	if get == nil {
		c.Lost("media.Get", "not found")
		return
	}
	c.touched(fname(get))
	ok := true
	n := 0
	instrs(get, func(ins ssa.Instruction) {
		ret, isRet := ins.(*ssa.Return)
		if !isRet {
			return
		}
		n++
		v := retValue(ret, 0)
		if isNilConst(v) || isLoadedEntry(p, v) {
			return
		}
		ok = false
		c.Bad("get:returns-registry-entry", p.InstrPos(ins), "Get can return a stream that does not come from the registry map ("+v.String()+")")
	})
	if ok && n > 0 {
		c.OK("get:returns-registry-entry", p.Pos(get.Pos()), "every result is nil or the loaded registry entry")
	}
	// the non-nil result must be on the Load-ok edge
	r := &PathRule[regState]{Fn: get, Init: []regState{{}}, Branch: func(s regState, cond ssa.Value, taken bool) (regState, bool) {
		cv, neg := condNeg(cond)
		if isLoadOK(p, cv) && taken != neg {
			s.Updated = true
		}
		return s, true
	}}
	res := RunPath(r)
	good := true
	for ret, sts := range res.Exits() {
		for _, s := range sts {
			if !isNilConst(retValue(ret.(*ssa.Return), 0)) && !s.Updated {
				good = false
			}
		}
	}
	c.Decide(good, "get:only-when-present", p.Pos(get.Pos()), "a stream is returned only on the Load-ok edge", "Get returns the map value without testing that the key was present")
}
