package main

import (
	"fmt"
	"go/constant"
	"go/token"
	"go/types"
	"strings"

	"golang.org/x/tools/go/ssa"
)

func init() {
	register(&PropertyDef{
		ID: "C08",
		Explanation: "Static analysis of the FLV writer and packetisers. Decided: (1) R-TAG-FRAMING - writeTag writes exactly the 11-byte tag header (constant evaluation of the write index) whose size field is len(tag.Data), then tag.Data; Writer.WriteFlvTag follows every tag with PreviousTagSize = tag.Size() = 11+len(Data); NewWriter emits the 9-byte 'FLV' header (template evaluated) and a zero PreviousTagSize before anything else; (2) R-TS-REBASE-GUARDED - every unsigned subtraction whose minuend is a Tag timestamp is dominated by a comparison establishing minuend >= subtrahend (no 2^32 wrap for a tag older than the client's first); the delta is latched from the first tag only; (3) R-HEADERS-FIRST - in the muxer's per-frame function no Packetize is reachable before metadata, video sequence header and audio sequence header were emitted in that order, and the done-flag is set only after them; (4) R-PACKETIZER-FIELDS - each packetiser builds its tag from the frame it was given: Body is the frame payload itself, Data the marshalled VIDEODATA/AUDIODATA, DataSize its length, Timestamp derived from Dts (video) / Pts (audio) divided by a millisecond, composition time from Pts minus Dts, tag type constant, key-frame flag set exactly on the codec's IDR/IRAP test; (5) R-KEYFRAME-CONSTS - the NAL-type constants deciding 'key frame' agree between the GOP caches, the FLV packetisers and the TS packetiser (sibling agreement) and equal the codec package constants; (6) R-MARSHAL-SIZE (thorough) - Marshal writes exactly MarshalSize bytes for the fixed-layout headers.",
		NotDecided: "That the emitted bytes parse back to the source frames, AMF0 content, composition-time/timestamp numeric values, 32-bit millisecond boundaries.",
		Rules: []*RuleDoc{
			{Name: "R-TAG-FRAMING", Text: "writeTag writes tagHeader[:11] with size field len(tag.Data) then tag.Data; WriteFlvTag writes PreviousTagSize = tag.Size(); Size() = TagHeaderSize+len(Data); NewWriter writes the 9-byte header template ('FLV',1,..,9) with the type flags and PreviousTagSize 0.", Run: ruleTagFraming},
			{Name: "R-TS-REBASE-GUARDED", Text: "Every unsigned subtraction in package flv whose minuend derives from Tag.Timestamp is dominated by an edge establishing minuend >= subtrahend; the rebasing delta is assigned only while uninitialised.", Run: ruleTSRebaseGuarded},
			{Name: "R-HEADERS-FIRST", Text: "No path of the FLV muxer reaches a Packetizer.Packetize before muxMetadataTag, vp.PacketizeSequenceHeader, ap.PacketizeSequenceHeader (in that order) ran; the flag recording it is set only after all three.", Run: ruleHeadersFirst},
			{Name: "R-PACKETIZER-FIELDS", Text: "Each FLV packetiser's tag: Body = frame.Payload, Data = Marshal() result, DataSize = len(Data), Timestamp from Dts (video) or Pts (audio) / Millisecond, CompositionTime from Pts - Dts, TagType constant, FrameType key exactly under the IDR/IRAP test.", Run: rulePacketizerFields},
			{Name: "R-KEYFRAME-CONSTS", Text: "The NAL-type constants that decide 'key frame' agree between cache.H264Cache.nalType, flv.h264Packetizer, mpegts.h264Packetizer (NalIdrSlice) and between cache.HevcCache.nalType and flv.h265Packetizer (NalBlaWLp..NalCraNut).", Run: ruleKeyframeConsts},
		},
	})
	addMutants(
		&Mutant{Prop: "C08", Name: "c08-prev-size-data-only", File: "av/format/flv/flv.go",
			Old: "\treturn w.writeTagSize(uint32(tag.Size()))", New: "\treturn w.writeTagSize(uint32(len(tag.Data)))", Expect: "R-TAG-FRAMING"},
		&Mutant{Prop: "C08", Name: "c08-header-12-bytes", File: "av/format/flv/tag.go",
			Old: "\tbinary.BigEndian.PutUint32(tagHeader[offset:], tag.StreamID<<8)\n\toffset += 3", New: "\tbinary.BigEndian.PutUint32(tagHeader[offset:], tag.StreamID<<8)\n\toffset += 4", Expect: "R-TAG-FRAMING"},
		&Mutant{Prop: "C08", Name: "c08-rebase-unguarded", File: "av/format/flv/tag.go",
			Old: "\tif tag.Timestamp > timestampDelta {\n\t\ttimestamp = tag.Timestamp - timestampDelta\n\t}", New: "\ttimestamp = tag.Timestamp - timestampDelta", Expect: "R-TS-REBASE-GUARDED"},
		&Mutant{Prop: "C08", Name: "c08-video-ts-from-pts", File: "av/format/flv/h264_packetizer.go",
			Old: "\t\tTimestamp: uint32(dts),", New: "\t\tTimestamp: uint32(pts),", Expect: "R-PACKETIZER-FIELDS"},
		&Mutant{Prop: "C08", Name: "c08-cts-swapped", File: "av/format/flv/h265_packetizer.go",
			Old: "\t\tCompositionTime: uint32(pts - dts),", New: "\t\tCompositionTime: uint32(dts - pts),", Expect: "R-PACKETIZER-FIELDS"},
		&Mutant{Prop: "C08", Name: "c08-h265-key-range", File: "av/format/flv/h265_packetizer.go",
			Old: "\tif nalType >= hevc.NalBlaWLp && nalType <= hevc.NalCraNut {", New: "\tif nalType >= hevc.NalBlaWLp && nalType <= hevc.NalIdrNLp {", Expect: "R-KEYFRAME-CONSTS"},
		&Mutant{Prop: "C08", Name: "c08-media-before-audio-header", File: "av/format/flv/muxer.go",
			Old: "\t\tmuxer.ap.PacketizeSequenceHeader()\n\t\tmuxer.packSequenceHeader = true", New: "\t\tmuxer.packSequenceHeader = true\n\t\tif frame.MediaType == codec.MediaTypeAudio {\n\t\t\tmuxer.ap.PacketizeSequenceHeader()\n\t\t}", Expect: "R-HEADERS-FIRST"},
		&Mutant{Prop: "C08", Name: "c08-delta-relatched", File: "av/format/flv/flv.go",
			Old: "\tif w.timestampDelta == uninitializedTimestampDelta {", New: "\tif w.timestampDelta == uninitializedTimestampDelta || tag.Timestamp < w.timestampDelta {", Expect: "R-TS-REBASE-GUARDED"},
		&Mutant{Prop: "C08", Name: "c08-flv-signature", File: "av/format/flv/flv.go",
			Old: "var flvHeaderTemplate = []byte{0x46, 0x4c, 0x56, 0x01, 0x00, 0x00, 0x00, 0x00, 0x09}", New: "var flvHeaderTemplate = []byte{0x46, 0x4c, 0x56, 0x01, 0x00, 0x00, 0x00, 0x00, 0x0d}", Expect: "R-TAG-FRAMING"},
	)
}

// evalInt folds integer constants through +,-,*,<<,>>,|,& and conversions.
func evalInt(v ssa.Value) (int64, bool) {
	v = stripConv(v)
	if k, ok := constInt(v); ok {
		return k, true
	}
	if u, ok := v.(*ssa.UnOp); ok && u.Op == token.MUL {
		if a, ok := u.X.(*ssa.Alloc); ok {
			return cellValueBefore(a, u, u.Block(), map[*ssa.BasicBlock]bool{})
		}
		return 0, false
	}
	b, ok := v.(*ssa.BinOp)
	if !ok {
		return 0, false
	}
	x, ok1 := evalInt(b.X)
	y, ok2 := evalInt(b.Y)
	if !ok1 || !ok2 {
		return 0, false
	}
	switch b.Op {
	case token.ADD:
		return x + y, true
	case token.SUB:
		return x - y, true
	case token.MUL:
		return x * y, true
	case token.SHL:
		return x << uint(y), true
	case token.SHR:
		return x >> uint(y), true
	case token.OR:
		return x | y, true
	case token.AND:
		return x & y, true
	}
	return 0, false
}

// pkgConst returns the integer value of package-level constant rel.name.
func pkgConst(p *Program, rel, name string) (int64, bool) {
	sp := p.Pkg(rel)
	if sp == nil {
		return 0, false
	}
	o, ok := sp.Pkg.Scope().Lookup(name).(*types.Const)
	if !ok {
		return 0, false
	}
	return constant.Int64Val(constant.ToInt(o.Val()))
}

// globalBytes evaluates a package-level []byte composite literal from its initialiser in init().
func globalBytes(p *Program, rel, name string) ([]int64, bool) {
	g := p.Global(rel, name)
	sp := p.Pkg(rel)
	if g == nil || sp == nil {
		return nil, false
	}
	initf := sp.Func("init")
	if initf == nil {
		return nil, false
	}
	// find `*g = slice t[:]` where t is a new array initialised by element stores
	var arr ssa.Value
	instrs(initf, func(ins ssa.Instruction) {
		if st, ok := ins.(*ssa.Store); ok && st.Addr == g {
			if sl, ok := st.Val.(*ssa.Slice); ok {
				arr = sl.X
			}
		}
	})
	if arr == nil {
		return nil, false
	}
	at, ok := arr.Type().Underlying().(*types.Pointer)
	if !ok {
		return nil, false
	}
	arrT, ok := at.Elem().Underlying().(*types.Array)
	if !ok {
		return nil, false
	}
	out := make([]int64, arrT.Len())
	for _, r := range referrersOf(arr) {
		ia, ok := r.(*ssa.IndexAddr)
		if !ok {
			continue
		}
		idx, ok := constInt(ia.Index)
		if !ok {
			return nil, false
		}
		for _, r2 := range referrersOf(ia) {
			if st, ok := r2.(*ssa.Store); ok && st.Addr == ia {
				v, ok := evalInt(st.Val)
				if !ok {
					return nil, false
				}
				out[idx] = v
			}
		}
	}
	return out, true
}

func dependsOnField(v ssa.Value, field string) bool {
	found := false
	walkDeps(v, func(x ssa.Value) bool {
		if f, _, ok := fieldLoad(x); ok && f.Name() == field {
			found = true
			return false
		}
		return !found
	})
	return found
}

func ruleTagFraming(c *Ctx) {
	p := c.P
	wt := p.Func("av/format/flv", "writeTag")
	wft := p.Func("av/format/flv", "(*Writer).WriteFlvTag")
	wts := p.Func("av/format/flv", "(*Writer).writeTagSize")
	nw := p.Func("av/format/flv", "NewWriter")
	size := p.Func("av/format/flv", "(*Tag).Size")
	if wt == nil || wft == nil || wts == nil || nw == nil || size == nil {
		c.Lost("flv.writeTag/WriteFlvTag/writeTagSize/NewWriter/Tag.Size", "not found")
		return
	}
	ths, ok := pkgConst(p, "av/format/flv", "TagHeaderSize")
	if !ok {
		c.Lost("flv.TagHeaderSize", "constant not found")
		return
	}
	c.Decide(ths == 11, "const:TagHeaderSize", "", "TagHeaderSize = 11", fmt.Sprintf("TagHeaderSize = %d, the FLV tag header is 11 bytes", ths))
	// writeTag: the two writes
	c.touched(fname(wt))
	var writes []*ssa.Call
	instrs(wt, func(ins ssa.Instruction) {
		if call, ok := ins.(*ssa.Call); ok && call.Call.IsInvoke() && call.Call.Method.Name() == "Write" {
			writes = append(writes, call)
		}
	})
	if len(writes) != 2 {
		c.Bad("writeTag:two-writes", p.Pos(wt.Pos()), fmt.Sprintf("writeTag performs %d writes, expected header then data", len(writes)))
	} else {
		hdr, dat := writes[0], writes[1]
		if !dominatesInstr(hdr, dat) {
			hdr, dat = dat, hdr
		}
		sl, isSl := hdr.Call.Args[0].(*ssa.Slice)
		good := false
		msg := "header write is not a slice of the local header array"
		if isSl {
			hi, okh := evalInt(sl.High)
			lowOK := sl.Low == nil
			if sl.Low != nil {
				if k, ok := evalInt(sl.Low); ok && k == 0 {
					lowOK = true
				}
			}
			_, isAlloc := sl.X.(*ssa.Alloc)
			good = okh && hi == ths && lowOK && isAlloc
			msg = fmt.Sprintf("the tag header written is tagHeader[:%d] (evaluated), FLV requires exactly %d bytes", hi, ths)
		}
		c.Decide(good, "writeTag:header-11-bytes", p.InstrPos(hdr), "header write is tagHeader[:11]", msg)
		f, base, okf := fieldLoad(dat.Call.Args[0])
		c.Decide(okf && theProgram.baseFieldName(f) == "Data" && origin(base) == wt.Params[1], "writeTag:data-follows", p.InstrPos(dat), "tag.Data written after the header", "the second write is not tag.Data of the tag parameter")
		// size field: PutUint32(tagHeader[0:], uint32(len(tag.Data)))
		sizeOK := false
		instrs(wt, func(ins ssa.Instruction) {
			call, ok := ins.(*ssa.Call)
			if !ok || !strings.HasSuffix(calleeName(&call.Call), "bigEndian).PutUint32") {
				return
			}
			dst, ok := call.Call.Args[1].(*ssa.Slice)
			if !ok {
				return
			}
			lo := int64(0)
			if dst.Low != nil {
				lo, _ = evalInt(dst.Low)
			}
			if lo != 0 {
				return
			}
			if lc, ok := stripConv(call.Call.Args[2]).(*ssa.Call); ok && calleeName(&lc.Call) == "builtin.len" {
				if f, base, ok := fieldLoad(lc.Call.Args[0]); ok && theProgram.baseFieldName(f) == "Data" && origin(base) == wt.Params[1] {
					sizeOK = true
				}
			}
		})
		c.Decide(sizeOK, "writeTag:size-field", p.Pos(wt.Pos()), "DataSize field is len(tag.Data)", "the tag's size field is not written from len(tag.Data) at offset 0..3 (byte 0 then overwritten by the type)")
	}
	// Tag.Size = TagHeaderSize + len(Data)
	c.touched(fname(size))
	szOK := false
	instrs(size, func(ins ssa.Instruction) {
		ret, ok := ins.(*ssa.Return)
		if !ok {
			return
		}
		b, ok := retValue(ret, 0).(*ssa.BinOp)
		if !ok || b.Op != token.ADD {
			return
		}
		k, ok1 := evalInt(b.X)
		l := b.Y
		if !ok1 {
			k, ok1 = evalInt(b.Y)
			l = b.X
		}
		if lc, ok := l.(*ssa.Call); ok && ok1 && k == ths && calleeName(&lc.Call) == "builtin.len" {
			if f, _, ok := fieldLoad(lc.Call.Args[0]); ok && theProgram.baseFieldName(f) == "Data" {
				szOK = true
			}
		}
	})
	c.Decide(szOK, "Tag.Size", p.Pos(size.Pos()), "Size() = TagHeaderSize + len(Data)", "Tag.Size() is not TagHeaderSize + len(Data)")
	// WriteFlvTag: writeTag then writeTagSize(uint32(tag.Size()))
	c.touched(fname(wft))
	var wtCall, wtsCall *ssa.Call
	instrs(wft, func(ins ssa.Instruction) {
		if call, ok := ins.(*ssa.Call); ok {
			if call.Call.StaticCallee() == wt {
				wtCall = call
			}
			if call.Call.StaticCallee() == wts {
				wtsCall = call
			}
		}
	})
	if wtCall == nil || wtsCall == nil {
		c.Bad("WriteFlvTag:tag-then-size", p.Pos(wft.Pos()), "Writer.WriteFlvTag does not call writeTag and writeTagSize")
	} else {
		arg := stripConv(wtsCall.Call.Args[1])
		sc, isCall := arg.(*ssa.Call)
		good := isCall && sc.Call.StaticCallee() == size && origin(sc.Call.Args[0]) == wft.Params[1] && dominatesInstr(wtCall, wtsCall)
		c.Decide(good, "WriteFlvTag:tag-then-size", p.InstrPos(wtsCall), "every tag is followed by PreviousTagSize = tag.Size()", "the PreviousTagSize written after a tag is not that tag's Size() (11+len(Data)): clients lose tag framing")
		ex, n := countPaths(wft, func(i ssa.Instruction) bool { return i == ssa.Instruction(wtsCall) }, nil)
		c.paths += n
		okp := true
		for ret, sts := range ex {
			for _, s := range sts {
				// success path (nil error) must have written the size once
				if isNilConst(retValue(ret.(*ssa.Return), 0)) && s.N != 1 {
					okp = false
				}
			}
		}
		c.Decide(okp, "WriteFlvTag:size-on-every-success", p.Pos(wft.Pos()), "no success path skips PreviousTagSize", "a path of WriteFlvTag returns nil without writing PreviousTagSize")
	}
	// NewWriter: header then zero tag size
	c.touched(fname(nw))
	tmpl, okT := globalBytes(p, "av/format/flv", "flvHeaderTemplate")
	fhs, _ := pkgConst(p, "av/format/flv", "FlvHeaderSize")
	good := okT && int64(len(tmpl)) == fhs && fhs == 9 && tmpl[0] == 'F' && tmpl[1] == 'L' && tmpl[2] == 'V' && tmpl[3] == 1 && tmpl[8] == 9 && tmpl[5] == 0 && tmpl[6] == 0 && tmpl[7] == 0
	c.Decide(good, "NewWriter:header-template", p.Pos(nw.Pos()), "flvHeaderTemplate = 'F','L','V',1,flags,0,0,0,9 (9 bytes)", fmt.Sprintf("flvHeaderTemplate evaluates to %v: not a valid 9-byte FLV header (signature, version 1, DataOffset 9)", tmpl))
	var hdrW, zeroSz ssa.Instruction
	instrs(nw, func(ins ssa.Instruction) {
		call, ok := ins.(*ssa.Call)
		if !ok {
			return
		}
		if call.Call.IsInvoke() && call.Call.Method.Name() == "Write" && hdrW == nil {
			if sl, ok := call.Call.Args[0].(*ssa.Slice); ok {
				if at, ok := sl.X.Type().Underlying().(*types.Pointer); ok {
					if arr, ok := at.Elem().Underlying().(*types.Array); ok && arr.Len() == fhs && sl.High == nil && sl.Low == nil {
						hdrW = ins
					}
				}
			}
		}
		if call.Call.StaticCallee() == wts {
			if k, ok := evalInt(call.Call.Args[1]); ok && k == 0 {
				zeroSz = ins
			}
		}
	})
	c.Decide(hdrW != nil && zeroSz != nil && dominatesInstr(hdrW, zeroSz), "NewWriter:header-then-zero-size", p.Pos(nw.Pos()), "9-byte header then PreviousTagSize0 = 0", "NewWriter does not write the whole 9-byte header followed by a zero PreviousTagSize")
	// type flags masked
	flagsOK := false
	instrs(nw, func(ins ssa.Instruction) {
		if st, ok := ins.(*ssa.Store); ok {
			if ia, ok := st.Addr.(*ssa.IndexAddr); ok {
				if k, ok := evalInt(ia.Index); ok && k == 4 {
					if b, ok := st.Val.(*ssa.BinOp); ok && b.Op == token.AND {
						if m, ok := evalInt(b.Y); ok && m == 5 && origin(b.X) == nw.Params[1] {
							flagsOK = true
						}
					}
				}
			}
		}
	})
	c.Decide(flagsOK, "NewWriter:type-flags", p.Pos(nw.Pos()), "byte 4 = typeFlags & (video|audio)", "the type-flags byte is not typeFlags masked with TypeFlagsVideo|TypeFlagsAudio at offset 4")
}

// geEstablished: on the path to ins, is `a >= b` (or a > b) established by a dominating branch?
func geEstablished(ins ssa.Instruction, a, b ssa.Value) bool {
	same := func(x, y ssa.Value) bool {
		if x == y {
			return true
		}
		// two loads of the same field of the same base
		f1, b1, ok1 := fieldLoad(x)
		f2, b2, ok2 := fieldLoad(y)
		return ok1 && ok2 && f1 == f2 && origin(b1) == origin(b2)
	}
	blk := ins.Block()
	for _, d := range ins.Parent().Blocks {
		ifi, ok := d.Instrs[len(d.Instrs)-1].(*ssa.If)
		if !ok || !d.Dominates(blk) || d == blk {
			continue
		}
		bo, ok := ifi.Cond.(*ssa.BinOp)
		if !ok {
			continue
		}
		// which successor leads (exclusively) to blk?
		viaTrue := d.Succs[0].Dominates(blk) && len(d.Succs[0].Preds) == 1
		viaFalse := d.Succs[1].Dominates(blk) && len(d.Succs[1].Preds) == 1
		var holds bool
		switch bo.Op {
		case token.GTR, token.GEQ: // X > Y
			holds = viaTrue && same(bo.X, a) && same(bo.Y, b) || viaFalse && same(bo.X, b) && same(bo.Y, a)
		case token.LSS, token.LEQ: // X < Y
			holds = viaTrue && same(bo.X, b) && same(bo.Y, a) || viaFalse && same(bo.X, a) && same(bo.Y, b)
		}
		if holds {
			return true
		}
	}
	return false
}

func ruleTSRebaseGuarded(c *Ctx) {
	p := c.P
	n := 0
	for _, fn := range p.FuncsInPkg("av/format/flv") {
		instrs(fn, func(ins ssa.Instruction) {
			b, ok := ins.(*ssa.BinOp)
			if !ok || b.Op != token.SUB {
				return
			}
			bt, ok := b.Type().Underlying().(*types.Basic)
			if !ok || bt.Info()&types.IsUnsigned == 0 {
				return
			}
			f, base, ok := fieldLoad(b.X)
			if !ok || theProgram.baseFieldName(f) != "Timestamp" || !typeIs(base.Type(), modRel("av/format/flv"), "Tag") {
				return
			}
			n++
			c.touched(fname(fn))
			c.Decide(geEstablished(ins, b.X, b.Y), "rebase-sub@"+fname(fn), p.InstrPos(ins), "subtraction guarded by minuend > subtrahend", "unsigned `tag.Timestamp - delta` without an established tag.Timestamp >= delta: a tag older than the client's first tag (audio behind the replayed GOP) is sent with timestamp ~2^32 ms (49 days)")
		})
	}
	if n == 0 {
		// accepted alternative: no subtraction at all means no rebasing (would break 'first tag is zero'): require the mechanism
		c.Bad("rebase-sub", "", "no rebasing subtraction of Tag.Timestamp found in package flv: the client's timeline would not start at zero")
	}
	// delta latched once
	wft := p.Func("av/format/flv", "(*Writer).WriteFlvTag")
	tsd := p.FieldVar("av/format/flv", "Writer", "timestampDelta")
	if wft == nil || tsd == nil {
		c.Lost("Writer.timestampDelta", "not found")
		return
	}
	unin, _ := pkgConst(p, "av/format/flv", "uninitializedTimestampDelta")
	nst := 0
	for _, fn := range p.FuncsInPkg("av/format/flv") {
		instrs(fn, func(ins ssa.Instruction) {
			st, ok := ins.(*ssa.Store)
			if !ok {
				return
			}
			f, _, ok := fieldAddr(st.Addr)
			if !ok || f != tsd {
				return
			}
			nst++
			if k, ok := evalInt(st.Val); ok && k == unin {
				c.OK("delta-init@"+fname(fn), p.InstrPos(ins), "delta initialised to the sentinel")
				return
			}
			// must be the tag's timestamp, on the exclusive true edge of `delta == sentinel`
			blk := ins.Block()
			good := false
			if len(blk.Preds) == 1 {
				if ifi, ok := blk.Preds[0].Instrs[len(blk.Preds[0].Instrs)-1].(*ssa.If); ok && blk.Preds[0].Succs[0] == blk {
					if bo, ok := ifi.Cond.(*ssa.BinOp); ok && bo.Op == token.EQL {
						if lf, _, ok := fieldLoad(bo.X); ok && lf == tsd {
							if k, ok := evalInt(bo.Y); ok && k == unin {
								good = true
							}
						}
					}
				}
			}
			tf, _, okT := fieldLoad(st.Val)
			c.Decide(good && okT && tf.Name() == "Timestamp", "delta-latched@"+fname(fn), p.InstrPos(ins), "delta latched from the first tag only", "the rebasing delta is (re)assigned other than once from the first tag's timestamp: the client's timeline jumps")
		})
	}
	c.Floor("stores to Writer.timestampDelta", nst, 2)
}

func ruleHeadersFirst(c *Ctx) {
	p := c.P
	meta := p.Func("av/format/flv", "(*Muxer).muxMetadataTag")
	if meta == nil {
		c.Lost("flv.Muxer.muxMetadataTag", "not found")
		return
	}
	// the function containing the header sequence = the one calling muxMetadataTag
	var host *ssa.Function
	for _, fn := range p.FuncsInPkg("av/format/flv") {
		instrs(fn, func(ins ssa.Instruction) {
			if callsFunc(ins, meta) {
				host = fn
			}
		})
	}
	if host == nil {
		c.Bad("headers:metadata-emitted", "", "muxMetadataTag is never called: clients get no metadata tag")
		return
	}
	c.touched(fname(host))
	recv := host.Params[0]
	which := func(ins ssa.Instruction) string { // "meta","vh","ah","vp","ap"
		cc := callCommon(ins)
		if cc == nil {
			return ""
		}
		if cc.StaticCallee() == meta {
			return "meta"
		}
		if !cc.IsInvoke() {
			return ""
		}
		f, base, ok := fieldLoad(cc.Value)
		if !ok || origin(base) != recv {
			return ""
		}
		switch cc.Method.Name() + ":" + f.Name() {
		case "PacketizeSequenceHeader:vp":
			return "vh"
		case "PacketizeSequenceHeader:ap":
			return "ah"
		case "Packetize:vp", "Packetize:ap":
			return "pk"
		}
		return ""
	}
	type st struct {
		Done  int8 // flag known: 0 unknown 1 true 2 false
		Seq   int8 // 0 none, 1 meta, 2 meta+vh, 3 all, -1 out of order
		SetAt int8 // seq value when the flag was stored true (-2 = not stored)
	}
	var flag *types.Var
	// the flag: a bool field of the receiver tested in host and stored true in host
	instrs(host, func(ins ssa.Instruction) {
		if s, ok := ins.(*ssa.Store); ok {
			if f, base, ok := fieldAddr(s.Addr); ok && origin(base) == recv {
				if b, isc := constBool(s.Val); isc && b {
					flag = f
				}
			}
		}
	})
	r := &PathRule[st]{Fn: host, Init: []st{{SetAt: -2}},
		Transfer: func(s st, ins ssa.Instruction) []st {
			switch which(ins) {
			case "meta":
				if s.Seq == 0 {
					s.Seq = 1
				} else {
					s.Seq = -1
				}
				return []st{s}
			case "vh":
				if s.Seq == 1 {
					s.Seq = 2
				} else {
					s.Seq = -1
				}
				return []st{s}
			case "ah":
				if s.Seq == 2 {
					s.Seq = 3
				} else {
					s.Seq = -1
				}
				return []st{s}
			}
			if sto, ok := ins.(*ssa.Store); ok && flag != nil {
				if f, base, ok := fieldAddr(sto.Addr); ok && f == flag && origin(base) == recv {
					s.SetAt = s.Seq
					return []st{s}
				}
			}
			return nil
		},
		Branch: func(s st, cond ssa.Value, taken bool) (st, bool) {
			cv, neg := condNeg(cond)
			if f, base, ok := fieldLoad(cv); ok && flag != nil && f == flag && origin(base) == recv {
				if taken != neg {
					s.Done = 1
				} else {
					s.Done = 2
				}
			}
			return s, true
		}}
	res := RunPath(r)
	c.paths += res.N
	okAll, npk := true, 0
	res.Visit(func(ins ssa.Instruction, s st) {
		if which(ins) == "pk" {
			npk++
			if !(s.Done == 1 || s.Seq == 3) {
				okAll = false
				c.Bad("headers-first:"+fname(host), p.InstrPos(ins), fmt.Sprintf("a media Packetize is reachable with the header sequence at step %d/3 and the done-flag not known true: a client would get a media tag before metadata / AVC-HEVC configuration / AAC configuration", s.Seq))
			}
		}
		if sto, ok := ins.(*ssa.Store); ok && flag != nil {
			if f, _, ok := fieldAddr(sto.Addr); ok && f == flag {
				if s.Seq != 3 {
					okAll = false
					c.Bad("headers-flag:"+fname(host), p.InstrPos(ins), fmt.Sprintf("the headers-done flag is set after only %d of the 3 header emissions (or out of order)", s.Seq))
				}
			}
		}
	})
	if npk == 0 {
		// Packetize lives in a different function than the header sequence: accept only if host itself is per-frame and calls nothing else... be strict
		c.Bad("headers-first:"+fname(host), p.Pos(host.Pos()), "the function that emits the headers does not contain the media Packetize calls: ordering cannot be established")
		return
	}
	if okAll {
		c.OK("headers-first:"+fname(host), p.Pos(host.Pos()), fmt.Sprintf("metadata, video header, audio header precede every Packetize on all %d path states", res.N))
	}
}

// storesToField returns the values stored into field `name` of struct type (rel,typ) inside fn.
func storesToField(fn *ssa.Function, pkgPath, typ, name string) []*ssa.Store {
	var out []*ssa.Store
	instrs(fn, func(ins ssa.Instruction) {
		st, ok := ins.(*ssa.Store)
		if !ok {
			return
		}
		f, base, ok := fieldAddr(st.Addr)
		if ok && f.Name() == name && typeIs(base.Type(), pkgPath, typ) {
			out = append(out, st)
		}
	})
	return out
}

func rulePacketizerFields(c *Ctx) {
	p := c.P
	flvp := modRel("av/format/flv")
	type spec struct {
		typ, dataType, tsField string
		video                  bool
		tagType                int64
	}
	for _, sp := range []spec{{"h264Packetizer", "VideoData", "Dts", true, 9}, {"h265Packetizer", "VideoData", "Dts", true, 9}, {"aacPacketizer", "AudioData", "Pts", false, 8}} {
		fn := p.Func("av/format/flv", "(*"+sp.typ+").Packetize")
		if fn == nil {
			c.Lost("flv."+sp.typ+".Packetize", "not found")
			continue
		}
		c.touched(fname(fn))
		frame := fn.Params[1]
		key := func(s string) string { return s + ":" + sp.typ }
		one := func(field, typ string) *ssa.Store {
			sts := storesToField(fn, flvp, typ, field)
			if len(sts) == 0 {
				c.Bad(key(typ+"."+field), p.Pos(fn.Pos()), "field "+typ+"."+field+" is never set")
				return nil
			}
			return sts[len(sts)-1]
		}
		// Body = frame.Payload
		if st := one("Body", sp.dataType); st != nil {
			f, base, ok := fieldLoad(st.Val)
			c.Decide(ok && theProgram.baseFieldName(f) == "Payload" && origin(base) == frame, key("body"), p.InstrPos(st), "Body is the frame's payload itself", "the tag body is not the source frame's payload (verbatim)")
		}
		// Data = Marshal result; DataSize = len(data)
		if st := one("Data", "Tag"); st != nil {
			ex, ok := origin(st.Val).(*ssa.Extract)
			good := false
			if ok {
				if call, ok := ex.Tuple.(*ssa.Call); ok && strings.HasSuffix(calleeName(&call.Call), sp.dataType+").Marshal") {
					good = true
				}
			}
			c.Decide(good, key("data"), p.InstrPos(st), "Tag.Data is the marshalled "+sp.dataType, "Tag.Data is not the result of "+sp.dataType+".Marshal()")
			if ds := one("DataSize", "Tag"); ds != nil {
				lc, ok := stripConv(ds.Val).(*ssa.Call)
				c.Decide(ok && calleeName(&lc.Call) == "builtin.len" && origin(lc.Call.Args[0]) == origin(st.Val), key("datasize"), p.InstrPos(ds), "DataSize = len(Data)", "Tag.DataSize is not len(Data)")
			}
		}
		// TagType
		if st := one("TagType", "Tag"); st != nil {
			k, ok := evalInt(st.Val)
			c.Decide(ok && k == sp.tagType, key("tagtype"), p.InstrPos(st), "tag type constant", fmt.Sprintf("TagType is %d, expected %d", k, sp.tagType))
		}
		// Timestamp derives from the right clock / Millisecond
		if st := one("Timestamp", "Tag"); st != nil {
			other := "Pts"
			if sp.tsField == "Pts" {
				other = "Dts"
			}
			divMs := false
			walkDeps(st.Val, func(x ssa.Value) bool {
				if b, ok := x.(*ssa.BinOp); ok && b.Op == token.QUO {
					if k, ok := evalInt(b.Y); ok && k == 1000000 {
						divMs = true
					}
				}
				return true
			})
			good := dependsOnField(st.Val, sp.tsField) && !dependsOnField(st.Val, other) && divMs
			c.Decide(good, key("timestamp"), p.InstrPos(st), "Timestamp = frame."+sp.tsField+" in milliseconds", "Tag.Timestamp is not derived from frame."+sp.tsField+" / time.Millisecond alone")
		}
		if sp.video {
			if st := one("CompositionTime", sp.dataType); st != nil {
				b, ok := stripConv(st.Val).(*ssa.BinOp)
				good := ok && b.Op == token.SUB && dependsOnField(b.X, "Pts") && !dependsOnField(b.X, "Dts") && dependsOnField(b.Y, "Dts") && !dependsOnField(b.Y, "Pts")
				c.Decide(good, key("cts"), p.InstrPos(st), "CompositionTime = pts - dts", "CompositionTime is not (pts - dts)")
			}
			// FrameType: inter by default, key only on the IRAP test edge (checked with constants in R-KEYFRAME-CONSTS)
			sts := storesToField(fn, flvp, sp.dataType, "FrameType")
			nKey, nInter := 0, 0
			for _, s := range sts {
				k, _ := evalInt(s.Val)
				if phi, isPhi := stripConv(s.Val).(*ssa.Phi); isPhi {
					// one store of a value chosen by an if/else: counts as the conditional key store and the inter store
					ks := map[int64]bool{}
					for _, e := range phi.Edges {
						if kk, ok := evalInt(e); ok {
							ks[kk] = true
						}
					}
					if ks[1] && ks[2] && len(phi.Edges) == 2 {
						nKey++
						nInter++
						c.OK(key("frametype-key-conditional"), p.InstrPos(s), "key-frame flag chosen under a test")
						continue
					}
				}
				if k == 1 {
					nKey++
					// must be conditional: block has a single predecessor ending in If
					blk := s.Block()
					cond := len(blk.Preds) == 1
					if cond {
						_, cond = blk.Preds[0].Instrs[len(blk.Preds[0].Instrs)-1].(*ssa.If)
					}
					c.Decide(cond, key("frametype-key-conditional"), p.InstrPos(s), "key-frame flag set under a test", "FrameType is set to key frame unconditionally")
				} else if k == 2 {
					nInter++
				}
			}
			c.Decide(nKey == 1 && nInter == 1, key("frametype"), p.Pos(fn.Pos()), "inter by default, key under the IRAP test", fmt.Sprintf("FrameType stores: key×%d inter×%d (expected 1 and 1)", nKey, nInter))
		}
		// the tag is handed to the writer exactly once on every path
		ex, n := countPaths(fn, func(i ssa.Instruction) bool {
			cc := callCommon(i)
			return cc != nil && cc.IsInvoke() && cc.Method.Name() == "WriteFlvTag"
		}, nil)
		c.paths += n
		okOnce := len(ex) > 0
		for _, sts := range ex {
			for _, s := range sts {
				if s.N != 1 {
					okOnce = false
				}
			}
		}
		c.Decide(okOnce, key("written-once"), p.Pos(fn.Pos()), "each frame yields exactly one tag", "a path of Packetize writes the tag zero or several times")
	}
}

// keyConsts extracts, from fn, the constants against which a NAL type is
// compared on the way to marking 'key frame'. Returns (eq consts, lower, upper) .
func keyConsts(fn *ssa.Function, isKeyMark func(ins ssa.Instruction) bool) (eq []int64, lo, hi int64, ok bool) {
	lo, hi = -1, -1
	var mark ssa.Instruction
	instrs(fn, func(ins ssa.Instruction) {
		if mark == nil && isKeyMark(ins) {
			mark = ins
		}
	})
	var blk *ssa.BasicBlock
	if mark != nil {
		blk = mark.Block()
	} else {
		// the mark may be chosen first and stored later: `x := inter; if test { x = key }` or an
		// if/else assignment followed by one store of the phi - the marking block is then the
		// predecessor that contributes the key value
		instrs(fn, func(ins ssa.Instruction) {
			st, ok := ins.(*ssa.Store)
			if !ok || blk != nil {
				return
			}
			f, _, ok := fieldAddr(st.Addr)
			if !ok || theProgram.baseFieldName(f) != "FrameType" {
				return
			}
			if phi, ok := stripConv(st.Val).(*ssa.Phi); ok {
				for i, e := range phi.Edges {
					if k, ok := evalInt(e); ok && k == 1 {
						blk = phi.Block().Preds[i]
					}
				}
			}
		})
	}
	if blk == nil {
		return nil, -1, -1, false
	}
	// walk up through single-predecessor Ifs collecting comparisons on the taken edge
	for i := 0; i < 4 && len(blk.Preds) == 1; i++ {
		pr := blk.Preds[0]
		ifi, isIf := pr.Instrs[len(pr.Instrs)-1].(*ssa.If)
		if !isIf {
			break
		}
		taken := pr.Succs[0] == blk
		if b, isB := ifi.Cond.(*ssa.BinOp); isB && taken {
			if k, isc := evalInt(b.Y); isc {
				switch b.Op {
				case token.EQL:
					eq = append(eq, k)
				case token.GEQ:
					lo = k
				case token.LEQ:
					hi = k
				}
			} else if k, isc := evalInt(b.X); isc {
				switch b.Op {
				case token.EQL:
					eq = append(eq, k)
				case token.LEQ:
					lo = k
				case token.GEQ:
					hi = k
				}
			}
		}
		blk = pr
	}
	return eq, lo, hi, true
}

func ruleKeyframeConsts(c *Ctx) {
	p := c.P
	idr, ok1 := pkgConst(p, "av/codec/h264", "NalIdrSlice")
	bla, ok2 := pkgConst(p, "av/codec/hevc", "NalBlaWLp")
	cra, ok3 := pkgConst(p, "av/codec/hevc", "NalCraNut")
	if !ok1 || !ok2 || !ok3 {
		c.Lost("codec NAL constants", "NalIdrSlice/NalBlaWLp/NalCraNut not found")
		return
	}
	c.Decide(idr == 5 && bla == 16 && cra == 21, "codec-constants", "", "NalIdrSlice=5, IRAP range 16..21", fmt.Sprintf("codec constants NalIdrSlice=%d NalBlaWLp=%d NalCraNut=%d differ from the standards (5, 16, 21)", idr, bla, cra))
	storeTrueToParam := func(name string) func(ssa.Instruction) bool {
		return func(ins ssa.Instruction) bool {
			st, ok := ins.(*ssa.Store)
			if !ok {
				return false
			}
			par, ok := st.Addr.(*ssa.Parameter)
			if !ok || par.Name() != name {
				return false
			}
			b, isc := constBool(st.Val)
			return isc && b
		}
	}
	storeKeyFrameType := func(ins ssa.Instruction) bool {
		st, ok := ins.(*ssa.Store)
		if !ok {
			return false
		}
		f, _, ok := fieldAddr(st.Addr)
		if !ok || theProgram.baseFieldName(f) != "FrameType" {
			return false
		}
		k, ok := evalInt(st.Val)
		return ok && k == 1
	}
	type site struct {
		rel, name string
		mark      func(ssa.Instruction) bool
		h265      bool
	}
	sites := []site{
		{"media/cache", "(*H264Cache).nalType", storeTrueToParam("islice"), false},
		{"av/format/flv", "(*h264Packetizer).Packetize", storeKeyFrameType, false},
		{"media/cache", "(*HevcCache).nalType", storeTrueToParam("islice"), true},
		{"av/format/flv", "(*h265Packetizer).Packetize", storeKeyFrameType, true},
	}
	for _, s := range sites {
		fn := p.Func(s.rel, s.name)
		if fn == nil {
			c.Lost(s.rel+"."+s.name, "not found")
			continue
		}
		c.touched(fname(fn))
		eq, lo, hi, ok := keyConsts(fn, s.mark)
		key := "keyframe-consts:" + fname(fn)
		if !ok {
			c.Bad(key, p.Pos(fn.Pos()), "no key-frame marking found")
			continue
		}
		if s.h265 {
			c.Decide(lo == bla && hi == cra && len(eq) == 0, key, p.Pos(fn.Pos()), "key frame iff NalBlaWLp <= type <= NalCraNut", fmt.Sprintf("key-frame test uses range [%d,%d] eq=%v; siblings and the standard use [%d,%d]", lo, hi, eq, bla, cra))
		} else {
			c.Decide(len(eq) == 1 && eq[0] == idr && lo == -1 && hi == -1, key, p.Pos(fn.Pos()), "key frame iff type == NalIdrSlice", fmt.Sprintf("key-frame test compares with %v range [%d,%d]; siblings use NalIdrSlice=%d", eq, lo, hi, idr))
		}
	}
	// TS packetiser: key field = (nalType == NalIdrSlice) with mask 0x1f
	fn := p.Func("av/format/mpegts", "(*h264Packetizer).Packetize")
	if fn == nil {
		c.Lost("mpegts.h264Packetizer.Packetize", "not found")
		return
	}
	c.touched(fname(fn))
	good := false
	instrs(fn, func(ins ssa.Instruction) {
		st, ok := ins.(*ssa.Store)
		if !ok {
			return
		}
		f, _, ok := fieldAddr(st.Addr)
		if !ok || theProgram.baseFieldName(f) != "key" {
			return
		}
		if b, ok := st.Val.(*ssa.BinOp); ok && b.Op == token.EQL {
			k, isc := evalInt(b.Y)
			and, isAnd := b.X.(*ssa.BinOp)
			if isc && k == idr && isAnd && and.Op == token.AND {
				if m, ok := evalInt(and.Y); ok && m == 0x1f {
					good = true
				}
			}
		}
	})
	c.Decide(good, "keyframe-consts:"+fname(fn), p.Pos(fn.Pos()), "key = (payload[0]&0x1f == NalIdrSlice)", "the TS packetiser's key flag is not (payload[0] & 0x1f) == NalIdrSlice")
	// masks of the FLV packetisers: h264 uses &0x1f, h265 uses (>>1)&0x3f
	for _, m := range []struct {
		name  string
		mask  int64
		shift int64
	}{{"(*h264Packetizer).Packetize", 0x1f, 0}, {"(*h265Packetizer).Packetize", 0x3f, 1}} {
		fn := p.Func("av/format/flv", m.name)
		if fn == nil {
			continue
		}
		okMask := false
		instrs(fn, func(ins ssa.Instruction) {
			b, ok := ins.(*ssa.BinOp)
			if !ok || b.Op != token.AND {
				return
			}
			k, isc := evalInt(b.Y)
			if !isc || k != m.mask {
				return
			}
			x := b.X
			if m.shift > 0 {
				sh, ok := x.(*ssa.BinOp)
				if !ok || sh.Op != token.SHR {
					return
				}
				if s, ok := evalInt(sh.Y); !ok || s != m.shift {
					return
				}
				x = sh.X
			}
			if u, ok := x.(*ssa.UnOp); ok {
				if ia, ok := u.X.(*ssa.IndexAddr); ok {
					if i, ok := evalInt(ia.Index); ok && i == 0 {
						okMask = true
					}
				}
			}
		})
		c.Decide(okMask, "naltype-extract:"+strings.Trim(m.name, "(*)"), p.Pos(fn.Pos()), "NAL type extracted from payload[0] with the codec's shift/mask", "the NAL type is not extracted from payload[0] with the codec's shift/mask")
	}
}

// cellValueBefore evaluates the constant held by local int cell a just before
// instruction `at` (nil = end of block) in block b: the reaching store must be
// a constant expression on every path; a call that receives the cell's
// address makes it unknown.
func cellValueBefore(a *ssa.Alloc, at ssa.Instruction, b *ssa.BasicBlock, visiting map[*ssa.BasicBlock]bool) (int64, bool) {
	idx := len(b.Instrs)
	if at != nil {
		for i, ins := range b.Instrs {
			if ins == at {
				idx = i
			}
		}
	}
	for i := idx - 1; i >= 0; i-- {
		switch x := b.Instrs[i].(type) {
		case *ssa.Store:
			if x.Addr == ssa.Value(a) {
				return evalInt(x.Val)
			}
		case *ssa.Call:
			for _, arg := range x.Call.Args {
				if arg == ssa.Value(a) {
					return 0, false
				}
			}
		}
		if b.Instrs[i] == ssa.Instruction(a) {
			return 0, false // reached the allocation without a store
		}
	}
	if visiting[b] || len(b.Preds) == 0 {
		return 0, false
	}
	visiting[b] = true
	defer delete(visiting, b)
	var val int64
	for i, pr := range b.Preds {
		v, ok := cellValueBefore(a, nil, pr, visiting)
		if !ok || (i > 0 && v != val) {
			return 0, false
		}
		val = v
	}
	return val, true
}
