package main

// R-GUARD-OFFSET-AGREE: contradiction rule over table stores indexed by a shifted loop
// counter (`if v > g { table[v-c] = ... }`): the shift says the first populated value of v
// is c, the guard says it is g+1 - they must agree.

import (
	"fmt"
	"go/token"
	"go/types"
	"strings"

	"golang.org/x/tools/go/ssa"
)

func init() {
	if p := properties["C15"]; p != nil {
		p.Rules = append(p.Rules, &RuleDoc{Name: "R-GUARD-OFFSET-AGREE", Text: "Where a syntax table of the parameter-set decoders is stored at a shifted constant-bounded loop counter (`table[v-c]` under `v > g`), the guard and the shift agree (g+1 == c): the smallest guarded value lands in row 0, so neither a negative index nor a skipped syntax element (the element for v in [c, g]) is possible at that site. A necessary condition of reading every element the syntax transmits; it does not decide that c itself is the standard's value.", Run: ruleGuardOffsetAgree})
	}
	addMutants(
		&Mutant{Prop: "C15", Name: "c15-hevc-dc-coef-guard", File: "av/codec/hevc/sps.go",
			Old: "\t\t\t\tif sizeId > 1 {\n\t\t\t\t\tsl.Scaling_list_dc_coef_minus8[sizeId-2]", New: "\t\t\t\tif sizeId > 2 {\n\t\t\t\t\tsl.Scaling_list_dc_coef_minus8[sizeId-2]", Expect: "R-GUARD-OFFSET-AGREE"},
		&Mutant{Prop: "C15", Name: "c15-hevc-dc-coef-shift", File: "av/codec/hevc/sps.go",
			Old: "sl.Scaling_list_dc_coef_minus8[sizeId-2][matrixId] = r.ReadSe16()", New: "sl.Scaling_list_dc_coef_minus8[sizeId-1][matrixId] = r.ReadSe16()", Expect: "R-GUARD-OFFSET-AGREE"},
	)
}

// constInduction recognises v = phi(const init, v + const step>0): returns init.
func constInduction(v ssa.Value) (int64, bool) {
	phi, ok := v.(*ssa.Phi)
	if !ok || len(phi.Edges) != 2 {
		return 0, false
	}
	for i := 0; i < 2; i++ {
		init, ok := constInt(phi.Edges[i])
		if !ok {
			continue
		}
		if bo, ok := phi.Edges[1-i].(*ssa.BinOp); ok && bo.Op == token.ADD && bo.X == phi {
			return init, true
		}
	}
	return 0, false
}

// lowerBound: the largest constant L with v >= L established at ins by dominating
// comparisons of v against constants (and by the induction start when v is a loop counter).
func lowerBound(ins ssa.Instruction, v ssa.Value) (int64, bool) {
	var lo int64
	have := false
	var neqs []int64
	set := func(x int64) {
		if !have || x > lo {
			lo, have = x, true
		}
	}
	if init, ok := constInduction(v); ok {
		set(init)
	}
	if k, ok := intrinsicLower(v); ok {
		set(k)
	}
	blk := ins.Block()
	for _, d := range ins.Parent().Blocks {
		if d == blk || !d.Dominates(blk) || len(d.Instrs) == 0 {
			continue
		}
		ifi, ok := d.Instrs[len(d.Instrs)-1].(*ssa.If)
		if !ok {
			continue
		}
		bo, ok := ifi.Cond.(*ssa.BinOp)
		if !ok {
			continue
		}
		viaTrue := d.Succs[0].Dominates(blk) && len(d.Succs[0].Preds) == 1
		viaFalse := d.Succs[1].Dominates(blk) && len(d.Succs[1].Preds) == 1
		if viaTrue == viaFalse {
			continue
		}
		op := bo.Op
		x, y := bo.X, bo.Y
		if _, isC := constInt(x); isC { // const OP v  ->  v OP' const
			x, y = y, x
			switch op {
			case token.GTR:
				op = token.LSS
			case token.GEQ:
				op = token.LEQ
			case token.LSS:
				op = token.GTR
			case token.LEQ:
				op = token.GEQ
			}
		}
		k, ok := constInt(y)
		if !ok || x != v {
			continue
		}
		if viaFalse { // negate
			switch op {
			case token.GTR:
				op = token.LEQ
			case token.GEQ:
				op = token.LSS
			case token.LSS:
				op = token.GEQ
			case token.LEQ:
				op = token.GTR
			case token.EQL:
				op = token.NEQ
			case token.NEQ:
				op = token.EQL
			}
		}
		switch op {
		case token.GTR:
			set(k + 1)
		case token.GEQ, token.EQL:
			set(k)
		case token.NEQ:
			neqs = append(neqs, k)
		}
	}
	for range neqs { // v >= lo && v != lo  =>  v >= lo+1
		for _, k := range neqs {
			if have && k == lo {
				lo++
			}
		}
	}
	return lo, have
}

func ruleGuardOffsetAgree(c *Ctx) {
	p := c.P
	n := 0
	for _, pkg := range []string{"av/codec/h264", "av/codec/hevc", "av/codec/aac"} {
		for _, fn := range p.FuncsInPkg(pkg) {
			ord := map[string]int{}
			instrs(fn, func(ins ssa.Instruction) {
				ia, ok := ins.(*ssa.IndexAddr)
				if !ok {
					return
				}
				pt, ok := ia.X.Type().Underlying().(*types.Pointer)
				if !ok {
					return
				}
				if _, ok := pt.Elem().Underlying().(*types.Array); !ok {
					return
				}
				bo, ok := stripConv(ia.Index).(*ssa.BinOp)
				if !ok || bo.Op != token.SUB {
					return
				}
				shift, ok := constInt(bo.Y)
				if !ok || shift <= 0 {
					return
				}
				v := stripConv(bo.X)
				if _, ok := constInduction(v); !ok {
					return
				}
				// table name: the field the array lives in
				name := "array"
				if fa, ok := addrRootField(ia.X); ok {
					name = fa
				}
				key := fmt.Sprintf("%s[%s-%d]@%s", name, "counter", shift, fname(fn))
				ord[key]++
				if ord[key] > 1 {
					key = fmt.Sprintf("%s#%d", key, ord[key])
				}
				n++
				c.touched(fname(fn))
				lo, have := lowerBound(ins, v)
				if !have {
					c.Undecided(key, p.InstrPos(ins), "no constant lower bound for the shifted counter")
					return
				}
				switch {
				case lo == shift:
					c.OK(key, p.InstrPos(ins), fmt.Sprintf("guarded counter >= %d, shift %d: first guarded value stored in row 0", lo, shift))
				case lo < shift:
					c.Bad(key, p.InstrPos(ins), fmt.Sprintf("counter may be %d but the index subtracts %d: negative index (panic) on a parameter set that takes this branch", lo, shift))
				default:
					c.Bad(key, p.InstrPos(ins), fmt.Sprintf("the index shift says the first stored counter value is %d, the guard admits only >= %d: the syntax element for counter values %d..%d is never read, every later element is parsed out of sync", shift, lo, shift, lo-1))
				}
			})
		}
	}
	c.Note(fmt.Sprintf("shifted-counter table stores analysed: %d", n))
	// no floor: a contradiction rule has nothing to say when the construct is absent (e.g. the table is
	// re-indexed by the raw counter); the overlay mutants are its positive control.
}

// addrRootField names the struct field an address chain (IndexAddr/FieldAddr) is rooted in.
func addrRootField(v ssa.Value) (string, bool) {
	for i := 0; i < 8; i++ {
		switch x := v.(type) {
		case *ssa.IndexAddr:
			v = x.X
		case *ssa.FieldAddr:
			st, ok := x.X.Type().Underlying().(*types.Pointer).Elem().Underlying().(*types.Struct)
			if !ok {
				return "", false
			}
			return st.Field(x.Field).Name(), true
		default:
			return "", false
		}
	}
	return "", false
}

// intrinsicLower: a lower bound that holds by the definition of the value
// (strings/bytes Index* return >= -1, len/cap >= 0, unsigned values >= 0).
func intrinsicLower(v ssa.Value) (int64, bool) {
	if b, ok := v.Type().Underlying().(*types.Basic); ok && b.Info()&types.IsUnsigned != 0 {
		return 0, true
	}
	call, ok := v.(*ssa.Call)
	if !ok {
		return 0, false
	}
	n := calleeName(&call.Call)
	switch {
	case n == "builtin.len" || n == "builtin.cap":
		return 0, true
	case strings.HasPrefix(n, "strings.Index") || strings.HasPrefix(n, "strings.LastIndex") || strings.HasPrefix(n, "bytes.Index") || strings.HasPrefix(n, "bytes.LastIndex"):
		return -1, true
	}
	return 0, false
}
