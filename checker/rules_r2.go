package main

// Rule extensions added after the second round of independently seeded changes (DESIGN §9.2).
// File name sorts after rules_c20.go so that init() runs when every property is registered.

import (
	"fmt"
	"go/token"
	"go/types"
	"strings"

	"golang.org/x/tools/go/ssa"
)

func init() {
	share := func(prop string, r *RuleDoc) {
		if p := properties[prop]; p != nil {
			p.Rules = append(p.Rules, r)
		}
	}
	cid := &RuleDoc{Name: "R-CID-FROM-INCREMENT", Text: "NewCID derives the consumer id from the value returned by the atomic increment of the per-stream seed, never from a later re-read of the seed: two concurrent attaches can never obtain the same id (a duplicate id replaces the first consumer in the map: attached but never served).", Run: ruleCidFromIncrement}
	share("C01", cid)
	share("C03", cid)
	share("C02", &RuleDoc{Name: "R-RESTAMP-GUARD-TIGHT", Text: "FlvCache.PushTo takes the re-stamp time from the first cached GOP tag whenever the GOP cache is non-empty (the guard on len(gop) admits length 1).", Run: ruleRestampGuardTight})
	unreg := &RuleDoc{Name: "R-UNREGIST-CLOSES", Text: "media.Unregist closes the stream it was given on every path (also when the registry already maps the path to a successor), so a replaced stream's consumers are released when its own publisher leaves.", Run: ruleUnregistCloses}
	share("C03", unreg)
	share("C05", unreg)
	share("C04", &RuleDoc{Name: "R-NO-CONSUMER-CALL-UNDER-JOINLOCK", Text: "No consumer code (Consumer.Close / Consumer.Consume, directly or through module functions) runs while Stream.joinLock is held: the publisher path takes that lock for every packet.", Run: ruleNoConsumerCallUnderJoinLock})
	fu := &RuleDoc{Name: "R-FU-KEYFRAME-ON-START", Text: "The GOP-cache classifiers (H.264, H.265; sibling rule) classify a fragmentation unit only under the test of its start bit: middle and end fragments of an IDR/IRAP are not key-frame edges.", Run: ruleFuKeyframeOnStart}
	share("C04", fu)
	share("C02", fu)
	share("C05", &RuleDoc{Name: "R-IDLE-HLS-LIVE-FIELD", Text: "The HLS last-access value consulted by the idle-close guard comes from a Stream field that the stream constructor assigns (the playlist), not from a field nothing in the program sets.", Run: ruleIdleHlsLiveField})
	canon := &RuleDoc{Name: "R-CANONICAL-CLEANS", Text: "utils.CanonicalPath returns, apart from the constant root, only values computed after path.Clean on that path (no return that bypasses cleaning), and where the input ended in '/' the result is the input itself or ends in '/'.", Run: ruleCanonicalCleans}
	share("C05", canon)
	share("C17", canon)
	share("C06", &RuleDoc{Name: "R-SYNC-ANCHOR-ONCE", Text: "The RTP/NTP anchor of a depacketiser's clock is set from a sender report only while it is unset (RTPTime == 0): presentation-time differences stay equal to RTP-timestamp differences across later sender reports.", Run: ruleSyncAnchorOnce})
	share("C06", &RuleDoc{Name: "R-RTP-TIME-MODULAR", Text: "The sync clock never subtracts two raw 32-bit RTP timestamps after widening both to 64 bits (a plain difference jumps by 2^32 ticks, about 13 h at 90 kHz, when the timestamp wraps): the difference is taken modulo 2^32 or on a wrap-extended value.", Run: ruleRtpTimeModular})
	share("C06", &RuleDoc{Name: "R-AU-HEADER-BITS", Text: "In the AAC-hbr depacketiser the AU size is the AU header shifted right by indexLength with no mask narrower than sizeLength (13) bits, and the constructor's sizeLength + indexLength = 16.", Run: ruleAuHeaderBits})
	share("C07", &RuleDoc{Name: "R-META-PARAMS-FIRST-ONLY", Text: "The depacketisers (H.264, H.265; sibling rule) store an in-band VPS/SPS/PPS into the metadata shared with the remuxers only while that parameter set is still empty: a later truncated parameter set cannot replace the good one the remuxers build their sequence headers from.", Run: ruleMetaParamsFirstOnly})
	share("C09", &RuleDoc{Name: "R-STUFF-ONLY-WHEN-SHORT", Text: "fillStuff is called only where the remaining data is strictly shorter than the packet body (bodySize > inSize established): an exact fit must not claim an adaptation field that is not there.", Run: ruleStuffOnlyWhenShort})
	share("C09", &RuleDoc{Name: "R-STUFF-ADDS-TO-AF-LENGTH", Text: "Where the packet already has an adaptation field, fillStuff adds the stuffing size to adaptation_field_length (pkt[4] = pkt[4] + stuff); where it has none, it sets the adaptation flag and a length of stuff-1.", Run: ruleStuffAddsToAfLength})
	share("C10", &RuleDoc{Name: "R-FORCED-CUT-FACTOR", Text: "The forced (audio-triggered) cut threshold is at least twice the fragment length, i.e. it can only fire after the key-frame cut had a whole further fragment to happen.", Run: ruleForcedCutFactor})
	share("C10", &RuleDoc{Name: "R-SEGMENT-FILE-TRUNC", Text: "Disk segment files are opened with O_TRUNC (or O_EXCL): a leftover file of the same name never contributes bytes to a served segment.", Run: ruleSegmentFileTrunc})
	addMutants(
		&Mutant{Prop: "C01", Name: "c01-packet-scratch-prefix", File: "av/format/rtp/packet.go",
			Old: "\tvar prefix [4]byte\n\tprefix[0] = TransferPrefix", New: "\tprefix := p.scratch[:]\n\tprefix[0] = TransferPrefix", Expect: "R-PUBLISHED-IMMUTABLE",
			More: []Edit{{File: "av/format/rtp/packet.go", Old: "\tif _, err := w.Write(prefix[:]); err != nil {", New: "\tif _, err := w.Write(prefix); err != nil {"},
				{File: "av/format/rtp/packet.go", Old: "\tData       []byte // 数据\n", New: "\tData       []byte // 数据\n\tscratch    [4]byte\n"}}},
		&Mutant{Prop: "C01", Name: "c01-cid-reread", File: "media/cid.go",
			Old: "\treturn CID(packetType<<30) | CID(localid&maxConsumerSequence)", New: "\tlocalid = atomic.LoadUint32(consumerSequenceSeed)\n\treturn CID(packetType<<30) | CID(localid&maxConsumerSequence)", Expect: "R-CID-FROM-INCREMENT"},
		&Mutant{Prop: "C02", Name: "c02-restamp-needs-two", File: "media/cache/flvcache.go",
			Old: "\tif len(gop) > 0 {\n\t\ttag := gop[0].(*flv.Tag)", New: "\tif len(gop) >= 2 {\n\t\ttag := gop[0].(*flv.Tag)", Expect: "R-RESTAMP-GUARD-TIGHT"},
		&Mutant{Prop: "C03", Name: "c03-remove-lookup-before-lock", File: "media/consumptions.go",
			Old: "\tm.l.Lock()\n\tdefer m.l.Unlock()\n\n\tci, ok := m.Load(cid)", New: "\tci, ok := m.Load(cid)\n\tm.l.Lock()\n\tdefer m.l.Unlock()\n", Expect: "R-COUNT-ATOMIC"},
		&Mutant{Prop: "C03", Name: "c03-unregist-skips-close", File: "media/global.go",
			Old: "\t\tif s2 == s {\n\t\t\tstreams.Delete(s.path)\n\t\t}\n\t}\n\ts.Close()", New: "\t\tif s2 != s {\n\t\t\treturn\n\t\t}\n\t\tstreams.Delete(s.path)\n\t}\n\ts.Close()", Expect: "R-UNREGIST-CLOSES"},
		&Mutant{Prop: "C04", Name: "c04-close-before-detach", File: "media/consumption.go",
			Old: "\t\tc.stream.StopConsume(c.cid)\n\t\tc.consumer.Close()", New: "\t\tc.consumer.Close()\n\t\tc.stream.StopConsume(c.cid)", Expect: "R-CONSUME-CONTAINED"},
		&Mutant{Prop: "C04", Name: "c04-cleanup-under-joinlock", File: "media/consumption.go",
			Old: "\t\tc.stream.StopConsume(c.cid)\n\t\tc.consumer.Close()", New: "\t\tc.stream.joinLock.Lock()\n\t\tc.stream.StopConsume(c.cid)\n\t\tc.consumer.Close()\n\t\tc.stream.joinLock.Unlock()", Expect: "R-NO-CONSUMER-CALL-UNDER-JOINLOCK"},
		&Mutant{Prop: "C04", Name: "c04-hevc-fu-every-fragment", File: "media/cache/hevccache.go",
			Old: "\t\tif (payload[2]>>7)&1 == 1 { // 第一个分片\n\t\t\tcache.nalType(naluType, &vps, &sps, &pps, &islice)\n\t\t}", New: "\t\tcache.nalType(naluType, &vps, &sps, &pps, &islice)", Expect: "R-FU-KEYFRAME-ON-START"},
		&Mutant{Prop: "C05", Name: "c05-idle-reads-dead-field", File: "media/global.go",
			Old: "\t\thlsable := r.s.Hlsable()", New: "\t\thlsable := r.s.hls", Expect: "R-IDLE-HLS-LIVE-FIELD"},
		&Mutant{Prop: "C05", Name: "c05-canonical-early-return", File: "utils/path.go",
			Old: "\tnp := path.Clean(p)", New: "\tif !strings.Contains(p, \"..\") {\n\t\treturn p\n\t}\n\tnp := path.Clean(p)", Expect: "R-CANONICAL-CLEANS"},
		&Mutant{Prop: "C17", Name: "c17-canonical-drops-slash", File: "utils/path.go",
			Old: "\t\t} else {\n\t\t\tnp += \"/\"\n\t\t}", New: "\t\t}", Expect: "R-CANONICAL-CLEANS"},
		&Mutant{Prop: "C06", Name: "c06-plain-timestamp-difference", File: "av/format/rtp/syncclock.go",
			Old: "func (sc *SyncClock) RelativeNtp(rtptime uint32) int64 {\n\tdiff := sc.extend(rtptime) - sc.anchor()", New: "func (sc *SyncClock) RelativeNtp(rtptime uint32) int64 {\n\tdiff := int64(rtptime) - int64(sc.RTPTime)", Expect: "R-RTP-TIME-MODULAR"},
		&Mutant{Prop: "C06", Name: "c06-reanchor-every-sr", File: "av/format/rtp/demuxer.go",
			Old: "\tif dp.syncClock.RTPTime == 0 {\n\t\tif ok := dp.syncClock.Decode(p.Data); ok {\n\n\t\t}\n\t}", New: "\tdp.syncClock.Decode(p.Data)", Expect: "R-SYNC-ANCHOR-ONCE"},
		&Mutant{Prop: "C06", Name: "c06-au-size-12-bits", File: "av/format/rtp/aac_depacketizer.go",
			Old: "\t\tauHeader := uint16(0) | (uint16(auHeaders[0]) << 8) | uint16(auHeaders[1])\n\t\tframeSize := auHeader >> aacdp.indexLength", New: "\t\tauHeader := uint16(0) | (uint16(auHeaders[0]) << 8) | uint16(auHeaders[1])\n\t\tframeSize := (auHeader >> aacdp.indexLength) & 0xfff", Expect: "R-AU-HEADER-BITS"},
		&Mutant{Prop: "C06", Name: "c06-gap-check-before-start", File: "av/format/rtp/h264_depacketizer.go",
			Old: "\tif (fuHeader>>7)&1 == 1 { // 第一个分片包\n\t\th264dp.fragments = h264dp.fragments[:0]\n\t} else if len(h264dp.fragments) == 0 {\n\t\t// 起始分片已丢失，后续分片无法组成完整的 NAL，丢弃\n\t\treturn\n\t}\n\tif len(h264dp.fragments) != 0 &&\n\t\th264dp.fragments[len(h264dp.fragments)-1].SequenceNumber != packet.SequenceNumber-1 {\n\t\t// Packet loss ?\n\t\th264dp.fragments = h264dp.fragments[:0]\n\t\treturn\n\t}", New: "\tif len(h264dp.fragments) != 0 &&\n\t\th264dp.fragments[len(h264dp.fragments)-1].SequenceNumber != packet.SequenceNumber-1 {\n\t\t// Packet loss ?\n\t\th264dp.fragments = h264dp.fragments[:0]\n\t\treturn\n\t}\n\tif (fuHeader>>7)&1 == 1 { // 第一个分片包\n\t\th264dp.fragments = h264dp.fragments[:0]\n\t} else if len(h264dp.fragments) == 0 {\n\t\treturn\n\t}", Expect: "R-FU-GAP-RESETS"},
		&Mutant{Prop: "C07", Name: "c07-inband-sps-overwrites", File: "av/format/rtp/h265_depacketizer.go",
			Old: "\t\tif len(h265dp.meta.Sps) == 0 {\n\t\t\th265dp.meta.Sps = frame.Payload\n\t\t}", New: "\t\th265dp.meta.Sps = frame.Payload", Expect: "R-META-PARAMS-FIRST-ONLY"},
		&Mutant{Prop: "C09", Name: "c09-exact-fit-stuffed", File: "av/format/mpegts/writer.go",
			Old: "\t\tif bodySize <= inSize {", New: "\t\tif bodySize < inSize {", Expect: "R-STUFF-ONLY-WHEN-SHORT"},
		&Mutant{Prop: "C09", Name: "c09-af-length-overwritten", File: "av/format/mpegts/writer.go",
			Old: "\t\tpkt[4] += byte(stuffSize)", New: "\t\tpkt[4] = byte(stuffSize)", Expect: "R-STUFF-ADDS-TO-AF-LENGTH"},
		&Mutant{Prop: "C10", Name: "c10-forced-cut-early", File: "av/format/hls/segmentgenerator.go",
			Old: "\tres := sg.current.duration >= float64(2*sg.hlsFragment)", New: "\tres := sg.current.duration >= 1.5*float64(sg.hlsFragment)", Expect: "R-FORCED-CUT-FACTOR"},
		&Mutant{Prop: "C10", Name: "c10-segment-file-no-trunc", File: "av/format/hls/segmentfile.go",
			Old: "os.O_CREATE|os.O_TRUNC|os.O_WRONLY", New: "os.O_CREATE|os.O_WRONLY", Expect: "R-SEGMENT-FILE-TRUNC"},
	)
}

// ------------------------------------------------------------ R-CID-FROM-INCREMENT

func ruleCidFromIncrement(c *Ctx) {
	p := c.P
	fn := p.Func("media", "NewCID")
	if fn == nil {
		c.Lost("media.NewCID", "not found")
		return
	}
	c.touched(fname(fn))
	var add *ssa.Call
	var reread ssa.Instruction
	instrs(fn, func(ins ssa.Instruction) {
		call, ok := ins.(*ssa.Call)
		if !ok {
			return
		}
		switch calleeName(&call.Call) {
		case "sync/atomic.AddUint32", "sync/atomic.AddUint64", "sync/atomic.AddInt32", "sync/atomic.AddInt64":
			add = call
		case "sync/atomic.LoadUint32", "sync/atomic.LoadUint64", "sync/atomic.LoadInt32", "sync/atomic.LoadInt64":
			reread = call
		}
	})
	if add == nil {
		c.Bad("cid-from-increment", p.Pos(fn.Pos()), "NewCID does not obtain the id from an atomic add on the seed: ids of concurrent attaches are not distinct")
		return
	}
	// the returned value must depend on the add result and on no separate load of the seed
	depAdd, depLoad := false, false
	for _, b := range fn.Blocks {
		if ret, ok := b.Instrs[len(b.Instrs)-1].(*ssa.Return); ok {
			for _, r := range ret.Results {
				walkDeps(r, func(x ssa.Value) bool {
					if x == ssa.Value(add) {
						depAdd = true
					}
					if call, ok := x.(*ssa.Call); ok && reread != nil && ssa.Instruction(call) == reread {
						depLoad = true
					}
					return true
				})
			}
		}
	}
	switch {
	case depLoad:
		c.Bad("cid-from-increment", p.InstrPos(reread), "the id is computed from a re-read of the seed after the increment: T1 Add->X, T2 Add->Y, T1 Load->Y, T2 Load->Y gives two consumers the same id; consumptions.Add then replaces the first (attached, never served) and either StopConsume detaches the other")
	case !depAdd:
		c.Bad("cid-from-increment", p.InstrPos(add), "the returned id does not depend on the value returned by the atomic increment")
	default:
		c.OK("cid-from-increment", p.InstrPos(add), "id is a function of the value returned by the atomic increment")
	}
}

// ------------------------------------------------------------ R-RESTAMP-GUARD-TIGHT

// lenLowerBound: the largest constant L with len(x) >= L established at ins for the slice x.
func lenLowerBound(ins ssa.Instruction, x ssa.Value) (int64, bool) {
	var best int64
	have := false
	blk := ins.Block()
	for _, d := range ins.Parent().Blocks {
		if d == blk || !d.Dominates(blk) || len(d.Instrs) == 0 {
			continue
		}
		ifi, ok := d.Instrs[len(d.Instrs)-1].(*ssa.If)
		if !ok {
			continue
		}
		bo, ok := ifi.Cond.(*ssa.BinOp)
		if !ok {
			continue
		}
		call, ok := stripConv(bo.X).(*ssa.Call)
		if !ok || calleeName(&call.Call) != "builtin.len" || origin(call.Call.Args[0]) != origin(x) {
			continue
		}
		k, ok := constInt(bo.Y)
		if !ok {
			continue
		}
		viaTrue := d.Succs[0].Dominates(blk) && len(d.Succs[0].Preds) == 1
		viaFalse := d.Succs[1].Dominates(blk) && len(d.Succs[1].Preds) == 1
		var lo int64 = -1
		switch {
		case viaTrue && bo.Op == token.GTR:
			lo = k + 1
		case viaTrue && bo.Op == token.GEQ:
			lo = k
		case viaTrue && bo.Op == token.NEQ && k == 0:
			lo = 1
		case viaFalse && bo.Op == token.LEQ:
			lo = k + 1
		case viaFalse && bo.Op == token.LSS:
			lo = k
		case viaFalse && bo.Op == token.EQL && k == 0:
			lo = 1
		}
		if lo >= 0 && (!have || lo > best) {
			best, have = lo, true
		}
	}
	return best, have
}

func ruleRestampGuardTight(c *Ctx) {
	p := c.P
	fn := p.Func("media/cache", "(*FlvCache).PushTo")
	if fn == nil {
		c.Lost("cache.FlvCache.PushTo", "not found")
		return
	}
	c.touched(fname(fn))
	n := 0
	instrs(fn, func(ins ssa.Instruction) {
		// gop[0] (index of the Elems() slice with constant 0) whose element's Timestamp is read
		ia, ok := ins.(*ssa.IndexAddr)
		if !ok {
			return
		}
		k, ok := constInt(ia.Index)
		if !ok {
			return
		}
		if _, isSlice := ia.X.Type().Underlying().(*types.Slice); !isSlice {
			return
		}
		call, ok := origin(ia.X).(*ssa.Call)
		if !ok || !strings.HasSuffix(calleeName(&call.Call), ".Elems") {
			return
		}
		n++
		lo, have := lenLowerBound(ia, ia.X)
		key := fmt.Sprintf("restamp-guard:gop[%d]", k)
		switch {
		case !have:
			c.Bad(key, p.InstrPos(ia), "the first cached GOP tag is indexed without a length test")
		case lo == k+1:
			c.OK(key, p.InstrPos(ia), fmt.Sprintf("guarded by len >= %d", lo))
		default:
			c.Bad(key, p.InstrPos(ia), fmt.Sprintf("gop[%d] is read only when the GOP cache holds at least %d tags: a consumer joining while the cache holds exactly %d tag(s) (right after a key frame) gets metadata and sequence headers stamped 0, so its first media tag is written at the absolute stream time instead of 0", k, lo, lo-1))
		}
	})
	if n == 0 {
		c.Lost("restamp-guard", "PushTo no longer reads the first cached GOP tag")
	}
}

// ------------------------------------------------------------ R-UNREGIST-CLOSES

func ruleUnregistCloses(c *Ctx) {
	p := c.P
	fn := p.Func("media", "Unregist")
	if fn == nil {
		c.Lost("media.Unregist", "not found")
		return
	}
	c.touched(fname(fn))
	res := RunPath(&PathRule[bool]{Fn: fn, Init: []bool{false},
		Transfer: func(s bool, ins ssa.Instruction) []bool {
			if cc := callCommon(ins); cc != nil && cc.StaticCallee() != nil {
				n := funcFullName(cc.StaticCallee())
				if strings.HasSuffix(n, "media.Stream).Close") || strings.HasSuffix(n, "media.Stream).close") {
					if len(cc.Args) > 0 && origin(cc.Args[0]) == ssa.Value(fn.Params[0]) {
						return []bool{true}
					}
				}
			}
			return nil
		}})
	c.paths += res.N
	ok := true
	for ret, sts := range res.Exits() {
		for _, s := range sts {
			if !s {
				ok = false
				c.Bad("unregist-closes", p.InstrPos(ret), "a path of Unregist returns without closing the stream: a stream that was replaced while it still had consumers is never closed when its own publisher disconnects (its consumers stay attached, the zero-consumer task never fires, UnregistAll no longer sees it)")
			}
		}
	}
	if ok {
		c.OK("unregist-closes", p.Pos(fn.Pos()), "every path closes the given stream")
	}
}

// ------------------------------------------------------------ R-NO-CONSUMER-CALL-UNDER-JOINLOCK

func ruleNoConsumerCallUnderJoinLock(c *Ctx) {
	p := c.P
	isConsumerCall := func(cc *ssa.CallCommon) bool {
		if !cc.IsInvoke() {
			return false
		}
		if cc.Method.Name() != "Close" && cc.Method.Name() != "Consume" {
			return false
		}
		return typeIs(cc.Value.Type(), modRel("media"), "Consumer")
	}
	// module functions that (transitively, inside the media package) invoke consumer code
	memo := map[*ssa.Function]int8{}
	var reaches func(f *ssa.Function, depth int) bool
	reaches = func(f *ssa.Function, depth int) bool {
		if f == nil || depth > 6 || f.Pkg == nil || !strings.HasPrefix(f.Pkg.Pkg.Path(), modPath+"/media") {
			return false
		}
		if v, ok := memo[f]; ok {
			return v == 1
		}
		memo[f] = 2
		hit := false
		for _, g := range withAnons(f) {
			instrs(g, func(ins ssa.Instruction) {
				if _, isGo := ins.(*ssa.Go); isGo {
					return
				}
				cc := callCommon(ins)
				if cc == nil || hit {
					return
				}
				if isConsumerCall(cc) || reaches(cc.StaticCallee(), depth+1) {
					hit = true
				}
			})
		}
		if hit {
			memo[f] = 1
		}
		return hit
	}
	n := 0
	for _, fn := range p.FuncsInPkg("media") {
		takes := false
		instrs(fn, func(ins ssa.Instruction) {
			if name, op, ok := lockOp(ins); ok && name == "Stream.joinLock" && (op == "Lock" || op == "RLock") {
				takes = true
			}
		})
		if !takes {
			continue
		}
		n++
		c.touched(fname(fn))
		var bad ssa.Instruction
		c.paths += locksAt(fn, "", func(ins ssa.Instruction, held lockSet) {
			if _, ok := held.toMap()["Stream.joinLock"]; !ok || bad != nil {
				return
			}
			if _, isGo := ins.(*ssa.Go); isGo {
				return
			}
			cc := callCommon(ins)
			if cc == nil {
				return
			}
			if _, isDefer := ins.(*ssa.Defer); isDefer {
				return
			}
			if isConsumerCall(cc) || reaches(cc.StaticCallee(), 0) {
				bad = ins
			}
		})
		key := "joinlock-section@" + fname(fn)
		if bad != nil {
			c.Bad(key, p.InstrPos(bad), "consumer code (Close/Consume of a media.Consumer) is called while Stream.joinLock is held: while a failed consumer's Close is slow or hangs, WriteRtpPacket/WriteFlvTag block on joinLock.RLock, every other consumer starves and nobody can join")
		} else {
			c.OK(key, p.Pos(fn.Pos()), "no consumer code inside the joinLock section")
		}
	}
	c.Floor("functions taking Stream.joinLock", n, 3)
}

// ------------------------------------------------------------ R-FU-KEYFRAME-ON-START

// startBitCond recognises (x>>7)&1 == 1, x&0x80 != 0, x&0x80 == 0x80 and returns x.
func startBitCond(cond ssa.Value) (ssa.Value, bool) {
	x, pos, ok := startBitCondPol(cond)
	if !ok || !pos {
		return nil, false
	}
	return x, true
}

// startBitCondPol: (the byte tested, true if the condition holds when bit 7 is set, ok).
func startBitCondPol(cond ssa.Value) (ssa.Value, bool, bool) {
	k, pos, ok := bitTestPol(cond)
	if !ok || k != 7 {
		return nil, false, false
	}
	and := stripConv(cond.(*ssa.BinOp).X).(*ssa.BinOp)
	if shr, isShr := stripConv(and.X).(*ssa.BinOp); isShr && shr.Op == token.SHR {
		return shr.X, pos, true
	}
	return and.X, pos, true
}

func ruleFuKeyframeOnStart(c *Ctx) {
	p := c.P
	type spec struct {
		typ    string
		consts []string
		cpkg   string
	}
	n := 0
	for _, sp := range []spec{{"H264Cache", []string{"NalFuAInRtp", "NalFuBInRtp"}, "av/codec/h264"}, {"HevcCache", []string{"NalFuInRtp"}, "av/codec/hevc"}} {
		fn := p.Func("media/cache", "(*"+sp.typ+").getPalyloadType")
		if fn == nil {
			c.Lost("cache."+sp.typ+".getPalyloadType", "classifier not found")
			continue
		}
		c.touched(fname(fn))
		fu := map[int64]bool{}
		for _, cn := range sp.consts {
			if k, ok := pkgConst(p, sp.cpkg, cn); ok {
				fu[k] = true
			}
		}
		// case bodies of the FU constants: blocks all of whose predecessors are `x == FUconst` tests taken on the true edge
		isFuBody := func(b *ssa.BasicBlock) bool {
			if len(b.Preds) == 0 {
				return false
			}
			for _, pr := range b.Preds {
				ifi, ok := pr.Instrs[len(pr.Instrs)-1].(*ssa.If)
				if !ok || pr.Succs[0] != b {
					return false
				}
				bo, ok := ifi.Cond.(*ssa.BinOp)
				if !ok || bo.Op != token.EQL {
					return false
				}
				k, ok := constInt(bo.Y)
				if !ok || !fu[k] {
					return false
				}
			}
			return true
		}
		var bodies []*ssa.BasicBlock
		for _, b := range fn.Blocks {
			if isFuBody(b) {
				bodies = append(bodies, b)
			}
		}
		if len(bodies) == 0 {
			c.Lost("fu-case:"+fname(fn), "no case for the fragmentation-unit NAL types")
			continue
		}
		calls := 0
		instrs(fn, func(ins ssa.Instruction) {
			cc := callCommon(ins)
			if cc == nil || cc.StaticCallee() == nil || baseFuncName(cc.StaticCallee()) != "nalType" {
				return
			}
			inFu := false
			for _, b := range bodies {
				if b.Dominates(ins.Block()) {
					inFu = true
				}
			}
			if !inFu {
				return
			}
			calls++
			n++
			guarded := false
			for _, d := range fn.Blocks {
				if d == ins.Block() || !d.Dominates(ins.Block()) {
					continue
				}
				if ifi, ok := d.Instrs[len(d.Instrs)-1].(*ssa.If); ok {
					if _, pos, ok := startBitCondPol(ifi.Cond); ok {
						side := 0
						if !pos {
							side = 1
						}
						if d.Succs[side].Dominates(ins.Block()) && len(d.Succs[side].Preds) == 1 {
							guarded = true
						}
					}
				}
			}
			c.Decide(guarded, "fu-classify@"+fname(fn), p.InstrPos(ins), "the fragment's NAL type is classified only under the start-bit test", "every fragment of a fragmentation unit is classified, not only the one with the start bit: middle/end fragments of a fragmented IDR/IRAP report keyframe=true, so a stalled consumer starts and stops discarding in the middle of a key frame and the GOP cache restarts on every fragment")
		})
		if calls == 0 {
			// accepted: FU packets are not classified at all (never key frames) - but then GOP caching of fragmented IDRs is lost
			c.Bad("fu-classify@"+fname(fn), p.Pos(fn.Pos()), "the fragmentation-unit case classifies nothing: a fragmented IDR/IRAP is never recognised as a key frame")
		}
	}
	c.Floor("FU classification sites", n, 2)
}

// ------------------------------------------------------------ R-IDLE-HLS-LIVE-FIELD

func ruleIdleHlsLiveField(c *Ctx) {
	p := c.P
	run := p.Func("media", "(*runZeroConsumersClose).run")
	if run == nil {
		c.Lost("media.runZeroConsumersClose.run", "idle task not found")
		return
	}
	c.touched(fname(run))
	var recv ssa.Value
	instrs(run, func(ins ssa.Instruction) {
		if cc := callCommon(ins); cc != nil && cc.IsInvoke() && cc.Method.Name() == "LastAccessTime" {
			recv = cc.Value
		}
		if cc := callCommon(ins); cc != nil && cc.StaticCallee() != nil && baseFuncName(cc.StaticCallee()) == "LastAccessTime" && len(cc.Args) > 0 {
			recv = cc.Args[0]
		}
	})
	if recv == nil {
		c.Lost("idle:LastAccessTime", "the idle guard no longer consults an HLS access time")
		return
	}
	// where does the value come from: a Stream field, directly or through an accessor of Stream
	var field *types.Var
	var find func(v ssa.Value, depth int)
	find = func(v ssa.Value, depth int) {
		if field != nil || depth > 4 {
			return
		}
		v = origin(stripConv(v))
		if mi, ok := v.(*ssa.MakeInterface); ok {
			find(mi.X, depth+1)
			return
		}
		if f, base, ok := fieldLoad(v); ok && typeIs(base.Type(), modRel("media"), "Stream") {
			field = f
			return
		}
		if call, ok := v.(*ssa.Call); ok && call.Call.StaticCallee() != nil {
			callee := call.Call.StaticCallee()
			for _, b := range callee.Blocks {
				if ret, ok := b.Instrs[len(b.Instrs)-1].(*ssa.Return); ok && len(ret.Results) > 0 {
					find(ret.Results[0], depth+1)
				}
			}
			return
		}
		if phi, ok := v.(*ssa.Phi); ok {
			for _, e := range phi.Edges {
				find(e, depth+1)
			}
		}
	}
	find(recv, 0)
	if field == nil {
		c.Undecided("idle-hls-source", p.Pos(run.Pos()), "cannot trace the HLS access source to a Stream field")
		return
	}
	// is the field assigned by the stream constructor (or anything it calls in the package)?
	ctor := p.Func("media", "NewStream")
	if ctor == nil {
		c.Lost("media.NewStream", "not found")
		return
	}
	assigned := false
	r := p.Reach([]*ssa.Function{ctor}, nil)
	for f := range r.Funcs {
		instrs(f, func(ins ssa.Instruction) {
			if st, ok := ins.(*ssa.Store); ok {
				if fv, _, ok := fieldAddr(st.Addr); ok && fv == field && !isNilConst(st.Val) {
					assigned = true
				}
			}
		})
	}
	c.Decide(assigned, "idle-hls-source", p.Pos(run.Pos()), "HLS access is read from Stream."+field.Name()+", which NewStream assigns", "the idle guard reads the HLS access time through Stream."+field.Name()+", a field the stream constructor never assigns (always nil): 'no recent HLS access' is never evaluated and a stream with HLS-only viewers is closed for idleness moments after its playlist was fetched")
}

// ------------------------------------------------------------ R-CANONICAL-CLEANS

func ruleCanonicalCleans(c *Ctx) {
	p := c.P
	fn := p.Func("utils", "CanonicalPath")
	if fn == nil {
		c.Lost("utils.CanonicalPath", "not found")
		return
	}
	c.touched(fname(fn))
	var clean *ssa.Call
	instrs(fn, func(ins ssa.Instruction) {
		if call, ok := ins.(*ssa.Call); ok && calleeName(&call.Call) == "path.Clean" {
			clean = call
		}
	})
	if clean == nil {
		c.Bad("canonical:clean", p.Pos(fn.Pos()), "CanonicalPath no longer calls path.Clean: '//', '/./' and '/../' spellings of one path become different registry keys")
		return
	}
	ok := true
	for _, b := range fn.Blocks {
		ret, isRet := b.Instrs[len(b.Instrs)-1].(*ssa.Return)
		if !isRet || len(ret.Results) == 0 {
			continue
		}
		if _, isConst := ret.Results[0].(*ssa.Const); isConst {
			continue
		}
		if !(clean.Block().Dominates(b)) {
			ok = false
			c.Bad("canonical:clean", p.InstrPos(ret), "a return of CanonicalPath is not preceded by path.Clean: a path spelled with a repeated slash (/live//cam) keeps its spelling, becomes a different registry key from /live/cam, lookups miss the live stream and a second publisher does not retire the first")
		}
	}
	if ok {
		c.OK("canonical:clean", p.InstrPos(clean), "every non-constant return is computed after path.Clean")
	}
	// trailing slash: in the region where the input ended in '/' and the cleaned path is not the root,
	// the value reaching the return is the input itself or a concatenation ending in "/"
	var region *ssa.BasicBlock
	for _, b := range fn.Blocks {
		ifi, isIf := b.Instrs[len(b.Instrs)-1].(*ssa.If)
		if !isIf {
			continue
		}
		bo, isBo := ifi.Cond.(*ssa.BinOp)
		if !isBo || bo.Op != token.NEQ {
			continue
		}
		if s, isC := bo.Y.(*ssa.Const); isC && s.Value != nil && s.Value.ExactString() == `"/"` && stripConv(bo.X) == ssa.Value(clean) {
			region = b.Succs[0]
		}
	}
	if region == nil {
		c.Lost("canonical:trailing-slash", "the `np != \"/\"` test after path.Clean was not found")
		return
	}
	// the final return's value: a phi; edges that come from inside the region must be p or x+"/"
	okSlash := true
	var where ssa.Instruction
	for _, b := range fn.Blocks {
		ret, isRet := b.Instrs[len(b.Instrs)-1].(*ssa.Return)
		if !isRet || len(ret.Results) == 0 {
			continue
		}
		phi, isPhi := ret.Results[0].(*ssa.Phi)
		if !isPhi {
			continue
		}
		var check func(v ssa.Value, pred *ssa.BasicBlock, depth int)
		check = func(v ssa.Value, pred *ssa.BasicBlock, depth int) {
			if depth > 4 {
				return
			}
			if !(region == pred || region.Dominates(pred)) {
				return
			}
			if inner, ok := v.(*ssa.Phi); ok && inner != phi {
				for i, e := range inner.Edges {
					check(e, inner.Block().Preds[i], depth+1)
				}
				return
			}
			if bo, ok := v.(*ssa.BinOp); ok && bo.Op == token.ADD {
				if s, isC := bo.Y.(*ssa.Const); isC && s.Value != nil && s.Value.ExactString() == `"/"` {
					return
				}
			}
			if v == ssa.Value(clean) {
				okSlash = false
				where = ret
				return
			}
		}
		for i, e := range phi.Edges {
			check(e, b.Preds[i], 0)
		}
	}
	c.Decide(okSlash, "canonical:trailing-slash", p.Pos(fn.Pos()), "inside the trailing-slash region the cleaned path never reaches the return without its slash", "where the input ended in '/' and needed cleaning, the bare path.Clean result (slash removed) is returned: /easy/live5// becomes /easy/live5, a directory route saved as /Cams// is stored as the exact pattern /cams, and a request ending in '/' resolves to a different route"+func() string {
		if where != nil {
			return " (" + p.InstrPos(where) + ")"
		}
		return ""
	}())
}

// ------------------------------------------------------------ R-SYNC-ANCHOR-ONCE

func ruleSyncAnchorOnce(c *Ctx) {
	p := c.P
	fn := p.Func("av/format/rtp", "(*depacketizer).Control")
	if fn == nil {
		c.Lost("rtp.depacketizer.Control", "not found")
		return
	}
	c.touched(fname(fn))
	n := 0
	instrs(fn, func(ins ssa.Instruction) {
		cc := callCommon(ins)
		if cc == nil || cc.StaticCallee() == nil || !strings.HasSuffix(funcFullName(cc.StaticCallee()), "SyncClock).Decode") {
			return
		}
		n++
		guarded := fieldEqEstablished(ins, "RTPTime", 0)
		c.Decide(guarded, "sync-anchor@"+fname(fn), p.InstrPos(ins), "the anchor is taken only while RTPTime == 0", "every RTCP sender report re-anchors the depacketiser clock: the first frame after a second report jumps (backwards when the report's NTP time lags), so presentation-time differences no longer equal RTP-timestamp differences")
	})
	if n == 0 {
		c.Lost("sync-anchor", "Control no longer decodes sender reports")
	}
}

// ------------------------------------------------------------ R-AU-HEADER-BITS

func ruleAuHeaderBits(c *Ctx) {
	p := c.P
	ctor := p.Func("av/format/rtp", "NewAacDepacketizer")
	if ctor == nil {
		c.Lost("rtp.NewAacDepacketizer", "not found")
		return
	}
	sizeLen, idxLen := int64(-1), int64(-1)
	instrs(ctor, func(ins ssa.Instruction) {
		if st, ok := ins.(*ssa.Store); ok {
			if f, _, ok := fieldAddr(st.Addr); ok {
				if k, ok := constInt(st.Val); ok {
					switch f.Name() {
					case "sizeLength":
						sizeLen = k
					case "indexLength":
						idxLen = k
					}
				}
			}
		}
	})
	c.Decide(sizeLen+idxLen == 16 && sizeLen == 13, "au-header:lengths", p.Pos(ctor.Pos()), "sizeLength 13 + indexLength 3 = 16 (AAC-hbr)", fmt.Sprintf("sizeLength=%d indexLength=%d do not make up the 16-bit AAC-hbr AU header", sizeLen, idxLen))
	fn := p.Func("av/format/rtp", "(*aacDepacketizer).depacketizeFor2ByteAUHeader")
	if fn == nil {
		c.Lost("rtp.aacDepacketizer.depacketizeFor2ByteAUHeader", "not found")
		return
	}
	c.touched(fname(fn))
	n := 0
	instrs(fn, func(ins ssa.Instruction) {
		shr, ok := ins.(*ssa.BinOp)
		if !ok || shr.Op != token.SHR {
			return
		}
		f, _, okf := fieldLoad(stripConv(shr.Y))
		if !okf || theProgram.baseFieldName(f) != "indexLength" {
			return
		}
		n++
		// any mask applied to the shifted header before it is used as a size
		var narrow *ssa.BinOp
		for _, ref := range *shr.Referrers() {
			v := ref
			for i := 0; i < 4; i++ {
				if cv, ok := v.(*ssa.Convert); ok && cv.Referrers() != nil && len(*cv.Referrers()) > 0 {
					v = (*cv.Referrers())[0]
					continue
				}
				break
			}
			if and, ok := v.(*ssa.BinOp); ok && and.Op == token.AND {
				if m, ok := constInt(and.Y); ok && m&((1<<uint(sizeLen))-1) != (1<<uint(sizeLen))-1 {
					narrow = and
				}
			}
		}
		if narrow != nil {
			m, _ := constInt(narrow.Y)
			c.Bad("au-header:size-field", p.InstrPos(narrow), fmt.Sprintf("the AU size is masked with %#x, narrower than the %d-bit AU-size field: access units of %d bytes and more are delivered truncated and the next AU in the packet is cut from the wrong offset", m, sizeLen, m+1))
		} else {
			c.OK("au-header:size-field", p.InstrPos(shr), "AU size = header >> indexLength, all sizeLength bits kept")
		}
	})
	if n == 0 {
		c.Bad("au-header:size-field", p.Pos(fn.Pos()), "the AU size is not obtained by shifting the AU header right by indexLength")
	}
}

// ------------------------------------------------------------ R-META-PARAMS-FIRST-ONLY

func ruleMetaParamsFirstOnly(c *Ctx) {
	p := c.P
	n := 0
	for _, t := range []string{"h264Depacketizer", "h265Depacketizer"} {
		fn := p.Func("av/format/rtp", "(*"+t+").writeFrame")
		if fn == nil {
			c.Lost("rtp."+t+".writeFrame", "not found")
			continue
		}
		c.touched(fname(fn))
		instrs(fn, func(ins ssa.Instruction) {
			st, ok := ins.(*ssa.Store)
			if !ok {
				return
			}
			f, base, ok := fieldAddr(st.Addr)
			if !ok || !typeIs(base.Type(), modRel("av/codec"), "VideoMeta") {
				return
			}
			switch f.Name() {
			case "Sps", "Pps", "Vps":
			default:
				return
			}
			n++
			lo := false
			// dominated by len(meta.X) == 0 (true edge)
			for _, d := range fn.Blocks {
				if d == st.Block() || !d.Dominates(st.Block()) {
					continue
				}
				ifi, ok := d.Instrs[len(d.Instrs)-1].(*ssa.If)
				if !ok {
					continue
				}
				bo, ok := ifi.Cond.(*ssa.BinOp)
				if !ok || bo.Op != token.EQL {
					continue
				}
				call, ok := stripConv(bo.X).(*ssa.Call)
				k, okk := constInt(bo.Y)
				if !ok || !okk || k != 0 || calleeName(&call.Call) != "builtin.len" {
					continue
				}
				if f2, _, ok := fieldLoad(call.Call.Args[0]); ok && f2 == f && d.Succs[0].Dominates(st.Block()) && len(d.Succs[0].Preds) == 1 {
					lo = true
				}
			}
			c.Decide(lo, fmt.Sprintf("meta-%s@%s", f.Name(), fname(fn)), p.InstrPos(st), "stored only while still empty", "every in-band "+f.Name()+" NAL overwrites the parameter set in the metadata shared with the remuxers: one truncated "+f.Name()+" replaces the good one, the FLV sequence-header builder panics on every later frame (contained, but no FLV tag is ever produced again) and TS prepends the garbage to every key frame")
		})
	}
	c.Floor("in-band parameter-set stores", n, 5)
}

// ------------------------------------------------------------ R-STUFF-ONLY-WHEN-SHORT

// gtEstablished: a > b holds at ins by a dominating comparison of exactly these two values.
func gtEstablished(ins ssa.Instruction, a, b ssa.Value) bool {
	blk := ins.Block()
	for _, d := range ins.Parent().Blocks {
		if d == blk || !d.Dominates(blk) || len(d.Instrs) == 0 {
			continue
		}
		ifi, ok := d.Instrs[len(d.Instrs)-1].(*ssa.If)
		if !ok {
			continue
		}
		bo, ok := ifi.Cond.(*ssa.BinOp)
		if !ok {
			continue
		}
		viaTrue := d.Succs[0].Dominates(blk) && len(d.Succs[0].Preds) == 1
		viaFalse := d.Succs[1].Dominates(blk) && len(d.Succs[1].Preds) == 1
		x, y := origin(bo.X), origin(bo.Y)
		aa, bb := origin(a), origin(b)
		switch {
		case viaTrue && bo.Op == token.GTR && x == aa && y == bb,
			viaTrue && bo.Op == token.LSS && x == bb && y == aa,
			viaFalse && bo.Op == token.LEQ && x == aa && y == bb,
			viaFalse && bo.Op == token.GEQ && x == bb && y == aa:
			return true
		}
	}
	return false
}

func ruleStuffOnlyWhenShort(c *Ctx) {
	p := c.P
	stuff := p.Func("av/format/mpegts", "fillStuff")
	if stuff == nil {
		c.Lost("mpegts.fillStuff", "not found")
		return
	}
	n := 0
	for _, ins := range p.CallersOf(stuff) {
		cc := callCommon(ins)
		if cc == nil || cc.StaticCallee() != stuff || len(cc.Args) < 4 {
			continue
		}
		caller := ins.Parent()
		n++
		c.touched(fname(caller))
		c.Decide(gtEstablished(ins, cc.Args[2], cc.Args[3]), "stuff-call@"+fname(caller), p.InstrPos(ins), "bodySize > inSize established at the call", "fillStuff is reached when the remaining data exactly fills the packet body (bodySize == inSize): with zero stuffing it still sets the adaptation-field flag, so the demultiplexer reads the first payload byte as adaptation_field_length and the PES data of that packet is garbled (frames whose ES length + PES header is 0 mod 184)")
	}
	if n == 0 {
		c.Lost("stuff-call", "no call of fillStuff")
	}
}

// ------------------------------------------------------------ R-STUFF-ADDS-TO-AF-LENGTH

func ruleStuffAddsToAfLength(c *Ctx) {
	p := c.P
	fn := p.Func("av/format/mpegts", "fillStuff")
	if fn == nil {
		c.Lost("mpegts.fillStuff", "not found")
		return
	}
	c.touched(fname(fn))
	// the test `pkt[3] & 0x20 != 0`
	var hasAF *ssa.BasicBlock
	var noAF *ssa.BasicBlock
	for _, b := range fn.Blocks {
		ifi, ok := b.Instrs[len(b.Instrs)-1].(*ssa.If)
		if !ok {
			continue
		}
		bo, ok := ifi.Cond.(*ssa.BinOp)
		if !ok || (bo.Op != token.NEQ && bo.Op != token.EQL) {
			continue
		}
		and, ok := stripConv(bo.X).(*ssa.BinOp)
		if !ok || and.Op != token.AND {
			continue
		}
		if m, ok := constInt(and.Y); !ok || m != 0x20 {
			continue
		}
		if bo.Op == token.NEQ {
			hasAF, noAF = b.Succs[0], b.Succs[1]
		} else {
			hasAF, noAF = b.Succs[1], b.Succs[0]
		}
	}
	if hasAF == nil {
		c.Lost("stuff:af-test", "the adaptation_field_control test (pkt[3] & 0x20) was not found")
		return
	}
	idxConst := func(addr ssa.Value) (int64, bool) {
		ia, ok := addr.(*ssa.IndexAddr)
		if !ok {
			return 0, false
		}
		return constInt(ia.Index)
	}
	var okAdd, seen bool
	var at ssa.Instruction
	instrs(fn, func(ins ssa.Instruction) {
		st, ok := ins.(*ssa.Store)
		if !ok || !hasAF.Dominates(st.Block()) {
			return
		}
		if k, ok := idxConst(st.Addr); !ok || k != 4 {
			return
		}
		seen = true
		at = st
		// value must be (load pkt[4]) + f(stuffSize)
		if add, ok := stripConv(st.Val).(*ssa.BinOp); ok && add.Op == token.ADD {
			for _, side := range []ssa.Value{add.X, add.Y} {
				if ld, ok := stripConv(side).(*ssa.UnOp); ok && ld.Op == token.MUL {
					if k, ok := idxConst(ld.X); ok && k == 4 {
						okAdd = true
					}
				}
			}
		}
	})
	switch {
	case !seen:
		c.Bad("stuff:af-length", p.Pos(fn.Pos()), "with an existing adaptation field the stuffing is inserted but adaptation_field_length (pkt[4]) is not updated")
	case okAdd:
		c.OK("stuff:af-length", p.InstrPos(at), "pkt[4] = pkt[4] + stuffing")
	default:
		c.Bad("stuff:af-length", p.InstrPos(at), "with an existing adaptation field (PCR packet) adaptation_field_length is overwritten instead of increased by the stuffing size: the 7 PCR bytes are no longer counted, the payload start is misparsed (a key frame whose whole PES fits into its first TS packet)")
	}
	// no-AF branch sets the flag
	flag := false
	instrs(fn, func(ins ssa.Instruction) {
		st, ok := ins.(*ssa.Store)
		if !ok || !(noAF == st.Block() || noAF.Dominates(st.Block())) {
			return
		}
		if k, ok := idxConst(st.Addr); ok && k == 3 {
			if or, ok := stripConv(st.Val).(*ssa.BinOp); ok && or.Op == token.OR {
				if m, ok := constInt(or.Y); ok && m == 0x20 {
					flag = true
				}
			}
		}
	})
	c.Decide(flag, "stuff:af-flag", p.Pos(fn.Pos()), "without an adaptation field the flag 0x20 is set", "stuffing is inserted without setting adaptation_field_control")
}

// ------------------------------------------------------------ R-FORCED-CUT-FACTOR

func ruleForcedCutFactor(c *Ctx) {
	p := c.P
	fn := p.Func("av/format/hls", "(*SegmentGenerator).isSegmentAbsolutelyOverflow")
	if fn == nil {
		c.Lost("hls.SegmentGenerator.isSegmentAbsolutelyOverflow", "not found")
		return
	}
	c.touched(fname(fn))
	n := 0
	instrs(fn, func(ins ssa.Instruction) {
		mul, ok := ins.(*ssa.BinOp)
		if !ok || mul.Op != token.MUL {
			return
		}
		dep := false
		for _, side := range []ssa.Value{mul.X, mul.Y} {
			walkDeps(side, func(x ssa.Value) bool {
				if f, _, ok := fieldLoad(x); ok && theProgram.baseFieldName(f) == "hlsFragment" {
					dep = true
				}
				return true
			})
		}
		if !dep {
			return
		}
		var factor float64 = -1
		for _, side := range []ssa.Value{mul.X, mul.Y} {
			if cst, ok := side.(*ssa.Const); ok && cst.Value != nil {
				if cst.IsNil() {
					continue
				}
				factor = cst.Float64()
			}
		}
		n++
		c.Decide(factor >= 2, "forced-cut-factor", p.InstrPos(mul), fmt.Sprintf("forced cut at %.4g x fragment", factor), fmt.Sprintf("the forced (audio-triggered) cut fires at %.4g x the fragment length: with a GOP between that and 2 x fragment an audio frame cuts the segment mid-GOP and the next segment starts its video with a non-IDR slice and no SPS/PPS", factor))
	})
	if n == 0 {
		c.Undecided("forced-cut-factor", p.Pos(fn.Pos()), "the threshold is not a constant multiple of hlsFragment")
	}
}

// ------------------------------------------------------------ R-SEGMENT-FILE-TRUNC

func ruleSegmentFileTrunc(c *Ctx) {
	p := c.P
	n := 0
	for _, fn := range p.FuncsInPkg("av/format/hls") {
		instrs(fn, func(ins ssa.Instruction) {
			cc := callCommon(ins)
			if cc == nil || calleeName(cc) != "os.OpenFile" {
				return
			}
			flags, ok := evalInt(cc.Args[1])
			if !ok {
				c.Undecided("segment-open@"+fname(fn), p.InstrPos(ins), "open flags are not constant")
				return
			}
			const oWRONLY, oRDWR, oCREATE, oEXCL, oTRUNC = 0x1, 0x2, 0x40, 0x80, 0x200
			if flags&(oWRONLY|oRDWR) == 0 {
				return // read side
			}
			n++
			c.touched(fname(fn))
			c.Decide(flags&oTRUNC != 0 || flags&oEXCL != 0, "segment-open@"+fname(fn), p.InstrPos(ins), "segment file opened with O_TRUNC/O_EXCL", fmt.Sprintf("a segment file is opened for writing with flags %#x, without O_TRUNC: after an unclean shutdown a shorter new segment overwrites only the start of the leftover <hash>_<seq>.ts and the served segment is the new bytes followed by the stale tail", flags))
		})
	}
	c.Floor("segment files opened for writing", n, 1)
}

// ------------------------------------------------------------ R-RTP-TIME-MODULAR

func ruleRtpTimeModular(c *Ctx) {
	p := c.P
	n := 0
	for _, fn := range p.FuncsInPkg("av/format/rtp") {
		if fn.Signature.Recv() == nil || !typeIs(fn.Signature.Recv().Type(), modRel("av/format/rtp"), "SyncClock") {
			continue
		}
		ord := 0
		instrs(fn, func(ins ssa.Instruction) {
			sub, ok := ins.(*ssa.BinOp)
			if !ok || sub.Op != token.SUB {
				return
			}
			is32 := func(v ssa.Value) (ssa.Value, bool) {
				cv, ok := v.(*ssa.Convert)
				if !ok {
					return nil, false
				}
				b, ok := cv.X.Type().Underlying().(*types.Basic)
				if !ok || b.Kind() != types.Uint32 {
					return nil, false
				}
				return cv.X, true
			}
			x, okx := is32(sub.X)
			y, oky := is32(sub.Y)
			if !okx || !oky {
				return
			}
			// both operands are raw RTP timestamps (parameter / RTPTime field)
			isTs := func(v ssa.Value) bool {
				if _, isParam := origin(v).(*ssa.Parameter); isParam {
					return true
				}
				if f, _, ok := fieldLoad(v); ok && strings.Contains(f.Name(), "RTP") {
					return true
				}
				return false
			}
			if !isTs(x) || !isTs(y) {
				return
			}
			ord++
			n++
			c.touched(fname(fn))
			c.Bad(fmt.Sprintf("rtp-diff#%d@%s", ord, fname(fn)), p.InstrPos(sub), "two raw 32-bit RTP timestamps are widened to 64 bits and then subtracted: when the sender's timestamp wraps (random start value, 2^32 ticks = 13.25 h at 90 kHz) the difference drops by 2^32 ticks and the presentation time of every later frame jumps back by that much - presentation-time differences no longer equal RTP-timestamp differences")
		})
	}
	if n == 0 {
		c.OK("rtp-diff", "", "no widened raw-timestamp difference in the sync clock (differences are modular or wrap-extended)")
	}
}
