package main

import (
	"fmt"
	"go/token"
	"strings"

	"golang.org/x/tools/go/ssa"
)

func init() {
	register(&PropertyDef{
		ID: "C04",
		Explanation: "Static analysis of the publisher/consumer decoupling. Decided: (1) from Stream.WriteRtpPacket/WriteFlvTag/WriteFrame the module-bounded call graph reaches no blocking operation (network/file I/O, Cond.Wait, Sleep, channel operations) and no Consumer.Consume implementation - the publisher only enqueues; (2) consumption.consume registers, before its loop, a deferred closure that recovers, detaches (StopConsume) and closes the consumer on every path, itself protected by an inner recover; (3) the discarding flag is switched on only on the key-frame edge when the queue length exceeds the limit and off only on the key-frame edge when it is below, and pushes happen exactly when not discarding; (4) the limit stored is the constant 1000; (5) the key-frame flag given to send is the cache's classification of the same packet.",
		NotDecided: "The numeric backlog bound for arbitrary GOP lengths, latency, and that the caches classify every packetisation correctly (value-level).",
		Rules: []*RuleDoc{
			{Name: "R-PUBLISHER-NONBLOCKING", Text: "From Stream.WriteRtpPacket, WriteFlvTag, WriteFrame the call graph reaches none of: a media.Consumer.Consume implementation, network/file/websocket/http I/O, (*sync.Cond).Wait, WaitGroup.Wait, time.Sleep, channel send/receive/select.", Run: rulePublisherNonblocking},
			{Name: "R-CONSUME-CONTAINED", Text: "consumption.consume registers before the loop a deferred closure that calls recover, Stream.StopConsume and consumer.Close on every path, with an inner deferred recover around those.", Run: ruleConsumeContained},
			{Name: "R-DISCARD-AT-KEYFRAME", Text: "Every store to consumption.discarding lies on the true edge of send's keyframe parameter; true only after Len() > maxQLen, false only after Len() < maxQLen; no other function writes it.", Run: ruleDiscardAtKeyframe},
			{Name: "R-SEND-ONCE", Text: "(shared with C01) push exactly once iff not discarding.", Run: ruleSendOnce},
			{Name: "R-LIMIT-CONST", Text: "Every value stored to consumption.maxQLen is the constant 1000.", Run: ruleLimitConst},
			{Name: "R-KEYFRAME-FLAG", Text: "(shared with C01) the keyframe flag passed down to send is CachePack's result for the same packet.", Run: ruleSameObject},
		},
	})
	addMutants(
		&Mutant{Prop: "C04", Name: "c04-inline-consume", File: "media/consumption.go",
			Old: "\tif !c.discarding {\n\t\tc.recvQueue.Push(pack)",
			New: "\tif !c.discarding && c.recvQueue.Len() == 0 && c.maxQLen < 0 {\n\t\tc.consumer.Consume(pack)\n\t}\n\tif !c.discarding {\n\t\tc.recvQueue.Push(pack)",
			Expect: "R-PUBLISHER-NONBLOCKING"},
		&Mutant{Prop: "C04", Name: "c04-discard-any-packet", File: "media/consumption.go",
			Old: "\tif keyframe { // 是 key frame\n\t\tn := c.recvQueue.Len()",
			New: "\tif keyframe || c.recvQueue.Len() > 4*c.maxQLen { // 是 key frame\n\t\tn := c.recvQueue.Len()",
			Expect: "R-DISCARD-AT-KEYFRAME"},
		&Mutant{Prop: "C04", Name: "c04-no-detach-on-panic", File: "media/consumption.go",
			Old: "\t\tif r := recover(); r != nil {\n\t\t\tc.logger.Errorf(\"consume routine panic；r = %v \\n %s\", r, debug.Stack())\n\t\t}",
			New: "\t\tif r := recover(); r != nil {\n\t\t\tc.logger.Errorf(\"consume routine panic；r = %v \\n %s\", r, debug.Stack())\n\t\t\treturn\n\t\t}",
			Expect: "R-CONSUME-CONTAINED"},
		&Mutant{Prop: "C04", Name: "c04-limit-raised", File: "media/stream.go",
			Old: "maxQLen:    1000,", New: "maxQLen:    100000,", Expect: "R-LIMIT-CONST"},
		&Mutant{Prop: "C04", Name: "c04-resume-midgop", File: "media/consumption.go",
			Old: "\tif !c.discarding {\n\t\tc.recvQueue.Push(pack)",
			New: "\tif c.discarding && c.recvQueue.Len() == 0 {\n\t\tc.discarding = false\n\t}\n\tif !c.discarding {\n\t\tc.recvQueue.Push(pack)",
			Expect: "R-DISCARD-AT-KEYFRAME"},
		&Mutant{Prop: "C04", Name: "c04-sleep-in-publisher", File: "media/consumptions.go",
			Old: "\t\tc.send(p, keyframe)\n\t\treturn true",
			New: "\t\tfor c.recvQueue.Len() > 4*c.maxQLen {\n\t\t\ttime.Sleep(time.Millisecond)\n\t\t}\n\t\tc.send(p, keyframe)\n\t\treturn true",
			More: []Edit{{"media/consumptions.go", "import (\n\t\"sort\"", "import (\n\t\"time\"\n\t\"sort\""}},
			Expect: "R-PUBLISHER-NONBLOCKING"},
	)
}

// blockingLeaf classifies an external callee as a blocking operation.
func blockingLeaf(name string) (bool, string) {
	switch {
	case name == "(*sync.Cond).Wait", name == "(*sync.WaitGroup).Wait", name == "time.Sleep":
		return true, "blocks the caller"
	case strings.HasPrefix(name, "(*net.") || strings.HasPrefix(name, "(net.") || strings.HasPrefix(name, "net."):
		if strings.HasSuffix(name, ").String") || strings.HasSuffix(name, "Addr") || strings.HasPrefix(name, "net.ParseIP") || strings.HasPrefix(name, "net.JoinHostPort") || strings.HasPrefix(name, "net.SplitHostPort") {
			return false, ""
		}
		return true, "network I/O"
	case strings.HasPrefix(name, "(*net/http.") || strings.HasPrefix(name, "(net/http.") || strings.HasPrefix(name, "net/http."):
		return true, "HTTP I/O"
	case strings.Contains(name, "gorilla/websocket") || strings.Contains(name, "golang.org/x/net/websocket"):
		return true, "WebSocket I/O"
	case strings.HasPrefix(name, "(*os.File).") || name == "os.OpenFile" || name == "os.Create" || name == "os.Remove" || name == "os.Rename" || strings.HasPrefix(name, "io/ioutil.") || name == "os.WriteFile" || name == "os.ReadFile":
		return true, "file I/O"
	case strings.HasPrefix(name, "(*bufio.Writer).") || strings.HasPrefix(name, "(*bufio.Reader).Read") || strings.HasPrefix(name, "(*bufio.ReadWriter)."):
		return true, "buffered connection I/O"
	case name == "io.ReadFull" || name == "io.Copy" || name == "io.ReadAtLeast":
		return true, "reader I/O"
	case strings.HasPrefix(name, "unresolved:(io.Writer)") || strings.HasPrefix(name, "unresolved:(io.Reader)") || strings.HasPrefix(name, "unresolved:(net.Conn)"):
		return true, "unresolved I/O interface call"
	}
	return false, ""
}

func rulePublisherNonblocking(c *Ctx) {
	p := c.P
	var roots []*ssa.Function
	for _, n := range []string{"(*Stream).WriteRtpPacket", "(*Stream).WriteFlvTag", "(*Stream).WriteFrame"} {
		f := p.Func("media", n)
		if f == nil {
			c.Lost(n, "publisher entry point not found")
			return
		}
		roots = append(roots, f)
	}
	consume := map[*ssa.Function]bool{}
	for _, f := range consumerImpls(p) {
		consume[f] = true
	}
	c.Floor("Consume implementations", len(consume), 7)
	r := p.Reach(roots, func(from *ssa.Function, e Edge) bool {
		return e.Kind != EdgeGo
	})
	c.Floor("module functions reached from the publisher entry points", len(r.Funcs), 20)
	bad := 0
	for _, f := range r.SortedFuncs() {
		c.touched(fname(f))
		if consume[f] {
			bad++
			c.Bad("reaches-consume:"+fname(f), p.Pos(f.Pos()), "the publisher path calls a consumer's Consume synchronously: a stalled consumer then blocks the publisher and every other consumer", r.Chain(f)...)
		}
		instrs(f, func(ins ssa.Instruction) {
			what := ""
			switch x := ins.(type) {
			case *ssa.Send:
				what = "channel send"
			case *ssa.Select:
				if x.Blocking {
					what = "blocking select"
				}
			case *ssa.UnOp:
				if x.Op == token.ARROW {
					what = "channel receive"
				}
			}
			if what != "" {
				bad++
				c.Bad("blocking-op:"+fname(f), p.InstrPos(ins), what+" on the publisher path", r.Chain(f)...)
			}
		})
	}
	for leaf, sites := range r.Leaves {
		c.sites += len(sites)
		if isBlk, why := blockingLeaf(leaf); isBlk {
			for _, s := range sites {
				if leaf == "io.ReadFull" || leaf == "io.ReadAtLeast" || leaf == "io.Copy" {
					cc := callCommon(s)
					ri := 0
					if leaf == "io.Copy" {
						ri = 1
					}
					if inMemoryReader(p, cc.Args[ri], 5, r.Funcs) {
						continue
					}
				}
				bad++
				c.Bad("blocking-call:"+leaf+"@"+fname(s.Parent()), p.InstrPos(s), "publisher path reaches "+leaf+" ("+why+")", r.Chain(r.LeafIn[s])...)
			}
		}
	}
	if bad == 0 {
		c.OK("publisher-path", p.Pos(roots[0].Pos()), fmt.Sprintf("%d module functions and %d distinct external callees reached; none blocking, no Consume implementation", len(r.Funcs), len(r.Leaves)))
	}
}

func ruleConsumeContained(c *Ctx) {
	p := c.P
	consume := p.Func("media", "(*consumption).consume")
	stop := p.Func("media", "(*Stream).StopConsume")
	if consume == nil || stop == nil {
		c.Lost("consumption.consume", "not found")
		return
	}
	c.touched(fname(consume))
	// the Consume call site (the per-packet transport call)
	var consumeCall ssa.Instruction
	instrs(consume, func(ins ssa.Instruction) {
		if cc := callCommon(ins); cc != nil && cc.IsInvoke() && cc.Method.Name() == "Consume" {
			consumeCall = ins
		}
	})
	if consumeCall == nil {
		c.Lost("consume.Consume-call", "call to consumer.Consume not found in consume")
		return
	}
	var good *ssa.Defer
	instrs(consume, func(ins ssa.Instruction) {
		d, ok := ins.(*ssa.Defer)
		if !ok {
			return
		}
		df := deferredFunc(d)
		if df == nil || !callsRecover(df) {
			return
		}
		if dominatesInstr(d, consumeCall) {
			good = d
		}
	})
	if good == nil {
		c.Bad("consume:recover-before-loop", p.Pos(consume.Pos()), "no deferred closure calling recover is registered before consumer.Consume is called: a panicking consumer kills the process")
		return
	}
	c.OK("consume:recover-before-loop", p.InstrPos(good), "deferred recover dominates the Consume call")
	df := deferredFunc(good)
	c.touched(fname(df))
	// inside the deferred closure: inner recover defer first, then on every path StopConsume and Close
	var innerOK bool
	var firstCall ssa.Instruction
	instrs(df, func(ins ssa.Instruction) {
		if d, ok := ins.(*ssa.Defer); ok {
			if f := deferredFunc(d); f != nil && callsRecover(f) && d.Block() == df.Blocks[0] {
				innerOK = true
			}
		}
		if firstCall == nil {
			if cc := callCommon(ins); cc != nil {
				if _, isD := ins.(*ssa.Defer); !isD {
					if b, isB := cc.Value.(*ssa.Builtin); !isB || b.Name() != "recover" {
						firstCall = ins
					}
				}
			}
		}
	})
	c.Decide(innerOK, "consume.defer:inner-recover", p.Pos(df.Pos()), "cleanup is itself protected by a deferred recover", "the cleanup closure has no inner deferred recover: a panic in StopConsume/Close escapes the goroutine")
	type st struct{ Stop, Close int8 }
	r := &PathRule[st]{Fn: df, Init: []st{{}},
		Transfer: func(s st, ins ssa.Instruction) []st {
			if _, isD := ins.(*ssa.Defer); isD {
				return nil
			}
			if callsFunc(ins, stop) {
				s.Stop = 1
				return []st{s}
			}
			if cc := callCommon(ins); cc != nil && cc.IsInvoke() && cc.Method.Name() == "Close" {
				if f, _, ok := fieldLoad(cc.Value); ok && theProgram.baseFieldName(f) == "consumer" {
					s.Close = 1
					if s.Stop != 1 {
						s.Close = 2 // closed while still attached
					}
					return []st{s}
				}
			}
			return nil
		}}
	res := RunPath(r)
	c.paths += res.N
	ok := true
	for ret, sts := range res.Exits() {
		for _, s := range sts {
			if s.Close == 2 {
				ok = false
				c.Bad("consume.defer:detach-and-close", p.InstrPos(ret), "the cleanup closes the consumer before it detaches it: if that Close panics (it just failed in Consume) or never returns, StopConsume is not reached, the dead consumer stays registered, the count stays up and the publisher keeps filling a queue nobody reads")
			} else if s.Stop != 1 || s.Close != 1 {
				ok = false
				c.Bad("consume.defer:detach-and-close", p.InstrPos(ret), fmt.Sprintf("a path of the cleanup closure returns without StopConsume(%v)/consumer.Close(%v): a failed consumer stays attached or its connection stays open", s.Stop == 1, s.Close == 1))
			}
		}
	}
	if ok {
		c.OK("consume.defer:detach-and-close", p.Pos(df.Pos()), "every path detaches and closes")
	}
}

func ruleDiscardAtKeyframe(c *Ctx) {
	p := c.P
	send := p.Func("media", "(*consumption).send")
	disc := p.FieldVar("media", "consumption", "discarding")
	maxq := p.FieldVar("media", "consumption", "maxQLen")
	if send == nil || disc == nil || maxq == nil {
		c.Lost("consumption.send/discarding/maxQLen", "not found")
		return
	}
	// no other writer
	nstores := 0
	for _, fn := range p.ModFuncs() {
		instrs(fn, func(ins ssa.Instruction) {
			st, ok := ins.(*ssa.Store)
			if !ok {
				return
			}
			if f, _, ok := fieldAddr(st.Addr); ok && f == disc {
				nstores++
				if fn != send {
					c.Bad("discarding-writer:"+fname(fn), p.InstrPos(ins), "consumption.discarding is written outside consumption.send")
				}
			}
		})
	}
	c.Floor("stores to consumption.discarding", nstores, 2)
	kf := paramOf(send, "keyframe")
	if kf == nil && len(send.Params) == 3 {
		kf = send.Params[2]
	}
	if kf == nil {
		c.Lost("send.keyframe", "keyframe parameter not found")
		return
	}
	c.touched(fname(send))
	type st struct{ K, GT, LT bool }
	isLenVsMax := func(cond ssa.Value) (op token.Token, ok bool) {
		b, isb := cond.(*ssa.BinOp)
		if !isb {
			return 0, false
		}
		x, y, o := b.X, b.Y, b.Op
		isLen := func(v ssa.Value) bool {
			call, ok := origin(v).(*ssa.Call)
			return ok && calleeName(&call.Call) == "(*"+queuePkg+".SyncQueue).Len" && classifyQueueRecv(call.Call.Args[0]) == "field:media.consumption.recvQueue"
		}
		isMax := func(v ssa.Value) bool {
			f, _, ok := fieldLoad(origin(v))
			return ok && f == maxq
		}
		if isLen(x) && isMax(y) {
			return o, true
		}
		if isMax(x) && isLen(y) {
			switch o {
			case token.LSS:
				return token.GTR, true
			case token.LEQ:
				return token.GEQ, true
			case token.GTR:
				return token.LSS, true
			case token.GEQ:
				return token.LEQ, true
			}
		}
		return 0, false
	}
	r := &PathRule[st]{Fn: send, Init: []st{{}},
		Branch: func(s st, cond ssa.Value, taken bool) (st, bool) {
			cv, neg := condNeg(cond)
			val := taken != neg
			if origin(cv) == kf {
				if val {
					s.K = true
				}
				return s, true
			}
			if op, ok := isLenVsMax(cv); ok {
				if !val {
					switch op { // negate
					case token.GTR:
						op = token.LEQ
					case token.GEQ:
						op = token.LSS
					case token.LSS:
						op = token.GEQ
					case token.LEQ:
						op = token.GTR
					}
				}
				switch op {
				case token.GTR, token.GEQ:
					s.GT = true
				case token.LSS, token.LEQ:
					s.LT = true
				}
			}
			return s, true
		}}
	res := RunPath(r)
	c.paths += res.N
	seen := map[string]bool{}
	res.Visit(func(ins ssa.Instruction, s st) {
		sto, ok := ins.(*ssa.Store)
		if !ok {
			return
		}
		f, _, ok := fieldAddr(sto.Addr)
		if !ok || f != disc {
			return
		}
		b, isc := constBool(sto.Val)
		key := fmt.Sprintf("discarding=%v", b)
		if !isc {
			c.Undecided("discarding=non-const", p.InstrPos(ins), "discarding assigned a non-constant value")
			return
		}
		good := s.K && (b && s.GT || !b && s.LT)
		if !good {
			seen[key] = true
			c.Bad(key, p.InstrPos(ins), fmt.Sprintf("discarding set to %v on a path with keyframe-edge=%v, Len>max=%v, Len<max=%v: dropping would begin or end in the middle of a GOP or on the wrong backlog condition", b, s.K, s.GT, s.LT))
		} else if !seen[key] {
			seen[key] = true
			c.OK(key, p.InstrPos(ins), "toggled only on the key-frame edge under the matching backlog comparison")
		}
	})
}

func ruleLimitConst(c *Ctx) {
	p := c.P
	maxq := p.FieldVar("media", "consumption", "maxQLen")
	if maxq == nil {
		c.Lost("consumption.maxQLen", "field not found")
		return
	}
	n := 0
	for _, fn := range p.ModFuncs() {
		instrs(fn, func(ins ssa.Instruction) {
			st, ok := ins.(*ssa.Store)
			if !ok {
				return
			}
			if f, _, ok := fieldAddr(st.Addr); ok && f == maxq {
				n++
				c.touched(fname(fn))
				k, isc := constInt(st.Val)
				c.Decide(isc && k == 1000, "maxQLen-store@"+fname(fn), p.InstrPos(ins), "limit is the constant 1000", fmt.Sprintf("consumption.maxQLen is stored %s, the property's fixed limit is 1000", st.Val))
			}
		})
	}
	c.Floor("stores to maxQLen", n, 1)
}

// inMemoryReader reports whether the io.Reader value v is, on every call
// chain (bounded depth), a *bytes.Reader / *bytes.Buffer / *strings.Reader.
func inMemoryReader(p *Program, v ssa.Value, depth int, within map[*ssa.Function]bool) bool {
	v = origin(v)
	if mi, ok := v.(*ssa.MakeInterface); ok {
		v = mi.X
	}
	t := v.Type()
	if typeIs(t, "bytes", "Reader") || typeIs(t, "bytes", "Buffer") || typeIs(t, "strings", "Reader") {
		return true
	}
	if c, ok := v.(*ssa.Call); ok {
		n := calleeName(&c.Call)
		if n == "bytes.NewReader" || n == "bytes.NewBuffer" || n == "strings.NewReader" || n == "bytes.NewBufferString" {
			return true
		}
	}
	par, ok := v.(*ssa.Parameter)
	if !ok || depth == 0 {
		return false
	}
	fn := par.Parent()
	idx := -1
	for i, q := range fn.Params {
		if q == par {
			idx = i
		}
	}
	sites := p.CallersOf(fn)
	if idx < 0 || len(sites) == 0 {
		return false
	}
	n := 0
	for _, s := range sites {
		if within != nil && !within[s.Parent()] {
			continue // caller is not on a chain from the analysed roots
		}
		n++
		cc := callCommon(s)
		ai := idx
		if cc.IsInvoke() {
			ai--
		}
		if ai < 0 || ai >= len(cc.Args) || !inMemoryReader(p, cc.Args[ai], depth-1, within) {
			return false
		}
	}
	return n > 0
}
