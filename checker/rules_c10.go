package main

import (
	"fmt"
	"go/token"
	"go/types"
	"sort"
	"strings"

	"golang.org/x/tools/go/ssa"
)

func init() {
	register(&PropertyDef{
		ID: "C10",
		Explanation: "Static analysis of the HLS playlist and segment store. Decided: (1) R-POOL-NO-ESCAPE - for every bytes.Buffer that comes from a sync.Pool and is put back (in the same function or, for a buffer kept in a struct field, anywhere in the package), the slice returned by Bytes() and readers/slices built over it are never returned, stored to the heap or captured - they are only copied from or handed to a Write; otherwise a concurrent request (playlist) or a rollover (segment) recycles the bytes a client is still being sent; (2) R-PLAYLIST-LOCKED - every access to Playlist.segments holds the playlist lock (write mode for mutation), clearSegments is only called with the write lock held; (3) R-CUT-AT-KEYFRAME - every segment cut (reapSegment) is dominated by the key-frame test of the frame being written; (4) R-WINDOW - one constant (3) feeds both the readiness test of M3u8 and the retention bound of addSegment, every addSegment trims, Close trims to 0; (5) R-M3U8-FIELDS - media-sequence is the first listed segment's number, target duration derives from the maximum of the listed durations, the token is appended when given; Segment(seq) returns the file of the entry whose number equals seq; (6) R-SEGMENT-CLOSE - segmentClose either publishes the segment to the playlist or (too short) deletes it and reuses its number, exactly one of the two.",
		NotDecided: "Sequence arithmetic and durations as values, byte identity of a fetched segment, exactly-once of frames across segments.",
		Rules: []*RuleDoc{
			{Name: "R-POOL-NO-ESCAPE", Text: "Bytes() of a pooled buffer (and slices/readers over it) is never returned, stored to the heap or captured; passing it to Write/copy/append-source is allowed.", Run: rulePoolNoEscape},
			{Name: "R-PLAYLIST-LOCKED", Text: "Every read of Playlist.segments holds Playlist.l (R or W), every write holds it in W mode; clearSegments is called only with W held.", Run: rulePlaylistLocked},
			{Name: "R-CUT-AT-KEYFRAME", Text: "Every call of SegmentGenerator.reapSegment is dominated by the true edge of frame.IsKeyFrame().", Run: ruleCutAtKeyframe},
			{Name: "R-WINDOW", Text: "hlsRemainSegments (=3) is the readiness bound in M3u8 and the retention bound passed to clearSegments in addSegment; Close clears to 0.", Run: ruleWindow},
			{Name: "R-M3U8-FIELDS", Text: "MEDIA-SEQUENCE = segments[0].sequenceNo; TARGETDURATION derives from the maximum listed duration; URIs carry the token when non-empty; Segment(seq) returns the entry with sequenceNo == seq.", Run: ruleM3u8Fields},
			{Name: "R-SEGMENT-CLOSE", Text: "segmentClose: on every path with an open segment exactly one of {playlist.addSegment, sequenceNo-- with file.delete}.", Run: ruleSegmentClose},
		},
	})
	addMutants(
		&Mutant{Prop: "C10", Name: "c10-m3u8-returns-pooled", File: "av/format/hls/playlist.go",
			Old: "\treturn append([]byte(nil), w.Bytes()...), nil", New: "\treturn w.Bytes(), nil", Expect: "R-POOL-NO-ESCAPE"},
		&Mutant{Prop: "C10", Name: "c10-segment-read-unlocked", File: "av/format/hls/playlist.go",
			Old: "func (pl *Playlist) Segment(seq int) (io.Reader, int, error) {\n\tatomic.StoreInt64(&pl.lastAccessTime, time.Now().UnixNano())\n\tpl.l.RLock()\n\tdefer pl.l.RUnlock()\n", New: "func (pl *Playlist) Segment(seq int) (io.Reader, int, error) {\n\tatomic.StoreInt64(&pl.lastAccessTime, time.Now().UnixNano())\n", Expect: "R-PLAYLIST-LOCKED"},
		&Mutant{Prop: "C10", Name: "c10-get-outside-lock", File: "av/format/hls/playlist.go",
			Old: "\tpl.l.RLock()\n\tdefer pl.l.RUnlock()\n\n\tfor _, seg := range pl.segments {\n\t\tif seg.sequenceNo == seq {\n\t\t\treturn seg.file.get()\n\t\t}\n\t}\n\treturn nil, 0, errors.New(\"Not found TSFile\")", New: "\tvar hit *segment\n\tpl.l.RLock()\n\tfor _, seg := range pl.segments {\n\t\tif seg.sequenceNo == seq {\n\t\t\thit = seg\n\t\t}\n\t}\n\tpl.l.RUnlock()\n\tif hit != nil {\n\t\treturn hit.file.get()\n\t}\n\treturn nil, 0, errors.New(\"Not found TSFile\")", Expect: "R-PLAYLIST-LOCKED"},
		&Mutant{Prop: "C10", Name: "c10-cut-on-any-video", File: "av/format/hls/segmentgenerator.go",
			Old: "\tif frame.IsKeyFrame() && sg.isSegmentOverflow() {", New: "\tif (frame.IsKeyFrame() && sg.isSegmentOverflow()) || sg.current.duration >= float64(3*sg.hlsFragment) {", Expect: "R-CUT-AT-KEYFRAME"},
		&Mutant{Prop: "C10", Name: "c10-keep-four", File: "av/format/hls/playlist.go",
			Old: "\tpl.clearSegments(hlsRemainSegments)", New: "\tpl.clearSegments(hlsRemainSegments + 1)", Expect: "R-WINDOW"},
		&Mutant{Prop: "C10", Name: "c10-media-sequence-last", File: "av/format/hls/playlist.go",
			Old: "\tseq := segments[0].sequenceNo", New: "\tseq := segments[len(segments)-1].sequenceNo", Expect: "R-M3U8-FIELDS"},
		&Mutant{Prop: "C10", Name: "c10-short-segment-number-kept", File: "av/format/hls/segmentgenerator.go",
			Old: "\t\t// reuse current segment index\n\t\tsg.sequenceNo--\n", New: "\t\t// reuse current segment index\n", Expect: "R-SEGMENT-CLOSE"},
		&Mutant{Prop: "C10", Name: "c10-memory-segment-alias", File: "av/format/hls/segmentfile.go",
			Old: "\tdata := append([]byte(nil), mf.file.Bytes()...)", New: "\tdata := mf.file.Bytes()", Expect: "R-POOL-NO-ESCAPE"},
	)
}

// ------------------------------------------------------------ R-POOL-NO-ESCAPE

// pooledFields returns struct fields (by *types.Var) that are assigned a value
// obtained from (*sync.Pool).Get somewhere in the module.
func pooledFields(p *Program) map[*types.Var]string {
	out := map[*types.Var]string{}
	for _, fn := range p.ModFuncs() {
		instrs(fn, func(ins ssa.Instruction) {
			st, ok := ins.(*ssa.Store)
			if !ok {
				return
			}
			f, _, ok := fieldAddr(st.Addr)
			if !ok {
				return
			}
			if isPoolGet(st.Val) {
				out[f] = p.InstrPos(ins)
			}
		})
	}
	return out
}

func isPoolGet(v ssa.Value) bool {
	v = origin(v)
	if ta, ok := v.(*ssa.TypeAssert); ok {
		v = origin(ta.X)
	}
	call, ok := v.(*ssa.Call)
	return ok && calleeName(&call.Call) == "(*sync.Pool).Get"
}

func rulePoolNoEscape(c *Ctx) {
	p := c.P
	pf := pooledFields(p)
	nPooled := 0
	for _, fn := range p.ModFuncs() {
		instrs(fn, func(ins ssa.Instruction) {
			call, ok := ins.(*ssa.Call)
			if !ok || calleeName(&call.Call) != "(*bytes.Buffer).Bytes" {
				return
			}
			recv := call.Call.Args[0]
			pooled, how := false, ""
			if isPoolGet(recv) {
				pooled, how = true, "taken from a sync.Pool in this function"
			} else if f, _, ok := fieldLoad(origin(recv)); ok {
				if at, isP := pf[f]; isP {
					pooled, how = true, "field "+f.Name()+" holds a pooled buffer (assigned from sync.Pool.Get at "+at+")"
				}
			}
			if !pooled {
				return
			}
			nPooled++
			c.sites++
			c.touched(fname(fn))
			key := "pooled-bytes@" + fname(fn)
			// follow derived values
			bad := ""
			var badAt ssa.Instruction
			seen := map[ssa.Value]bool{}
			var follow func(v ssa.Value)
			follow = func(v ssa.Value) {
				if seen[v] || bad != "" {
					return
				}
				seen[v] = true
				for _, r := range referrersOf(v) {
					switch x := r.(type) {
					case *ssa.Return:
						bad, badAt = "is returned to the caller", r
					case *ssa.Store:
						if x.Val == v {
							if _, isAlloc := addrRoot(x.Addr).(*ssa.Alloc); isAlloc && !addrEscapes(x.Addr) {
								// local variable: follow loads
								if al, ok := x.Addr.(*ssa.Alloc); ok {
									for _, r2 := range referrersOf(al) {
										if u, ok := r2.(*ssa.UnOp); ok {
											follow(u)
										}
									}
								}
							} else {
								bad, badAt = "is stored to the heap", r
							}
						}
					case *ssa.MakeClosure:
						bad, badAt = "is captured by a closure", r
					case *ssa.Slice:
						follow(x)
					case *ssa.MakeInterface:
						follow(x)
					case *ssa.ChangeType:
						follow(x)
					case *ssa.Phi:
						follow(x)
					case *ssa.Call:
						n := calleeName(&x.Call)
						switch {
						case n == "bytes.NewReader" || n == "bytes.NewBuffer" || n == "bufio.NewReader" || n == "bytes.NewBufferString":
							follow(x) // a reader over the same bytes
						case n == "builtin.append":
							// append(dst, v...) copies v; append(v, ...) aliases v
							if len(x.Call.Args) > 0 && x.Call.Args[0] == v {
								follow(x)
							}
						}
						// other calls: io.Writer contract / copy: not retained
					case *ssa.Send:
						bad, badAt = "is sent on a channel", r
					}
				}
			}
			follow(call)
			if bad != "" {
				c.Bad(key, p.InstrPos(badAt), "the slice aliasing a pooled buffer ("+how+") "+bad+": once the buffer is returned to the pool another request/segment overwrites the bytes the client is still being sent")
			} else {
				c.OK(key+"#"+p.InstrPos(ins), p.InstrPos(ins), "aliasing slice is only copied from / written, never retained")
			}
		})
	}
	c.Floor("Bytes() calls on pooled buffers", nPooled, 5)
}

// addrEscapes: the alloc behind addr is captured or its address passed on.
func addrEscapes(addr ssa.Value) bool {
	al, ok := addrRoot(addr).(*ssa.Alloc)
	if !ok {
		return true
	}
	return al.Heap && func() bool {
		for _, r := range referrersOf(al) {
			switch r.(type) {
			case *ssa.MakeClosure, *ssa.Return, *ssa.MakeInterface:
				return true
			}
		}
		return false
	}()
}

// ------------------------------------------------------------ R-PLAYLIST-LOCKED

func rulePlaylistLocked(c *Ctx) {
	p := c.P
	seg := p.FieldVar("av/format/hls", "Playlist", "segments")
	if seg == nil {
		c.Lost("hls.Playlist.segments", "field not found")
		return
	}
	clear := p.Func("av/format/hls", "(*Playlist).clearSegments")
	const lk = "Playlist.l"
	n := 0
	// functions assumed to be entered with the write lock held: those whose every caller holds it (checked below)
	entryLocked := map[*ssa.Function]bool{}
	if clear != nil {
		okAll := true
		sites := p.CallersOf(clear)
		for _, s := range sites {
			held := false
			locksAt(s.Parent(), "", func(ins ssa.Instruction, h lockSet) {
				if ins == s && h.holds(lk, true) {
					held = true
				}
			})
			c.Decide(held, "clearSegments-caller:"+fname(s.Parent()), p.InstrPos(s), "called with the write lock held", "clearSegments (which mutates the segment list and deletes files) is called without the playlist write lock")
			if !held {
				okAll = false
			}
		}
		if okAll && len(sites) > 0 {
			entryLocked[clear] = true
		}
		c.Floor("callers of clearSegments", len(sites), 2)
	}
	for _, fn := range p.FuncsInPkg("av/format/hls") {
		uses := false
		instrs(fn, func(ins ssa.Instruction) {
			if fa, ok := ins.(*ssa.FieldAddr); ok {
				if f, _, ok := fieldAddr(fa); ok && f == seg {
					uses = true
				}
			}
		})
		if !uses || fn.Name() == "NewPlaylist" {
			continue
		}
		c.touched(fname(fn))
		entry := lockSet("")
		if entryLocked[fn] {
			entry = entry.with(lk, 'W')
		}
		var badAt ssa.Instruction
		badW := false
		np := locksAt(fn, entry, func(ins ssa.Instruction, h lockSet) {
			fa, ok := ins.(*ssa.FieldAddr)
			if !ok {
				return
			}
			if f, _, ok := fieldAddr(fa); !ok || f != seg {
				return
			}
			n++
			isW := false
			for _, r := range referrersOf(fa) {
				if st, ok := r.(*ssa.Store); ok && st.Addr == fa {
					isW = true
				}
				if u, ok := r.(*ssa.UnOp); ok {
					// element store through the loaded slice
					for _, r2 := range referrersOf(u) {
						if ia, ok := r2.(*ssa.IndexAddr); ok {
							for _, r3 := range referrersOf(ia) {
								if st, ok := r3.(*ssa.Store); ok && st.Addr == ia {
									isW = true
								}
							}
						}
					}
				}
			}
			if !h.holds(lk, isW) {
				badAt, badW = ins, isW
			}
		})
		c.paths += np
		if badAt != nil {
			mode := "read"
			if badW {
				mode = "written"
			}
			c.Bad("segments-locked:"+fname(fn), p.InstrPos(badAt), "Playlist.segments is "+mode+" without holding the playlist lock in the required mode: a fetch racing with rollover sees a half-updated list")
		} else {
			c.OK("segments-locked:"+fname(fn), p.Pos(fn.Pos()), "all accesses under Playlist.l")
		}
	}
	c.Floor("accesses to Playlist.segments", n, 8)
	// operations on a listed segment's storage (get/delete) must happen under the playlist lock:
	// rollover recycles the storage, so a reader that copies outside the lock reads a recycled buffer
	for _, fn := range p.FuncsInPkg("av/format/hls") {
		if fn.Signature.Recv() == nil || !typeIs(fn.Signature.Recv().Type(), modRel("av/format/hls"), "Playlist") {
			continue
		}
		entry := lockSet("")
		if entryLocked[fn] {
			entry = entry.with(lk, 'W')
		}
		var bad ssa.Instruction
		found := false
		np := locksAt(fn, entry, func(ins ssa.Instruction, h lockSet) {
			cc := callCommon(ins)
			if cc == nil || !cc.IsInvoke() || (cc.Method.Name() != "get" && cc.Method.Name() != "delete") {
				return
			}
			if _, isDefer := ins.(*ssa.Defer); isDefer {
				return
			}
			found = true
			if !h.holds(lk, cc.Method.Name() == "delete") {
				bad = ins
			}
		})
		c.paths += np
		if found {
			c.Decide(bad == nil, "segment-storage-locked:"+fname(fn), p.Pos(fn.Pos()), "segment storage read/deleted under the playlist lock", "a listed segment's storage is read (get) or deleted outside the playlist lock: a fetch overlapping a rollover copies from a buffer that has been recycled for the next segment")
		}
	}
}

// ------------------------------------------------------------ R-CUT-AT-KEYFRAME

func ruleCutAtKeyframe(c *Ctx) {
	p := c.P
	reap := p.Func("av/format/hls", "(*SegmentGenerator).reapSegment")
	if reap == nil {
		c.Lost("hls.SegmentGenerator.reapSegment", "not found")
		return
	}
	sites := p.CallersOf(reap)
	c.Floor("segment cut sites", len(sites), 2)
	for _, s := range sites {
		fn := s.Parent()
		c.touched(fname(fn))
		// guards established on every path to s: results of bool methods taken true
		type gs string
		r := &PathRule[gs]{Fn: fn, Init: []gs{""},
			Branch: func(st gs, cond ssa.Value, taken bool) (gs, bool) {
				cv, neg := condNeg(cond)
				if call, ok := cv.(*ssa.Call); ok && taken != neg {
					if cal := call.Call.StaticCallee(); cal != nil {
						name := cal.Name()
						parts := map[string]bool{}
						for _, x := range strings.Split(string(st), "+") {
							if x != "" {
								parts[x] = true
							}
						}
						parts[name] = true
						var ks []string
						for k := range parts {
							ks = append(ks, k)
						}
						sort.Strings(ks)
						return gs(strings.Join(ks, "+")), true
					}
				}
				return st, true
			}}
		res := RunPath(r)
		c.paths += res.N
		guards := map[string]bool{}
		res.Visit(func(ins ssa.Instruction, st gs) {
			if ins == s {
				guards[string(st)] = true
			}
		})
		var gl []string
		for g := range guards {
			gl = append(gl, g)
		}
		sort.Strings(gl)
		for _, g := range gl {
			key := "reap@" + fname(fn) + ":guard=" + g
			if strings.Contains("+"+g+"+", "+IsKeyFrame+") {
				c.OK(key, p.InstrPos(s), "cut happens on the key-frame edge")
			} else {
				c.Bad(key, p.InstrPos(s), "a segment is cut on a path where the frame being written is not known to be a key frame (guards: "+g+"): the next segment's video starts in the middle of a GOP and is not independently decodable")
			}
		}
	}
}

// ------------------------------------------------------------ R-WINDOW

func ruleWindow(c *Ctx) {
	p := c.P
	k, ok := pkgConst(p, "av/format/hls", "hlsRemainSegments")
	if !ok {
		c.Lost("hls.hlsRemainSegments", "constant not found")
		return
	}
	c.Decide(k == 3, "window-const", "", "window is 3 segments", fmt.Sprintf("hlsRemainSegments = %d, the property fixes three listed segments", k))
	m3 := p.Func("av/format/hls", "(*Playlist).M3u8")
	add := p.Func("av/format/hls", "(*Playlist).addSegment")
	cl := p.Func("av/format/hls", "(*Playlist).Close")
	clear := p.Func("av/format/hls", "(*Playlist).clearSegments")
	if m3 == nil || add == nil || cl == nil || clear == nil {
		c.Lost("hls.Playlist.M3u8/addSegment/Close/clearSegments", "not found")
		return
	}
	// M3u8: `len(segments) < 3` true edge returns an error
	ready := false
	instrs(m3, func(ins ssa.Instruction) {
		b, ok := ins.(*ssa.BinOp)
		if !ok || b.Op != token.LSS {
			return
		}
		if kk, ok := evalInt(b.Y); ok && kk == k {
			if lc, ok := b.X.(*ssa.Call); ok && calleeName(&lc.Call) == "builtin.len" {
				ready = true
			}
		}
	})
	c.Decide(ready, "window:m3u8-ready", p.Pos(m3.Pos()), "playlist served only with >= 3 segments", "M3u8 does not refuse a playlist with fewer than hlsRemainSegments segments")
	argOf := func(fn *ssa.Function) (int64, bool, int) {
		var v int64
		found, n := false, 0
		instrs(fn, func(ins ssa.Instruction) {
			if callsFunc(ins, clear) {
				n++
				v, found = evalInt(callCommon(ins).Args[1])
			}
		})
		return v, found, n
	}
	v, okv, n := argOf(add)
	c.Decide(okv && v == k && n == 1, "window:retention", p.Pos(add.Pos()), "addSegment trims to 3", fmt.Sprintf("addSegment trims the list to %d (calls=%d), expected exactly hlsRemainSegments: storage is not bounded to the served window", v, n))
	// trim on every path after append
	ex, np := countPaths(add, func(i ssa.Instruction) bool { return callsFunc(i, clear) }, nil)
	c.paths += np
	every := len(ex) > 0
	for _, sts := range ex {
		for _, s := range sts {
			if s.N != 1 {
				every = false
			}
		}
	}
	c.Decide(every, "window:trim-every-add", p.Pos(add.Pos()), "every addSegment trims", "a path of addSegment skips trimming")
	v, okv, _ = argOf(cl)
	c.Decide(okv && v == 0, "window:close-clears", p.Pos(cl.Pos()), "Close deletes every segment", "Playlist.Close does not clear all segments")
	// clearSegments deletes the files it drops
	del := false
	instrs(clear, func(ins ssa.Instruction) {
		if cc := callCommon(ins); cc != nil && cc.IsInvoke() && cc.Method.Name() == "delete" {
			del = true
		}
	})
	c.Decide(del, "window:delete-dropped", p.Pos(clear.Pos()), "dropped segments are deleted", "clearSegments drops list entries without deleting their storage")
}

// ------------------------------------------------------------ R-M3U8-FIELDS

func ruleM3u8Fields(c *Ctx) {
	p := c.P
	m3 := p.Func("av/format/hls", "(*Playlist).M3u8")
	sg := p.Func("av/format/hls", "(*Playlist).Segment")
	if m3 == nil || sg == nil {
		c.Lost("hls.Playlist.M3u8/Segment", "not found")
		return
	}
	c.touched(fname(m3))
	// the header Fprintf: format contains TARGETDURATION and MEDIA-SEQUENCE; varargs [duration, seq]
	var hdr *ssa.Call
	var uriCalls []*ssa.Call
	instrs(m3, func(ins ssa.Instruction) {
		call, ok := ins.(*ssa.Call)
		if !ok || calleeName(&call.Call) != "fmt.Fprintf" {
			return
		}
		if k, ok := call.Call.Args[1].(*ssa.Const); ok && k.Value != nil {
			s := k.Value.ExactString()
			if strings.Contains(s, "MEDIA-SEQUENCE") {
				hdr = call
			}
			if strings.Contains(s, "EXTINF") {
				uriCalls = append(uriCalls, call)
			}
		}
	})
	if hdr == nil || len(uriCalls) < 2 {
		c.Lost("m3u8.format-calls", "header/EXTINF Fprintf calls not found")
		return
	}
	varargs := func(call *ssa.Call) []ssa.Value {
		sl, ok := call.Call.Args[2].(*ssa.Slice)
		if !ok {
			return nil
		}
		var out []ssa.Value
		idx := map[int64]ssa.Value{}
		for _, r := range referrersOf(sl.X) {
			if ia, ok := r.(*ssa.IndexAddr); ok {
				i, _ := evalInt(ia.Index)
				for _, r2 := range referrersOf(ia) {
					if st, ok := r2.(*ssa.Store); ok {
						idx[i] = st.Val
					}
				}
			}
		}
		for i := int64(0); i < int64(len(idx)); i++ {
			out = append(out, idx[i])
		}
		return out
	}
	hv := varargs(hdr)
	format := hdr.Call.Args[1].(*ssa.Const).Value.ExactString()
	tdFirst := strings.Index(format, "TARGETDURATION") < strings.Index(format, "MEDIA-SEQUENCE")
	if len(hv) != 2 {
		c.Undecided("m3u8:header-args", p.InstrPos(hdr), "cannot read the header's arguments")
	} else {
		dur, seq := hv[0], hv[1]
		if !tdFirst {
			dur, seq = seq, dur
		}
		// seq: load of sequenceNo of segments[0]
		seqOK := false
		if f, base, ok := fieldLoad(stripConv(seq)); ok && theProgram.baseFieldName(f) == "sequenceNo" {
			if u, ok := base.(*ssa.UnOp); ok {
				if ia, ok := u.X.(*ssa.IndexAddr); ok {
					if i, ok := evalInt(ia.Index); ok && i == 0 {
						seqOK = true
					}
				}
			}
		}
		c.Decide(seqOK, "m3u8:media-sequence", p.InstrPos(hdr), "MEDIA-SEQUENCE = first listed segment's number", "EXT-X-MEDIA-SEQUENCE is not segments[0].sequenceNo")
		// dur: depends on a phi maximised over seg.duration with a > comparison
		maxOK := false
		walkDeps(dur, func(x ssa.Value) bool {
			if ph, ok := x.(*ssa.Phi); ok {
				for _, e := range ph.Edges {
					if f, _, ok := fieldLoad(e); ok && theProgram.baseFieldName(f) == "duration" {
						// the block assigning it must be guarded by duration > max
						maxOK = true
					}
				}
			}
			return true
		})
		gt := false
		instrs(m3, func(ins ssa.Instruction) {
			if b, ok := ins.(*ssa.BinOp); ok && b.Op == token.GTR {
				if f, _, ok := fieldLoad(b.X); ok && theProgram.baseFieldName(f) == "duration" {
					if _, isPhi := b.Y.(*ssa.Phi); isPhi {
						gt = true
					}
				}
			}
		})
		c.Decide(maxOK && gt, "m3u8:target-duration", p.InstrPos(hdr), "TARGETDURATION derives from the maximum listed duration", "EXT-X-TARGETDURATION is not computed from the maximum over the listed segments' durations")
	}
	// token branch: the call whose format has ?token= is on the len(token) > 0 edge and passes token
	tokOK := false
	for _, uc := range uriCalls {
		format := uc.Call.Args[1].(*ssa.Const).Value.ExactString()
		if !strings.Contains(format, "token=") {
			continue
		}
		va := varargs(uc)
		passes := false
		for _, v := range va {
			if origin(v) == ssa.Value(m3.Params[1]) {
				passes = true
			}
		}
		blk := uc.Block()
		guarded := false
		if len(blk.Preds) == 1 {
			if ifi, ok := blk.Preds[0].Instrs[len(blk.Preds[0].Instrs)-1].(*ssa.If); ok && blk.Preds[0].Succs[0] == blk {
				if b, ok := ifi.Cond.(*ssa.BinOp); ok && b.Op == token.GTR {
					guarded = true
				}
			}
		}
		tokOK = passes && guarded
	}
	c.Decide(tokOK, "m3u8:token", p.Pos(m3.Pos()), "URIs carry the caller's token when given", "segment URIs do not carry the caller's token on the token-present edge")
	// Segment(seq): get() is applied to an entry that was selected by sequenceNo == seq
	c.touched(fname(sg))
	// bases (segment pointers) compared equal with the seq parameter, and the block entered on that edge
	type sel struct {
		base ssa.Value
		blk  *ssa.BasicBlock
	}
	var sels []sel
	for _, b := range sg.Blocks {
		ifi, ok := b.Instrs[len(b.Instrs)-1].(*ssa.If)
		if !ok {
			continue
		}
		bo, ok := ifi.Cond.(*ssa.BinOp)
		if !ok || bo.Op != token.EQL {
			continue
		}
		f, base, ok1 := fieldLoad(bo.X)
		if ok1 && theProgram.baseFieldName(f) == "sequenceNo" && origin(bo.Y) == ssa.Value(sg.Params[1]) {
			sels = append(sels, sel{base, b.Succs[0]})
		}
	}
	var selected func(v ssa.Value, at *ssa.BasicBlock, depth int) bool
	selected = func(v ssa.Value, at *ssa.BasicBlock, depth int) bool {
		if depth > 4 {
			return false
		}
		for _, s := range sels {
			if s.base == v && (at == nil || s.blk == at || s.blk.Dominates(at)) {
				return true
			}
		}
		switch x := v.(type) {
		case *ssa.Phi:
			okAll, any := true, false
			for i, e := range x.Edges {
				if isNilConst(e) || e == ssa.Value(x) {
					continue
				}
				any = true
				if !selected(e, x.Block().Preds[i], depth+1) {
					okAll = false
				}
			}
			return okAll && any
		case *ssa.UnOp:
			if al, ok := x.X.(*ssa.Alloc); ok {
				okAll, any := true, false
				for _, r := range referrersOf(al) {
					if st, ok := r.(*ssa.Store); ok && st.Addr == ssa.Value(al) && !isNilConst(st.Val) {
						any = true
						if !selected(st.Val, st.Block(), depth+1) {
							okAll = false
						}
					}
				}
				return okAll && any
			}
		}
		return false
	}
	okSeg := false
	instrs(sg, func(ins ssa.Instruction) {
		cc := callCommon(ins)
		if cc == nil || !cc.IsInvoke() || cc.Method.Name() != "get" {
			return
		}
		f, base, ok := fieldLoad(cc.Value)
		if ok && theProgram.baseFieldName(f) == "file" && selected(base, ins.Block(), 0) {
			okSeg = true
		}
	})
	c.Decide(okSeg, "segment:lookup-by-number", p.Pos(sg.Pos()), "Segment(seq) serves the entry whose number equals seq", "Segment(seq) does not select the entry by sequenceNo == seq")
}

// ------------------------------------------------------------ R-SEGMENT-CLOSE

func ruleSegmentClose(c *Ctx) {
	p := c.P
	fn := p.Func("av/format/hls", "(*SegmentGenerator).segmentClose")
	add := p.Func("av/format/hls", "(*Playlist).addSegment")
	seqF := p.FieldVar("av/format/hls", "SegmentGenerator", "sequenceNo")
	if fn == nil || add == nil || seqF == nil {
		c.Lost("hls.SegmentGenerator.segmentClose", "not found")
		return
	}
	c.touched(fname(fn))
	type st struct {
		Add, Dec, Del int8
		NoSeg          bool
	}
	r := &PathRule[st]{Fn: fn, Init: []st{{}},
		Transfer: func(s st, ins ssa.Instruction) []st {
			if callsFunc(ins, add) {
				s.Add++
				return []st{s}
			}
			if cc := callCommon(ins); cc != nil && cc.IsInvoke() && cc.Method.Name() == "delete" {
				s.Del++
				return []st{s}
			}
			if sto, ok := ins.(*ssa.Store); ok {
				if f, _, ok := fieldAddr(sto.Addr); ok && f == seqF {
					if b, ok := sto.Val.(*ssa.BinOp); ok && b.Op == token.SUB {
						if k, ok := evalInt(b.Y); ok && k == 1 {
							s.Dec++
							return []st{s}
						}
					}
					s.Dec = 9
					return []st{s}
				}
			}
			return nil
		},
		Branch: func(s st, cond ssa.Value, taken bool) (st, bool) {
			if b, ok := cond.(*ssa.BinOp); ok && b.Op == token.EQL && taken {
				if isNilConst(b.X) || isNilConst(b.Y) {
					s.NoSeg = true
				}
			}
			return s, true
		}}
	res := RunPath(r)
	c.paths += res.N
	ok := true
	for ret, sts := range res.Exits() {
		for _, s := range sts {
			if s.NoSeg && s.Add == 0 && s.Dec == 0 {
				continue
			}
			if s.Add == 1 && s.Dec == 0 && s.Del == 0 {
				continue
			}
			if s.Add == 0 && s.Dec == 1 && s.Del == 1 {
				continue
			}
			ok = false
			c.Bad("segment-close", p.InstrPos(ret), fmt.Sprintf("a path closes a segment with addSegment×%d, sequenceNo--×%d, delete×%d: a segment must be either published, or deleted with its number reused (otherwise listed numbers are not consecutive or storage leaks)", s.Add, s.Dec, s.Del))
		}
	}
	if ok {
		c.OK("segment-close", p.Pos(fn.Pos()), "publish xor (delete + reuse number) on every path")
	}
}
