package main

import (
	"go/token"
	"strings"

	"golang.org/x/tools/go/ssa"
)

func init() {
	register(&PropertyDef{
		ID: "C17",
		Explanation: "Static analysis of route resolution. Decided: (1) R-EXACT-FIRST - Match canonicalises the path, refuses a path ending in '/', looks the canonical path up exactly before scanning and returns on hit; (2) R-LONGEST-ORDER-INDEPENDENT - in the scan over the route map the candidate and its length change only on 'no candidate yet' or 'this key is longer than the best so far', with the length set to len(key) and the candidate to the map value of the same iteration, only after pathMatch(key, path) was true: the result is the longest matching directory pattern whatever the map iteration order (first-match, last-match or shortest-match variants are rejected); (3) R-MATCH-COPIES - every store to a Route field during Match targets a copy made in Match, and what is returned on a hit is such a copy, never the table's own entry; (4) R-URL-JOIN - the remainder appended to the route URL starts at len(pattern) when the URL ends in '/', at len(pattern)-1 otherwise (exactly one '/'), and the result's Pattern is the requested canonical path; (5) R-PATHMATCH-SHAPE - pathMatch accepts a directory pattern (trailing '/') only as a prefix of the path and any other pattern only on equality; (6) R-CREATE-UNDER-REQUESTED - GetOrCreate hands the matched route's Pattern (the requested path) and URL to the pull factory.",
		NotDecided: "The joined URL's exact text for every URL form; behaviour for an empty route URL.",
		Rules: []*RuleDoc{
			{Name: "R-EXACT-FIRST", Text: "CanonicalPath, trailing-'/' refusal, exact lookup before the scan, return on hit.", Run: ruleExactFirst},
			{Name: "R-LONGEST-ORDER-INDEPENDENT", Text: "Candidate updated only on (none yet) or (len(key) > best), with best=len(key), candidate=value, after pathMatch true.", Run: ruleLongestOrderIndependent},
			{Name: "R-MATCH-COPIES", Text: "Stores to Route fields in Match target a local copy; a hit returns a copy.", Run: ruleMatchCopies},
			{Name: "R-URL-JOIN", Text: "Remainder starts at len(Pattern) if URL ends with '/', else at len(Pattern)-1; Pattern := requested path.", Run: ruleURLJoin},
			{Name: "R-PATHMATCH-SHAPE", Text: "Directory pattern: prefix; other pattern: equality.", Run: rulePathMatchShape},
			{Name: "R-CREATE-UNDER-REQUESTED", Text: "GetOrCreate passes r.Pattern and r.URL of the match to the factory.", Run: ruleCreateUnderRequested},
		},
	})
	addMutants(
		&Mutant{Prop: "C17", Name: "c17-first-match-wins", File: "provider/route/routetable.go",
			Old: "\t\tif r == nil || len(k) > n {", New: "\t\t_ = n\n\t\tif r == nil {", Expect: "R-LONGEST-ORDER-INDEPENDENT"},
		&Mutant{Prop: "C17", Name: "c17-shortest-wins", File: "provider/route/routetable.go",
			Old: "\t\tif r == nil || len(k) > n {", New: "\t\tif r == nil || len(k) < n {", Expect: "R-LONGEST-ORDER-INDEPENDENT"},
		&Mutant{Prop: "C17", Name: "c17-mutates-table-entry", File: "provider/route/routetable.go",
			Old: "\tif r != nil {\n\t\tret := *r\n\t\tr = &ret\n", New: "\tif r != nil {\n", Expect: "R-MATCH-COPIES"},
		&Mutant{Prop: "C17", Name: "c17-double-slash", File: "provider/route/routetable.go",
			Old: "\t\t\tr.URL = r.URL + path[len(r.Pattern):]", New: "\t\t\tr.URL = r.URL + path[len(r.Pattern)-1:]", Expect: "R-URL-JOIN"},
		&Mutant{Prop: "C17", Name: "c17-pattern-not-rewritten", File: "provider/route/routetable.go",
			Old: "\t\tr.Pattern = path\n", New: "", Expect: "R-URL-JOIN"},
		&Mutant{Prop: "C17", Name: "c17-dir-path-resolves", File: "provider/route/routetable.go",
			Old: "\tif path[len(path)-1] == '/' {", New: "\tif path[len(path)-1] == '/' && len(t.m) == 0 {", Expect: "R-EXACT-FIRST"},
		&Mutant{Prop: "C17", Name: "c17-prefix-for-exact-patterns", File: "provider/route/routetable.go",
			Old: "\tif pattern[n-1] != '/' {\n\t\treturn pattern == path\n\t}", New: "\tif pattern[n-1] != '/' {\n\t\treturn len(path) >= n && path[:n] == pattern\n\t}", Expect: "R-PATHMATCH-SHAPE"},
		&Mutant{Prop: "C17", Name: "c17-create-under-pattern", File: "media/global.go",
			Old: "\t\t\t\ts, err = psf.Create(r.Pattern, r.URL)", New: "\t\t\t\ts, err = psf.Create(path, r.URL)", Expect: "R-CREATE-UNDER-REQUESTED"},
	)
}

func routeMatch(c *Ctx) *ssa.Function {
	fn := c.P.Func("provider/route", "(*routetable).Match")
	if fn == nil {
		c.Lost("route.routetable.Match", "not found")
	} else {
		c.touched(fname(fn))
	}
	return fn
}

// rangeNext returns the `next` instruction of the map range in fn (over field m).
func rangeNext(fn *ssa.Function) *ssa.Next {
	var nx *ssa.Next
	instrs(fn, func(ins ssa.Instruction) {
		if n, ok := ins.(*ssa.Next); ok && !n.IsString {
			nx = n
		}
	})
	return nx
}

func ruleExactFirst(c *Ctx) {
	p := c.P
	fn := routeMatch(c)
	if fn == nil {
		return
	}
	canon := p.Func("utils", "CanonicalPath")
	var canonCall *ssa.Call
	instrs(fn, func(ins ssa.Instruction) {
		if call, ok := ins.(*ssa.Call); ok && call.Call.StaticCallee() == canon && origin(call.Call.Args[0]) == ssa.Value(fn.Params[1]) {
			canonCall = call
		}
	})
	c.Decide(canonCall != nil, "exact:canonical", p.Pos(fn.Pos()), "path canonicalised first", "Match does not canonicalise the requested path")
	if canonCall == nil {
		return
	}
	// trailing slash refusal: cond path[len-1] == '/' true edge returns nil
	refuses := false
	for _, b := range fn.Blocks {
		ifi, ok := b.Instrs[len(b.Instrs)-1].(*ssa.If)
		if !ok {
			continue
		}
		bo, ok := ifi.Cond.(*ssa.BinOp)
		if !ok || bo.Op != token.EQL {
			continue
		}
		if k, ok := evalInt(bo.Y); !ok || k != '/' {
			continue
		}
		if strIndexBase(bo.X) != ssa.Value(canonCall) {
			continue
		}
		for _, ins := range b.Succs[0].Instrs {
			if ret, ok := ins.(*ssa.Return); ok && isNilConst(retValue(ret, 0)) {
				refuses = true
			}
		}
	}
	c.Decide(refuses, "exact:dir-path-refused", p.Pos(fn.Pos()), "a path ending in '/' resolves to nothing", "a requested path that itself ends in '/' is no longer refused")
	// exact lookup precedes range and returns on ok
	var lookup *ssa.Lookup
	instrs(fn, func(ins ssa.Instruction) {
		if lk, ok := ins.(*ssa.Lookup); ok && lk.CommaOk && lk.Index == ssa.Value(canonCall) {
			lookup = lk
		}
	})
	nx := rangeNext(fn)
	if lookup == nil || nx == nil {
		c.Bad("exact:lookup-first", p.Pos(fn.Pos()), "no exact map lookup of the canonical path (or no scan) found")
		return
	}
	c.Decide(dominatesInstr(lookup, nx), "exact:lookup-first", p.InstrPos(lookup), "exact lookup precedes the scan", "the directory scan can run before the exact lookup")
	// the ok true edge returns without scanning
	retOnHit := false
	for _, r := range referrersOf(lookup) {
		ex, ok := r.(*ssa.Extract)
		if !ok || ex.Index != 1 {
			continue
		}
		for _, r2 := range referrersOf(ex) {
			if ifi, ok := r2.(*ssa.If); ok {
				hit := ifi.Block().Succs[0]
				if !reachableBlocks(hit)[nx.Block()] && hit != nx.Block() {
					retOnHit = true
				}
			}
		}
	}
	c.Decide(retOnHit, "exact:return-on-hit", p.InstrPos(lookup), "an exact hit returns without scanning directories", "an exact match does not return immediately: a directory pattern can shadow an exact pattern")
}

func ruleLongestOrderIndependent(c *Ctx) {
	p := c.P
	fn := routeMatch(c)
	if fn == nil {
		return
	}
	nx := rangeNext(fn)
	if nx == nil {
		c.Lost("route.Match.range", "map range not found")
		return
	}
	var kEx, vEx *ssa.Extract
	for _, r := range referrersOf(nx) {
		if ex, ok := r.(*ssa.Extract); ok {
			switch ex.Index {
			case 1:
				kEx = ex
			case 2:
				vEx = ex
			}
		}
	}
	// loop-carried phis in the range header
	hdr := nx.Block()
	var rPhi, nPhi *ssa.Phi
	for _, ins := range hdr.Instrs {
		ph, ok := ins.(*ssa.Phi)
		if !ok {
			break
		}
		if typeIs(ph.Type(), modRel("provider/route"), "Route") {
			rPhi = ph
		} else if ph.Type().String() == "int" {
			nPhi = ph
		}
	}
	if rPhi == nil || nPhi == nil || kEx == nil || vEx == nil {
		c.Bad("longest:shape", p.InstrPos(nx), "the scan does not carry a candidate route and a best length through the loop")
		return
	}
	pm := p.Func("provider/route", "pathMatch")
	bad := []string{}
	updates := 0
	for i, e := range rPhi.Edges {
		if e == ssa.Value(rPhi) {
			continue
		}
		pred := hdr.Preds[i]
		if !reachableBlocks(hdr)[pred] { // initial edge
			continue
		}
		updates++
		if e != ssa.Value(vEx) {
			bad = append(bad, "the candidate is assigned something other than the current map value")
		}
		// the length update on the same edge
		ne := nPhi.Edges[i]
		lc, ok := ne.(*ssa.Call)
		if !ok || calleeName(&lc.Call) != "builtin.len" || lc.Call.Args[0] != ssa.Value(kEx) {
			bad = append(bad, "the best length is not set to len(key) together with the candidate")
		}
		// every way into the update block: If true edge with an accepted condition
		for _, up := range pred.Preds {
			ifi, ok := up.Instrs[len(up.Instrs)-1].(*ssa.If)
			if !ok || up.Succs[0] != pred {
				bad = append(bad, "the update is reachable other than through an accepted comparison")
				continue
			}
			bo, ok := ifi.Cond.(*ssa.BinOp)
			okc := false
			if ok {
				switch {
				case bo.Op == token.EQL && bo.X == ssa.Value(rPhi) && isNilConst(bo.Y):
					okc = true // no candidate yet
				case (bo.Op == token.GTR || bo.Op == token.GEQ) && bo.Y == ssa.Value(nPhi):
					if l2, ok := bo.X.(*ssa.Call); ok && calleeName(&l2.Call) == "builtin.len" && l2.Call.Args[0] == ssa.Value(kEx) {
						okc = true // strictly (or equally) longer than the best so far
					}
				case (bo.Op == token.LSS || bo.Op == token.LEQ) && bo.X == ssa.Value(nPhi):
					if l2, ok := bo.Y.(*ssa.Call); ok && calleeName(&l2.Call) == "builtin.len" && l2.Call.Args[0] == ssa.Value(kEx) {
						okc = true
					}
				}
			}
			if !okc {
				bad = append(bad, "the candidate is replaced under a condition other than 'none yet' or 'len(key) > best' ("+ifi.Cond.String()+"): the result depends on map iteration order or is not the longest pattern")
			}
		}
		// must have both ways (none-yet AND longer) for maximisation
		hasLonger := false
		for _, up := range pred.Preds {
			if ifi, ok := up.Instrs[len(up.Instrs)-1].(*ssa.If); ok {
				if bo, ok := ifi.Cond.(*ssa.BinOp); ok && (bo.Op == token.GTR || bo.Op == token.GEQ || bo.Op == token.LSS || bo.Op == token.LEQ) {
					hasLonger = true
				}
			}
		}
		if !hasLonger {
			bad = append(bad, "there is no 'longer than the best so far' update: the first matching directory in map iteration order wins")
		}
		// pathMatch(k, path) true dominates
		dom := false
		instrs(fn, func(ins ssa.Instruction) {
			call, ok := ins.(*ssa.Call)
			if !ok || call.Call.StaticCallee() != pm || call.Call.Args[0] != ssa.Value(kEx) {
				return
			}
			for _, r := range referrersOf(call) {
				if ifi, ok := r.(*ssa.If); ok {
					t := ifi.Block().Succs[0]
					if t == pred || t.Dominates(pred) {
						dom = true
					}
				}
			}
		})
		if !dom {
			bad = append(bad, "the candidate is updated without pathMatch(key, path) having been true")
		}
	}
	if updates == 0 {
		bad = append(bad, "the candidate is never updated in the scan")
	}
	if len(bad) == 0 {
		c.OK("longest:update-rule", p.InstrPos(nx), "candidate replaced only by a longer matching pattern (or the first one)")
	}
	for _, b := range uniq(bad) {
		c.Bad("longest:update-rule", p.InstrPos(nx), b)
	}
}

func uniq(in []string) []string {
	seen := map[string]bool{}
	var out []string
	for _, s := range in {
		if !seen[s] {
			seen[s] = true
			out = append(out, s)
		}
	}
	return out
}

func ruleMatchCopies(c *Ctx) {
	p := c.P
	fn := routeMatch(c)
	if fn == nil {
		return
	}
	n := 0
	ok := true
	instrs(fn, func(ins ssa.Instruction) {
		st, isSt := ins.(*ssa.Store)
		if !isSt {
			return
		}
		f, base, isF := fieldAddr(st.Addr)
		if !isF || !typeIs(base.Type(), modRel("provider/route"), "Route") {
			return
		}
		n++
		if _, isAlloc := base.(*ssa.Alloc); !isAlloc {
			ok = false
			c.Bad("match-copies:store", p.InstrPos(ins), "Match writes Route."+f.Name()+" through a pointer that is not a copy made in Match: the caller's table entry is modified by a lookup (its URL grows on every request)")
		}
	})
	if n == 0 {
		c.Lost("match-copies:stores", "no Route field store found in Match")
	} else if ok {
		c.OK("match-copies:store", p.Pos(fn.Pos()), "all Route field stores target local copies")
	}
	// returned non-nil values are allocs (copies) - never the map's own pointers
	okRet := true
	instrs(fn, func(ins ssa.Instruction) {
		ret, isRet := ins.(*ssa.Return)
		if !isRet {
			return
		}
		v := retValue(ret, 0)
		var check func(v ssa.Value, depth int)
		check = func(v ssa.Value, depth int) {
			if isNilConst(v) || depth > 4 {
				return
			}
			switch x := v.(type) {
			case *ssa.Alloc:
			case *ssa.Phi:
				for _, e := range x.Edges {
					if e != ssa.Value(x) {
						check(e, depth+1)
					}
				}
			default:
				// a value from the map (Extract of lookup / range) may only be returned when nil on that path:
				// accept the loop phi only where the block is reached with candidate == nil
				if ph, isPhi := v.(*ssa.Phi); isPhi {
					_ = ph
					return
				}
				if ex, isEx := v.(*ssa.Extract); isEx {
					_ = ex
					okRet = false
				}
			}
		}
		// the final phi [candidate-nil edge: loop phi, copy edge: alloc]: the loop phi edge must come from the `candidate != nil` false edge
		if ph, isPhi := v.(*ssa.Phi); isPhi {
			for i, e := range ph.Edges {
				if _, isAlloc := e.(*ssa.Alloc); isAlloc || isNilConst(e) {
					continue
				}
				pred := ph.Block().Preds[i]
				ifi, isIf := pred.Instrs[len(pred.Instrs)-1].(*ssa.If)
				nilEdge := false
				if isIf {
					if bo, ok := ifi.Cond.(*ssa.BinOp); ok && bo.X == e && isNilConst(bo.Y) {
						if bo.Op == token.NEQ && pred.Succs[1] == ph.Block() || bo.Op == token.EQL && pred.Succs[0] == ph.Block() {
							nilEdge = true
						}
					}
				}
				if !nilEdge {
					okRet = false
				}
			}
			return
		}
		check(v, 0)
	})
	c.Decide(okRet, "match-copies:return", p.Pos(fn.Pos()), "only copies (or nil) are returned", "Match can return the table's own *Route: callers that adjust the result (GetOrCreate's Pattern/URL) modify the route table")
}

func ruleURLJoin(c *Ctx) {
	p := c.P
	fn := routeMatch(c)
	if fn == nil {
		return
	}
	canon := p.Func("utils", "CanonicalPath")
	var path ssa.Value
	instrs(fn, func(ins ssa.Instruction) {
		if call, ok := ins.(*ssa.Call); ok && call.Call.StaticCallee() == canon {
			path = call
		}
	})
	if path == nil {
		c.Lost("url-join:path", "canonical path not found")
		return
	}
	// slices of path: Low = len(Pattern) (+0 / -1), classified by the URL-last-byte == '/' branch
	type sl struct {
		off  int64
		edge int // 1 = slash edge, 2 = no-slash edge, 0 unknown
	}
	var found []sl
	instrs(fn, func(ins ssa.Instruction) {
		s, ok := ins.(*ssa.Slice)
		if !ok || s.X != path || s.High != nil {
			return
		}
		// classify one (low value, block it is chosen in)
		isSlashTest := func(cond ssa.Value) (bool, bool) { // (is the test, true means "URL ends in '/'")
			bo, ok := cond.(*ssa.BinOp)
			if !ok || (bo.Op != token.EQL && bo.Op != token.NEQ) {
				return false, false
			}
			k, ok := evalInt(bo.Y)
			if !ok || k != '/' {
				return false, false
			}
			base := strIndexBase(bo.X)
			if base == nil {
				return false, false
			}
			if f, _, ok := fieldLoad(base); !ok || theProgram.baseFieldName(f) != "URL" {
				return false, false
			}
			return true, bo.Op == token.EQL
		}
		classify := func(low ssa.Value, at ssa.Instruction, viaIf *ssa.BasicBlock, viaSucc int) {
			off := int64(-99)
			if b, ok := low.(*ssa.BinOp); ok && b.Op == token.SUB {
				if k, ok := evalInt(b.Y); ok {
					off = -k
					low = b.X
				}
			} else {
				off = 0
			}
			lc, ok := low.(*ssa.Call)
			if !ok || calleeName(&lc.Call) != "builtin.len" {
				return
			}
			if f, _, ok := fieldLoad(lc.Call.Args[0]); !ok || theProgram.baseFieldName(f) != "Pattern" {
				return
			}
			edge := 0
			if viaIf != nil {
				if ifi, ok := viaIf.Instrs[len(viaIf.Instrs)-1].(*ssa.If); ok {
					if is, pos := isSlashTest(ifi.Cond); is {
						if (viaSucc == 0) == pos {
							edge = 1
						} else {
							edge = 2
						}
					}
				}
			}
			if edge == 0 && at != nil {
				domConds(at, func(cond ssa.Value, taken bool) {
					if is, pos := isSlashTest(cond); is {
						if taken == pos {
							edge = 1
						} else {
							edge = 2
						}
					}
				})
			}
			found = append(found, sl{off, edge})
		}
		if phi, isPhi := s.Low.(*ssa.Phi); isPhi {
			// `cut := len(pattern); if URL does not end in '/' { cut-- }`: one slice, the offset chosen by the test
			for i, e := range phi.Edges {
				pred := phi.Block().Preds[i]
				if _, isIf := pred.Instrs[len(pred.Instrs)-1].(*ssa.If); isIf {
					succ := 0
					if pred.Succs[1] == phi.Block() {
						succ = 1
					}
					classify(e, nil, pred, succ)
				} else {
					classify(e, pred.Instrs[len(pred.Instrs)-1], nil, 0)
				}
			}
			return
		}
		classify(s.Low, ins, nil, 0)
		return
	})
	okSlash, okNo := false, false
	bad := false
	for _, s := range found {
		switch {
		case s.edge == 1 && s.off == 0:
			okSlash = true
		case s.edge == 2 && s.off == -1:
			okNo = true
		default:
			bad = true
		}
	}
	c.Decide(okSlash && okNo && !bad, "url-join:one-slash", p.Pos(fn.Pos()), "URL + remainder joined with exactly one '/'", "the remainder of the path is not appended from len(pattern) when the route URL ends in '/' and from len(pattern)-1 otherwise: the target URL gets a doubled or a missing '/'")
	// Pattern := path on the directory match path
	stored := false
	for _, st := range storesToField(fn, modRel("provider/route"), "Route", "Pattern") {
		if st.Val == path {
			stored = true
		}
	}
	c.Decide(stored, "url-join:pattern-is-requested-path", p.Pos(fn.Pos()), "result.Pattern = requested canonical path", "the result's Pattern is not set to the requested path: the pulled stream would be published under the directory pattern instead of the requested path")
}

func rulePathMatchShape(c *Ctx) {
	p := c.P
	fn := p.Func("provider/route", "pathMatch")
	if fn == nil {
		c.Lost("route.pathMatch", "not found")
		return
	}
	c.touched(fname(fn))
	pattern, path := fn.Params[0], fn.Params[1]
	// block structure: `pattern[n-1] != '/'` true edge returns pattern == path; false edge returns len(path) >= n && path[0:n] == pattern
	eqRet, prefRet := false, false
	for _, b := range fn.Blocks {
		ifi, ok := b.Instrs[len(b.Instrs)-1].(*ssa.If)
		if !ok {
			continue
		}
		bo, ok := ifi.Cond.(*ssa.BinOp)
		if !ok || (bo.Op != token.NEQ && bo.Op != token.EQL) {
			continue
		}
		if k, ok := evalInt(bo.Y); !ok || k != '/' {
			continue
		}
		if strIndexBase(bo.X) != ssa.Value(pattern) {
			continue
		}
		nonDir, dir := b.Succs[0], b.Succs[1]
		if bo.Op == token.EQL {
			nonDir, dir = dir, nonDir
		}
		for _, ins := range nonDir.Instrs {
			if ret, ok := ins.(*ssa.Return); ok {
				if e, ok := retValue(ret, 0).(*ssa.BinOp); ok && e.Op == token.EQL && (e.X == ssa.Value(pattern) && e.Y == ssa.Value(path) || e.X == ssa.Value(path) && e.Y == ssa.Value(pattern)) {
					eqRet = true
				}
			}
		}
		// prefix: somewhere reachable from dir: slice path[0:n] compared with pattern, guarded by len(path) >= n
		rb := reachableBlocks(dir)
		rb[dir] = true
		for blk := range rb {
			for _, ins := range blk.Instrs {
				if call, ok := ins.(*ssa.Call); ok && calleeName(&call.Call) == "strings.HasPrefix" && len(call.Call.Args) == 2 && call.Call.Args[0] == ssa.Value(path) && call.Call.Args[1] == ssa.Value(pattern) {
					prefRet = true // same predicate as len(path) >= len(pattern) && path[:len(pattern)] == pattern
				}
				if e, ok := ins.(*ssa.BinOp); ok && e.Op == token.EQL {
					if s, ok := e.X.(*ssa.Slice); ok && s.X == ssa.Value(path) && e.Y == ssa.Value(pattern) {
						lowOK := s.Low == nil
						if s.Low != nil {
							if k, ok := evalInt(s.Low); ok && k == 0 {
								lowOK = true
							}
						}
						if hc, ok := s.High.(*ssa.Call); ok && lowOK && calleeName(&hc.Call) == "builtin.len" && hc.Call.Args[0] == ssa.Value(pattern) {
							prefRet = true
						}
					}
				}
			}
		}
	}
	c.Decide(eqRet, "pathmatch:exact-pattern-equality", p.Pos(fn.Pos()), "a non-directory pattern matches only the equal path", "a pattern that does not end in '/' matches more than the equal path")
	c.Decide(prefRet, "pathmatch:directory-prefix", p.Pos(fn.Pos()), "a directory pattern matches exactly the paths it prefixes", "a directory pattern is not tested as path[0:len(pattern)] == pattern")
	_ = strings.TrimSpace
}

func ruleCreateUnderRequested(c *Ctx) {
	p := c.P
	fn := p.Func("media", "GetOrCreate")
	if fn == nil {
		c.Lost("media.GetOrCreate", "not found")
		return
	}
	c.touched(fname(fn))
	found := false
	instrs(fn, func(ins ssa.Instruction) {
		cc := callCommon(ins)
		if cc == nil || !cc.IsInvoke() || cc.Method.Name() != "Create" {
			return
		}
		found = true
		isField := func(v ssa.Value, name string) bool {
			f, base, ok := fieldLoad(v)
			if !ok || f.Name() != name {
				return false
			}
			call, ok := origin(base).(*ssa.Call)
			return ok && calleeName(&call.Call) == modRel("provider/route")+".Match"
		}
		c.Decide(isField(cc.Args[0], "Pattern") && isField(cc.Args[1], "URL"), "create:args", p.InstrPos(ins), "factory gets the matched route's Pattern (requested path) and URL", "the pull factory is not given the matched route's Pattern and URL: the stream is created under a path other than the one route.Match resolved (or pulled from another URL)")
	})
	if !found {
		c.Lost("create:call", "PullStreamFactory.Create call not found")
	}
	// Match is given the canonical requested path
	instrs(fn, func(ins ssa.Instruction) {
		if call, ok := ins.(*ssa.Call); ok && calleeName(&call.Call) == modRel("provider/route")+".Match" {
			src, ok := origin(call.Call.Args[0]).(*ssa.Call)
			c.Decide(ok && calleeName(&src.Call) == modRel("utils")+".CanonicalPath", "create:match-arg", p.InstrPos(ins), "route lookup on the canonical requested path", "route.Match is not called with the canonical requested path")
		}
	})
}

// strIndexBase: v == s[i] for a string s (ssa.Index or ssa.Lookup); returns s.
func strIndexBase(v ssa.Value) ssa.Value {
	switch x := v.(type) {
	case *ssa.Index:
		return x.X
	case *ssa.Lookup:
		return x.X
	}
	return nil
}
