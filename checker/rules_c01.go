package main

import (
	"fmt"
	"go/token"
	"go/types"
	"sort"
	"strings"

	"golang.org/x/tools/go/ssa"
)

const queuePkg = "github.com/cnotch/queue"

func init() {
	register(&PropertyDef{
		ID: "C01",
		Explanation: "Static analysis (go/ssa + module-bounded call graph) of the fan-out path. Decided: (1) each consumer queue has one producer path (consumption.send <- SendToAll closure <- Stream.WriteRtpPacket/WriteFlvTag; join replay via packCache.PushTo <- sendGop <- startConsume, before the consumer is registered and before its single delivery goroutine is started) and one consumer (consumption.consume), and the queue object escapes nowhere else; (2) the same packet object the publisher was given is what is cached, broadcast and pushed (no per-consumer copy/transform); (3) on every path through send/SendToAll/WriteRtpPacket/WriteFlvTag the packet is pushed exactly once unless the path is the backlog-discard path; (4) no code in the module writes into a shared rtp.Packet / flv.Tag / their Data after construction; (5) every transport adapter's Consume writes the bytes of the packet it was given. These are necessary conditions: breaking any of them changes what some consumer receives.",
		NotDecided: "Actual delivery order under concurrency inside cnotch/queue (trusted summary), byte equality on the wire for each transport, 'receives all of them while nothing is dropped' as a runtime history property.",
		Rules: []*RuleDoc{
			{Name: "R-QUEUE-OWNERS", Text: "Every enqueue into a consumption.recvQueue is in consumption.send or in a packCache.PushTo called only from consumption.sendGop; the only dequeue is consumption.consume; send is called only by the SendToAll closure, SendToAll only by Stream.WriteRtpPacket/WriteFlvTag, sendGop only by startConsume; the queue object is used only as a method receiver or as the PushTo argument; consumption objects are built only in startConsume which starts exactly one delivery goroutine after the replay.", Run: ruleQueueOwners},
			{Name: "R-SAME-OBJECT", Text: "The value cached, broadcast to every consumer and pushed into each queue is the publisher's own parameter (no copy or transform per consumer).", Run: ruleSameObject},
			{Name: "R-SEND-ONCE", Text: "On every path of consumption.send the packet is pushed exactly once unless the consumer is discarding; the SendToAll closure calls send exactly once and never stops the iteration; WriteRtpPacket/WriteFlvTag cache then broadcast exactly once on every path that passed the status test.", Run: ruleSendOnce},
			{Name: "R-PUBLISHED-IMMUTABLE", Text: "No store into a field of a shared *rtp.Packet or *flv.Tag, nor into an element of their Data, outside the deserialising constructors (rtp.ReadPacket, (*flv.Tag).Read) and outside functions that write a freshly allocated/by-value copy.", Run: rulePublishedImmutable},
			{Name: "R-ADAPTER-WRITES-PACKET", Text: "Every media.Consumer implementation that owns a transport writes, on every non-closed path, data derived from the packet it was given (Packet.Write / WriteToUDP(p.Data) / writer.WriteFlvTag), exactly once.", Run: ruleAdapterWritesPacket},
		},
	})
	addMutants(
		&Mutant{Prop: "C01", Name: "c01-second-pusher", File: "media/stream.go",
			Old: "\ts.rtpDemuxer.WriteRtpPacket(packet)\n\treturn nil",
			New: "\ts.rtpDemuxer.WriteRtpPacket(packet)\n\ts.consumptions.Range(func(k, v interface{}) bool { v.(*consumption).recvQueue.Push(packet); return false })\n\treturn nil",
			Expect: "R-QUEUE-OWNERS"},
		&Mutant{Prop: "C01", Name: "c01-skip-large", File: "media/consumption.go",
			Old: "\tif !c.discarding {\n\t\tc.recvQueue.Push(pack)",
			New: "\tif !c.discarding && pack.Size() < 60000 {\n\t\tc.recvQueue.Push(pack)",
			Expect: "R-SEND-ONCE"},
		&Mutant{Prop: "C01", Name: "c01-range-stops", File: "media/consumptions.go",
			Old: "\t\tc.send(p, keyframe)\n\t\treturn true",
			New: "\t\tc.send(p, keyframe)\n\t\treturn !c.discarding",
			Expect: "R-SEND-ONCE"},
		&Mutant{Prop: "C01", Name: "c01-restamp-in-place", File: "media/cache/flvcache.go",
			Old: "\t\tmetaData := *cache.metaData\n\t\tmetaData.Timestamp = initTimestamp\n\t\tq.Queue().Push(&metaData)",
			New: "\t\tmetaData := cache.metaData\n\t\tmetaData.Timestamp = initTimestamp\n\t\tq.Queue().Push(metaData)",
			Expect: "R-PUBLISHED-IMMUTABLE"},
		&Mutant{Prop: "C01", Name: "c01-adapter-patches-data", File: "service/rtsp/session_roles.go",
			Old: "\tp2 := p.(*RTPPack)\n\tvar err error\n",
			New: "\tp2 := p.(*RTPPack)\n\tvar err error\n\tif len(p2.Data) > 1 && c.transport.Channels[0] != 0 {\n\t\tp2.Data[1] &= 0x7f\n\t}\n",
			Expect: "R-PUBLISHED-IMMUTABLE"},
		&Mutant{Prop: "C01", Name: "c01-copy-per-consumer", File: "media/consumptions.go",
			Old: "\t\tc.send(p, keyframe)\n\t\treturn true",
			New: "\t\tc.send(p, keyframe && c.maxQLen > 0)\n\t\treturn true",
			Expect: "R-SAME-OBJECT"},
		&Mutant{Prop: "C01", Name: "c01-udp-skip", File: "service/rtsp/session_roles.go",
			Old: "\taddr := c.destAddr[int(p2.Channel)]\n\tif addr != nil {",
			New: "\taddr := c.destAddr[int(p2.Channel)]\n\tif addr != nil && len(p2.Data) <= 1472 {",
			Expect: "R-ADAPTER-WRITES-PACKET"},
	)
}

// queueUse describes one call of a queue method.
type queueUse struct {
	fn     *ssa.Function
	ins    ssa.Instruction
	method string
	owner  string // "field:pkg.Type.f" or "param:fn#i" or "other"
}

// classifyQueueRecv names where a *SyncQueue / *Queue receiver comes from.
func classifyQueueRecv(v ssa.Value) string {
	for i := 0; i < 8; i++ {
		v = origin(v)
		if c, ok := v.(*ssa.Call); ok && calleeName(&c.Call) == "(*"+queuePkg+".SyncQueue).Queue" {
			v = c.Call.Args[0]
			continue
		}
		break
	}
	if f, _, ok := fieldLoad(v); ok {
		return "field:" + fieldName(f, v)
	}
	if f, _, ok := fieldAddr(v); ok { // &x.queue (embedded by value)
		return "field:" + fieldName(f, v)
	}
	if p, ok := v.(*ssa.Parameter); ok {
		return "param:" + fname(p.Parent()) + "#" + p.Name()
	}
	return "other:" + v.String()
}

func fieldName(f *types.Var, v ssa.Value) string {
	// find the struct type owning f via the base expression
	var base types.Type
	switch x := v.(type) {
	case *ssa.UnOp:
		if fa, ok := x.X.(*ssa.FieldAddr); ok {
			base = fa.X.Type()
		}
	case *ssa.FieldAddr:
		base = x.X.Type()
	case *ssa.Field:
		base = x.X.Type()
	}
	n := namedOf(base)
	if n != nil {
		return strings.TrimPrefix(n.Obj().Pkg().Path(), modPath+"/") + "." + n.Obj().Name() + "." + f.Name()
	}
	return f.Name()
}

func allQueueUses(p *Program) []queueUse {
	var uses []queueUse
	for _, fn := range p.ModFuncs() {
		instrs(fn, func(ins ssa.Instruction) {
			cc := callCommon(ins)
			if cc == nil || cc.IsInvoke() {
				return
			}
			n := calleeName(cc)
			for _, t := range []string{"SyncQueue", "Queue"} {
				pre := "(*" + queuePkg + "." + t + ")."
				if strings.HasPrefix(n, pre) && len(cc.Args) > 0 {
					uses = append(uses, queueUse{fn, ins, t + "." + strings.TrimPrefix(n, pre), classifyQueueRecv(cc.Args[0])})
				}
			}
		})
	}
	return uses
}

func ruleQueueOwners(c *Ctx) {
	p := c.P
	send := p.Func("media", "(*consumption).send")
	consume := p.Func("media", "(*consumption).consume")
	sendGop := p.Func("media", "(*consumption).sendGop")
	startConsume := p.Func("media", "(*Stream).startConsume")
	sendToAll := p.Func("media", "(*consumptions).SendToAll")
	for n, f := range map[string]*ssa.Function{"consumption.send": send, "consumption.consume": consume, "consumption.sendGop": sendGop, "Stream.startConsume": startConsume, "consumptions.SendToAll": sendToAll} {
		if f == nil {
			c.Lost(n, "function not found")
			return
		}
	}
	const ownerField = "field:media.consumption.recvQueue"
	// PushTo implementations = module callees of the interface call in sendGop
	pushTo := map[*ssa.Function]bool{}
	for _, e := range p.OutEdges(sendGop) {
		if e.Callee != nil && e.Callee.Name() == "PushTo" {
			pushTo[e.Callee] = true
		}
	}
	c.Floor("PushTo implementations reached from sendGop", len(pushTo), 4)
	uses := allQueueUses(p)
	npush, npop := 0, 0
	for _, u := range uses {
		c.touched(fname(u.fn))
		c.sites++
		isPush := strings.HasSuffix(u.method, ".Push") || strings.HasSuffix(u.method, ".PushN")
		isPop := strings.HasSuffix(u.method, ".Pop")
		key := fmt.Sprintf("%s@%s[%s]", u.method, fname(u.fn), u.owner)
		switch {
		case u.owner == ownerField && isPush:
			npush++
			if cc := callCommon(u.ins); cc != nil && len(cc.Args) == 2 && isNilConst(stripConv(cc.Args[1])) && u.fn == p.Func("media", "(*consumption).Close") {
				c.OK(key, p.InstrPos(u.ins), "nil wake-up sentinel pushed by consumption.Close (carries no packet; the delivery loop skips nil)")
				continue
			}
			c.Decide(u.fn == send, key, p.InstrPos(u.ins), "enqueue into a consumer queue in consumption.send", "enqueue into a consumer queue outside consumption.send: a second producer breaks FIFO = published order / at-most-once")
		case u.owner == ownerField && isPop:
			npop++
			c.Decide(u.fn == consume, key, p.InstrPos(u.ins), "dequeue in consumption.consume", "dequeue from a consumer queue outside consumption.consume: a second consumer steals packets")
		case u.owner == ownerField:
			// Len/Signal/Reset/...: allowed only in methods of consumption
			ok := u.fn.Signature.Recv() != nil && typeIs(u.fn.Signature.Recv().Type(), modRel("media"), "consumption") || (u.fn.Parent() != nil && u.fn.Parent().Signature.Recv() != nil && typeIs(u.fn.Parent().Signature.Recv().Type(), modRel("media"), "consumption"))
			if u.method == "SyncQueue.Queue" {
				ok = false
			}
			c.Decide(ok, key, p.InstrPos(u.ins), "queue housekeeping inside consumption", "consumer queue manipulated outside consumption's own methods")
		case strings.HasPrefix(u.owner, "param:") && (isPush || isPop || u.method == "SyncQueue.Queue"):
			if isPush {
				npush++
			}
			if u.method == "SyncQueue.Queue" {
				// counted through its Push/PushN use
				continue
			}
			c.Decide(pushTo[u.fn] && !isPop, key, p.InstrPos(u.ins), "replay enqueue inside a packCache.PushTo implementation", "queue passed as parameter is pushed/popped outside a packCache.PushTo implementation")
		case strings.HasPrefix(u.owner, "other:") && (isPush || isPop):
			c.Undecided(key, p.InstrPos(u.ins), "cannot identify which queue this operation targets")
		}
	}
	c.Floor("push sites into consumer queues", npush, 7)
	c.Floor("pop sites from consumer queues", npop, 1)

	// callers
	expectCallers := func(target *ssa.Function, what string, allowed func(caller *ssa.Function, site ssa.Instruction) bool) {
		sites := p.CallersOf(target)
		if len(sites) == 0 {
			c.Bad("callers:"+what, p.Pos(target.Pos()), what+" has no caller: the mechanism is disconnected")
		}
		for _, s := range sites {
			caller := s.Parent()
			c.sites++
			c.Decide(allowed(caller, s), "caller:"+what+"<-"+fname(caller), p.InstrPos(s), "expected caller", "unexpected caller of "+what+": a second producer/consumer path")
		}
	}
	expectCallers(send, "consumption.send", func(f *ssa.Function, _ ssa.Instruction) bool { return f.Parent() == sendToAll })
	expectCallers(sendToAll, "consumptions.SendToAll", func(f *ssa.Function, _ ssa.Instruction) bool {
		return f == p.Func("media", "(*Stream).WriteRtpPacket") || f == p.Func("media", "(*Stream).WriteFlvTag")
	})
	expectCallers(sendGop, "consumption.sendGop", func(f *ssa.Function, _ ssa.Instruction) bool { return f == startConsume })
	expectCallers(consume, "consumption.consume", func(f *ssa.Function, s ssa.Instruction) bool {
		_, isGo := s.(*ssa.Go)
		return f == startConsume && isGo
	})
	for f := range pushTo {
		if !p.InModule(f) {
			continue
		}
		expectCallers(f, "PushTo:"+fname(f), func(cf *ssa.Function, _ ssa.Instruction) bool { return cf == sendGop })
	}

	// escape of the queue field
	fv := p.FieldVar("media", "consumption", "recvQueue")
	if fv == nil {
		c.Lost("consumption.recvQueue", "field not found")
		return
	}
	for _, fn := range p.ModFuncs() {
		instrs(fn, func(ins ssa.Instruction) {
			fa, ok := ins.(*ssa.FieldAddr)
			if !ok {
				return
			}
			if f, _, ok := fieldAddr(fa); !ok || f != fv {
				return
			}
			for _, r := range referrersOf(fa) {
				switch x := r.(type) {
				case *ssa.Store:
					okc := fn == startConsume && x.Addr == fa
					c.Decide(okc, "queue-store@"+fname(fn), p.InstrPos(r), "queue installed at construction", "consumption.recvQueue assigned outside construction")
				case *ssa.UnOp:
					for _, r2 := range referrersOf(x) {
						cc := callCommon(r2)
						okUse := false
						if cc != nil {
							n := calleeName(cc)
							if strings.HasPrefix(n, "(*"+queuePkg+".SyncQueue).") && len(cc.Args) > 0 && cc.Args[0] == x {
								okUse = true
							}
							if cc.IsInvoke() && cc.Method.Name() == "PushTo" && fn == sendGop {
								okUse = true
							}
						}
						if _, isDbg := r2.(*ssa.DebugRef); isDbg {
							okUse = true
						}
						if !okUse {
							c.Bad("queue-escape@"+fname(fn), p.InstrPos(r2), "consumption.recvQueue escapes (used other than as a queue method receiver or the PushTo argument in sendGop): "+r2.String())
						}
					}
				}
			}
		})
	}
	// construction sites of consumption
	nalloc := 0
	for _, fn := range p.ModFuncs() {
		instrs(fn, func(ins ssa.Instruction) {
			if al, ok := ins.(*ssa.Alloc); ok && isPtrToNamed(al.Type(), modRel("media"), "consumption") {
				nalloc++
				c.Decide(fn == startConsume, "consumption-ctor@"+fname(fn), p.InstrPos(ins), "consumption built in startConsume", "consumption object built outside startConsume")
			}
		})
	}
	c.Floor("consumption constructions", nalloc, 1)
	// order inside startConsume: sendGop (unlocked replay) must precede Add and go consume
	var addI, goI, gopI ssa.Instruction
	add := p.Func("media", "(*consumptions).Add")
	instrs(startConsume, func(ins ssa.Instruction) {
		if callsFunc(ins, add) {
			addI = ins
		}
		if callsFunc(ins, consume) {
			if _, ok := ins.(*ssa.Go); ok {
				goI = ins
			}
		}
		if callsFunc(ins, sendGop) {
			gopI = ins
		}
	})
	if addI == nil || goI == nil || gopI == nil {
		c.Lost("startConsume.order", "Add / go consume / sendGop call not found in startConsume")
		return
	}
	rb := reachableBlocks(addI.Block())
	c.Decide(!rb[gopI.Block()] && !(addI.Block() == gopI.Block() && dominatesInstr(addI, gopI)), "order:sendGop-before-Add", p.InstrPos(gopI), "replay precedes registration", "sendGop (which fills the queue without its lock) can run after the consumer is registered for live packets")
	rb = reachableBlocks(goI.Block())
	c.Decide(!rb[gopI.Block()] && !rb[addI.Block()] && dominatesInstr(addI, goI), "order:Add-before-go-consume", p.InstrPos(goI), "delivery goroutine started after replay and registration", "delivery goroutine may start before the replay/registration")
	ex, n := countPaths(startConsume, func(i ssa.Instruction) bool { return i == goI }, nil)
	c.paths += n
	for ret, sts := range ex {
		for _, s := range sts {
			// paths that registered must have started exactly one goroutine
			if dominatesInstr(addI, ret) && s.N != 1 {
				c.Bad("one-delivery-goroutine", p.InstrPos(ret), fmt.Sprintf("a path registers the consumer but starts %d delivery goroutines", s.N))
			}
		}
	}
	c.OK("one-delivery-goroutine", p.InstrPos(goI), "exactly one delivery goroutine per registered consumer")
}

func paramOf(fn *ssa.Function, name string) *ssa.Parameter {
	for _, p := range fn.Params {
		if p.Name() == name {
			return p
		}
	}
	return nil
}

func ruleSameObject(c *Ctx) {
	p := c.P
	type site struct {
		fnRel, fnName string
		callee        string // suffix of callee name
		argIdx        int    // index into Args (incl. receiver for static method calls)
		param         int    // index of the enclosing *declared* function's parameter (incl. receiver)
	}
	check := func(fn *ssa.Function, outer *ssa.Function, calleeSuffix string, argIdx, paramIdx int, what string) {
		if fn == nil || outer == nil {
			c.Lost(what, "function not found")
			return
		}
		c.touched(fname(fn))
		found := 0
		instrs(fn, func(ins ssa.Instruction) {
			cc := callCommon(ins)
			if cc == nil {
				return
			}
			n := calleeName(cc)
			if !strings.HasSuffix(n, calleeSuffix) {
				return
			}
			found++
			c.sites++
			ai := argIdx
			if cc.IsInvoke() {
				ai-- // receiver is not in Args
			}
			if ai < 0 || ai >= len(cc.Args) || paramIdx >= len(outer.Params) {
				c.Undecided(what, p.InstrPos(ins), "unexpected call shape")
				return
			}
			o := origin(cc.Args[ai])
			c.Decide(o == outer.Params[paramIdx], what, p.InstrPos(ins),
				"argument is the function's own parameter "+outer.Params[paramIdx].Name(),
				"argument "+cc.Args[ai].String()+" is not the untouched parameter "+outer.Params[paramIdx].Name()+" of "+fname(outer)+" (resolved to "+o.String()+"): consumers would receive a different object/flag than was published")
		})
		if found == 0 {
			c.Lost(what, "call to *"+calleeSuffix+" not found in "+fname(fn))
		}
	}
	sta := p.Func("media", "(*consumptions).SendToAll")
	var clo *ssa.Function
	if sta != nil && len(sta.AnonFuncs) == 1 {
		clo = sta.AnonFuncs[0]
	}
	check(clo, sta, "consumption).send", 1, 1, "SendToAll->send:pack")
	check(clo, sta, "consumption).send", 2, 2, "SendToAll->send:keyframe")
	send := p.Func("media", "(*consumption).send")
	check(send, send, "SyncQueue).Push", 1, 1, "send->Push:pack")
	w := p.Func("media", "(*Stream).WriteRtpPacket")
	check(w, w, "packCache).CachePack", 1, 1, "WriteRtpPacket->CachePack:packet")
	check(w, w, "consumptions).SendToAll", 1, 1, "WriteRtpPacket->SendToAll:packet")
	check(w, w, ").WriteRtpPacket", 1, 1, "WriteRtpPacket->demuxer:packet")
	wf := p.Func("media", "(*Stream).WriteFlvTag")
	check(wf, wf, "packCache).CachePack", 1, 1, "WriteFlvTag->CachePack:tag")
	check(wf, wf, "consumptions).SendToAll", 1, 1, "WriteFlvTag->SendToAll:tag")
	// keyframe flag given to SendToAll is CachePack's result
	for _, f := range []*ssa.Function{w, wf} {
		if f == nil {
			continue
		}
		instrs(f, func(ins ssa.Instruction) {
			cc := callCommon(ins)
			if cc == nil || !strings.HasSuffix(calleeName(cc), "consumptions).SendToAll") {
				return
			}
			o := origin(cc.Args[2])
			call, ok := o.(*ssa.Call)
			c.Decide(ok && strings.HasSuffix(calleeName(&call.Call), "packCache).CachePack"), fname(f)+"->SendToAll:keyframe", p.InstrPos(ins), "keyframe flag is the cache's classification of this packet", "keyframe flag passed to SendToAll is not the result of CachePack on this packet")
		})
	}
}

// boolFieldState tracks the abstract value of one bool field of the receiver.
type bfState struct {
	N   int  // counted events (cap 2)
	Val int8 // 0 unknown, 1 true, 2 false
	F2  int8 // rule-specific flag
}

func ruleSendOnce(c *Ctx) {
	p := c.P
	send := p.Func("media", "(*consumption).send")
	disc := p.FieldVar("media", "consumption", "discarding")
	if send == nil || disc == nil {
		c.Lost("consumption.send", "send or discarding not found")
		return
	}
	c.touched(fname(send))
	isPush := func(ins ssa.Instruction) bool {
		cc := callCommon(ins)
		return cc != nil && calleeName(cc) == "(*"+queuePkg+".SyncQueue).Push" && classifyQueueRecv(cc.Args[0]) == "field:media.consumption.recvQueue"
	}
	recv := send.Params[0]
	rule := &PathRule[bfState]{Fn: send, Init: []bfState{{}},
		Transfer: func(s bfState, ins ssa.Instruction) []bfState {
			if isPush(ins) {
				if s.N < 2 {
					s.N++
				}
				return []bfState{s}
			}
			if st, ok := ins.(*ssa.Store); ok {
				if f, base, ok := fieldAddr(st.Addr); ok && f == disc && origin(base) == recv {
					if b, ok := constBool(st.Val); ok {
						if b {
							s.Val = 1
						} else {
							s.Val = 2
						}
					} else {
						s.Val = 0
					}
					return []bfState{s}
				}
			}
			if cc := callCommon(ins); cc != nil {
				for _, a := range cc.Args {
					if a == recv && cc.StaticCallee() != nil && p.InModule(cc.StaticCallee()) {
						s.Val = 0
						return []bfState{s}
					}
				}
			}
			return nil
		},
		Branch: func(s bfState, cond ssa.Value, taken bool) (bfState, bool) {
			cv, neg := condNeg(cond)
			if f, base, ok := fieldLoad(cv); ok && f == disc && origin(base) == recv {
				val := taken != neg
				want := int8(2)
				if val {
					want = 1
				}
				if s.Val != 0 && s.Val != want {
					return s, false
				}
				s.Val = want
			}
			return s, true
		},
	}
	res := RunPath(rule)
	c.paths += res.N
	bad := false
	for ret, sts := range res.Exits() {
		for _, s := range sts {
			switch {
			case s.Val == 1 && s.N == 0, s.Val == 2 && s.N == 1:
			case s.Val == 0:
				bad = true
				c.Undecided("send:push-once", p.InstrPos(ret), "a path reaches return without testing the discarding flag")
			default:
				bad = true
				c.Bad("send:push-once", p.InstrPos(ret), fmt.Sprintf("a path returns with discarding=%v and %d pushes of the packet (expected: exactly one push iff not discarding): packets are skipped or duplicated for this consumer", s.Val == 1, s.N))
			}
		}
	}
	if !bad {
		c.OK("send:push-once", p.Pos(send.Pos()), fmt.Sprintf("every path pushes exactly once iff not discarding (%d path states)", res.N))
	}

	// SendToAll closure: send exactly once, always returns true
	sta := p.Func("media", "(*consumptions).SendToAll")
	if sta == nil || len(sta.AnonFuncs) != 1 {
		c.Lost("SendToAll.closure", "SendToAll or its single closure not found")
		return
	}
	clo := sta.AnonFuncs[0]
	c.touched(fname(clo))
	ex, n := countPaths(clo, func(i ssa.Instruction) bool { return callsFunc(i, send) }, nil)
	c.paths += n
	ok := len(ex) > 0
	for ret, sts := range ex {
		for _, s := range sts {
			if s.N != 1 {
				ok = false
				c.Bad("SendToAll.closure:send-once", p.InstrPos(ret), fmt.Sprintf("a path of the fan-out closure calls send %d times", s.N))
			}
		}
		r := ret.(*ssa.Return)
		if b, isc := constBool(retValue(r, 0)); !isc || !b {
			ok = false
			c.Bad("SendToAll.closure:continues", p.InstrPos(ret), "the fan-out closure can return a value other than the constant true: sync.Map.Range stops and the remaining consumers do not receive the packet (what one consumer receives then depends on other consumers)")
		}
	}
	if ok {
		c.OK("SendToAll.closure:send-once", p.Pos(clo.Pos()), "send called exactly once per consumer")
		c.OK("SendToAll.closure:continues", p.Pos(clo.Pos()), "closure always returns true")
	}
	ex, n = countPaths(sta, func(i ssa.Instruction) bool {
		cc := callCommon(i)
		return cc != nil && calleeName(cc) == "(*sync.Map).Range" && funcValue(cc.Args[1]) == clo
	}, nil)
	c.paths += n
	ok = len(ex) > 0
	for ret, sts := range ex {
		for _, s := range sts {
			if s.N != 1 {
				ok = false
				c.Bad("SendToAll:range-once", p.InstrPos(ret), fmt.Sprintf("SendToAll iterates the consumer set %d times on some path", s.N))
			}
		}
	}
	if ok {
		c.OK("SendToAll:range-once", p.Pos(sta.Pos()), "iterates the consumer set exactly once")
	}

	// publisher entry points
	status := p.FieldVar("media", "Stream", "status")
	for _, name := range []string{"(*Stream).WriteRtpPacket", "(*Stream).WriteFlvTag"} {
		w := p.Func("media", name)
		if w == nil || status == nil {
			c.Lost(name, "not found")
			continue
		}
		c.touched(fname(w))
		isStatusNe := func(cond ssa.Value) (bool, bool) { // (isStatusTest, trueMeansNotOK)
			b, ok := cond.(*ssa.BinOp)
			if !ok || (b.Op != token.NEQ && b.Op != token.EQL) {
				return false, false
			}
			x, y := b.X, b.Y
			if _, isc := constInt(x); isc {
				x, y = y, x
			}
			k, isc := constInt(y)
			if !isc || k != 0 {
				return false, false
			}
			call, ok := x.(*ssa.Call)
			if !ok || calleeName(&call.Call) != "sync/atomic.LoadInt32" {
				return false, false
			}
			f, _, ok := fieldAddr(call.Call.Args[0])
			if !ok || f != status {
				return false, false
			}
			return true, b.Op == token.NEQ
		}
		type st struct {
			Cache, Send int8
			NotOK       bool
			Order       bool // send seen before cache
		}
		r := &PathRule[st]{Fn: w, Init: []st{{}},
			Transfer: func(s st, ins ssa.Instruction) []st {
				cc := callCommon(ins)
				if cc == nil {
					return nil
				}
				n := calleeName(cc)
				if strings.HasSuffix(n, "packCache).CachePack") {
					if s.Cache < 2 {
						s.Cache++
					}
					return []st{s}
				}
				if callsFunc(ins, sta) {
					if s.Cache == 0 {
						s.Order = true
					}
					if s.Send < 2 {
						s.Send++
					}
					return []st{s}
				}
				return nil
			},
			Branch: func(s st, cond ssa.Value, taken bool) (st, bool) {
				if is, ne := isStatusNe(cond); is && taken == ne {
					s.NotOK = true
				}
				return s, true
			},
		}
		res := RunPath(r)
		c.paths += res.N
		okAll := true
		nexits := 0
		for ret, sts := range res.Exits() {
			for _, s := range sts {
				nexits++
				if s.NotOK && s.Send == 0 && s.Cache == 0 {
					continue
				}
				if !s.NotOK && s.Send == 1 && s.Cache == 1 && !s.Order {
					continue
				}
				okAll = false
				c.Bad(fname(w)+":cache-then-broadcast-once", p.InstrPos(ret), fmt.Sprintf("a path returns with CachePack×%d, SendToAll×%d, status-not-OK=%v, broadcast-before-cache=%v (expected exactly one of each, cache first, on every path that passed the status test)", s.Cache, s.Send, s.NotOK, s.Order))
			}
		}
		if okAll && nexits > 0 {
			c.OK(fname(w)+":cache-then-broadcast-once", p.Pos(w.Pos()), "every OK path caches then broadcasts exactly once")
		}
	}
}

// ---------------------------------------------------------------- immutability

// sharedKind classifies the object an address is derived from.
func freshRoot(v ssa.Value) (fresh bool, why string) {
	root := addrRoot(v)
	switch x := root.(type) {
	case *ssa.Alloc:
		return true, "local/new object " + x.Name()
	case *ssa.MakeSlice:
		return true, "fresh make"
	case *ssa.Call:
		// result of a constructor-like call: treat as unknown (shared)
		return false, "result of " + calleeName(&x.Call)
	case *ssa.Parameter:
		return false, "parameter " + x.Name()
	case *ssa.FreeVar:
		return false, "captured " + x.Name()
	case *ssa.Global:
		return false, "global " + x.Name()
	case *ssa.Phi:
		return false, "phi"
	case *ssa.Extract:
		return false, "call result"
	}
	return false, fmt.Sprintf("%T", root)
}

// passesThrough reports whether the address chain of v goes through field
// `field` of a value of named type (pkg,name) — e.g. &p.Data[i] — or is a
// field of such a value.
// isSeqType: the field is storage of the object itself (inline array) or a view shared with it (slice).
func isSeqType(t types.Type) bool {
	switch t.Underlying().(type) {
	case *types.Slice, *types.Array:
		return true
	}
	return false
}

func throughType(v ssa.Value, pkgPath string, names ...string) (hit bool, viaData bool, typ string) {
	for i := 0; i < 64 && v != nil; i++ {
		switch x := v.(type) {
		case *ssa.FieldAddr:
			for _, n := range names {
				if typeIs(x.X.Type(), pkgPath, n) {
					st := derefStruct(x.X.Type())
					return true, isSeqType(st.Field(x.Field).Type()), n + "." + st.Field(x.Field).Name()
				}
			}
			v = x.X
		case *ssa.Field:
			for _, n := range names {
				if typeIs(x.X.Type(), pkgPath, n) {
					st, _ := x.X.Type().Underlying().(*types.Struct)
					return true, isSeqType(st.Field(x.Field).Type()), n + "." + st.Field(x.Field).Name()
				}
			}
			v = x.X
		case *ssa.IndexAddr:
			v = x.X
		case *ssa.Slice:
			v = x.X
		case *ssa.UnOp:
			if x.Op != token.MUL {
				return
			}
			v = x.X
		case *ssa.ChangeType:
			v = x.X
		case *ssa.Convert:
			v = x.X
		default:
			return
		}
	}
	return
}

func rulePublishedImmutable(c *Ctx) {
	p := c.P
	type tgt struct{ pkg, name string }
	targets := []tgt{{modRel("av/format/rtp"), "Packet"}, {modRel("av/format/flv"), "Tag"}, {"github.com/pion/rtp", "Header"}}
	ctor := map[*ssa.Function]string{}
	if f := p.Func("av/format/rtp", "ReadPacket"); f != nil {
		ctor[f] = "deserialising constructor"
	} else {
		c.Lost("rtp.ReadPacket", "not found")
	}
	if f := p.Func("av/format/flv", "(*Tag).Read"); f != nil {
		ctor[f] = "deserialising constructor (fills the tag before it is published)"
	} else {
		c.Lost("flv.Tag.Read", "not found")
	}
	nsites := 0
	checkWrite := func(fn *ssa.Function, ins ssa.Instruction, addr ssa.Value, how string) {
		for _, t := range targets {
			hit, viaData, what := throughType(addr, t.pkg, t.name)
			if !hit {
				continue
			}
			// element writes only matter through Data; field writes matter for the struct itself
			_, isIdx := addr.(*ssa.IndexAddr)
			isElem := isIdx || how != "store"
			if isElem && !viaData {
				continue
			}
			nsites++
			c.sites++
			c.touched(fname(fn))
			key := fmt.Sprintf("%s:%s@%s", how, what, fname(fn))
			if why, ok := ctor[fn]; ok {
				c.OK(key, p.InstrPos(ins), why)
				return
			}
			fresh, why := freshRoot(addr)
			// for element writes through Data, the *slice* must be fresh: Data of a fresh struct copy still aliases the shared bytes
			if fresh && isElem {
				fresh, why = dataIsFresh(addr, fn)
			}
			c.Decide(fresh, key, p.InstrPos(ins), "writes a fresh object ("+why+")", "writes into a shared "+what+" ("+why+"): the same object is seen by the cache, every consumer and the remuxers")
			return
		}
	}
	for _, fn := range p.ModFuncs() {
		instrs(fn, func(ins ssa.Instruction) {
			switch x := ins.(type) {
			case *ssa.Store:
				checkWrite(fn, ins, x.Addr, "store")
			case *ssa.Call:
				n := calleeName(&x.Call)
				switch {
				case n == "builtin.copy":
					checkWrite(fn, ins, x.Call.Args[0], "copy-dst")
				case n == "builtin.append":
					// append(p.Data[:k], ...) may write into the shared backing array
					if _, isSlice := x.Call.Args[0].(*ssa.Slice); isSlice {
						checkWrite(fn, ins, x.Call.Args[0], "append-base")
					}
				case strings.HasPrefix(n, "(encoding/binary.bigEndian).Put") || strings.HasPrefix(n, "(encoding/binary.littleEndian).Put"):
					checkWrite(fn, ins, x.Call.Args[1], "binary.Put")
				case n == "io.ReadFull" || n == "io.ReadAtLeast":
					checkWrite(fn, ins, x.Call.Args[1], "read-into")
				case n == "(*github.com/pion/rtp.Header).Unmarshal":
					// writes the embedded header of the packet
					if f, base, ok := fieldAddr(x.Call.Args[0]); ok && theProgram.baseFieldName(f) == "Header" && typeIs(base.Type(), modRel("av/format/rtp"), "Packet") {
						nsites++
						key := "unmarshal:Packet.Header@" + fname(fn)
						if why, ok := ctor[fn]; ok {
							c.OK(key, p.InstrPos(ins), why)
						} else {
							fresh, why := freshRoot(x.Call.Args[0])
							c.Decide(fresh, key, p.InstrPos(ins), "fresh object ("+why+")", "re-parses the header into a shared packet ("+why+")")
						}
					}
				}
			}
		})
	}
	c.Floor("write sites into rtp.Packet/flv.Tag objects", nsites, 8)
}

// dataIsFresh: for an element write p.Data[i] = .., decide whether the Data
// slice itself was freshly made in this function (stored into the field from
// a make/append-to-nil in the same function).
func dataIsFresh(addr ssa.Value, fn *ssa.Function) (bool, string) {
	// find the load of the Data field in the chain
	v := addr
	for i := 0; i < 64; i++ {
		switch x := v.(type) {
		case *ssa.IndexAddr:
			v = x.X
			continue
		case *ssa.Slice:
			v = x.X
			continue
		case *ssa.UnOp:
			if x.Op == token.MUL {
				if fa, ok := x.X.(*ssa.FieldAddr); ok {
					// all stores to this field address' (base, field) in fn must be fresh makes
					okAll, n := true, 0
					instrs(fn, func(ins ssa.Instruction) {
						st, ok := ins.(*ssa.Store)
						if !ok {
							return
						}
						fa2, ok := st.Addr.(*ssa.FieldAddr)
						if !ok || fa2.Field != fa.Field || addrRoot(fa2) != addrRoot(fa) {
							return
						}
						n++
						if _, mk := st.Val.(*ssa.MakeSlice); !mk {
							okAll = false
						}
					})
					if n > 0 && okAll {
						return true, "Data freshly made in this function"
					}
					return false, "Data slice aliases the published bytes"
				}
			}
		}
		break
	}
	return false, "Data slice not provably fresh"
}

// ---------------------------------------------------------------- adapters

// consumerImpls returns the concrete Consume methods of types implementing media.Consumer.
func consumerImpls(p *Program) []*ssa.Function {
	mp := p.Pkg("media")
	if mp == nil {
		return nil
	}
	obj := mp.Pkg.Scope().Lookup("Consumer")
	if obj == nil {
		return nil
	}
	iface, ok := obj.Type().Underlying().(*types.Interface)
	if !ok {
		return nil
	}
	var out []*ssa.Function
	seen := map[*ssa.Function]bool{}
	for _, pk := range p.SSA.AllPackages() {
		if !strings.HasPrefix(pk.Pkg.Path(), modPath) {
			continue
		}
		for _, m := range pk.Members {
			t, ok := m.(*ssa.Type)
			if !ok {
				continue
			}
			if _, isI := t.Type().Underlying().(*types.Interface); isI {
				continue
			}
			for _, recv := range []types.Type{t.Type(), types.NewPointer(t.Type())} {
				if !types.Implements(recv, iface) {
					continue
				}
				sel := p.SSA.MethodSets.MethodSet(recv).Lookup(pk.Pkg, "Consume")
				if sel == nil {
					continue
				}
				f := p.SSA.MethodValue(sel)
				if f == nil {
					continue
				}
				// skip promoted wrappers: use the declared method
				if f.Synthetic != "" {
					continue
				}
				if !seen[f] {
					seen[f] = true
					out = append(out, f)
				}
				break
			}
		}
	}
	sort.Slice(out, func(i, j int) bool { return out[i].String() < out[j].String() })
	return out
}

func ruleAdapterWritesPacket(c *Ctx) {
	p := c.P
	impls := consumerImpls(p)
	c.Floor("media.Consumer implementations", len(impls), 7)
	nAdapters := 0
	for _, f := range impls {
		c.touched(fname(f))
		if len(f.Params) < 2 {
			continue
		}
		pk := f.Params[1]
		// does this adapter own a transport? (contains any write call)
		var writes []ssa.Instruction
		isWrite := func(ins ssa.Instruction) (bool, ssa.Value) {
			cc := callCommon(ins)
			if cc == nil {
				return false, nil
			}
			n := calleeName(cc)
			switch {
			case n == "(*"+modRel("av/format/rtp")+".Packet).Write":
				return true, cc.Args[0]
			case n == "(*net.UDPConn).WriteToUDP":
				return true, cc.Args[1]
			case strings.HasSuffix(n, ".Writer).WriteFlvTag") && strings.Contains(n, "av/format/flv"):
				return true, cc.Args[1]
			}
			return false, nil
		}
		instrs(f, func(ins ssa.Instruction) {
			if ok, _ := isWrite(ins); ok {
				writes = append(writes, ins)
			}
		})
		if len(writes) == 0 {
			// delegating or placeholder consumers
			deleg := false
			instrs(f, func(ins ssa.Instruction) {
				if cc := callCommon(ins); cc != nil && cc.IsInvoke() && cc.Method.Name() == "Consume" {
					deleg = true
					c.Decide(origin(cc.Args[0]) == pk, "delegate:"+fname(f), p.InstrPos(ins), "delegates the same packet", "delegates a different object than it was given")
				}
			})
			if !deleg {
				c.Note("%s: no transport write (placeholder consumer)", fname(f))
			}
			continue
		}
		nAdapters++
		for _, w := range writes {
			_, data := isWrite(w)
			o := origin(addrRootThroughAssert(data))
			c.sites++
			c.Decide(o == pk, "adapter-data:"+fname(f), p.InstrPos(w), "written bytes derive from the packet parameter", "the bytes written to the transport do not derive from the packet this consumer was given ("+o.String()+")")
		}
		// exactly one write on every path that is not a closed/unsubscribed early-out
		type st struct {
			N     int8
			Guard bool
		}
		r := &PathRule[st]{Fn: f, Init: []st{{}},
			Transfer: func(s st, ins ssa.Instruction) []st {
				if ok, _ := isWrite(ins); ok {
					if s.N < 2 {
						s.N++
					}
					return []st{s}
				}
				return nil
			},
			Branch: func(s st, cond ssa.Value, taken bool) (st, bool) {
				cv, neg := condNeg(cond)
				val := taken != neg
				// accepted early-outs: closed flag true; destination address nil (channel not subscribed)
				if fl, _, ok := fieldLoad(cv); ok && (p.baseFieldName(fl) == "closed" || p.baseFieldName(fl) == "paused") && val {
					s.Guard = true
				}
				if b, ok := cv.(*ssa.BinOp); ok && (b.Op == token.NEQ || b.Op == token.EQL) {
					if isNilConst(b.Y) || isNilConst(b.X) {
						isNil := (b.Op == token.EQL) == val
						other := b.X
						if isNilConst(b.X) {
							other = b.Y
						}
						if isNil && isDestAddrLoad(other) {
							s.Guard = true
						}
					}
				}
				return s, true
			},
		}
		res := RunPath(r)
		c.paths += res.N
		ok := true
		for ret, sts := range res.Exits() {
			for _, s := range sts {
				if s.Guard && s.N == 0 || !s.Guard && s.N == 1 {
					continue
				}
				ok = false
				c.Bad("adapter-once:"+fname(f), p.InstrPos(ret), fmt.Sprintf("a path returns after %d transport writes (closed/unsubscribed early-out=%v): the consumer misses or repeats this packet depending on packet contents or other state", s.N, s.Guard))
			}
		}
		if ok {
			c.OK("adapter-once:"+fname(f), p.Pos(f.Pos()), "exactly one transport write on every delivering path")
		}
	}
	c.Floor("transport adapters with a write", nAdapters, 5)
}

func addrRootThroughAssert(v ssa.Value) ssa.Value {
	return addrRoot(v)
}

func isDestAddrLoad(v ssa.Value) bool {
	// load of x.destAddr[i]
	u, ok := v.(*ssa.UnOp)
	if !ok || u.Op != token.MUL {
		return false
	}
	ia, ok := u.X.(*ssa.IndexAddr)
	if !ok {
		return false
	}
	f, _, ok := fieldAddr(ia.X)
	return ok && theProgram.baseFieldName(f) == "destAddr"
}
