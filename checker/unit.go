package main

// Helpers that make rules indifferent to "extract method" refactorings: a private helper that is
// only called from the analysed function belongs to that function's unit, values flow through
// the parameters of a function with a single call site, and conditions established at that call
// site hold inside the helper.

import (
	"golang.org/x/tools/go/ssa"
)

var theProgram *Program

// staticCallSites lists the plain static call instructions (call, not go/defer) of fn in the module.
func staticCallSites(fn *ssa.Function) []*ssa.Call {
	p := theProgram
	if p == nil || fn == nil {
		return nil
	}
	if p.callSites == nil {
		p.callSites = map[*ssa.Function][]*ssa.Call{}
		p.otherRefs = map[*ssa.Function]int{}
		for _, f := range p.modFuncs {
			for _, b := range f.Blocks {
				for _, ins := range b.Instrs {
					switch x := ins.(type) {
					case *ssa.Call:
						if c := x.Call.StaticCallee(); c != nil {
							p.callSites[c] = append(p.callSites[c], x)
						}
					case *ssa.Go:
						if c := x.Call.StaticCallee(); c != nil {
							p.otherRefs[c]++
						}
					case *ssa.Defer:
						if c := x.Call.StaticCallee(); c != nil {
							p.otherRefs[c]++
						}
					}
					// function values (method values, function arguments) make a function callable from unknown sites
					for _, op := range ins.Operands(nil) {
						if op == nil || *op == nil {
							continue
						}
						if fv, ok := (*op).(*ssa.Function); ok {
							if cc := callCommon(ins); cc != nil && cc.Value == ssa.Value(fv) {
								continue
							}
							p.otherRefs[fv]++
						}
					}
				}
			}
		}
	}
	return p.callSites[fn]
}

// uniqueCallSite: the single static call of a named function that is referenced nowhere else
// (not passed as a value, not started with go/defer, not a method that may be called through an interface).
func uniqueCallSite(fn *ssa.Function) *ssa.Call {
	if fn == nil || fn.Parent() != nil || fn.Synthetic != "" {
		return nil
	}
	sites := staticCallSites(fn)
	if len(sites) != 1 || theProgram.otherRefs[fn] != 0 {
		return nil
	}
	if fn.Signature.Recv() != nil && fn.Object() != nil && fn.Object().Exported() {
		return nil // may satisfy an interface
	}
	if sites[0].Parent() == fn {
		return nil
	}
	return sites[0]
}

// unitFuncs: fn, its closures, and (transitively) the same-package helpers all of whose uses are
// static calls from inside the unit.
func unitFuncs(fn *ssa.Function) []*ssa.Function {
	if fn == nil {
		return nil
	}
	in := map[*ssa.Function]bool{}
	var out []*ssa.Function
	add := func(f *ssa.Function) {
		for _, g := range withAnons(f) {
			if !in[g] {
				in[g] = true
				out = append(out, g)
			}
		}
	}
	add(fn)
	for changed, rounds := true, 0; changed && rounds < 4; rounds++ {
		changed = false
		for _, f := range append([]*ssa.Function{}, out...) {
			for _, b := range f.Blocks {
				for _, ins := range b.Instrs {
					call, ok := ins.(*ssa.Call)
					if !ok {
						continue
					}
					c := call.Call.StaticCallee()
					if c == nil || in[c] || len(c.Blocks) == 0 || c.Pkg == nil || fn.Pkg == nil || c.Pkg != fn.Pkg {
						continue
					}
					if c.Signature.Recv() != nil && c.Object() != nil && c.Object().Exported() {
						continue
					}
					if theProgram.otherRefs[c] != 0 {
						continue
					}
					excl := true
					for _, s := range staticCallSites(c) {
						if !in[s.Parent()] {
							excl = false
						}
					}
					if excl {
						add(c)
						changed = true
					}
				}
			}
		}
	}
	return out
}

// instrsUnit visits the instructions of fn's unit.
func instrsUnit(fn *ssa.Function, f func(ins ssa.Instruction)) {
	for _, g := range unitFuncs(fn) {
		for _, b := range g.Blocks {
			for _, ins := range b.Instrs {
				f(ins)
			}
		}
	}
}

// inUnit reports whether g belongs to fn's unit.
func inUnit(fn, g *ssa.Function) bool {
	for _, f := range unitFuncs(fn) {
		if f == g {
			return true
		}
	}
	return false
}

// callSiteOfUnitHelper: for an instruction inside a helper of a unit, the call instruction in the
// caller (unique call site), else nil.
func climb(ins ssa.Instruction) ssa.Instruction {
	fn := ins.Parent()
	if fn == nil {
		return nil
	}
	if fn.Parent() != nil {
		return nil
	}
	if c := uniqueCallSite(fn); c != nil {
		return c
	}
	return nil
}
