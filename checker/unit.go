package main

// Helpers that make rules indifferent to "extract method" refactorings: a private helper that is
// only called from the analysed function belongs to that function's unit, values flow through
// the parameters of a function with a single call site, and conditions established at that call
// site hold inside the helper.

import (
	"go/token"
	"go/types"
	"strings"

	"golang.org/x/tools/go/ssa"
)

var theProgram *Program

// staticCallSites lists the plain static call instructions (call, not go/defer) of fn in the module.
func staticCallSites(fn *ssa.Function) []*ssa.Call {
	p := theProgram
	if p == nil || fn == nil {
		return nil
	}
	if p.callSites == nil {
		p.callSites = map[*ssa.Function][]*ssa.Call{}
		p.otherRefs = map[*ssa.Function]int{}
		for _, f := range p.modFuncs {
			for _, b := range f.Blocks {
				for _, ins := range b.Instrs {
					switch x := ins.(type) {
					case *ssa.Call:
						if c := x.Call.StaticCallee(); c != nil {
							p.callSites[c] = append(p.callSites[c], x)
						}
					case *ssa.Go:
						if c := x.Call.StaticCallee(); c != nil {
							p.otherRefs[c]++
						}
					case *ssa.Defer:
						if c := x.Call.StaticCallee(); c != nil {
							p.otherRefs[c]++
						}
					}
					// function values (method values, function arguments) make a function callable from unknown sites
					for _, op := range ins.Operands(nil) {
						if op == nil || *op == nil {
							continue
						}
						if fv, ok := (*op).(*ssa.Function); ok {
							if cc := callCommon(ins); cc != nil && cc.Value == ssa.Value(fv) {
								continue
							}
							p.otherRefs[fv]++
						}
					}
				}
			}
		}
	}
	return p.callSites[fn]
}

// uniqueCallSite: the single static call of a named function that is referenced nowhere else
// (not passed as a value, not started with go/defer, not a method that may be called through an interface).
func uniqueCallSite(fn *ssa.Function) *ssa.Call {
	if fn == nil || fn.Parent() != nil || fn.Synthetic != "" {
		return nil
	}
	sites := staticCallSites(fn)
	if len(sites) != 1 || theProgram.otherRefs[fn] != 0 {
		return nil
	}
	if fn.Signature.Recv() != nil && fn.Object() != nil && fn.Object().Exported() {
		return nil // may satisfy an interface
	}
	if sites[0].Parent() == fn {
		return nil
	}
	return sites[0]
}

// unitFuncs: fn, its closures, and (transitively) the same-package helpers all of whose uses are
// static calls from inside the unit.
func unitFuncs(fn *ssa.Function) []*ssa.Function {
	if fn == nil {
		return nil
	}
	in := map[*ssa.Function]bool{}
	var out []*ssa.Function
	add := func(f *ssa.Function) {
		for _, g := range withAnons(f) {
			if !in[g] {
				in[g] = true
				out = append(out, g)
			}
		}
	}
	add(fn)
	for changed, rounds := true, 0; changed && rounds < 4; rounds++ {
		changed = false
		for _, f := range append([]*ssa.Function{}, out...) {
			for _, b := range f.Blocks {
				for _, ins := range b.Instrs {
					call, ok := ins.(*ssa.Call)
					if !ok {
						continue
					}
					c := call.Call.StaticCallee()
					if c == nil || in[c] || len(c.Blocks) == 0 || c.Pkg == nil || fn.Pkg == nil || c.Pkg != fn.Pkg {
						continue
					}
					if c.Signature.Recv() != nil && c.Object() != nil && c.Object().Exported() {
						continue
					}
					if theProgram.otherRefs[c] != 0 {
						continue
					}
					excl := true
					for _, s := range staticCallSites(c) {
						if !in[s.Parent()] {
							excl = false
						}
					}
					if excl {
						add(c)
						changed = true
					}
				}
			}
		}
	}
	return out
}

// instrsUnit visits the instructions of fn's unit.
func instrsUnit(fn *ssa.Function, f func(ins ssa.Instruction)) {
	for _, g := range unitFuncs(fn) {
		for _, b := range g.Blocks {
			for _, ins := range b.Instrs {
				f(ins)
			}
		}
	}
}

// inUnit reports whether g belongs to fn's unit.
func inUnit(fn, g *ssa.Function) bool {
	for _, f := range unitFuncs(fn) {
		if f == g {
			return true
		}
	}
	return false
}

// callSiteOfUnitHelper: for an instruction inside a helper of a unit, the call instruction in the
// caller (unique call site), else nil.
func climb(ins ssa.Instruction) ssa.Instruction {
	fn := ins.Parent()
	if fn == nil {
		return nil
	}
	if fn.Parent() != nil {
		return nil
	}
	if c := uniqueCallSite(fn); c != nil {
		return c
	}
	return nil
}

// baseFuncName returns the name the baseline symbol table knows a (possibly renamed) private
// function or method by; for every other function its own name.
func baseFuncName(fn *ssa.Function) string {
	if fn == nil {
		return ""
	}
	if len(funcAlias) == 0 {
		return fn.Name()
	}
	obj, ok := fn.Object().(*types.Func)
	if !ok {
		return fn.Name()
	}
	key := funcKey(obj)
	prefix := key[:len(key)-len(fn.Name())]
	for old, now := range funcAlias {
		if now == fn.Name() && strings.HasPrefix(old, prefix) && !strings.Contains(old[len(prefix):], ".") {
			return old[len(prefix):]
		}
	}
	return fn.Name()
}

// tableCallees resolves a dynamic call whose callee is read, by the index of a `range` loop, from a
// local array literal of function / method values (`steps := [...]func() error{c.a, c.b}; for _, s
// := range steps { s() }`): the functions in table order. nil if the call is not of that shape.
func tableCallees(cc *ssa.CallCommon) []*ssa.Function {
	if cc == nil || cc.IsInvoke() || cc.StaticCallee() != nil {
		return nil
	}
	var alloc *ssa.Alloc
	var idx ssa.Value
	switch x := cc.Value.(type) {
	case *ssa.Index:
		if ld, ok := x.X.(*ssa.UnOp); ok && ld.Op == token.MUL {
			alloc, _ = ld.X.(*ssa.Alloc)
		}
		idx = x.Index
	case *ssa.UnOp:
		if ia, ok := x.X.(*ssa.IndexAddr); ok && x.Op == token.MUL {
			alloc, _ = ia.X.(*ssa.Alloc)
			idx = ia.Index
		}
	}
	if alloc == nil || idx == nil {
		return nil
	}
	// ascending range index: phi + 1
	bo, ok := idx.(*ssa.BinOp)
	if !ok || bo.Op != token.ADD {
		return nil
	}
	if _, isPhi := bo.X.(*ssa.Phi); !isPhi {
		return nil
	}
	if k, ok := constInt(bo.Y); !ok || k != 1 {
		return nil
	}
	arr, ok := alloc.Type().Underlying().(*types.Pointer).Elem().Underlying().(*types.Array)
	if !ok {
		return nil
	}
	slots := make([]*ssa.Function, arr.Len())
	for _, r := range *alloc.Referrers() {
		switch x := r.(type) {
		case *ssa.IndexAddr:
			k, ok := constInt(x.Index)
			if !ok || k < 0 || k >= arr.Len() {
				if x.Index == idx {
					continue
				}
				return nil
			}
			for _, r2 := range *x.Referrers() {
				st, ok := r2.(*ssa.Store)
				if !ok || st.Addr != ssa.Value(x) || slots[k] != nil {
					return nil
				}
				var fn *ssa.Function
				switch v := st.Val.(type) {
				case *ssa.MakeClosure:
					fn, _ = v.Fn.(*ssa.Function)
				case *ssa.Function:
					fn = v
				}
				if fn == nil {
					return nil
				}
				if strings.HasSuffix(fn.Name(), "$bound") {
					if obj, ok := fn.Object().(*types.Func); ok {
						if m := fn.Prog.FuncValue(obj); m != nil {
							fn = m
						}
					}
				}
				slots[k] = fn
			}
		case *ssa.UnOp: // whole-array copy for the range
		case *ssa.DebugRef:
		default:
			return nil
		}
	}
	for _, f := range slots {
		if f == nil {
			return nil
		}
	}
	return slots
}
