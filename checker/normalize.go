package main

// Normalisation pre-pass used only when the rules do not discharge on the tree as written:
// calls to functions that are NOT in the baseline symbol table (/verif/baseline_funcs.txt, the
// functions of the tree the rules were written against) are inlined into their same-package
// callers with the x/tools inliner (a copy of golang.org/x/tools/internal/refactor/inline
// v0.29.0 under ./xt), and the rules are evaluated again on the inlined program. Inlining is
// semantics preserving, so a property decided on the normalised program is decided for the tree.
// This makes "extract method / split function" refactorings invisible to the rules.

import (
	"bufio"
	"bytes"
	"fmt"
	"go/ast"
	"go/token"
	"go/types"
	"os"
	"path/filepath"
	"sort"
	"strings"

	"golang.org/x/tools/go/packages"
	"golang.org/x/tools/go/types/typeutil"

	"ipcheck/xt/refactor/inline"
)

func funcKey(fn *types.Func) string {
	sig, _ := fn.Type().(*types.Signature)
	recv := ""
	if sig != nil && sig.Recv() != nil {
		t := sig.Recv().Type()
		if pt, ok := t.(*types.Pointer); ok {
			t = pt.Elem()
		}
		if n, ok := types.Unalias(t).(*types.Named); ok {
			recv = n.Obj().Name() + "."
		}
	}
	pk := ""
	if fn.Pkg() != nil {
		pk = fn.Pkg().Path()
	}
	return pk + "." + recv + fn.Name()
}

// baselineSigs: function key -> signature string (parameter and result types without names).
var baselineSigs = map[string]string{}

// funcAlias: baseline function key -> the name it now has (a renamed private function).
var funcAlias = map[string]string{}

func sigString(fn *types.Func) string {
	sig, _ := fn.Type().(*types.Signature)
	if sig == nil {
		return ""
	}
	q := func(p *types.Package) string { return p.Path() }
	var ps, rs []string
	for i := 0; i < sig.Params().Len(); i++ {
		ps = append(ps, types.TypeString(sig.Params().At(i).Type(), q))
	}
	for i := 0; i < sig.Results().Len(); i++ {
		rs = append(rs, types.TypeString(sig.Results().At(i).Type(), q))
	}
	v := ""
	if sig.Variadic() {
		v = "..."
	}
	return "(" + strings.Join(ps, ",") + v + ")(" + strings.Join(rs, ",") + ")"
}

func loadBaseline(verifDir string) (map[string]bool, error) {
	f, err := os.Open(filepath.Join(verifDir, "baseline_funcs.txt"))
	if err != nil {
		return nil, err
	}
	defer f.Close()
	out := map[string]bool{}
	sc := bufio.NewScanner(f)
	for sc.Scan() {
		l := strings.TrimSpace(sc.Text())
		if l != "" && !strings.HasPrefix(l, "#") {
			if strings.HasPrefix(l, "field:") {
				fp := strings.SplitN(strings.TrimPrefix(l, "field:"), "\t", 2)
				if len(fp) == 2 {
					baselineFieldOrder[fp[0]] = len(baselineFields)
					baselineFields[fp[0]] = fp[1]
				}
				continue
			}
			parts := strings.SplitN(l, "\t", 2)
			out[parts[0]] = true
			if len(parts) == 2 {
				baselineSigs[parts[0]] = parts[1]
			}
		}
	}
	return out, sc.Err()
}

func loadSyntax(root string, overlay map[string][]byte) ([]*packages.Package, error) {
	env := append(os.Environ(), "GOFLAGS=-mod=mod", "GOPROXY=off", "GOSUMDB=off", "GOTOOLCHAIN=local", "GOWORK=off")
	cfg := &packages.Config{
		Mode:       packages.LoadSyntax,
		Dir:        root,
		Env:        env,
		Tests:      false,
		BuildFlags: []string{"-tags=verif"},
		Overlay:    overlay,
	}
	pkgs, err := packages.Load(cfg, "./...")
	if err != nil {
		return nil, err
	}
	for _, pk := range pkgs {
		if len(pk.Errors) > 0 {
			return nil, fmt.Errorf("%s: %v", pk.PkgPath, pk.Errors[0])
		}
	}
	return pkgs, nil
}

// writeBaseline lists every declared function of the module.
func writeBaseline(root, verifDir string) error {
	pkgs, err := loadSyntax(root, nil)
	if err != nil {
		return err
	}
	var keys []string
	for _, pk := range pkgs {
		for _, f := range pk.Syntax {
			for _, d := range f.Decls {
				if fd, ok := d.(*ast.FuncDecl); ok {
					if fn, ok := pk.TypesInfo.Defs[fd.Name].(*types.Func); ok {
						keys = append(keys, funcKey(fn)+"\t"+sigString(fn))
					}
				}
			}
		}
	}
	sort.Strings(keys)
	var fields []string
	for _, pk := range pkgs {
		sc := pk.Types.Scope()
		names := sc.Names()
		sort.Strings(names)
		for _, nm := range names {
			tn, ok := sc.Lookup(nm).(*types.TypeName)
			if !ok {
				continue
			}
			st, ok := tn.Type().Underlying().(*types.Struct)
			if !ok {
				continue
			}
			for i := 0; i < st.NumFields(); i++ {
				f := st.Field(i)
				fields = append(fields, "field:"+pk.PkgPath+"."+nm+"."+f.Name()+"\t"+types.TypeString(f.Type(), func(p *types.Package) string { return p.Path() }))
			}
		}
	}
	var b bytes.Buffer
	b.WriteString("# functions of cnotch/ipchub at the tree the rules were written against; calls to functions that are\n# not listed here are inlined by the normalisation pre-pass before the rules are evaluated a second time\n")
	for _, k := range keys {
		b.WriteString(k + "\n")
	}
	for _, k := range fields {
		b.WriteString(k + "\n")
	}
	return os.WriteFile(filepath.Join(verifDir, "baseline_funcs.txt"), b.Bytes(), 0o644)
}

// normalize returns an overlay in which calls to non-baseline same-package functions are inlined.
func normalize(root string, overlay map[string][]byte, baseline map[string]bool) (map[string][]byte, []string, error) {
	out := map[string][]byte{}
	for k, v := range overlay {
		out[k] = v
	}
	var log []string
	inlined := 0
	expanded := 0
	for round := 0; round < 40; round++ {
		pkgs, err := loadSyntax(root, out)
		if err != nil {
			return nil, log, err
		}
		progress := false
		for _, pk := range pkgs {
			if !strings.HasPrefix(pk.PkgPath, modPath) {
				continue
			}
			if expanded < 24 {
				prev := map[string][]byte{}
				for k, v := range out {
					prev[k] = v
				}
				if ok, what := expandOneClosure(pk, out, root); ok {
					// keep the expansion only if everything still type-checks
					if _, terr := loadSyntax(root, out); terr == nil {
						expanded++
						inlined++
						log = append(log, what)
						progress = true
						break
					}
					out = prev
					expanded = 1 << 20 // do not retry a closure that cannot be expanded
				}
			}
			// candidate callees declared in this package
			decls := map[*types.Func]*ast.FuncDecl{}
			declFile := map[*types.Func]*ast.File{}
			for _, f := range pk.Syntax {
				for _, d := range f.Decls {
					fd, ok := d.(*ast.FuncDecl)
					if !ok || fd.Body == nil {
						continue
					}
					fn, ok := pk.TypesInfo.Defs[fd.Name].(*types.Func)
					if !ok || baseline[funcKey(fn)] {
						continue
					}
					// recover() only works when called directly by a deferred function: inlining a helper
					// that calls it would change behaviour, so such helpers are left alone
					usesRecover := false
					ast.Inspect(fd.Body, func(n ast.Node) bool {
						if call, ok := n.(*ast.CallExpr); ok {
							if id, ok := call.Fun.(*ast.Ident); ok && id.Name == "recover" {
								if _, isBuiltin := pk.TypesInfo.Uses[id].(*types.Builtin); isBuiltin {
									usesRecover = true
								}
							}
						}
						return !usesRecover
					})
					if usesRecover {
						continue
					}
					decls[fn] = fd
					declFile[fn] = f
				}
			}
			// a new function with the receiver and signature of exactly one baseline function that no longer
			// exists is that function renamed: keep it (rules find it through funcAlias) instead of inlining it
			if len(decls) > 0 {
				present := map[string]bool{}
				for _, f := range pk.Syntax {
					for _, d := range f.Decls {
						if fd, ok := d.(*ast.FuncDecl); ok {
							if fn, ok := pk.TypesInfo.Defs[fd.Name].(*types.Func); ok {
								present[funcKey(fn)] = true
							}
						}
					}
				}
				recvOf := func(key string) string {
					rest := strings.TrimPrefix(key, pk.PkgPath+".")
					if i := strings.LastIndex(rest, "."); i >= 0 {
						return rest[:i]
					}
					return ""
				}
				for fn := range decls {
					var match []string
					for old, sig := range baselineSigs {
						if present[old] || !strings.HasPrefix(old, pk.PkgPath+".") || strings.Contains(strings.TrimPrefix(old, pk.PkgPath+"."), "/") {
							continue
						}
						if sig == sigString(fn) && recvOf(old) == recvOf(funcKey(fn)) {
							match = append(match, old)
						}
					}
					if len(match) == 1 {
						// and no other new function competes for the same old name
						rivals := 0
						for g := range decls {
							if g != fn && sigString(g) == sigString(fn) && recvOf(funcKey(g)) == recvOf(funcKey(fn)) {
								rivals++
							}
						}
						if rivals == 0 {
							if funcAlias[match[0]] == "" {
								log = append(log, fmt.Sprintf("%s is taken to be the renamed %s", funcKey(fn), match[0]))
							}
							funcAlias[match[0]] = fn.Name()
							delete(decls, fn)
						}
					}
				}
			}
			if len(decls) == 0 {
				continue
			}
			content := func(f *ast.File) ([]byte, string, error) {
				name := pk.Fset.File(f.Pos()).Name()
				if b, ok := out[name]; ok {
					return b, name, nil
				}
				b, err := os.ReadFile(name)
				return b, name, err
			}
			remaining := map[*types.Func]int{}
			for _, f := range pk.Syntax {
				done := false
				var enclosing *ast.FuncDecl
				ast.Inspect(f, func(n ast.Node) bool {
					if fd, ok := n.(*ast.FuncDecl); ok {
						enclosing = fd
					}
					call, ok := n.(*ast.CallExpr)
					if !ok {
						return true
					}
					fn, _ := typeutil.Callee(pk.TypesInfo, call).(*types.Func)
					if fn == nil {
						return true
					}
					decl, cand := decls[fn]
					if !cand {
						return true
					}
					if enclosing == decl {
						return true // recursion
					}
					remaining[fn]++
					if done {
						return true
					}
					callerContent, callerName, err := content(f)
					if err != nil {
						return true
					}
					calleeContent, _, err := content(declFile[fn])
					if err != nil {
						return true
					}
					callee, err := inline.AnalyzeCallee(func(string, ...any) {}, pk.Fset, pk.Types, pk.TypesInfo, decl, calleeContent)
					if err != nil {
						log = append(log, fmt.Sprintf("cannot analyse %s: %v", funcKey(fn), err))
						return true
					}
					res, err := inline.Inline(&inline.Caller{Fset: pk.Fset, Types: pk.Types, Info: pk.TypesInfo, File: f, Call: call, Content: callerContent}, callee, &inline.Options{})
					if err != nil {
						log = append(log, fmt.Sprintf("cannot inline %s at %s: %v", funcKey(fn), pk.Fset.Position(call.Pos()), err))
						return true
					}
					out[callerName] = res.Content
					inlined++
					done = true
					progress = true
					remaining[fn]--
					lit := ""
					if res.Literalized {
						lit = " (as a function literal)"
					}
					log = append(log, fmt.Sprintf("inlined %s at %s%s", funcKey(fn), shortPos(pk.Fset, call.Pos(), root), lit))
					return true
				})
			}
			if progress {
				continue
			}
			// no call left to inline in this package: drop declarations that are no longer referenced
			used := map[*types.Func]bool{}
			for id, obj := range pk.TypesInfo.Uses {
				if fn, ok := obj.(*types.Func); ok {
					_ = id
					used[fn] = true
				}
			}
			for fn, decl := range decls {
				if used[fn] || fn.Exported() {
					continue
				}
				f := declFile[fn]
				b, name, err := content(f)
				if err != nil {
					continue
				}
				start := decl.Pos()
				if decl.Doc != nil {
					start = decl.Doc.Pos()
				}
				tf := pk.Fset.File(f.Pos())
				so, eo := tf.Offset(start), tf.Offset(decl.End())
				if so < 0 || eo > len(b) || so >= eo {
					continue
				}
				nb := append(append([]byte{}, b[:so]...), b[eo:]...)
				out[name] = nb
				progress = true
				log = append(log, "removed the now unused "+funcKey(fn))
				break // offsets of this file changed: next round
			}
		}
		if !progress {
			break
		}
	}
	if inlined == 0 && len(log) == 0 {
		return overlay, nil, nil
	}
	// flatten the function literals the inliner had to introduce
	for name, b := range out {
		if ob, had := overlay[name]; had && bytes.Equal(ob, b) {
			continue
		}
		nb, k, err := flattenIIFEs(b, name)
		if err == nil && k > 0 {
			// keep the flattened text only if the package still type-checks with it
			trial := map[string][]byte{}
			for n2, b2 := range out {
				trial[n2] = b2
			}
			trial[name] = nb
			if _, terr := loadSyntax(root, trial); terr == nil {
				out[name] = nb
				log = append(log, fmt.Sprintf("flattened %d inlined function literal(s) in %s", k, filepath.Base(name)))
			} else {
				log = append(log, fmt.Sprintf("kept the function literal(s) in %s (flattening does not type-check: %v)", filepath.Base(name), terr))
			}
		}
	}
	return out, log, nil
}

func shortPos(fset *token.FileSet, pos token.Pos, root string) string {
	p := fset.Position(pos)
	rel, err := filepath.Rel(root, p.Filename)
	if err != nil {
		rel = p.Filename
	}
	return fmt.Sprintf("%s:%d", rel, p.Line)
}
