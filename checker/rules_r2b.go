package main

// Second part of the rule extensions made after the second seeded round (C11..C20), DESIGN §9.2.

import (
	"fmt"
	"go/token"
	"go/types"
	"strings"

	"golang.org/x/tools/go/ssa"
)

func init() {
	share := func(prop string, r *RuleDoc) {
		if p := properties[prop]; p != nil {
			p.Rules = append(p.Rules, r)
		}
	}
	share("C12", &RuleDoc{Name: "R-ROLE-GATE", Text: "A session becomes a pusher only where mode == RecordSession and transport == TCP are both established, and a consumer only where mode == PlaySession is established (the refusal branch is taken when either test fails).", Run: ruleRoleGate})
	if p13 := properties["C13"]; p13 != nil {
		for _, r := range p13.Rules {
			if r.Name == "R-WRITE-LOCKED" {
				share("C12", &RuleDoc{Name: "R-WRITE-LOCKED", Text: "(shared with C13) a response is written and flushed inside one lockW section, so the bytes of one response reach the wire once and contiguously.", Run: r.Run})
			}
		}
	}
	share("C13", &RuleDoc{Name: "R-SESSION-BUFFER-LOCKED", Text: "A bytes.Buffer that lives in a session object (shared by the session's request and media goroutines) is reset/written/read only while that session's write lock is held; per-call pooled or local buffers are exempt.", Run: ruleSessionBufferLocked})
	share("C14", &RuleDoc{Name: "R-CONTENT-LENGTH-IFF-BODY", Text: "Request.Write and Response.Write (sibling rule) emit a Content-Length header exactly when they emit a body: on the empty-body path the header is deleted before the header block is written.", Run: ruleContentLengthIffBody})
	share("C14", &RuleDoc{Name: "R-CHANNEL-IS-INDEX", Text: "ReadPacket stores as Packet.Channel the index of the channel table whose entry equals the wire channel (Packet.Write maps index -> wire number), never the wire number itself.", Run: ruleChannelIsIndex})
	share("C15", &RuleDoc{Name: "R-SE-MAPPING", Text: "ReadSe maps an odd code number to a positive and an even one to a negative value (H.264 9.1.1): on the odd edge of the parity test the result is not a negation, on the even edge it is.", Run: ruleSeMapping})
	share("C15", &RuleDoc{Name: "R-EPB-ONCE", Text: "Emulation-prevention bytes are removed once: only the parameter-set decoders call RemoveH264or5EmulationBytes; code that hands bytes to a decoder (SDP, caches, muxers) does not.", Run: ruleEpbOnce})
	share("C15", &RuleDoc{Name: "R-ASC-EXT-ORDER", Text: "In the explicit SBR/PS branch of AudioSpecificConfig.Decode the extension sampling frequency is read before the inner object type (ISO 14496-3 1.6.2.1).", Run: ruleAscExtOrder})
	share("C16", &RuleDoc{Name: "R-SPLIT-VISITS-ALL", Text: "initMatchers visits every element of the ';'-separated right: the scanning loop is left only through its own continuation test (no break/return inside).", Run: ruleSplitVisitsAll})
	share("C16", &RuleDoc{Name: "R-PARTCOUNT-EVERY-SEPARATOR", Text: "partCount counts every '/' it finds (the increment is unconditional on the found edge), so the segment-count guard and the segment scanner agree on how many segments a path has.", Run: rulePartCountEverySeparator})
	share("C17", &RuleDoc{Name: "R-SAVE-UPDATE-COPIES", Text: "routetable.Save copies the new route's fields into the existing entry on every path of the update branch (a second save before a flush is not dropped).", Run: ruleSaveUpdateCopies})
	share("C18", &RuleDoc{Name: "R-SHUTDOWN-FLUSHES", Text: "Service.Close flushes the route table and the user table on every path, and the periodic storage task flushes both: an edit made since the last periodic flush is on disk after an orderly shutdown.", Run: ruleShutdownFlushes})
	share("C19", &RuleDoc{Name: "R-SNIFF-ERR-WITH-DATA", Text: "While sniffing, the source error is remembered only together with bytes that were buffered (n > 0): a sniff-deadline timeout with no data is never replayed to the service with the prefix.", Run: ruleSniffErrWithData})
	share("C20", &RuleDoc{Name: "R-PARSE-ERR-CHECKED", Text: "requestSDP tests the error of sdp.ParseString before the parsed session is used (go-sdp returns a nil session on error).", Run: ruleParseErrChecked})
	if p03 := properties["C03"]; p03 != nil {
		for _, r := range p03.Rules {
			if r.Name == "R-UNREGIST-CLOSES" {
				share("C20", &RuleDoc{Name: "R-UNREGIST-CLOSES", Text: "(shared with C03/C05) a pulled stream that was replaced in the registry is still closed when its own camera connection ends.", Run: r.Run})
			}
		}
	}
	share("C20", &RuleDoc{Name: "R-RETRY-ON-EVERY-401", Text: "requestWithResponse answers a 401 with an authenticated retry whenever credentials exist, whether or not the rejected request already carried an Authorization header (a camera may re-challenge with a fresh nonce at a later step).", Run: ruleRetryOnEvery401})
	addMutants(
		&Mutant{Prop: "C12", Name: "c12-record-gate-and", File: "service/rtsp/session.go",
			Old: "\tif s.mode != RecordSession || s.transport.Type != RTPTCPUnicast {", New: "\tif s.mode != RecordSession && s.transport.Type != RTPTCPUnicast {", Expect: "R-ROLE-GATE"},
		&Mutant{Prop: "C12", Name: "c12-flush-outside-lock", File: "service/rtsp/session.go",
			Old: "\t\terr = resp.Write(s.conn)\n\t\tif err == nil {\n\t\t\t_, err = s.conn.Flush()\n\t\t}\n\t}\n\n\ts.lockW.Unlock()\n", New: "\t\terr = resp.Write(s.conn)\n\t}\n\n\ts.lockW.Unlock()\n\tif err == nil && s.wsconn == nil {\n\t\t_, err = s.conn.Flush()\n\t}\n", Expect: "R-WRITE-LOCKED"},
		&Mutant{Prop: "C13", Name: "c13-session-scratch-buffer", File: "service/rtsp/session_roles.go",
			Old: "\t\tbuf := buffers.Get().(*bytes.Buffer)\n\t\tbuf.Reset()\n\t\tdefer buffers.Put(buf)\n\n\t\tp2.Write(buf, c.transport.Channels[:])", New: "\t\tbuf := &c.wbuf\n\t\tbuf.Reset()\n\n\t\tp2.Write(buf, c.transport.Channels[:])", Expect: "R-SESSION-BUFFER-LOCKED",
			More: []Edit{{File: "service/rtsp/session.go", Old: "\tlockW    sync.Mutex\n", New: "\tlockW    sync.Mutex\n\twbuf     bytes.Buffer\n"}, {File: "service/rtsp/session_roles.go", Old: "import (\n\t\"bytes\"\n", New: "import (\n"}}},
		&Mutant{Prop: "C14", Name: "c14-request-keeps-content-length", File: "av/format/rtsp/request.go",
			Old: "\t\treq.Header.SetInt(FieldContentLength, len(req.Body))\n\t} else {\n\t\tdelete(req.Header, FieldContentLength)\n\t}", New: "\t\treq.Header.SetInt(FieldContentLength, len(req.Body))\n\t}", Expect: "R-CONTENT-LENGTH-IFF-BODY"},
		&Mutant{Prop: "C14", Name: "c14-channel-is-wire-number", File: "av/format/rtp/packet.go",
			Old: "\tfor i, v := range channelConfig {\n\t\tif v == channel {\n\t\t\tp.Channel = byte(i)", New: "\tfor _, v := range channelConfig {\n\t\tif v == channel {\n\t\t\tp.Channel = byte(v)", Expect: "R-CHANNEL-IS-INDEX"},
		&Mutant{Prop: "C15", Name: "c15-se-sign-inverted", File: "utils/bits/reader.go",
			Old: "\tif ue&0x01 != 0 {\n\t\tres = int32((ue + 1) / 2)\n\t} else {\n\t\tres = int32(-(ue / 2))\n\t}", New: "\tres = int32((ue + 1) >> 1)\n\tif ue&0x01 != 0 {\n\t\tres = -res\n\t}", Expect: "R-SE-MAPPING"},
		&Mutant{Prop: "C15", Name: "c15-sdp-double-epb-removal", File: "av/format/sdp/parsemeta.go",
			Old: "\t\tvideo.Sps = utils.RemoveNaluSeparator(sps)", New: "\t\tvideo.Sps = utils.RemoveH264or5EmulationBytes(sps)", Expect: "R-EPB-ONCE"},
		&Mutant{Prop: "C15", Name: "c15-asc-ext-order-swapped", File: "av/codec/aac/asc.go",
			Old: "\t\tasc.ExtSamplingIndex, asc.ExtSampleRate = getSampleRate(r)\n\t\tasc.ObjectType = getObjectType(r)", New: "\t\tasc.ObjectType = getObjectType(r)\n\t\tasc.ExtSamplingIndex, asc.ExtSampleRate = getSampleRate(r)", Expect: "R-ASC-EXT-ORDER"},
		&Mutant{Prop: "C16", Name: "c16-empty-element-breaks", File: "provider/auth/user.go",
			Old: "\t\tif len(pathMask) == 0 {\n\t\t\tcontinue\n\t\t}", New: "\t\tif len(pathMask) == 0 {\n\t\t\tbreak\n\t\t}", Expect: "R-SPLIT-VISITS-ALL"},
		&Mutant{Prop: "C16", Name: "c16-partcount-skips-double-slash", File: "provider/auth/path_matcher.go",
			Old: "\t\tn++\n\t\ts = s[i+1:]", New: "\t\tif i > 0 {\n\t\t\tn++\n\t\t}\n\t\ts = s[i+1:]", Expect: "R-PARTCOUNT-EVERY-SEPARATOR"},
		&Mutant{Prop: "C17", Name: "c17-save-update-dropped", File: "provider/route/routetable.go",
			Old: "\t\tr.CopyFrom(newr)\n\n\t\tsave := true", New: "\t\tfor _, r2 := range t.saves {\n\t\t\tif r.Pattern == r2.Pattern {\n\t\t\t\treturn nil\n\t\t\t}\n\t\t}\n\t\tr.CopyFrom(newr)\n\n\t\tsave := true", Expect: "R-SAVE-UPDATE-COPIES"},
		&Mutant{Prop: "C18", Name: "c18-close-skips-user-flush", File: "service/service.go",
			Old: "\t// 退出前确保最新数据被存储\n\troute.Flush()\n\tauth.Flush()", New: "\t// 退出前确保最新数据被存储\n\troute.Flush()", Expect: "R-SHUTDOWN-FLUSHES"},
		&Mutant{Prop: "C19", Name: "c19-sniff-timeout-remembered", File: "network/socket/listener/listener.go",
			Old: "\tif sn > 0 && s.sniffing {\n\t\ts.lastErr = sErr\n\t\tif wn, wErr := s.buffer.Write(p[:sn]); wErr != nil {\n\t\t\treturn wn, wErr\n\t\t}\n\t}", New: "\tif s.sniffing {\n\t\ts.lastErr = sErr\n\t\tif sn > 0 {\n\t\t\tif wn, wErr := s.buffer.Write(p[:sn]); wErr != nil {\n\t\t\t\treturn wn, wErr\n\t\t\t}\n\t\t}\n\t}", Expect: "R-SNIFF-ERR-WITH-DATA"},
		&Mutant{Prop: "C20", Name: "c20-sdp-parse-error-unchecked", File: "service/rtsp/pull_client.go",
			Old: "\tc.sdp, err = sdp.ParseString(c.rawSdp)\n\tif err != nil {\n\t\treturn err\n\t}\n", New: "\tc.sdp, err = sdp.ParseString(c.rawSdp)\n", Expect: "R-PARSE-ERR-CHECKED"},
		&Mutant{Prop: "C20", Name: "c20-unregist-skips-close", File: "media/global.go",
			Old: "\t\tif s2 == s {\n\t\t\tstreams.Delete(s.path)\n\t\t}\n\t}\n\ts.Close()", New: "\t\tif s2 != s {\n\t\t\treturn\n\t\t}\n\t\tstreams.Delete(s.path)\n\t}\n\ts.Close()", Expect: "R-UNREGIST-CLOSES"},
		&Mutant{Prop: "C20", Name: "c20-no-retry-with-authorization", File: "service/rtsp/pull_client.go",
			Old: "\tif resp.StatusCode == StatusUnauthorized {\n\n\t\tif len(c.userName) == 0 {", New: "\tif resp.StatusCode == StatusUnauthorized && len(r.Header.Get(FieldAuthorization)) == 0 {\n\n\t\tif len(c.userName) == 0 {", Expect: "R-RETRY-ON-EVERY-401"},
	)
}

// domConds calls f for every conditional whose outcome is fixed at ins: (cond, taken edge).
func domConds(ins ssa.Instruction, f func(cond ssa.Value, taken bool)) {
	for depth := 0; ins != nil && depth < 4; depth++ {
		domCondsLocal(ins, f)
		ins = climb(ins) // conditions established at the only call site of a helper hold inside it
	}
}

func domCondsLocal(ins ssa.Instruction, f func(cond ssa.Value, taken bool)) {
	blk := ins.Block()
	for _, d := range ins.Parent().Blocks {
		if d == blk || !d.Dominates(blk) || len(d.Instrs) == 0 {
			continue
		}
		ifi, ok := d.Instrs[len(d.Instrs)-1].(*ssa.If)
		if !ok {
			continue
		}
		viaTrue := d.Succs[0].Dominates(blk) && len(d.Succs[0].Preds) == 1
		viaFalse := d.Succs[1].Dominates(blk) && len(d.Succs[1].Preds) == 1
		if viaTrue != viaFalse {
			f(ifi.Cond, viaTrue)
		}
	}
}

// fieldEqEstablished: `<...>.field == k` is known to hold at ins.
func fieldEqEstablished(ins ssa.Instruction, field string, k int64) bool {
	ok := false
	domConds(ins, func(cond ssa.Value, taken bool) {
		bo, isBo := cond.(*ssa.BinOp)
		if !isBo {
			return
		}
		f, _, isF := fieldLoad(stripConv(bo.X))
		kk, isK := constInt(bo.Y)
		if !isF || !isK || f.Name() != field || kk != k {
			return
		}
		if bo.Op == token.EQL && taken || bo.Op == token.NEQ && !taken {
			ok = true
		}
	})
	return ok
}

// ------------------------------------------------------------ R-ROLE-GATE

func ruleRoleGate(c *Ctx) {
	p := c.P
	rec, ok1 := pkgConst(p, "service/rtsp", "RecordSession")
	play, ok2 := pkgConst(p, "service/rtsp", "PlaySession")
	tcp, ok3 := pkgConst(p, "service/rtsp", "RTPTCPUnicast")
	if !ok1 || !ok2 || !ok3 {
		c.Lost("rtsp.RecordSession/PlaySession/RTPTCPUnicast", "constants not found")
		return
	}
	n := 0
	for _, t := range []struct {
		handler string
		role    []string
		mode    int64
		needTCP bool
	}{
		{"(*Session).onRecord", []string{"asTCPPusher"}, rec, true},
		{"(*Session).onPlay", []string{"asTCPConsumer", "asUDPConsumer", "asMulticastConsumer"}, play, false},
	} {
		fn := p.Func("service/rtsp", t.handler)
		if fn == nil {
			c.Lost("rtsp."+t.handler, "handler not found")
			continue
		}
		c.touched(fname(fn))
		instrs(fn, func(ins ssa.Instruction) {
			cc := callCommon(ins)
			if cc == nil || cc.StaticCallee() == nil {
				return
			}
			hit := false
			for _, r := range t.role {
				if baseFuncName(cc.StaticCallee()) == r {
					hit = true
				}
			}
			if !hit {
				return
			}
			n++
			key := fmt.Sprintf("role-gate:%s@%s", baseFuncName(cc.StaticCallee()), fname(fn))
			modeOK := fieldEqEstablished(ins, "mode", t.mode)
			tcpOK := !t.needTCP || fieldEqEstablished(ins, "Type", tcp)
			switch {
			case modeOK && tcpOK:
				c.OK(key, p.InstrPos(ins), "session mode (and transport) established at the role change")
			case !modeOK:
				c.Bad(key, p.InstrPos(ins), "the role change is reachable without the session mode being established (the refusal is taken only when mode AND transport are both wrong): DESCRIBE, SETUP over TCP without mode=record, RECORD is answered 200, the player session publishes and replaces the live stream at that path")
			default:
				c.Bad(key, p.InstrPos(ins), "the role change is reachable without the TCP transport being established: RECORD over UDP/multicast is accepted although only interleaved push is implemented")
			}
		})
	}
	c.Floor("role changes in onRecord/onPlay", n, 4)
}

// ------------------------------------------------------------ R-SESSION-BUFFER-LOCKED

func ruleSessionBufferLocked(c *Ctx) {
	p := c.P
	n := 0
	isSessionBuf := func(v ssa.Value) (string, bool) {
		// &s.field or &c.Session.field with field of type bytes.Buffer
		fa, ok := v.(*ssa.FieldAddr)
		if !ok {
			return "", false
		}
		st := derefStruct(fa.X.Type())
		if st == nil {
			return "", false
		}
		ft := st.Field(fa.Field).Type()
		if nt, ok := ft.(*types.Named); !ok || nt.Obj().Pkg() == nil || nt.Obj().Pkg().Path() != "bytes" || nt.Obj().Name() != "Buffer" {
			return "", false
		}
		if typeIs(fa.X.Type(), modRel("service/rtsp"), "Session") || typeIs(fa.X.Type(), modRel("service/wsp"), "Session") {
			return namedOf(fa.X.Type()).Obj().Name() + "." + st.Field(fa.Field).Name(), true
		}
		return "", false
	}
	for _, pkg := range []string{"service/rtsp", "service/wsp"} {
		for _, fn := range p.FuncsInPkg(pkg) {
			uses := map[ssa.Instruction]string{}
			instrs(fn, func(ins ssa.Instruction) {
				cc := callCommon(ins)
				if cc == nil {
					return
				}
				for _, a := range cc.Args {
					if name, ok := isSessionBuf(stripConv(a)); ok {
						uses[ins] = name
					}
					if mi, ok := a.(*ssa.MakeInterface); ok {
						if name, ok := isSessionBuf(stripConv(mi.X)); ok {
							uses[ins] = name
						}
					}
				}
			})
			if len(uses) == 0 {
				continue
			}
			c.touched(fname(fn))
			bad := map[string]ssa.Instruction{}
			c.paths += locksAt(fn, "", func(ins ssa.Instruction, held lockSet) {
				name, ok := uses[ins]
				if !ok {
					return
				}
				if !held.holds("Session.lockW", true) {
					bad[name] = ins
				}
			})
			for name := range map[string]bool{} {
				_ = name
			}
			seen := map[string]bool{}
			for _, name := range uses {
				if seen[name] {
					continue
				}
				seen[name] = true
				n++
				key := "session-buffer:" + name + "@" + fname(fn)
				if b, isBad := bad[name]; isBad {
					c.Bad(key, p.InstrPos(b), "the per-session buffer "+name+" is used outside the session's write lock: the media goroutine resets and fills it while the request goroutine is sending a response from it, so a WebSocket message goes out as a frame prefix spliced onto a response (or the response twice and the frame lost)")
				} else {
					c.OK(key, p.Pos(fn.Pos()), "used only under Session.lockW")
				}
			}
		}
	}
	if n == 0 {
		c.OK("session-buffer", "", "no session object holds a bytes.Buffer: every message is assembled in a per-call (pooled or local) buffer")
	}
}

// ------------------------------------------------------------ R-CONTENT-LENGTH-IFF-BODY

func ruleContentLengthIffBody(c *Ctx) {
	p := c.P
	n := 0
	for _, t := range []string{"(*Request).Write", "(*Response).Write"} {
		fn := p.Func("av/format/rtsp", t)
		if fn == nil {
			c.Lost("rtsp."+t, "not found")
			continue
		}
		c.touched(fname(fn))
		n++
		// state: 0 unknown body, 1 body non-empty, 2 body empty; del = Content-Length deleted
		type st struct {
			Body int8
			Del  bool
			Set  bool
		}
		isLenBody := func(v ssa.Value) bool {
			call, ok := stripConv(v).(*ssa.Call)
			if !ok || calleeName(&call.Call) != "builtin.len" {
				return false
			}
			f, _, ok := fieldLoad(call.Call.Args[0])
			return ok && theProgram.baseFieldName(f) == "Body"
		}
		var viol ssa.Instruction
		res := RunPath(&PathRule[st]{Fn: fn, Init: []st{{}},
			Branch: func(s st, cond ssa.Value, taken bool) (st, bool) {
				bo, ok := cond.(*ssa.BinOp)
				if !ok || !isLenBody(bo.X) {
					return s, true
				}
				k, ok := constInt(bo.Y)
				if !ok || k != 0 {
					return s, true
				}
				nonEmpty := bo.Op == token.GTR || bo.Op == token.NEQ
				empty := bo.Op == token.EQL || bo.Op == token.LEQ
				if !nonEmpty && !empty {
					return s, true
				}
				isNonEmpty := nonEmpty == taken
				want := int8(2)
				if isNonEmpty {
					want = 1
				}
				if s.Body != 0 && s.Body != want {
					return s, false
				}
				s.Body = want
				return s, true
			},
			Transfer: func(s st, ins ssa.Instruction) []st {
				cc := callCommon(ins)
				if cc == nil {
					return nil
				}
				name := calleeName(cc)
				if name == "builtin.delete" {
					s.Del = true
					return []st{s}
				}
				if cc.StaticCallee() != nil && (baseFuncName(cc.StaticCallee()) == "SetInt" || baseFuncName(cc.StaticCallee()) == "Set") {
					s.Set = true
					return []st{s}
				}
				if cc.StaticCallee() != nil && baseFuncName(cc.StaticCallee()) == "Write" && strings.Contains(funcFullName(cc.StaticCallee()), "Header") {
					if s.Body == 2 && !s.Del {
						viol = ins
					}
					if s.Body == 1 && !s.Set {
						viol = ins
					}
				}
				return nil
			}})
		c.paths += res.N
		c.Decide(viol == nil, "content-length-iff-body@"+fname(fn), p.Pos(fn.Pos()), "header block written with Content-Length set (body) or deleted (no body)", "the header block is written on the empty-body path without deleting Content-Length: a message whose header already carries a length (read from the wire, or written earlier with a body) goes out announcing N body bytes it does not send, and the reader swallows the first N bytes of the next message")
	}
	c.Floor("RTSP message writers", n, 2)
}

// ------------------------------------------------------------ R-CHANNEL-IS-INDEX

func ruleChannelIsIndex(c *Ctx) {
	p := c.P
	fn := p.Func("av/format/rtp", "ReadPacket")
	if fn == nil {
		c.Lost("rtp.ReadPacket", "not found")
		return
	}
	c.touched(fname(fn))
	n := 0
	instrs(fn, func(ins ssa.Instruction) {
		st, ok := ins.(*ssa.Store)
		if !ok {
			return
		}
		f, base, ok := fieldAddr(st.Addr)
		if !ok || theProgram.baseFieldName(f) != "Channel" || !typeIs(base.Type(), modRel("av/format/rtp"), "Packet") {
			return
		}
		n++
		v := stripConv(st.Val)
		// an element of the channel table (load of &channelConfig[i]) is the wire number
		isElem := false
		if ld, ok := v.(*ssa.UnOp); ok && ld.Op == token.MUL {
			if _, ok := ld.X.(*ssa.IndexAddr); ok {
				isElem = true
			}
		}
		if ex, ok := v.(*ssa.Extract); ok && ex.Index == 2 { // range over slice via Next: (ok, k, v)
			isElem = true
		}
		_, isPhi := v.(*ssa.Phi)
		_, isBin := v.(*ssa.BinOp)
		isIdxExtract := false
		if ex, ok := v.(*ssa.Extract); ok && ex.Index == 1 {
			isIdxExtract = true
		}
		switch {
		case isElem:
			c.Bad("channel-is-index", p.InstrPos(st), "ReadPacket stores the wire channel number as Packet.Channel; Packet.Write maps Channel through the table (index -> wire number), so reader and writer are inverse only for the identity mapping: with SETUP interleaved=2-3 for video and 0-1 for audio a frame comes back on the wrong logical channel (audio as video)")
		case isPhi || isBin || isIdxExtract:
			c.OK("channel-is-index", p.InstrPos(st), "Channel = index into the channel table")
		default:
			c.Undecided("channel-is-index", p.InstrPos(st), "unrecognised source of Packet.Channel: "+describeValue(p, v))
		}
	})
	if n == 0 {
		c.Lost("channel-is-index", "ReadPacket no longer stores Packet.Channel")
	}
}

// ------------------------------------------------------------ R-SE-MAPPING

func isNegation(v ssa.Value) bool {
	v = stripConv(v)
	if u, ok := v.(*ssa.UnOp); ok && u.Op == token.SUB {
		return true
	}
	if b, ok := v.(*ssa.BinOp); ok && b.Op == token.SUB {
		if k, ok := constInt(b.X); ok && k == 0 {
			return true
		}
	}
	return false
}

func ruleSeMapping(c *Ctx) {
	p := c.P
	fn := p.Func("utils/bits", "(*Reader).ReadSe")
	if fn == nil {
		c.Lost("bits.Reader.ReadSe", "not found")
		return
	}
	c.touched(fname(fn))
	// parity test: (k & 1) != 0 / == 1 / == 0
	var test *ssa.BasicBlock
	oddOnTrue := false
	for _, b := range fn.Blocks {
		ifi, ok := b.Instrs[len(b.Instrs)-1].(*ssa.If)
		if !ok {
			continue
		}
		bo, ok := ifi.Cond.(*ssa.BinOp)
		if !ok {
			continue
		}
		and, ok := stripConv(bo.X).(*ssa.BinOp)
		if !ok || and.Op != token.AND {
			continue
		}
		if m, ok := constInt(and.Y); !ok || m != 1 {
			continue
		}
		k, ok := constInt(bo.Y)
		if !ok {
			continue
		}
		switch {
		case bo.Op == token.NEQ && k == 0, bo.Op == token.EQL && k == 1:
			test, oddOnTrue = b, true
		case bo.Op == token.EQL && k == 0, bo.Op == token.NEQ && k == 1:
			test, oddOnTrue = b, false
		}
	}
	if test == nil {
		c.Undecided("se-mapping", p.Pos(fn.Pos()), "no parity test of the code number in ReadSe")
		return
	}
	// the returned value per side: either one return of a value chosen by the parity test (phi), or one
	// return per side (early-return form)
	var oddVal, evenVal ssa.Value
	var ret *ssa.Return
	for _, b := range fn.Blocks {
		r, isRet := b.Instrs[len(b.Instrs)-1].(*ssa.Return)
		if !isRet || len(r.Results) == 0 {
			continue
		}
		ret = r
		v := retValue(r, 0)
		side := 0 // 1 odd, 2 even
		domConds(r, func(cond ssa.Value, taken bool) {
			if ifi, ok := test.Instrs[len(test.Instrs)-1].(*ssa.If); ok && ifi.Cond == cond {
				if taken == oddOnTrue {
					side = 1
				} else {
					side = 2
				}
			}
		})
		switch side {
		case 1:
			oddVal = v
		case 2:
			evenVal = v
		default:
			phi, ok := v.(*ssa.Phi)
			if !ok {
				continue
			}
			for i, e := range phi.Edges {
				pred := phi.Block().Preds[i]
				onTrue := pred != test && (test.Succs[0] == pred || test.Succs[0].Dominates(pred)) && test.Succs[0] != phi.Block()
				onFalse := pred != test && (test.Succs[1] == pred || test.Succs[1].Dominates(pred)) && test.Succs[1] != phi.Block()
				if pred == test {
					if test.Succs[0] == phi.Block() {
						onTrue = true
					} else {
						onFalse = true
					}
				}
				if onTrue == onFalse {
					continue
				}
				if onTrue == oddOnTrue {
					oddVal = e
				} else {
					evenVal = e
				}
			}
		}
	}
	if ret == nil {
		c.Undecided("se-mapping", p.Pos(fn.Pos()), "no return value")
		return
	}
	if oddVal == nil || evenVal == nil {
		c.Undecided("se-mapping", p.InstrPos(ret), "cannot attribute the result values to the parity edges")
		return
	}
	good := !isNegation(oddVal) && isNegation(evenVal)
	c.Decide(good, "se-mapping", p.InstrPos(ret), "odd code number -> positive, even -> negated", "ReadSe negates on the wrong parity (H.264 9.1.1: odd k -> +(k+1)/2, even k -> -k/2): every se(v) element has its sign inverted - a scaling-list delta of -8 no longer ends the list, offset_for_ref_frame and chroma QP offsets flip, and everything after the first se(v) is read from the wrong bit position")
}

// ------------------------------------------------------------ R-EPB-ONCE

func ruleEpbOnce(c *Ctx) {
	p := c.P
	fn := p.Func("utils", "RemoveH264or5EmulationBytes")
	if fn == nil {
		c.Lost("utils.RemoveH264or5EmulationBytes", "not found")
		return
	}
	n := 0
	for _, ins := range p.CallersOf(fn) {
		caller := ins.Parent()
		for caller.Parent() != nil {
			caller = caller.Parent()
		}
		n++
		c.touched(fname(caller))
		isDecoder := caller.Name() == "Decode" && caller.Pkg != nil && strings.HasPrefix(caller.Pkg.Pkg.Path(), modPath+"/av/codec/")
		c.Decide(isDecoder, "epb-caller:"+fname(caller), p.InstrPos(ins), "called by a parameter-set decoder", "emulation-prevention bytes are removed by "+fname(caller)+", which is not a parameter-set decoder: the decoders remove them again, so a parameter set whose payload really contains 00 00 03 (e.g. time_scale 0x3E8 on a byte boundary, on the wire 00 00 03 03) loses a data byte - wrong frame rate or no metadata")
	}
	c.Floor("callers of RemoveH264or5EmulationBytes", n, 3)
}

// ------------------------------------------------------------ R-ASC-EXT-ORDER

func ruleAscExtOrder(c *Ctx) {
	p := c.P
	fn := p.Func("av/codec/aac", "(*AudioSpecificConfig).Decode")
	if fn == nil {
		c.Lost("aac.AudioSpecificConfig.Decode", "not found")
		return
	}
	c.touched(fname(fn))
	// the block that stores ExtObjectType = AOT_SBR starts the explicit branch
	var start ssa.Instruction
	for _, st := range storesToField(fn, modRel("av/codec/aac"), "AudioSpecificConfig", "ExtObjectType") {
		if k, ok := constInt(st.Val); ok && k == 5 {
			start = st
		}
	}
	if start == nil {
		c.Lost("asc-ext-branch", "explicit extension branch not found")
		return
	}
	var rate, ot ssa.Instruction
	instrs(fn, func(ins ssa.Instruction) {
		cc := callCommon(ins)
		if cc == nil || cc.StaticCallee() == nil || ins.Block() != start.Block() {
			return
		}
		switch baseFuncName(cc.StaticCallee()) {
		case "getSampleRate":
			if rate == nil {
				rate = ins
			}
		case "getObjectType":
			if ot == nil {
				ot = ins
			}
		}
	})
	if rate == nil || ot == nil {
		c.Bad("asc-ext-order", p.InstrPos(start), "the explicit SBR/PS branch does not read both extensionSamplingFrequencyIndex and the inner audioObjectType")
		return
	}
	c.Decide(dominatesInstr(rate, ot), "asc-ext-order", p.InstrPos(rate), "extension sampling frequency is read before the inner object type", "the inner audioObjectType is read before extensionSamplingFrequencyIndex: the same bits are consumed but split the wrong way, so an HE-AAC config (2B 92 08 00) reports 64000 Hz / object type 8 instead of 44100 Hz AAC-LC")
}

// ------------------------------------------------------------ R-SPLIT-VISITS-ALL

func ruleSplitVisitsAll(c *Ctx) {
	p := c.P
	fn := p.Func("provider/auth", "initMatchers")
	if fn == nil {
		c.Lost("auth.initMatchers", "not found")
		return
	}
	c.touched(fname(fn))
	// loop header: block with a phi (continueScan) ending in If; body contains the Scan call
	var scan ssa.Instruction
	instrs(fn, func(ins ssa.Instruction) {
		if cc := callCommon(ins); cc != nil && cc.StaticCallee() != nil && baseFuncName(cc.StaticCallee()) == "Scan" {
			scan = ins
		}
	})
	if scan == nil {
		c.Lost("initMatchers:scan", "the ';' scanner call was not found")
		return
	}
	// blocks of the loop = blocks that can reach the scan block and are reachable from it
	body := scan.Block()
	fromBody := reachableBlocks(body)
	inLoop := map[*ssa.BasicBlock]bool{body: true}
	for _, b := range fn.Blocks {
		if fromBody[b] && reachableBlocks(b)[body] {
			inLoop[b] = true
		}
	}
	// exits: edges from a loop block to a non-loop block; only the loop-condition block (the one whose If reads the continue flag) may exit
	bad := 0
	var where ssa.Instruction
	exits := 0
	for b := range inLoop {
		for _, s := range b.Succs {
			if inLoop[s] {
				continue
			}
			exits++
			ifi, ok := b.Instrs[len(b.Instrs)-1].(*ssa.If)
			isLoopCond := false
			if ok {
				// the loop condition tests the scanner's "more" result (a phi / extract of the Scan tuple), not the element
				walkDeps(ifi.Cond, func(x ssa.Value) bool {
					if ex, ok := x.(*ssa.Extract); ok && ex.Index == 2 {
						isLoopCond = true
					}
					return true
				})
				if call, ok := stripConv(ifi.Cond).(*ssa.Call); ok && calleeName(&call.Call) == "builtin.len" {
					isLoopCond = false
				}
				if bo, ok := ifi.Cond.(*ssa.BinOp); ok {
					if call, ok := stripConv(bo.X).(*ssa.Call); ok && calleeName(&call.Call) == "builtin.len" {
						isLoopCond = false
					}
				}
			}
			if !isLoopCond {
				bad++
				where = b.Instrs[len(b.Instrs)-1]
			}
		}
	}
	if exits == 0 {
		c.Undecided("split-visits-all", p.Pos(fn.Pos()), "loop shape not recognised")
		return
	}
	if bad > 0 {
		c.Bad("split-visits-all", p.InstrPos(where), "the loop over the ';'-separated patterns is left from inside its body: the first empty element (`;;`, a leading `;`) ends compilation and every later pattern is silently dropped - `/test/*;;/rooms/*` no longer permits /rooms/101")
	} else {
		c.OK("split-visits-all", p.InstrPos(scan), "the only exit of the pattern loop is its continuation test")
	}
}

// ------------------------------------------------------------ R-PARTCOUNT-EVERY-SEPARATOR

func rulePartCountEverySeparator(c *Ctx) {
	p := c.P
	fn := p.Func("provider/auth", "partCount")
	if fn == nil {
		c.Lost("auth.partCount", "not found")
		return
	}
	c.touched(fname(fn))
	// the `i == -1` test; on its false edge every path back to the loop head must pass an increment of the counter
	var test *ssa.BasicBlock
	foundIdx := 1
	for _, b := range fn.Blocks {
		ifi, ok := b.Instrs[len(b.Instrs)-1].(*ssa.If)
		if !ok {
			continue
		}
		bo, ok := ifi.Cond.(*ssa.BinOp)
		if !ok {
			continue
		}
		k, ok := constInt(bo.Y)
		if !ok {
			continue
		}
		// the "separator found" edge of `i == -1`, `i != -1`, `i < 0`, `i >= 0`
		switch {
		case bo.Op == token.EQL && k == -1, bo.Op == token.LSS && k == 0:
			test, foundIdx = b, 1
		case bo.Op == token.NEQ && k == -1, bo.Op == token.GEQ && k == 0, bo.Op == token.GTR && k == -1:
			test, foundIdx = b, 0
		}
	}
	if test == nil {
		c.Undecided("partcount", p.Pos(fn.Pos()), "the `IndexByte == -1` test was not found")
		return
	}
	found := test.Succs[foundIdx]
	// the counter: a phi in the loop head with an edge x+1; the +1 must be computed in a block that dominates
	// the back edge source and is reached unconditionally from `found`
	okInc := false
	var inc *ssa.BinOp
	instrs(fn, func(ins ssa.Instruction) {
		bo, ok := ins.(*ssa.BinOp)
		if !ok || bo.Op != token.ADD {
			return
		}
		if k, ok := constInt(bo.Y); !ok || k != 1 {
			return
		}
		if _, isPhi := bo.X.(*ssa.Phi); !isPhi {
			return
		}
		if _, isInt := bo.Type().Underlying().(*types.Basic); !isInt {
			return
		}
		// used as the loop-carried counter (edge of the phi it reads)
		phi := bo.X.(*ssa.Phi)
		for _, e := range phi.Edges {
			if e == ssa.Value(bo) {
				inc = bo
				okInc = bo.Block() == found
			}
			// counter merged through another phi (conditional increment)
			if ph2, ok := e.(*ssa.Phi); ok {
				for _, e2 := range ph2.Edges {
					if e2 == ssa.Value(bo) {
						inc = bo
						okInc = false
					}
				}
			}
		}
	})
	if inc == nil {
		c.Undecided("partcount", p.Pos(fn.Pos()), "no loop-carried counter increment")
		return
	}
	c.Decide(okInc, "partcount", p.InstrPos(inc), "the counter is incremented for every separator found", "the separator count is incremented only under a further condition while the segment scanner still yields one segment per '/': for a path with '//' the count guard sees fewer segments than the scanner compares, so a pattern without a trailing '*' accepts paths with extra trailing segments that are never compared (/pub/+ permits /pub//private)")
}

// ------------------------------------------------------------ R-SAVE-UPDATE-COPIES

func ruleSaveUpdateCopies(c *Ctx) {
	p := c.P
	fn := p.Func("provider/route", "(*routetable).Save")
	if fn == nil {
		c.Lost("route.routetable.Save", "not found")
		return
	}
	c.touched(fname(fn))
	// state: Found (map lookup ok) 0 unknown / 1 found / 2 not found; Copied
	type st struct {
		Found  int8
		Copied bool
	}
	var okVal ssa.Value
	instrs(fn, func(ins ssa.Instruction) {
		if ex, ok := ins.(*ssa.Extract); ok && ex.Index == 1 {
			if lk, ok := ex.Tuple.(*ssa.Lookup); ok && lk.CommaOk {
				okVal = ex
			}
		}
	})
	if okVal == nil {
		c.Lost("save:lookup", "the map lookup of the existing route was not found")
		return
	}
	res := RunPath(&PathRule[st]{Fn: fn, Init: []st{{}},
		Branch: func(s st, cond ssa.Value, taken bool) (st, bool) {
			if cond == okVal {
				if taken {
					s.Found = 1
				} else {
					s.Found = 2
				}
			}
			return s, true
		},
		Transfer: func(s st, ins ssa.Instruction) []st {
			if cc := callCommon(ins); cc != nil && cc.StaticCallee() != nil && baseFuncName(cc.StaticCallee()) == "CopyFrom" {
				s.Copied = true
				return []st{s}
			}
			return nil
		}})
	c.paths += res.N
	bad := false
	for ret, sts := range res.Exits() {
		for _, s := range sts {
			if s.Found == 1 && !s.Copied {
				bad = true
				c.Bad("save-update-copies", p.InstrPos(ret), "a path of the update branch returns without copying the new route into the table entry: a second Save of the same pattern before a successful Flush silently drops the new URL/KeepAlive, Match keeps resolving to the old target")
			}
		}
	}
	if !bad {
		c.OK("save-update-copies", p.Pos(fn.Pos()), "every path of the update branch copies the new fields")
	}
}

// ------------------------------------------------------------ R-SNIFF-ERR-WITH-DATA

func ruleSniffErrWithData(c *Ctx) {
	p := c.P
	fn := p.Func("network/socket/listener", "(*sniffer).Read")
	if fn == nil {
		c.Lost("listener.sniffer.Read", "not found")
		return
	}
	c.touched(fname(fn))
	n := 0
	instrs(fn, func(ins ssa.Instruction) {
		st, ok := ins.(*ssa.Store)
		if !ok {
			return
		}
		f, _, ok := fieldAddr(st.Addr)
		if !ok || theProgram.baseFieldName(f) != "lastErr" {
			return
		}
		n++
		// dominated by n > 0 where n is the count returned by the source read
		good := false
		domConds(st, func(cond ssa.Value, taken bool) {
			bo, ok := cond.(*ssa.BinOp)
			if !ok {
				return
			}
			k, okk := constInt(bo.Y)
			if !okk || k != 0 {
				return
			}
			if _, isExtract := stripConv(bo.X).(*ssa.Extract); !isExtract {
				return
			}
			if bo.Op == token.GTR && taken || bo.Op == token.LEQ && !taken || bo.Op == token.NEQ && taken {
				good = true
			}
		})
		c.Decide(good, "sniff-err-with-data", p.InstrPos(st), "the error is remembered only when bytes were buffered with it", "the sniffer remembers the source error of a read that returned no bytes: the sniff-deadline timeout of a slow client (first write shorter than the sniff window, then a stall) is handed to the service together with the replayed prefix on its first Read, the service stops there and never sees the rest of the stream")
	})
	if n == 0 {
		c.OK("sniff-err-with-data", p.Pos(fn.Pos()), "the sniffer does not remember source errors")
	}
}

// ------------------------------------------------------------ R-PARSE-ERR-CHECKED

func ruleParseErrChecked(c *Ctx) {
	p := c.P
	fn := p.Func("service/rtsp", "(*PullClient).requestSDP")
	if fn == nil {
		c.Lost("rtsp.PullClient.requestSDP", "not found")
		return
	}
	c.touched(fname(fn))
	var parse *ssa.Call
	instrs(fn, func(ins ssa.Instruction) {
		if call, ok := ins.(*ssa.Call); ok && strings.HasSuffix(calleeName(&call.Call), "sdp.ParseString") {
			parse = call
		}
	})
	if parse == nil {
		c.Lost("requestSDP:ParseString", "sdp.ParseString call not found")
		return
	}
	// the block testing the error of the parse
	var errVal ssa.Value
	for _, ref := range *parse.Referrers() {
		if ex, ok := ref.(*ssa.Extract); ok && ex.Index == 1 {
			errVal = ex
		}
	}
	var test *ssa.BasicBlock
	for _, b := range fn.Blocks {
		ifi, ok := b.Instrs[len(b.Instrs)-1].(*ssa.If)
		if !ok {
			continue
		}
		bo, ok := ifi.Cond.(*ssa.BinOp)
		if !ok || bo.Op != token.NEQ || !isNilConst(bo.Y) {
			continue
		}
		x := bo.X
		// err may be spilled to the named result cell
		if x == errVal || (errVal != nil && cellHolds(x, errVal)) {
			// true edge must return
			if _, isRet := b.Succs[0].Instrs[len(b.Succs[0].Instrs)-1].(*ssa.Return); isRet {
				test = b
			}
		}
	}
	// uses of the parsed session after the call
	var firstUse ssa.Instruction
	instrs(fn, func(ins ssa.Instruction) {
		if firstUse != nil {
			return
		}
		ld, ok := ins.(*ssa.UnOp)
		if !ok || ld.Op != token.MUL {
			return
		}
		f, _, ok := fieldLoad(ld)
		if !ok || theProgram.baseFieldName(f) != "sdp" {
			return
		}
		if ins.Block() == parse.Block() && !dominatesInstr(parse, ins) {
			return
		}
		if ins.Block() != parse.Block() && !parse.Block().Dominates(ins.Block()) {
			return
		}
		firstUse = ins
	})
	if firstUse == nil {
		c.OK("parse-err-checked", p.InstrPos(parse), "the parsed session is not used in requestSDP")
		return
	}
	good := test != nil && (test.Dominates(firstUse.Block()) && test != firstUse.Block())
	c.Decide(good, "parse-err-checked", p.InstrPos(firstUse), "the parse error is tested (and returned) before the session is used", "the session returned by sdp.ParseString is used without testing its error: go-sdp returns a nil session on error, so a camera answering DESCRIBE with 200 and a non-SDP body makes the requester goroutine panic on c.sdp.Media; Open's named error is still nil, its deferred disconnect does not run and the camera connection leaks")
}

// cellHolds: v is a load of a cell into which val was stored.
func cellHolds(v ssa.Value, val ssa.Value) bool {
	ld, ok := v.(*ssa.UnOp)
	if !ok || ld.Op != token.MUL {
		return false
	}
	refs := ld.X.Referrers()
	if refs == nil {
		return false
	}
	for _, r := range *refs {
		if st, ok := r.(*ssa.Store); ok && st.Addr == ld.X && st.Val == val {
			return true
		}
	}
	return false
}

// ------------------------------------------------------------ R-RETRY-ON-EVERY-401

func ruleRetryOnEvery401(c *Ctx) {
	p := c.P
	fn := p.Func("service/rtsp", "(*PullClient).requestWithResponse")
	if fn == nil {
		c.Lost("rtsp.PullClient.requestWithResponse", "not found")
		return
	}
	c.touched(fname(fn))
	req := fn.Params[1]
	n := 0
	instrs(fn, func(ins ssa.Instruction) {
		cc := callCommon(ins)
		if cc == nil || cc.StaticCallee() == nil {
			return
		}
		name := baseFuncName(cc.StaticCallee())
		if name != "SetDigestAuth" && name != "SetBasicAuth" {
			return
		}
		n++
		var bad ssa.Value
		domConds(ins, func(cond ssa.Value, taken bool) {
			walkDeps(cond, func(x ssa.Value) bool {
				if call, ok := x.(*ssa.Call); ok && call.Call.StaticCallee() != nil && baseFuncName(call.Call.StaticCallee()) == "Get" && len(call.Call.Args) > 0 {
					// Header.Get on the *request* (not the response)
					root := call.Call.Args[0]
					dep := false
					walkDeps(root, func(y ssa.Value) bool {
						if origin(y) == ssa.Value(req) {
							dep = true
						}
						return true
					})
					if dep {
						bad = cond
					}
				}
				return true
			})
		})
		key := fmt.Sprintf("retry-401:%s#%d", name, n)
		if bad != nil {
			c.Bad(key, p.InstrPos(ins), "the authenticated retry depends on a header of the rejected request (only requests without Authorization are retried): newRequest pre-fills Authorization from the cached nonce after the first challenge, so a camera that re-challenges with a fresh nonce at DESCRIBE/SETUP/PLAY is never answered and Open fails with 401 despite correct credentials")
		} else {
			c.OK(key, p.InstrPos(ins), "retry depends only on the response and the configured credentials")
		}
	})
	c.Floor("authenticated retries in requestWithResponse", n, 2)
}

// ------------------------------------------------------------ R-SHUTDOWN-FLUSHES

func ruleShutdownFlushes(c *Ctx) {
	p := c.P
	rf := p.Func("provider/route", "Flush")
	af := p.Func("provider/auth", "Flush")
	cl := p.Func("service", "(*Service).Close")
	ns := p.Func("service", "NewService")
	if rf == nil || af == nil || cl == nil || ns == nil {
		c.Lost("service.Close/NewService, route.Flush, auth.Flush", "not found")
		return
	}
	c.touched(fname(cl))
	type st struct{ R, A bool }
	mustBoth := func(fn *ssa.Function, key, what string) {
		res := RunPath(&PathRule[st]{Fn: fn, Init: []st{{}},
			Transfer: func(s st, ins ssa.Instruction) []st {
				if callsFunc(ins, rf) {
					s.R = true
					return []st{s}
				}
				if callsFunc(ins, af) {
					s.A = true
					return []st{s}
				}
				return nil
			}})
		c.paths += res.N
		ok := true
		for ret, sts := range res.Exits() {
			for _, s := range sts {
				if !s.R || !s.A {
					ok = false
					c.Bad(key, p.InstrPos(ret), fmt.Sprintf("%s returns on a path without flushing the route table (%v) / the user table (%v): edits made since the last periodic flush are lost at shutdown", what, s.R, s.A))
				}
			}
		}
		if ok {
			c.OK(key, p.Pos(fn.Pos()), "flushes both tables on every path")
		}
	}
	mustBoth(cl, "shutdown-flushes@"+fname(cl), "Service.Close")
	// the periodic task: a closure of NewService handed to the scheduler that calls both
	found := false
	for _, an := range ns.AnonFuncs {
		r, a := false, false
		instrs(an, func(ins ssa.Instruction) {
			if callsFunc(ins, rf) {
				r = true
			}
			if callsFunc(ins, af) {
				a = true
			}
		})
		if r || a {
			found = true
			c.touched(fname(an))
			mustBoth(an, "periodic-flushes@"+fname(ns), "the periodic storage task")
		}
	}
	if !found {
		c.Bad("periodic-flushes@"+fname(ns), p.Pos(ns.Pos()), "NewService schedules no task that flushes the tables")
	}
}
