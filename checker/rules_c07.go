package main

import (
	"encoding/json"
	"fmt"
	"go/types"
	"os"
	"os/exec"
	"path/filepath"
	"regexp"
	"sort"
	"strconv"
	"strings"

	"golang.org/x/tools/go/ssa"
)

func init() {
	register(&PropertyDef{
		ID: "C07",
		Explanation: "Static analysis of panic containment for publisher/camera input. Decided: (1) R-GOROUTINE-RECOVER - for every goroutine started by the module (targets of `go` statements) from which wire/SDP parsing of publisher or camera data is reachable (RTSP message and interleaved-frame readers, SDP parsing, stream construction, the pull handshake, Stream.WriteRtpPacket), a deferred closure calling recover is registered in the goroutine's root function before the first such call (HTTP handler goroutines are covered by the net/http summary, scheduler jobs by the scheduler summary); (2) R-SYNC-PATH-BOUNDS - in the code run synchronously for every packet in the publishing session / pull loop (everything reachable from Stream.WriteRtpPacket without crossing a queue) every index/slice of packet-derived bytes is proven in range by the Go compiler's prove pass (bounds-check-elimination report of `go build`, no execution), with one named exemption; a panic there would end the publishing session and with it the stream; (3) R-PER-ITEM-CONTAINMENT - in each converter goroutine (RTP demuxer, FLV muxer, TS muxer) every call in the per-item loop body that reaches byte-indexing code enters a frame that registers its own recover, so a malformed item is dropped and the loop continues (a recover at goroutine level would end the converter for the life of the stream); (4) R-DECODE-TOTAL - every parameter-set decoder registers, before any read, a deferred recover that assigns its error result; (5) R-PARSE-LOOPS-PROGRESS - loops over aggregation payloads advance by a strictly positive amount.",
		NotDecided: "That later good data is converted correctly (value-level), hangs inside third-party code, resource exhaustion by volume.",
		Rules: []*RuleDoc{
			{Name: "R-GOROUTINE-RECOVER", Text: "Every goroutine root that can reach publisher/camera parsing registers a deferred recover before the first such call.", Run: ruleGoroutineRecover},
			{Name: "R-SYNC-PATH-BOUNDS", Text: "Functions reachable synchronously from Stream.WriteRtpPacket contain no index/slice of packet-derived bytes that the compiler could not prove in range (exemption: (*rtp.Packet).Payload, invariant established by ReadPacket + pion Unmarshal).", Run: ruleSyncPathBounds},
			{Name: "R-PER-ITEM-CONTAINMENT", Text: "In each converter loop, calls from the loop body that reach byte-indexing code go through a function that registers its own deferred recover (per item).", Run: rulePerItemContainment},
			{Name: "R-DECODE-TOTAL", Text: "h264.RawSPS.Decode, hevc.H265RawSPS.Decode, hevc.H265RawVPS.Decode, aac.AudioSpecificConfig.Decode register, before any read, a deferred closure that calls recover and assigns the named error result.", Run: ruleDecodeTotal},
			{Name: "R-PARSE-LOOPS-PROGRESS", Text: "Every loop over an aggregation payload (STAP-A/AP in depacketisers and caches) returns when the declared size is < 1, so each iteration consumes at least 3 bytes.", Run: ruleParseLoopsProgress},
		},
	})
	addMutants(
		&Mutant{Prop: "C07", Name: "c07-session-recover-late", File: "service/rtsp/session.go",
			Old: "func (s *Session) process() {\n\tdefer func() {", New: "func (s *Session) process() {\n\ts.conn.Reader().Peek(1)\n\tif err := receive(s.logger, s.conn.Reader(), s.transport.Channels[:], s); err != nil {\n\t\treturn\n\t}\n\tdefer func() {", Expect: "R-GOROUTINE-RECOVER"},
		&Mutant{Prop: "C07", Name: "c07-demuxer-no-per-item", File: "av/format/rtp/demuxer.go",
			Old: "\tdefer func() {\n\t\tif r := recover(); r != nil {\n\t\t\tdemuxer.logger.Errorf(\"rtp demuxer: depacketize panic", New: "\tfunc() {\n\t\tif r := recover(); r != nil {\n\t\t\tdemuxer.logger.Errorf(\"rtp demuxer: depacketize panic", Expect: "R-PER-ITEM-CONTAINMENT"},
		&Mutant{Prop: "C07", Name: "c07-handler-indexes-packet", File: "av/format/rtp/demuxer.go",
			Old: "\t\t\tdemuxer.logger.Errorf(\"rtp demuxer: depacketize panic；r = %v \\n %s\", r, debug.Stack())", New: "\t\t\tdemuxer.logger.Errorf(\"rtp demuxer: depacketize panic；r = %v head=%x \\n %s\", r, packet.Data[:8], debug.Stack())", Expect: "R-PER-ITEM-CONTAINMENT"},
		&Mutant{Prop: "C07", Name: "c07-cache-unchecked-index", File: "media/cache/h264cache.go",
			Old: "\t\tfor len(rest) > 2 {", New: "\t\tfor len(rest) > 1 {", Expect: "R-SYNC-PATH-BOUNDS"},
		&Mutant{Prop: "C07", Name: "c07-sps-decode-no-recover", File: "av/codec/hevc/vps.go",
			Old: "func (vps *H265RawVPS) Decode(data []byte) (err error) {\n\tdefer func() {\n\t\tif r := recover(); r != nil {\n\t\t\terr =", New: "func (vps *H265RawVPS) Decode(data []byte) (err error) {\n\tdefer func() {\n\t\tif r := recover(); r != nil {\n\t\t\t_ =", Expect: "R-DECODE-TOTAL"},
		&Mutant{Prop: "C07", Name: "c07-wsflv-recover-late", File: "service/flv/wsflv.go",
			Old: "\tdefer func() {\n\t\tif r := recover(); r != nil {\n\t\t\txlog.Errorf(\"ws-flv: panic; %v \\n %s\", r, debug.Stack())\n\t\t\tconn.Close()\n\t\t}\n\t}()\n", New: "", Expect: "R-GOROUTINE-RECOVER"},
		&Mutant{Prop: "C07", Name: "c07-stap-zero-size-loops", File: "av/format/rtp/h265_depacketizer.go",
			Old: "\t\tif nalSize < 1 || off+nalSize > len(payload) {", New: "\t\tif off+nalSize > len(payload) {", Expect: "R-PARSE-LOOPS-PROGRESS"},
	)
}

// recoverDeferBefore reports whether a Defer whose function calls recover()
// dominates ins in its function.
func recoverDeferBefore(ins ssa.Instruction) *ssa.Defer {
	var found *ssa.Defer
	instrs(ins.Parent(), func(i ssa.Instruction) {
		d, ok := i.(*ssa.Defer)
		if !ok || found != nil {
			return
		}
		if df := deferredFunc(d); df != nil && callsRecover(df) && dominatesInstr(d, ins) {
			found = d
		}
	})
	return found
}

// parsingSinks: functions that parse bytes coming from a publisher or a pulled camera.
func parsingSinks(p *Program) map[*ssa.Function]string {
	out := map[*ssa.Function]string{}
	add := func(rel, name, why string) {
		if f := p.Func(rel, name); f != nil {
			out[f] = why
		}
	}
	add("av/format/rtsp", "ReadRequest", "RTSP request parser")
	add("av/format/rtsp", "ReadResponse", "RTSP response parser")
	add("av/format/rtp", "ReadPacket", "interleaved frame reader")
	add("av/format/sdp", "ParseMetadata", "SDP/fmtp parser")
	add("media", "NewStream", "stream construction from SDP")
	add("media", "(*Stream).WriteRtpPacket", "per-packet publisher path")
	add("service/rtsp", "(*PullClient).Open", "pull handshake with the camera")
	add("service/rtsp", "(*PullClient).requestSDP", "SDP of the pulled camera")
	return out
}

func ruleGoroutineRecover(c *Ctx) {
	p := c.P
	sinks := parsingSinks(p)
	c.Floor("parsing sinks", len(sinks), 8)
	reachSink := map[*ssa.Function]*ssa.Function{} // memo: fn -> a sink it reaches (or nil)
	done := map[*ssa.Function]bool{}
	var reaches func(f *ssa.Function) *ssa.Function
	reaches = func(f *ssa.Function) *ssa.Function {
		if done[f] {
			return reachSink[f]
		}
		done[f] = true
		if _, ok := sinks[f]; ok {
			reachSink[f] = f
			return f
		}
		r := p.Reach([]*ssa.Function{f}, func(from *ssa.Function, e Edge) bool { return e.Kind != EdgeGo })
		for g := range r.Funcs {
			if _, ok := sinks[g]; ok {
				reachSink[f] = g
				return g
			}
		}
		return nil
	}
	nroots, relevant := 0, 0
	for _, fn := range p.ModFuncs() {
		for _, e := range p.OutEdges(fn) {
			if e.Kind != EdgeGo || e.Callee == nil {
				continue
			}
			nroots++
			root := e.Callee
			if reaches(root) == nil {
				continue
			}
			relevant++
			c.touched(fname(root))
			key := "go-root:" + fname(root)
			// every call in root that reaches a sink must be dominated by a recover defer
			bad := false
			for _, ce := range p.OutEdges(root) {
				if ce.Kind == EdgeGo || ce.Callee == nil {
					continue
				}
				if _, isDefer := ce.Site.(*ssa.Defer); isDefer {
					continue
				}
				s := reaches(ce.Callee)
				if s == nil {
					continue
				}
				c.sites++
				if recoverDeferBefore(ce.Site) == nil {
					bad = true
					c.Bad(key, p.InstrPos(ce.Site), "goroutine "+fname(root)+" (started at "+p.InstrPos(e.Site)+") calls "+fname(ce.Callee)+", which reaches "+fname(s)+" ("+sinks[s]+"), before any deferred recover is registered: a panic on malformed publisher/camera input terminates the whole server process")
					break
				}
			}
			if !bad {
				c.OK(key, p.Pos(root.Pos()), "deferred recover registered before the first call that reaches parsing of publisher/camera input")
			}
		}
	}
	c.Floor("goroutine roots in the module", nroots, 12)
	c.Floor("goroutine roots that reach parsing", relevant, 4)
}

// ---------------------------------------------------------------- BCE oracle (E7)

type bceSite struct {
	file string
	line int
	kind string
}

var bceRe = regexp.MustCompile(`^(.*\.go):(\d+):(\d+): Found (IsInBounds|IsSliceInBounds)`)

// bceReport asks the Go compiler which bounds checks it could not eliminate
// in the given module-relative packages. Compile only; nothing is run.
func bceReport(p *Program, overlay map[string][]byte, rels []string) (map[string]map[int]string, error) {
	args := []string{"build", "-gcflags=-d=ssa/check_bce/debug=1"}
	var tmp string
	if len(overlay) > 0 {
		dir, err := os.MkdirTemp("", "ipcheck-ov")
		if err != nil {
			return nil, err
		}
		defer os.RemoveAll(dir)
		repl := map[string]string{}
		i := 0
		for path, content := range overlay {
			i++
			fp := filepath.Join(dir, fmt.Sprintf("f%d.go", i))
			if err := os.WriteFile(fp, content, 0o644); err != nil {
				return nil, err
			}
			repl[path] = fp
		}
		b, _ := json.Marshal(map[string]interface{}{"Replace": repl})
		tmp = filepath.Join(dir, "overlay.json")
		os.WriteFile(tmp, b, 0o644)
		args = append(args, "-overlay="+tmp)
	}
	for _, r := range rels {
		args = append(args, "./"+r)
	}
	cmd := exec.Command("go", args...)
	cmd.Dir = p.Root
	cmd.Env = append(os.Environ(), "GOFLAGS=-mod=mod", "GOPROXY=off", "GOSUMDB=off", "GOTOOLCHAIN=local", "GOWORK=off")
	out, err := cmd.CombinedOutput()
	res := map[string]map[int]string{}
	for _, line := range strings.Split(string(out), "\n") {
		m := bceRe.FindStringSubmatch(strings.TrimSpace(line))
		if m == nil {
			continue
		}
		f := filepath.Clean(m[1])
		if !filepath.IsAbs(f) {
			f = filepath.Join(p.Root, f)
		}
		rel, _ := filepath.Rel(p.Root, f)
		ln, _ := strconv.Atoi(m[2])
		if res[rel] == nil {
			res[rel] = map[int]string{}
		}
		res[rel][ln] = m[4]
	}
	if err != nil && len(res) == 0 {
		return nil, fmt.Errorf("go build (BCE report) failed: %v: %s", err, string(out))
	}
	return res, nil
}

// bytesDerived: v is (a slice/phi of) packet-derived bytes: a []byte parameter,
// the result of (*Packet).Payload(), or a load of a Data/Payload field.
func bytesDerived(v ssa.Value) bool {
	seen := map[ssa.Value]bool{}
	var rec func(v ssa.Value) bool
	rec = func(v ssa.Value) bool {
		if v == nil || seen[v] {
			return false
		}
		seen[v] = true
		sl, ok := v.Type().Underlying().(*types.Slice)
		if !ok {
			if pt, isP := v.Type().Underlying().(*types.Pointer); isP {
				if _, isArr := pt.Elem().Underlying().(*types.Array); isArr {
					return false
				}
			}
			return false
		}
		if b, ok := sl.Elem().Underlying().(*types.Basic); !ok || b.Kind() != types.Uint8 {
			return false
		}
		switch x := v.(type) {
		case *ssa.Parameter:
			return true
		case *ssa.Slice:
			return rec(x.X)
		case *ssa.Phi:
			for _, e := range x.Edges {
				if rec(e) {
					return true
				}
			}
			return false
		case *ssa.Call:
			n := calleeName(&x.Call)
			return strings.HasSuffix(n, "Packet).Payload")
		case *ssa.UnOp:
			if f, _, ok := fieldLoad(x); ok {
				return theProgram.baseFieldName(f) == "Data" || theProgram.baseFieldName(f) == "Payload"
			}
		case *ssa.FreeVar:
			return true
		}
		return false
	}
	return rec(v)
}

// byteAccesses lists index/slice operations on packet-derived bytes in fn.
func byteAccesses(p *Program, fn *ssa.Function) []ssa.Instruction {
	var out []ssa.Instruction
	instrs(fn, func(ins ssa.Instruction) {
		switch x := ins.(type) {
		case *ssa.IndexAddr:
			if bytesDerived(x.X) {
				out = append(out, ins)
			}
		case *ssa.Slice:
			if bytesDerived(x.X) && (x.Low != nil || x.High != nil) {
				out = append(out, ins)
			}
		}
	})
	return out
}

var currentOverlay map[string][]byte

func ruleSyncPathBounds(c *Ctx) {
	p := c.P
	w := p.Func("media", "(*Stream).WriteRtpPacket")
	if w == nil {
		c.Lost("Stream.WriteRtpPacket", "not found")
		return
	}
	r := p.Reach([]*ssa.Function{w}, func(from *ssa.Function, e Edge) bool { return e.Kind != EdgeGo })
	pkgs := map[string]bool{}
	var fns []*ssa.Function
	for _, f := range r.SortedFuncs() {
		if !p.InModule(f) || f.Synthetic != "" {
			continue
		}
		if len(byteAccesses(p, f)) == 0 {
			continue
		}
		fns = append(fns, f)
		pkgs[strings.TrimPrefix(funcPkgPath(f), modPath+"/")] = true
	}
	c.Floor("synchronous per-packet functions that index packet bytes", len(fns), 3)
	var rels []string
	for k := range pkgs {
		rels = append(rels, k)
	}
	sort.Strings(rels)
	rep, err := bceReport(p, currentOverlay, rels)
	if err != nil {
		c.Undecided("bce-oracle", "", err.Error())
		return
	}
	exempt := map[string]string{"(*av/format/rtp.Packet).Payload": "Data[PayloadOffset:]: PayloadOffset <= len(Data) is established by ReadPacket (pion Header.Unmarshal returns an error otherwise) and rtp.Packet values are built only there"}
	for _, f := range fns {
		c.touched(fname(f))
		accs := byteAccesses(p, f)
		c.sites += len(accs)
		if why, ok := exempt[fname(f)]; ok {
			c.OK("sync-bounds:"+fname(f), p.Pos(f.Pos()), "exempt: "+why)
			continue
		}
		bad := 0
		for _, a := range accs {
			ps := p.Fset.Position(a.Pos())
			rel, _ := filepath.Rel(p.Root, ps.Filename)
			if kind, unproven := rep[rel][ps.Line]; unproven {
				bad++
				c.Bad("sync-bounds:"+fname(f), p.InstrPos(a), "index/slice of packet-derived bytes not proven in range by the compiler ("+kind+"), in code that runs synchronously in the publishing session for every packet: a crafted payload panics the session and ends the stream", r.Chain(f)...)
			}
		}
		if bad == 0 {
			c.OK("sync-bounds:"+fname(f), p.Pos(f.Pos()), fmt.Sprintf("all %d accesses to packet-derived bytes proven in range by the compiler's prove pass", len(accs)))
		}
	}
}

func rulePerItemContainment(c *Ctx) {
	p := c.P
	loops := findWorkerLoops(p)
	n := 0
	for _, wl := range loops {
		if !strings.Contains(funcPkgPath(wl.fn), "/av/format/") {
			continue
		}
		n++
		c.touched(fname(wl.fn))
		// blocks of the loop: reachable from the Pop block and reaching it again
		pb := wl.pop.Block()
		fromPop := reachableBlocks(pb)
		inLoop := map[*ssa.BasicBlock]bool{pb: true}
		for b := range fromPop {
			if reachableBlocks(b)[pb] {
				inLoop[b] = true
			}
		}
		bad := false
		for _, e := range p.OutEdges(wl.fn) {
			if !inLoop[e.Site.Block()] || e.Callee == nil || e.Kind != EdgeCall {
				continue
			}
			if funcPkgPath(e.Callee) == queuePkg {
				continue
			}
			c.sites++
			// frame with its own recover?
			contained := false
			var firstCall ssa.Instruction
			instrs(e.Callee, func(ins ssa.Instruction) {
				if firstCall == nil {
					if cc := callCommon(ins); cc != nil {
						if _, isD := ins.(*ssa.Defer); !isD {
							firstCall = ins
						}
					}
				}
			})
			if firstCall == nil || recoverDeferBefore(firstCall) != nil {
				if firstCall != nil {
					contained = true
				}
			}
			if contained {
				// the recover handler itself must not be able to panic on the offending item:
				// no index/slice of packet-derived bytes in it unless it installs an inner recover first
				if d := recoverDeferBefore(firstCall); d != nil {
					if df := deferredFunc(d); df != nil {
						inner := false
						instrs(df, func(ins ssa.Instruction) {
							if d2, ok := ins.(*ssa.Defer); ok && d2.Block() == df.Blocks[0] {
								if f2 := deferredFunc(d2); f2 != nil && callsRecover(f2) {
									inner = true
								}
							}
						})
						if acc := byteAccesses(p, df); len(acc) > 0 && !inner {
							bad = true
							c.Bad("per-item:"+fname(wl.fn), p.InstrPos(acc[0]), "the per-item recover handler in "+fname(e.Callee)+" itself indexes/slices the offending item's bytes without an inner recover: for an item shorter than that access the handler panics, the panic escapes the per-item frame and the goroutine-level recover ends the converter")
						}
					}
				}
				continue
			}
			// does it reach byte-indexing code?
			rr := p.Reach([]*ssa.Function{e.Callee}, func(from *ssa.Function, ed Edge) bool { return ed.Kind != EdgeGo })
			var idx *ssa.Function
			for _, g := range rr.SortedFuncs() {
				if p.InModule(g) && len(byteAccesses(p, g)) > 0 {
					idx = g
					break
				}
			}
			if idx != nil {
				bad = true
				c.Bad("per-item:"+fname(wl.fn), p.InstrPos(e.Site), "the converter loop calls "+fname(e.Callee)+" (reaching byte-indexing code in "+fname(idx)+") without a per-item recover frame: one malformed item panics out of the loop; the goroutine-level recover ends the converter, so FLV/HLS output stops for the rest of the stream's life while its queue grows without bound", rr.Chain(idx)...)
			}
		}
		if !bad {
			c.OK("per-item:"+fname(wl.fn), p.Pos(wl.fn.Pos()), "every loop-body call that reaches byte-indexing code runs under a per-item recover")
		}
	}
	c.Floor("converter loops", n, 3)
}

func ruleDecodeTotal(c *Ctx) {
	p := c.P
	for _, d := range []struct{ rel, name string }{
		{"av/codec/h264", "(*RawSPS).Decode"}, {"av/codec/hevc", "(*H265RawSPS).Decode"},
		{"av/codec/hevc", "(*H265RawVPS).Decode"}, {"av/codec/aac", "(*AudioSpecificConfig).Decode"}} {
		fn := p.Func(d.rel, d.name)
		if fn == nil {
			c.Lost(d.rel+"."+d.name, "decoder not found")
			continue
		}
		c.touched(fname(fn))
		key := "decode-total:" + fname(fn)
		// first call-like instruction must be the recover defer
		var first ssa.Instruction
		instrs(fn, func(ins ssa.Instruction) {
			if first == nil && callCommon(ins) != nil {
				first = ins
			}
		})
		d0, ok := first.(*ssa.Defer)
		if !ok {
			c.Bad(key, p.Pos(fn.Pos()), "the decoder does work before registering a deferred recover: a panic on malformed bytes escapes instead of being turned into an error")
			continue
		}
		df := deferredFunc(d0)
		if df == nil || !callsRecover(df) {
			c.Bad(key, p.InstrPos(d0), "the first deferred function does not call recover")
			continue
		}
		// the closure must assign the named error result on the recovered edge
		assigns := false
		if len(fn.Signature.Results().At(0).Name()) > 0 {
			instrs(df, func(ins ssa.Instruction) {
				if st, ok := ins.(*ssa.Store); ok {
					if fv, ok := st.Addr.(*ssa.FreeVar); ok && fv.Name() == fn.Signature.Results().At(0).Name() {
						if !isNilConst(st.Val) {
							assigns = true
						}
					}
				}
			})
		}
		c.Decide(assigns, key, p.InstrPos(d0), "deferred recover converts a panic into the error result", "the deferred recover swallows the panic without assigning the error result: the caller sees success with a half-decoded parameter set")
	}
}

func ruleParseLoopsProgress(c *Ctx) {
	p := c.P
	targets := []struct{ rel, name string }{
		{"av/format/rtp", "(*h264Depacketizer).depacketizeStapa"}, {"av/format/rtp", "(*h265Depacketizer).depacketizeStap"},
		{"media/cache", "(*H264Cache).getPalyloadType"}, {"media/cache", "(*HevcCache).getPalyloadType"}}
	for _, t := range targets {
		fn := p.Func(t.rel, t.name)
		if fn == nil {
			c.Lost(t.rel+"."+t.name, "not found")
			continue
		}
		c.touched(fname(fn))
		key := "progress:" + fname(fn)
		// find a loop (block on a cycle) and, inside it, a comparison `size < 1` (or <= 0, == 0) whose true edge leaves the loop
		found := false
		for _, b := range fn.Blocks {
			if !reachableBlocks(b)[b] {
				continue
			}
			ifi, ok := b.Instrs[len(b.Instrs)-1].(*ssa.If)
			if !ok {
				continue
			}
			bo, ok := ifi.Cond.(*ssa.BinOp)
			if !ok {
				continue
			}
			k, isc := constInt(bo.Y)
			if !isc {
				continue
			}
			small := (bo.Op.String() == "<" && k == 1) || (bo.Op.String() == "<=" && k == 0) || (bo.Op.String() == "==" && k == 0)
			if !small {
				continue
			}
			// size derives from two byte loads (16-bit size)
			loads := 0
			walkDeps(bo.X, func(x ssa.Value) bool {
				if _, isPhi := x.(*ssa.Phi); isPhi {
					return false
				}
				if u, ok := x.(*ssa.UnOp); ok {
					if _, isIdx := u.X.(*ssa.IndexAddr); isIdx {
						loads++
					}
				}
				return true
			})
			exits := !reachableBlocks(b.Succs[0])[b]
			if loads >= 2 && exits {
				found = true
			}
		}
		c.Decide(found, key, p.Pos(fn.Pos()), "a declared unit size < 1 leaves the loop: every iteration consumes at least 3 bytes", "the aggregation loop does not stop on a zero unit size: a crafted packet makes it spin (or re-read the same offset) without progress")
	}
}
