package main

// Rule extensions added after evaluating independently seeded changes (DESIGN §9).

import (
	"fmt"
	"go/token"
	"go/types"
	"strings"

	"golang.org/x/tools/go/ssa"
)

func init() {
	share := func(prop string, r *RuleDoc) {
		if p := properties[prop]; p != nil {
			p.Rules = append(p.Rules, r)
		}
	}
	share("C13", &RuleDoc{Name: "R-POOL-USE-AFTER-PUT", Text: "After a (non-deferred) sync.Pool.Put(buf), neither buf nor a slice obtained from buf.Bytes() is used again: the pooled buffer that holds an assembled frame/response is not recycled while it is still being written.", Run: rulePoolUseAfterPut})
	share("C10", &RuleDoc{Name: "R-POOL-USE-AFTER-PUT", Text: "(shared with C13) no use of a pooled buffer or its bytes after it was put back.", Run: rulePoolUseAfterPut})
	share("C01", &RuleDoc{Name: "R-POOL-USE-AFTER-PUT", Text: "(shared with C13) the transport adapters do not put a pooled frame buffer back before the frame has been written: a consumer's bytes cannot be overwritten by another consumer's packet.", Run: rulePoolUseAfterPut})
	share("C09", &RuleDoc{Name: "R-POOL-USE-AFTER-PUT", Text: "(shared with C13) the TS writer keeps its pooled staging buffer until the frame's last TS packet has been cut from it.", Run: rulePoolUseAfterPut})
	if p03 := properties["C03"]; p03 != nil {
		for _, r := range p03.Rules {
			if r.Name == "R-COUNT-ATOMIC" {
				share("C05", &RuleDoc{Name: "R-COUNT-ATOMIC", Text: "(shared with C03) the consumer count the idle guard and the replace logic read cannot under-report: lookup, map change and count change are one critical section.", Run: r.Run})
			}
		}
	}
	share("C14", &RuleDoc{Name: "R-NO-SHORT-READ", Text: "Wire readers fill fixed-size buffers only through io.ReadFull / ReadLine / Peek - never a bare Read, which may return fewer bytes and leave the stream mid-message; the dispatcher peeks no more than the smallest complete unit (4 bytes).", Run: ruleNoShortRead})
	share("C19", &RuleDoc{Name: "R-NO-SHORT-READ", Text: "(shared with C14) the prefix matchers read the sniff window with io.ReadFull, so routing does not depend on how the client's writes are segmented.", Run: ruleNoShortRead})
	share("C19", &RuleDoc{Name: "R-SNIFF-SWITCH-AFTER-REPLAY", Text: "The sniffing reader switches to the raw connection (and drops its buffer) only on the path where the buffered bytes have been completely replayed and sniffing is over.", Run: ruleSniffSwitchAfterReplay})
	share("C18", &RuleDoc{Name: "R-DEL-RECORDS-REMOVE", Text: "Del records the removed entry in the pending-removes list on every path where the entry existed (otherwise a flush may see nothing pending and keep the old file).", Run: ruleDelRecordsRemove})
	share("C20", &RuleDoc{Name: "R-STEP-ERRORS-CHECKED", Text: "The error of every handshake request (requestWithResponse) is tested (or returned) before the next step; the packet-write error reaches the read loop unchanged (onPack/WritePacket return their callee's error).", Run: ruleStepErrorsChecked})
	share("C03", &RuleDoc{Name: "R-WRITE-ERROR-REACHES-LOOP", Text: "(shared with C20) a closed stream's write error is propagated by onPack/WritePacket to the session / pull read loop, which is how the publisher side learns the stream ended.", Run: ruleWriteErrorReachesLoop})
	share("C20", &RuleDoc{Name: "R-WRITE-ERROR-REACHES-LOOP", Text: "onPack/WritePacket return the error of Stream.WriteRtpPacket.", Run: ruleWriteErrorReachesLoop})
	addMutants(
		&Mutant{Prop: "C13", Name: "c13-put-before-write", File: "service/rtsp/session_roles.go",
			Old: "\t\tdefer buffers.Put(buf)\n\n\t\tp2.Write(buf, c.transport.Channels[:])\n\n\t\tc.lockW.Lock()\n\t\t_, err = c.wsconn.Write(buf.Bytes())", New: "\t\tp2.Write(buf, c.transport.Channels[:])\n\t\tframe := buf.Bytes()\n\t\tbuffers.Put(buf)\n\n\t\tc.lockW.Lock()\n\t\t_, err = c.wsconn.Write(frame)", Expect: "R-POOL-USE-AFTER-PUT"},
		&Mutant{Prop: "C14", Name: "c14-request-body-single-read", File: "av/format/rtsp/request.go",
			Old: "\t\tif _, err = io.ReadFull(r, body); err != nil {\n\t\t\treturn nil, err\n\t\t}", New: "\t\tif _, err = r.Read(body); err != nil {\n\t\t\treturn nil, err\n\t\t}", Expect: "R-NO-SHORT-READ"},
		&Mutant{Prop: "C14", Name: "c14-peek-eight", File: "service/rtsp/io.go",
			Old: "\tsl, err := r.Peek(4)", New: "\tsl, err := r.Peek(8)", Expect: "R-NO-SHORT-READ"},
		&Mutant{Prop: "C19", Name: "c19-matcher-single-read", File: "network/socket/listener/matcher.go",
			Old: "func (t *patriciaTree) matchPrefix(r io.Reader) bool {\n\tbuf := make([]byte, t.maxDepth)\n\tn, _ := io.ReadFull(r, buf)", New: "func (t *patriciaTree) matchPrefix(r io.Reader) bool {\n\tbuf := make([]byte, t.maxDepth)\n\tn, _ := r.Read(buf)", Expect: "R-NO-SHORT-READ"},
		&Mutant{Prop: "C19", Name: "c19-switch-during-replay", File: "network/socket/listener/listener.go",
			Old: "\t\ts.bufferRead += bn\n\t\treturn bn, s.lastErr\n\t} else if !s.sniffing && s.buffer.Cap() != 0 {\n\t\ts.buffer = bytes.Buffer{}\n\t\ts.conn.reader = s.conn.Conn // 重置到直接从Conn读取，减少判断\n\t}", New: "\t\ts.bufferRead += bn\n\t\tif !s.sniffing {\n\t\t\ts.conn.reader = s.conn.Conn\n\t\t}\n\t\treturn bn, s.lastErr\n\t}", Expect: "R-SNIFF-SWITCH-AFTER-REPLAY"},
		&Mutant{Prop: "C18", Name: "c18-del-skips-removes", File: "provider/route/routetable.go",
			Old: "\t\tt.removes = append(t.removes, r)\n\t}\n\treturn nil\n}\n\nfunc (t *routetable) Save", New: "\t\tif len(t.saves) == 0 {\n\t\t\tt.removes = append(t.removes, r)\n\t\t}\n\t}\n\treturn nil\n}\n\nfunc (t *routetable) Save", Expect: "R-DEL-RECORDS-REMOVE"},
		&Mutant{Prop: "C20", Name: "c20-setup-error-overwritten", File: "service/rtsp/pull_client.go",
			Old: "\t\trespVS, err = c.requestWithResponse(r)\n\t\tif err != nil {\n\t\t\treturn err\n\t\t}", New: "\t\trespVS, err = c.requestWithResponse(r)", Expect: "R-STEP-ERRORS-CHECKED"},
		&Mutant{Prop: "C20", Name: "c20-onpack-swallows-error", File: "service/rtsp/pull_client.go",
			Old: "\treturn c.stream.WriteRtpPacket(p)", New: "\tc.stream.WriteRtpPacket(p)\n\treturn nil", Expect: "R-WRITE-ERROR-REACHES-LOOP"},
	)
}

// ------------------------------------------------------------ R-POOL-USE-AFTER-PUT

func rulePoolUseAfterPut(c *Ctx) {
	p := c.P
	n := 0
	// each property looks only at the packages that produce its output: a use-after-put in the RTSP
	// writers says nothing about HLS and vice versa
	scope := map[string][]string{"C10": {"av/format/hls", "service/hls"}, "C13": {"service/rtsp", "service/wsp", "av/format/rtsp", "av/format/rtp"},
		"C01": {"service/rtsp", "service/wsp"}, "C09": {"av/format/mpegts"}, "C14": {"av/format/rtsp", "av/format/rtp"}}[c.Prop]
	ord := map[string]int{}
	for _, fn := range p.ModFuncs() {
		if fn.Pkg == nil || !hasAnyPrefix(strings.TrimPrefix(fn.Pkg.Pkg.Path(), modPath+"/"), scope) {
			continue
		}
		// non-deferred Put calls
		var puts []*ssa.Call
		instrs(fn, func(ins ssa.Instruction) {
			if call, ok := ins.(*ssa.Call); ok && calleeName(&call.Call) == "(*sync.Pool).Put" {
				puts = append(puts, call)
			}
		})
		for _, put := range puts {
			n++
			c.sites++
			c.touched(fname(fn))
			buf := stripConv(put.Call.Args[1])
			// values derived from buf: buf itself, buf.Bytes(), slices thereof
			derived := map[ssa.Value]bool{buf: true}
			// results returned together with the pooled object (kvs, sorter := f()) share its storage
			if mi, ok := buf.(*ssa.MakeInterface); ok {
				buf2 := stripConv(mi.X)
				derived[buf2] = true
				if ex, ok := buf2.(*ssa.Extract); ok {
					for _, r := range *ex.Tuple.Referrers() {
						if ex2, ok := r.(*ssa.Extract); ok {
							derived[ex2] = true
						}
					}
				}
			}
			if ex, ok := buf.(*ssa.Extract); ok {
				for _, r := range *ex.Tuple.Referrers() {
					if ex2, ok := r.(*ssa.Extract); ok {
						derived[ex2] = true
					}
				}
			}
			changed := true
			for changed {
				changed = false
				instrs(fn, func(ins ssa.Instruction) {
					v, ok := ins.(ssa.Value)
					if !ok || derived[v] {
						return
					}
					switch x := ins.(type) {
					case *ssa.Call:
						if calleeName(&x.Call) == "(*bytes.Buffer).Bytes" && derived[x.Call.Args[0]] {
							derived[v] = true
							changed = true
						}
					case *ssa.Slice:
						if derived[x.X] {
							derived[v] = true
							changed = true
						}
					case *ssa.MakeInterface:
						if derived[x.X] && x != put.Call.Args[1] {
							derived[v] = true
							changed = true
						}
					}
				})
			}
			// any use of a derived value in an instruction reachable after the Put
			after := reachableBlocks(put.Block())
			var bad ssa.Instruction
			instrs(fn, func(ins ssa.Instruction) {
				if ins == ssa.Instruction(put) || bad != nil {
					return
				}
				isAfter := after[ins.Block()] || (ins.Block() == put.Block() && dominatesInstr(put, ins))
				if !isAfter {
					return
				}
				if _, isDbg := ins.(*ssa.DebugRef); isDbg {
					return
				}
				for _, op := range ins.Operands(nil) {
					if op != nil && *op != nil && derived[*op] {
						// defining a derived value is not a use by itself unless it reads the buffer (Bytes after Put)
						bad = ins
					}
				}
			})
			key := fmt.Sprintf("use-after-put@%s", fname(fn))
			if bad != nil {
				c.Bad(key, p.InstrPos(bad), "a pooled buffer (or the slice returned by its Bytes()) is used after it was put back into the pool: another goroutine can take and overwrite it while these bytes are still being written")
			} else {
				ord[key]++
				c.OK(fmt.Sprintf("%s#%d", key, ord[key]), p.InstrPos(put), "no use after Put")
			}
		}
	}
	if n == 0 {
		c.OK("use-after-put", "", "every Pool.Put in "+strings.Join(scope, ", ")+" is deferred (buffer stays reserved until the function returns)")
	}
}

// ------------------------------------------------------------ R-NO-SHORT-READ

func ruleNoShortRead(c *Ctx) {
	p := c.P
	targets := []struct{ rel, fn string }{
		{"av/format/rtsp", "ReadRequest"}, {"av/format/rtsp", "ReadResponse"}, {"av/format/rtsp", "ReadHeader"}, {"av/format/rtsp", "readLine"},
		{"av/format/rtp", "ReadPacket"}, {"av/format/flv", "(*Tag).Read"},
		{"network/socket/listener", "(*patriciaTree).matchPrefix"}, {"network/socket/listener", "(*patriciaTree).match"},
		{"service/rtsp", "receive"},
	}
	listener := func(rel string) bool { return rel == "network/socket/listener" }
	for _, t := range targets {
		// C19 decides routing (the listener's matchers); C14 decides RTSP framing (everything else)
		if (c.Prop == "C19") != listener(t.rel) {
			continue
		}
		fn := p.Func(t.rel, t.fn)
		if fn == nil {
			c.Lost(t.rel+"."+t.fn, "wire reader not found")
			continue
		}
		c.touched(fname(fn))
		var bad ssa.Instruction
		full := 0
		instrs(fn, func(ins ssa.Instruction) {
			cc := callCommon(ins)
			if cc == nil {
				return
			}
			n := calleeName(cc)
			if n == "io.ReadFull" || n == "io.ReadAtLeast" {
				full++
			}
			isRead := false
			if cc.IsInvoke() && cc.Method.Name() == "Read" && len(cc.Args) == 1 {
				isRead = true
			}
			if n == "(*bufio.Reader).Read" {
				isRead = true
			}
			if isRead {
				bad = ins
			}
		})
		c.Decide(bad == nil, "short-read:"+fname(fn), p.Pos(fn.Pos()), "no bare Read in this wire reader", "a wire reader fills its buffer with a bare Read call, which may return fewer bytes than requested: for a message/request line split across TCP segments the buffer is taken as complete, the message is cut short and the rest is left in the stream (or routing is decided on a truncated prefix)")
	}
	// the dispatcher peeks at most 4 bytes (the smallest complete unit is a 4-byte interleaved frame header)
	rcv := p.Func("service/rtsp", "receive")
	if rcv != nil && c.Prop != "C19" {
		instrs(rcv, func(ins ssa.Instruction) {
			cc := callCommon(ins)
			if cc == nil || cc.StaticCallee() == nil || baseFuncName(cc.StaticCallee()) != "Peek" {
				return
			}
			k, ok := evalInt(cc.Args[1])
			c.Decide(ok && k <= 4, "short-read:peek-width", p.InstrPos(ins), "peeks no more than the smallest complete unit", fmt.Sprintf("receive peeks %d bytes before dispatching; an interleaved frame can be complete in 4 bytes, so a short frame at the end of the stream (or on an idle connection) is withheld until bytes of the next message arrive", k))
		})
	}
}

// ------------------------------------------------------------ R-SNIFF-SWITCH-AFTER-REPLAY

func ruleSniffSwitchAfterReplay(c *Ctx) {
	p := c.P
	fn := p.Func("network/socket/listener", "(*sniffer).Read")
	if fn == nil {
		c.Lost("listener.sniffer.Read", "not found")
		return
	}
	c.touched(fname(fn))
	// facts: bufferSize > bufferRead (replay pending) and sniffing
	type st struct {
		Pending  int8 // 0 unknown 1 pending 2 fully replayed
		Sniffing int8 // 0 unknown 1 true 2 false
	}
	r := &PathRule[st]{Fn: fn, Init: []st{{}},
		Branch: func(s st, cond ssa.Value, taken bool) (st, bool) {
			cv, neg := condNeg(cond)
			val := taken != neg
			if b, ok := cv.(*ssa.BinOp); ok && (b.Op == token.GTR || b.Op == token.LSS || b.Op == token.LEQ || b.Op == token.GEQ) {
				fx, _, okx := fieldLoad(b.X)
				fy, _, oky := fieldLoad(b.Y)
				if okx && oky {
					pending := false
					known := false
					switch {
					case theProgram.baseFieldName(fx) == "bufferSize" && theProgram.baseFieldName(fy) == "bufferRead" && b.Op == token.GTR:
						pending, known = val, true
					case theProgram.baseFieldName(fx) == "bufferRead" && theProgram.baseFieldName(fy) == "bufferSize" && b.Op == token.LSS:
						pending, known = val, true
					case theProgram.baseFieldName(fx) == "bufferSize" && theProgram.baseFieldName(fy) == "bufferRead" && b.Op == token.LEQ:
						pending, known = !val, true
					case theProgram.baseFieldName(fx) == "bufferRead" && theProgram.baseFieldName(fy) == "bufferSize" && b.Op == token.GEQ:
						pending, known = !val, true
					}
					if known {
						if pending {
							s.Pending = 1
						} else {
							s.Pending = 2
						}
					}
				}
			}
			if f, _, ok := fieldLoad(cv); ok && theProgram.baseFieldName(f) == "sniffing" {
				if val {
					s.Sniffing = 1
				} else {
					s.Sniffing = 2
				}
			}
			return s, true
		}}
	res := RunPath(r)
	c.paths += res.N
	found, ok := false, true
	res.Visit(func(ins ssa.Instruction, s st) {
		sto, isSt := ins.(*ssa.Store)
		if !isSt {
			return
		}
		f, base, isF := fieldAddr(sto.Addr)
		if !isF || theProgram.baseFieldName(f) != "reader" || !typeIs(base.Type(), modRel("network/socket/listener"), "Conn") {
			return
		}
		found = true
		if s.Pending != 2 || s.Sniffing != 2 {
			ok = false
			c.Bad("sniff:switch-after-replay", p.InstrPos(ins), "the sniffing reader switches the connection to raw reads on a path where the sniffed bytes are not known to be completely replayed (or sniffing is not over): a service whose first read is smaller than the sniffed prefix loses the rest of it")
		}
	})
	if !found {
		c.Note("sniffer.Read never switches to the raw connection")
		c.OK("sniff:switch-after-replay", p.Pos(fn.Pos()), "no switch (always replays through the sniffer)")
	} else if ok {
		c.OK("sniff:switch-after-replay", p.Pos(fn.Pos()), "raw reads only after the whole sniffed prefix was replayed")
	}
	// replay copies from bufferRead and advances by the copied count
	adv := false
	instrs(fn, func(ins ssa.Instruction) {
		sto, isSt := ins.(*ssa.Store)
		if !isSt {
			return
		}
		if f, _, ok := fieldAddr(sto.Addr); ok && theProgram.baseFieldName(f) == "bufferRead" {
			if b, ok := sto.Val.(*ssa.BinOp); ok && b.Op == token.ADD {
				if call, ok := b.Y.(*ssa.Call); ok && calleeName(&call.Call) == "builtin.copy" {
					adv = true
				}
			}
		}
	})
	c.Decide(adv, "sniff:replay-advances-by-copied", p.Pos(fn.Pos()), "replay position advances by the number of bytes copied", "the replay position is not advanced by exactly the number of bytes copied out")
}

// ------------------------------------------------------------ R-DEL-RECORDS-REMOVE

func ruleDelRecordsRemove(c *Ctx) {
	p := c.P
	for _, t := range []struct{ rel, typ string }{{"provider/auth", "manager"}, {"provider/route", "routetable"}} {
		fn := p.Func(t.rel, "(*"+t.typ+").Del")
		if fn == nil {
			c.Lost(t.rel+"."+t.typ+".Del", "not found")
			continue
		}
		c.touched(fname(fn))
		type st struct {
			Found int8 // map lookup ok: 0 unknown 1 true 2 false
			N     int8
		}
		isRemAppend := func(ins ssa.Instruction) bool {
			sto, ok := ins.(*ssa.Store)
			if !ok {
				return false
			}
			f, _, ok := fieldAddr(sto.Addr)
			if !ok || theProgram.baseFieldName(f) != "removes" {
				return false
			}
			call, ok := sto.Val.(*ssa.Call)
			return ok && calleeName(&call.Call) == "builtin.append"
		}
		r := &PathRule[st]{Fn: fn, Init: []st{{}},
			Transfer: func(s st, ins ssa.Instruction) []st {
				if isRemAppend(ins) {
					if s.N < 2 {
						s.N++
					}
					return []st{s}
				}
				return nil
			},
			Branch: func(s st, cond ssa.Value, taken bool) (st, bool) {
				if ex, ok := cond.(*ssa.Extract); ok && ex.Index == 1 {
					if lk, ok := ex.Tuple.(*ssa.Lookup); ok && lk.CommaOk {
						if taken {
							s.Found = 1
						} else {
							s.Found = 2
						}
					}
				}
				return s, true
			}}
		res := RunPath(r)
		c.paths += res.N
		ok := true
		for ret, sts := range res.Exits() {
			for _, s := range sts {
				if s.Found == 1 && s.N != 1 {
					ok = false
					c.Bad("del-records:"+t.typ, p.InstrPos(ret), fmt.Sprintf("a path of %s.Del removes an existing entry from the table but records it %d times in the pending removes: Flush may find nothing pending and return without rewriting the file, so after a restart the deleted entry is back", t.typ, s.N))
				}
			}
		}
		if ok {
			c.OK("del-records:"+t.typ, p.Pos(fn.Pos()), "every deletion is recorded as pending")
		}
	}
}

// ------------------------------------------------------------ R-STEP-ERRORS-CHECKED

func ruleStepErrorsChecked(c *Ctx) {
	p := c.P
	rwr := p.Func("service/rtsp", "(*PullClient).requestWithResponse")
	if rwr == nil {
		c.Lost("rtsp.PullClient.requestWithResponse", "not found")
		return
	}
	n := 0
	for _, site := range p.CallersOf(rwr) {
		call, ok := site.(*ssa.Call)
		if !ok {
			continue
		}
		n++
		c.sites++
		fn := site.Parent()
		c.touched(fname(fn))
		// the error result (#1) must be nil-tested in an If, or returned
		checked := false
		for _, r := range referrersOf(call) {
			ex, ok := r.(*ssa.Extract)
			if !ok || ex.Index != 1 {
				continue
			}
			vals := []ssa.Value{ex}
			// through the named-result / local cell: loads dominated by the store and not preceded by another store
			for _, r2 := range referrersOf(ex) {
				if st, ok := r2.(*ssa.Store); ok {
					if al, ok := st.Addr.(*ssa.Alloc); ok {
						for _, r3 := range referrersOf(al) {
							if u, ok := r3.(*ssa.UnOp); ok && u.Block() == st.Block() && dominatesInstr(st, u) {
								// no other store to the cell between st and u
								clean := true
								for _, r4 := range referrersOf(al) {
									if s2, ok := r4.(*ssa.Store); ok && s2 != st && s2.Block() == st.Block() && dominatesInstr(st, s2) && dominatesInstr(s2, u) {
										clean = false
									}
								}
								if clean {
									vals = append(vals, u)
								}
							}
						}
					}
				}
			}
			for _, v := range vals {
				for _, r2 := range referrersOf(v) {
					switch x := r2.(type) {
					case *ssa.BinOp:
						if (x.Op == token.NEQ || x.Op == token.EQL) && (isNilConst(x.X) || isNilConst(x.Y)) {
							for _, r3 := range referrersOf(x) {
								if _, isIf := r3.(*ssa.If); isIf {
									checked = true
								}
							}
						}
					case *ssa.Return:
						checked = true
					}
				}
			}
		}
		ord := fmt.Sprintf("%s#%d", fname(fn), n)
		c.Decide(checked, "step-error:"+ord, p.InstrPos(site), "the step's error is tested or returned", "the error of this handshake request is neither tested nor returned before it is overwritten: a camera that refuses this step (e.g. the video SETUP) still yields a 'successful' pull and a registered stream")
	}
	c.Floor("handshake request sites", n, 5)
}

// ------------------------------------------------------------ R-WRITE-ERROR-REACHES-LOOP

func ruleWriteErrorReachesLoop(c *Ctx) {
	p := c.P
	chain := []struct{ rel, fn, callee string }{
		{"service/rtsp", "(*PullClient).onPack", "WriteRtpPacket"},
		{"service/rtsp", "(*Session).onPack", "WritePacket"},
		{"service/rtsp", "(*tcpPushStream).WritePacket", "WriteRtpPacket"},
	}
	for _, l := range chain {
		fn := p.Func(l.rel, l.fn)
		if fn == nil {
			c.Lost(l.rel+"."+l.fn, "not found")
			continue
		}
		c.touched(fname(fn))
		ok, n := true, 0
		instrs(fn, func(ins ssa.Instruction) {
			ret, isRet := ins.(*ssa.Return)
			if !isRet || len(ret.Results) != 1 {
				return
			}
			n++
			call, isCall := origin(retValue(ret, 0)).(*ssa.Call)
			name := ""
			if isCall {
				if call.Call.IsInvoke() {
					name = call.Call.Method.Name()
				} else if call.Call.StaticCallee() != nil {
					name = baseFuncName(call.Call.StaticCallee())
				}
			}
			if name != l.callee {
				ok = false
			}
		})
		c.Decide(ok && n > 0, "write-error:"+fname(fn), p.Pos(fn.Pos()), "returns the error of "+l.callee, fname(fn)+" does not return the error of "+l.callee+": when the stream is closed or replaced from the media side (admin delete, idle close, a second pull winning the path) the read loop never learns it, and the camera/publisher connection, its goroutine and its connection count stay forever")
	}
	// receive propagates handler.onPack's error
	rcv := p.Func("service/rtsp", "receive")
	if rcv != nil && c.Prop != "C19" {
		ok := false
		instrs(rcv, func(ins ssa.Instruction) {
			if ret, isRet := ins.(*ssa.Return); isRet {
				if call, isCall := origin(retValue(ret, 0)).(*ssa.Call); isCall && call.Call.IsInvoke() && call.Call.Method.Name() == "onPack" {
					ok = true
				}
			}
		})
		c.Decide(ok, "write-error:receive", p.Pos(rcv.Pos()), "receive returns onPack's error", "receive does not return the packet handler's error")
	}
	_ = types.Typ
	_ = strings.TrimSpace
}

func hasAnyPrefix(s string, pre []string) bool {
	for _, x := range pre {
		if s == x || strings.HasPrefix(s, x+"/") {
			return true
		}
	}
	return false
}
