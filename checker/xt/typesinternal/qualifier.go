// Copyright 2024 The Go Authors. All rights reserved.
// Use of this source code is governed by a BSD-style
// license that can be found in the LICENSE file.

package typesinternal

import (
	"go/ast"
	"go/types"
	"strconv"
)

// FileQualifier returns a [types.Qualifier] function that qualifies
// imported symbols appropriately based on the import environment of a given
// file.
// If the same package is imported multiple times, the last appearance is
// recorded.
func FileQualifier(f *ast.File, pkg *types.Package) types.Qualifier {
	// Construct mapping of import paths to their defined names.
	// It is only necessary to look at renaming imports.
	imports := make(map[string]string)
	for _, imp := range f.Imports {
		if imp.Name != nil && imp.Name.Name != "_" {
			path, _ := strconv.Unquote(imp.Path.Value)
			imports[path] = imp.Name.Name
		}
	}

	// Define qualifier to replace full package paths with names of the imports.
	return func(p *types.Package) string {
		if p == nil || p == pkg {
			return ""
		}

		if name, ok := imports[p.Path()]; ok {
			if name == "." {
				return ""
			} else {
				return name
			}
		}

		// If there is no local renaming, fall back to the package name.
		return p.Name()
	}
}
