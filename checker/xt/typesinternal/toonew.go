// Copyright 2024 The Go Authors. All rights reserved.
// Use of this source code is governed by a BSD-style
// license that can be found in the LICENSE file.

package typesinternal

import (
	"go/types"

	"ipcheck/xt/stdlib"
	"ipcheck/xt/versions"
)

// TooNewStdSymbols computes the set of package-level symbols
// exported by pkg that are not available at the specified version.
// The result maps each symbol to its minimum version.
//
// The pkg is allowed to contain type errors.
func TooNewStdSymbols(pkg *types.Package, version string) map[types.Object]string {
	disallowed := make(map[types.Object]string)

	// Pass 1: package-level symbols.
	symbols := stdlib.PackageSymbols[pkg.Path()]
	for _, sym := range symbols {
		symver := sym.Version.String()
		if versions.Before(version, symver) {
			switch sym.Kind {
			case stdlib.Func, stdlib.Var, stdlib.Const, stdlib.Type:
				disallowed[pkg.Scope().Lookup(sym.Name)] = symver
			}
		}
	}

	// Pass 2: fields and methods.
	//
	// We allow fields and methods if their associated type is
	// disallowed, as otherwise we would report false positives
	// for compatibility shims. Consider:
	//
	//   //go:build go1.22
	//   type T struct { F std.Real } // correct new API
	//
	//   //go:build !go1.22
	//   type T struct { F fake } // shim
	//   type fake struct { ... }
	//   func (fake) M () {}
	//
	// These alternative declarations of T use either the std.Real
	// type, introduced in go1.22, or a fake type, for the field
	// F. (The fakery could be arbitrarily deep, involving more
	// nested fields and methods than are shown here.) Clients
	// that use the compatibility shim T will compile with any
	// version of go, whether older or newer than go1.22, but only
	// the newer version will use the std.Real implementation.
	//
	// Now consider a reference to method M in new(T).F.M() in a
	// module that requires a minimum of go1.21. The analysis may
	// occur using a version of Go higher than 1.21, selecting the
	// first version of T, so the method M is Real.M. This would
	// spuriously cause the analyzer to report a reference to a
	// too-new symbol even though this expression compiles just
	// fine (with the fake implementation) using go1.21.
	for _, sym := range symbols {
		symVersion := sym.Version.String()
		if !versions.Before(version, symVersion) {
			continue // allowed
		}

		var obj types.Object
		switch sym.Kind {
		case stdlib.Field:
			typename, name := sym.SplitField()
			if t := pkg.Scope().Lookup(typename); t != nil && disallowed[t] == "" {
				obj, _, _ = types.LookupFieldOrMethod(t.Type(), false, pkg, name)
			}

		case stdlib.Method:
			ptr, recvname, name := sym.SplitMethod()
			if t := pkg.Scope().Lookup(recvname); t != nil && disallowed[t] == "" {
				obj, _, _ = types.LookupFieldOrMethod(t.Type(), ptr, pkg, name)
			}
		}
		if obj != nil {
			disallowed[obj] = symVersion
		}
	}

	return disallowed
}
