// Copyright 2024 The Go Authors. All rights reserved.
// Use of this source code is governed by a BSD-style
// license that can be found in the LICENSE file.

package typesinternal

import (
	"fmt"
	"go/types"

	"golang.org/x/tools/go/types/typeutil"
)

// ForEachElement calls f for type T and each type reachable from its
// type through reflection. It does this by recursively stripping off
// type constructors; in addition, for each named type N, the type *N
// is added to the result as it may have additional methods.
//
// The caller must provide an initially empty set used to de-duplicate
// identical types, potentially across multiple calls to ForEachElement.
// (Its final value holds all the elements seen, matching the arguments
// passed to f.)
//
// TODO(adonovan): share/harmonize with go/callgraph/rta.
func ForEachElement(rtypes *typeutil.Map, msets *typeutil.MethodSetCache, T types.Type, f func(types.Type)) {
	var visit func(T types.Type, skip bool)
	visit = func(T types.Type, skip bool) {
		if !skip {
			if seen, _ := rtypes.Set(T, true).(bool); seen {
				return // de-dup
			}

			f(T) // notify caller of new element type
		}

		// Recursion over signatures of each method.
		tmset := msets.MethodSet(T)
		for i := 0; i < tmset.Len(); i++ {
			sig := tmset.At(i).Type().(*types.Signature)
			// It is tempting to call visit(sig, false)
			// but, as noted in golang.org/cl/65450043,
			// the Signature.Recv field is ignored by
			// types.Identical and typeutil.Map, which
			// is confusing at best.
			//
			// More importantly, the true signature rtype
			// reachable from a method using reflection
			// has no receiver but an extra ordinary parameter.
			// For the Read method of io.Reader we want:
			//   func(Reader, []byte) (int, error)
			// but here sig is:
			//   func([]byte) (int, error)
			// with .Recv = Reader (though it is hard to
			// notice because it doesn't affect Signature.String
			// or types.Identical).
			//
			// TODO(adonovan): construct and visit the correct
			// non-method signature with an extra parameter
			// (though since unnamed func types have no methods
			// there is essentially no actual demand for this).
			//
			// TODO(adonovan): document whether or not it is
			// safe to skip non-exported methods (as RTA does).
			visit(sig.Params(), true)  // skip the Tuple
			visit(sig.Results(), true) // skip the Tuple
		}

		switch T := T.(type) {
		case *types.Alias:
			visit(types.Unalias(T), skip) // emulates the pre-Alias behavior

		case *types.Basic:
			// nop

		case *types.Interface:
			// nop---handled by recursion over method set.

		case *types.Pointer:
			visit(T.Elem(), false)

		case *types.Slice:
			visit(T.Elem(), false)

		case *types.Chan:
			visit(T.Elem(), false)

		case *types.Map:
			visit(T.Key(), false)
			visit(T.Elem(), false)

		case *types.Signature:
			if T.Recv() != nil {
				panic(fmt.Sprintf("Signature %s has Recv %s", T, T.Recv()))
			}
			visit(T.Params(), true)  // skip the Tuple
			visit(T.Results(), true) // skip the Tuple

		case *types.Named:
			// A pointer-to-named type can be derived from a named
			// type via reflection.  It may have methods too.
			visit(types.NewPointer(T), false)

			// Consider 'type T struct{S}' where S has methods.
			// Reflection provides no way to get from T to struct{S},
			// only to S, so the method set of struct{S} is unwanted,
			// so set 'skip' flag during recursion.
			visit(T.Underlying(), true) // skip the unnamed type

		case *types.Array:
			visit(T.Elem(), false)

		case *types.Struct:
			for i, n := 0, T.NumFields(); i < n; i++ {
				// TODO(adonovan): document whether or not
				// it is safe to skip non-exported fields.
				visit(T.Field(i).Type(), false)
			}

		case *types.Tuple:
			for i, n := 0, T.Len(); i < n; i++ {
				visit(T.At(i).Type(), false)
			}

		case *types.TypeParam, *types.Union:
			// forEachReachable must not be called on parameterized types.
			panic(T)

		default:
			panic(T)
		}
	}
	visit(T, false)
}
