// Copyright 2020 The Go Authors. All rights reserved.
// Use of this source code is governed by a BSD-style
// license that can be found in the LICENSE file.

package typesinternal

//go:generate stringer -type=ErrorCode

type ErrorCode int

// This file defines the error codes that can be produced during type-checking.
// Collectively, these codes provide an identifier that may be used to
// implement special handling for certain types of errors.
//
// Error codes should be fine-grained enough that the exact nature of the error
// can be easily determined, but coarse enough that they are not an
// implementation detail of the type checking algorithm. As a rule-of-thumb,
// errors should be considered equivalent if there is a theoretical refactoring
// of the type checker in which they are emitted in exactly one place. For
// example, the type checker emits different error messages for "too many
// arguments" and "too few arguments", but one can imagine an alternative type
// checker where this check instead just emits a single "wrong number of
// arguments", so these errors should have the same code.
//
// Error code names should be as brief as possible while retaining accuracy and
// distinctiveness. In most cases names should start with an adjective
// describing the nature of the error (e.g. "invalid", "unused", "misplaced"),
// and end with a noun identifying the relevant language object. For example,
// "DuplicateDecl" or "InvalidSliceExpr". For brevity, naming follows the
// convention that "bad" implies a problem with syntax, and "invalid" implies a
// problem with types.

const (
	// InvalidSyntaxTree occurs if an invalid syntax tree is provided
	// to the type checker. It should never happen.
	InvalidSyntaxTree ErrorCode = -1
)

const (
	_ ErrorCode = iota

	// Test is reserved for errors that only apply while in self-test mode.
	Test

	/* package names */

	// BlankPkgName occurs when a package name is the blank identifier "_".
	//
	// Per the spec:
	//  "The PackageName must not be the blank identifier."
	BlankPkgName

	// MismatchedPkgName occurs when a file's package name doesn't match the
	// package name already established by other files.
	MismatchedPkgName

	// InvalidPkgUse occurs when a package identifier is used outside of a
	// selector expression.
	//
	// Example:
	//  import "fmt"
	//
	//  var _ = fmt
	InvalidPkgUse

	/* imports */

	// BadImportPath occurs when an import path is not valid.
	BadImportPath

	// BrokenImport occurs when importing a package fails.
	//
	// Example:
	//  import "amissingpackage"
	BrokenImport

	// ImportCRenamed occurs when the special import "C" is renamed. "C" is a
	// pseudo-package, and must not be renamed.
	//
	// Example:
	//  import _ "C"
	ImportCRenamed

	// UnusedImport occurs when an import is unused.
	//
	// Example:
	//  import "fmt"
	//
	//  func main() {}
	UnusedImport

	/* initialization */

	// InvalidInitCycle occurs when an invalid cycle is detected within the
	// initialization graph.
	//
	// Example:
	//  var x int = f()
	//
	//  func f() int { return x }
	InvalidInitCycle

	/* decls */

	// DuplicateDecl occurs when an identifier is declared multiple times.
	//
	// Example:
	//  var x = 1
	//  var x = 2
	DuplicateDecl

	// InvalidDeclCycle occurs when a declaration cycle is not valid.
	//
	// Example:
	//  import "unsafe"
	//
	//  type T struct {
	//  	a [n]int
	//  }
	//
	//  var n = unsafe.Sizeof(T{})
	InvalidDeclCycle

	// InvalidTypeCycle occurs when a cycle in type definitions results in a
	// type that is not well-defined.
	//
	// Example:
	//  import "unsafe"
	//
	//  type T [unsafe.Sizeof(T{})]int
	InvalidTypeCycle

	/* decls > const */

	// InvalidConstInit occurs when a const declaration has a non-constant
	// initializer.
	//
	// Example:
	//  var x int
	//  const _ = x
	InvalidConstInit

	// InvalidConstVal occurs when a const value cannot be converted to its
	// target type.
	//
	// TODO(findleyr): this error code and example are not very clear. Consider
	// removing it.
	//
	// Example:
	//  const _ = 1 << "hello"
	InvalidConstVal

	// InvalidConstType occurs when the underlying type in a const declaration
	// is not a valid constant type.
	//
	// Example:
	//  const c *int = 4
	InvalidConstType

	/* decls > var (+ other variable assignment codes) */

	// UntypedNilUse occurs when the predeclared (untyped) value nil is used to
	// initialize a variable declared without an explicit type.
	//
	// Example:
	//  var x = nil
	UntypedNilUse

	// WrongAssignCount occurs when the number of values on the right-hand side
	// of an assignment or initialization expression does not match the number
	// of variables on the left-hand side.
	//
	// Example:
	//  var x = 1, 2
	WrongAssignCount

	// UnassignableOperand occurs when the left-hand side of an assignment is
	// not assignable.
	//
	// Example:
	//  func f() {
	//  	const c = 1
	//  	c = 2
	//  }
	UnassignableOperand

	// NoNewVar occurs when a short variable declaration (':=') does not declare
	// new variables.
	//
	// Example:
	//  func f() {
	//  	x := 1
	//  	x := 2
	//  }
	NoNewVar

	// MultiValAssignOp occurs when an assignment operation (+=, *=, etc) does
	// not have single-valued left-hand or right-hand side.
	//
	// Per the spec:
	//  "In assignment operations, both the left- and right-hand expression lists
	//  must contain exactly one single-valued expression"
	//
	// Example:
	//  func f() int {
	//  	x, y := 1, 2
	//  	x, y += 1
	//  	return x + y
	//  }
	MultiValAssignOp

	// InvalidIfaceAssign occurs when a value of type T is used as an
	// interface, but T does not implement a method of the expected interface.
	//
	// Example:
	//  type I interface {
	//  	f()
	//  }
	//
	//  type T int
	//
	//  var x I = T(1)
	InvalidIfaceAssign

	// InvalidChanAssign occurs when a chan assignment is invalid.
	//
	// Per the spec, a value x is assignable to a channel type T if:
	//  "x is a bidirectional channel value, T is a channel type, x's type V and
	//  T have identical element types, and at least one of V or T is not a
	//  defined type."
	//
	// Example:
	//  type T1 chan int
	//  type T2 chan int
	//
	//  var x T1
	//  // Invalid assignment because both types are named
	//  var _ T2 = x
	InvalidChanAssign

	// IncompatibleAssign occurs when the type of the right-hand side expression
	// in an assignment cannot be assigned to the type of the variable being
	// assigned.
	//
	// Example:
	//  var x []int
	//  var _ int = x
	IncompatibleAssign

	// UnaddressableFieldAssign occurs when trying to assign to a struct field
	// in a map value.
	//
	// Example:
	//  func f() {
	//  	m := make(map[string]struct{i int})
	//  	m["foo"].i = 42
	//  }
	UnaddressableFieldAssign

	/* decls > type (+ other type expression codes) */

	// NotAType occurs when the identifier used as the underlying type in a type
	// declaration or the right-hand side of a type alias does not denote a type.
	//
	// Example:
	//  var S = 2
	//
	//  type T S
	NotAType

	// InvalidArrayLen occurs when an array length is not a constant value.
	//
	// Example:
	//  var n = 3
	//  var _ = [n]int{}
	InvalidArrayLen

	// BlankIfaceMethod occurs when a method name is '_'.
	//
	// Per the spec:
	//  "The name of each explicitly specified method must be unique and not
	//  blank."
	//
	// Example:
	//  type T interface {
	//  	_(int)
	//  }
	BlankIfaceMethod

	// IncomparableMapKey occurs when a map key type does not support the == and
	// != operators.
	//
	// Per the spec:
	//  "The comparison operators == and != must be fully defined for operands of
	//  the key type; thus the key type must not be a function, map, or slice."
	//
	// Example:
	//  var x map[T]int
	//
	//  type T []int
	IncomparableMapKey

	// InvalidIfaceEmbed occurs when a non-interface type is embedded in an
	// interface.
	//
	// Example:
	//  type T struct {}
	//
	//  func (T) m()
	//
	//  type I interface {
	//  	T
	//  }
	InvalidIfaceEmbed

	// InvalidPtrEmbed occurs when an embedded field is of the pointer form *T,
	// and T itself is itself a pointer, an unsafe.Pointer, or an interface.
	//
	// Per the spec:
	//  "An embedded field must be specified as a type name T or as a pointer to
	//  a non-interface type name *T, and T itself may not be a pointer type."
	//
	// Example:
	//  type T *int
	//
	//  type S struct {
	//  	*T
	//  }
	InvalidPtrEmbed

	/* decls > func and method */

	// BadRecv occurs when a method declaration does not have exactly one
	// receiver parameter.
	//
	// Example:
	//  func () _() {}
	BadRecv

	// InvalidRecv occurs when a receiver type expression is not of the form T
	// or *T, or T is a pointer type.
	//
	// Example:
	//  type T struct {}
	//
	//  func (**T) m() {}
	InvalidRecv

	// DuplicateFieldAndMethod occurs when an identifier appears as both a field
	// and method name.
	//
	// Example:
	//  type T struct {
	//  	m int
	//  }
	//
	//  func (T) m() {}
	DuplicateFieldAndMethod

	// DuplicateMethod occurs when two methods on the same receiver type have
	// the same name.
	//
	// Example:
	//  type T struct {}
	//  func (T) m() {}
	//  func (T) m(i int) int { return i }
	DuplicateMethod

	/* decls > special */

	// InvalidBlank occurs when a blank identifier is used as a value or type.
	//
	// Per the spec:
	//  "The blank identifier may appear as an operand only on the left-hand side
	//  of an assignment."
	//
	// Example:
	//  var x = _
	InvalidBlank

	// InvalidIota occurs when the predeclared identifier iota is used outside
	// of a constant declaration.
	//
	// Example:
	//  var x = iota
	InvalidIota

	// MissingInitBody occurs when an init function is missing its body.
	//
	// Example:
	//  func init()
	MissingInitBody

	// InvalidInitSig occurs when an init function declares parameters or
	// results.
	//
	// Example:
	//  func init() int { return 1 }
	InvalidInitSig

	// InvalidInitDecl occurs when init is declared as anything other than a
	// function.
	//
	// Example:
	//  var init = 1
	InvalidInitDecl

	// InvalidMainDecl occurs when main is declared as anything other than a
	// function, in a main package.
	InvalidMainDecl

	/* exprs */

	// TooManyValues occurs when a function returns too many values for the
	// expression context in which it is used.
	//
	// Example:
	//  func ReturnTwo() (int, int) {
	//  	return 1, 2
	//  }
	//
	//  var x = ReturnTwo()
	TooManyValues

	// NotAnExpr occurs when a type expression is used where a value expression
	// is expected.
	//
	// Example:
	//  type T struct {}
	//
	//  func f() {
	//  	T
	//  }
	NotAnExpr

	/* exprs > const */

	// TruncatedFloat occurs when a float constant is truncated to an integer
	// value.
	//
	// Example:
	//  var _ int = 98.6
	TruncatedFloat

	// NumericOverflow occurs when a numeric constant overflows its target type.
	//
	// Example:
	//  var x int8 = 1000
	NumericOverflow

	/* exprs > operation */

	// UndefinedOp occurs when an operator is not defined for the type(s) used
	// in an operation.
	//
	// Example:
	//  var c = "a" - "b"
	UndefinedOp

	// MismatchedTypes occurs when operand types are incompatible in a binary
	// operation.
	//
	// Example:
	//  var a = "hello"
	//  var b = 1
	//  var c = a - b
	MismatchedTypes

	// DivByZero occurs when a division operation is provable at compile
	// time to be a division by zero.
	//
	// Example:
	//  const divisor = 0
	//  var x int = 1/divisor
	DivByZero

	// NonNumericIncDec occurs when an increment or decrement operator is
	// applied to a non-numeric value.
	//
	// Example:
	//  func f() {
	//  	var c = "c"
	//  	c++
	//  }
	NonNumericIncDec

	/* exprs > ptr */

	// UnaddressableOperand occurs when the & operator is applied to an
	// unaddressable expression.
	//
	// Example:
	//  var x = &1
	UnaddressableOperand

	// InvalidIndirection occurs when a non-pointer value is indirected via the
	// '*' operator.
	//
	// Example:
	//  var x int
	//  var y = *x
	InvalidIndirection

	/* exprs > [] */

	// NonIndexableOperand occurs when an index operation is applied to a value
	// that cannot be indexed.
	//
	// Example:
	//  var x = 1
	//  var y = x[1]
	NonIndexableOperand

	// InvalidIndex occurs when an index argument is not of integer type,
	// negative, or out-of-bounds.
	//
	// Example:
	//  var s = [...]int{1,2,3}
	//  var x = s[5]
	//
	// Example:
	//  var s = []int{1,2,3}
	//  var _ = s[-1]
	//
	// Example:
	//  var s = []int{1,2,3}
	//  var i string
	//  var _ = s[i]
	InvalidIndex

	// SwappedSliceIndices occurs when constant indices in a slice expression
	// are decreasing in value.
	//
	// Example:
	//  var _ = []int{1,2,3}[2:1]
	SwappedSliceIndices

	/* operators > slice */

	// NonSliceableOperand occurs when a slice operation is applied to a value
	// whose type is not sliceable, or is unaddressable.
	//
	// Example:
	//  var x = [...]int{1, 2, 3}[:1]
	//
	// Example:
	//  var x = 1
	//  var y = 1[:1]
	NonSliceableOperand

	// InvalidSliceExpr occurs when a three-index slice expression (a[x:y:z]) is
	// applied to a string.
	//
	// Example:
	//  var s = "hello"
	//  var x = s[1:2:3]
	InvalidSliceExpr

	/* exprs > shift */

	// InvalidShiftCount occurs when the right-hand side of a shift operation is
	// either non-integer, negative, or too large.
	//
	// Example:
	//  var (
	//  	x string
	//  	y int = 1 << x
	//  )
	InvalidShiftCount

	// InvalidShiftOperand occurs when the shifted operand is not an integer.
	//
	// Example:
	//  var s = "hello"
	//  var x = s << 2
	InvalidShiftOperand

	/* exprs > chan */

	// InvalidReceive occurs when there is a channel receive from a value that
	// is either not a channel, or is a send-only channel.
	//
	// Example:
	//  func f() {
	//  	var x = 1
	//  	<-x
	//  }
	InvalidReceive

	// InvalidSend occurs when there is a channel send to a value that is not a
	// channel, or is a receive-only channel.
	//
	// Example:
	//  func f() {
	//  	var x = 1
	//  	x <- "hello!"
	//  }
	InvalidSend

	/* exprs > literal */

	// DuplicateLitKey occurs when an index is duplicated in a slice, array, or
	// map literal.
	//
	// Example:
	//  var _ = []int{0:1, 0:2}
	//
	// Example:
	//  var _ = map[string]int{"a": 1, "a": 2}
	DuplicateLitKey

	// MissingLitKey occurs when a map literal is missing a key expression.
	//
	// Example:
	//  var _ = map[string]int{1}
	MissingLitKey

	// InvalidLitIndex occurs when the key in a key-value element of a slice or
	// array literal is not an integer constant.
	//
	// Example:
	//  var i = 0
	//  var x = []string{i: "world"}
	InvalidLitIndex

	// OversizeArrayLit occurs when an array literal exceeds its length.
	//
	// Example:
	//  var _ = [2]int{1,2,3}
	OversizeArrayLit

	// MixedStructLit occurs when a struct literal contains a mix of positional
	// and named elements.
	//
	// Example:
	//  var _ = struct{i, j int}{i: 1, 2}
	MixedStructLit

	// InvalidStructLit occurs when a positional struct literal has an incorrect
	// number of values.
	//
	// Example:
	//  var _ = struct{i, j int}{1,2,3}
	InvalidStructLit

	// MissingLitField occurs when a struct literal refers to a field that does
	// not exist on the struct type.
	//
	// Example:
	//  var _ = struct{i int}{j: 2}
	MissingLitField

	// DuplicateLitField occurs when a struct literal contains duplicated
	// fields.
	//
	// Example:
	//  var _ = struct{i int}{i: 1, i: 2}
	DuplicateLitField

	// UnexportedLitField occurs when a positional struct literal implicitly
	// assigns an unexported field of an imported type.
	UnexportedLitField

	// InvalidLitField occurs when a field name is not a valid identifier.
	//
	// Example:
	//  var _ = struct{i int}{1: 1}
	InvalidLitField

	// UntypedLit occurs when a composite literal omits a required type
	// identifier.
	//
	// Example:
	//  type outer struct{
	//  	inner struct { i int }
	//  }
	//
	//  var _ = outer{inner: {1}}
	UntypedLit

	// InvalidLit occurs when a composite literal expression does not match its
	// type.
	//
	// Example:
	//  type P *struct{
	//  	x int
	//  }
	//  var _ = P {}
	InvalidLit

	/* exprs > selector */

	// AmbiguousSelector occurs when a selector is ambiguous.
	//
	// Example:
	//  type E1 struct { i int }
	//  type E2 struct { i int }
	//  type T struct { E1; E2 }
	//
	//  var x T
	//  var _ = x.i
	AmbiguousSelector

	// UndeclaredImportedName occurs when a package-qualified identifier is
	// undeclared by the imported package.
	//
	// Example:
	//  import "go/types"
	//
	//  var _ = types.NotAnActualIdentifier
	UndeclaredImportedName

	// UnexportedName occurs when a selector refers to an unexported identifier
	// of an imported package.
	//
	// Example:
	//  import "reflect"
	//
	//  type _ reflect.flag
	UnexportedName

	// UndeclaredName occurs when an identifier is not declared in the current
	// scope.
	//
	// Example:
	//  var x T
	UndeclaredName

	// MissingFieldOrMethod occurs when a selector references a field or method
	// that does not exist.
	//
	// Example:
	//  type T struct {}
	//
	//  var x = T{}.f
	MissingFieldOrMethod

	/* exprs > ... */

	// BadDotDotDotSyntax occurs when a "..." occurs in a context where it is
	// not valid.
	//
	// Example:
	//  var _ = map[int][...]int{0: {}}
	BadDotDotDotSyntax

	// NonVariadicDotDotDot occurs when a "..." is used on the final argument to
	// a non-variadic function.
	//
	// Example:
	//  func printArgs(s []string) {
	//  	for _, a := range s {
	//  		println(a)
	//  	}
	//  }
	//
	//  func f() {
	//  	s := []string{"a", "b", "c"}
	//  	printArgs(s...)
	//  }
	NonVariadicDotDotDot

	// MisplacedDotDotDot occurs when a "..." is used somewhere other than the
	// final argument to a function call.
	//
	// Example:
	//  func printArgs(args ...int) {
	//  	for _, a := range args {
	//  		println(a)
	//  	}
	//  }
	//
	//  func f() {
	//  	a := []int{1,2,3}
	//  	printArgs(0, a...)
	//  }
	MisplacedDotDotDot

	// InvalidDotDotDotOperand occurs when a "..." operator is applied to a
	// single-valued operand.
	//
	// Example:
	//  func printArgs(args ...int) {
	//  	for _, a := range args {
	//  		println(a)
	//  	}
	//  }
	//
	//  func f() {
	//  	a := 1
	//  	printArgs(a...)
	//  }
	//
	// Example:
	//  func args() (int, int) {
	//  	return 1, 2
	//  }
	//
	//  func printArgs(args ...int) {
	//  	for _, a := range args {
	//  		println(a)
	//  	}
	//  }
	//
	//  func g() {
	//  	printArgs(args()...)
	//  }
	InvalidDotDotDotOperand

	// InvalidDotDotDot occurs when a "..." is used in a non-variadic built-in
	// function.
	//
	// Example:
	//  var s = []int{1, 2, 3}
	//  var l = len(s...)
	InvalidDotDotDot

	/* exprs > built-in */

	// UncalledBuiltin occurs when a built-in function is used as a
	// function-valued expression, instead of being called.
	//
	// Per the spec:
	//  "The built-in functions do not have standard Go types, so they can only
	//  appear in call expressions; they cannot be used as function values."
	//
	// Example:
	//  var _ = copy
	UncalledBuiltin

	// InvalidAppend occurs when append is called with a first argument that is
	// not a slice.
	//
	// Example:
	//  var _ = append(1, 2)
	InvalidAppend

	// InvalidCap occurs when an argument to the cap built-in function is not of
	// supported type.
	//
	// See https://golang.org/ref/spec#Length_and_capacity for information on
	// which underlying types are supported as arguments to cap and len.
	//
	// Example:
	//  var s = 2
	//  var x = cap(s)
	InvalidCap

	// InvalidClose occurs when close(...) is called with an argument that is
	// not of channel type, or that is a receive-only channel.
	//
	// Example:
	//  func f() {
	//  	var x int
	//  	close(x)
	//  }
	InvalidClose

	// InvalidCopy occurs when the arguments are not of slice type or do not
	// have compatible type.
	//
	// See https://golang.org/ref/spec#Appending_and_copying_slices for more
	// information on the type requirements for the copy built-in.
	//
	// Example:
	//  func f() {
	//  	var x []int
	//  	y := []int64{1,2,3}
	//  	copy(x, y)
	//  }
	InvalidCopy

	// InvalidComplex occurs when the complex built-in function is called with
	// arguments with incompatible types.
	//
	// Example:
	//  var _ = complex(float32(1), float64(2))
	InvalidComplex

	// InvalidDelete occurs when the delete built-in function is called with a
	// first argument that is not a map.
	//
	// Example:
	//  func f() {
	//  	m := "hello"
	//  	delete(m, "e")
	//  }
	InvalidDelete

	// InvalidImag occurs when the imag built-in function is called with an
	// argument that does not have complex type.
	//
	// Example:
	//  var _ = imag(int(1))
	InvalidImag

	// InvalidLen occurs when an argument to the len built-in function is not of
	// supported type.
	//
	// See https://golang.org/ref/spec#Length_and_capacity for information on
	// which underlying types are supported as arguments to cap and len.
	//
	// Example:
	//  var s = 2
	//  var x = len(s)
	InvalidLen

	// SwappedMakeArgs occurs when make is called with three arguments, and its
	// length argument is larger than its capacity argument.
	//
	// Example:
	//  var x = make([]int, 3, 2)
	SwappedMakeArgs

	// InvalidMake occurs when make is called with an unsupported type argument.
	//
	// See https://golang.org/ref/spec#Making_slices_maps_and_channels for
	// information on the types that may be created using make.
	//
	// Example:
	//  var x = make(int)
	InvalidMake

	// InvalidReal occurs when the real built-in function is called with an
	// argument that does not have complex type.
	//
	// Example:
	//  var _ = real(int(1))
	InvalidReal

	/* exprs > assertion */

	// InvalidAssert occurs when a type assertion is applied to a
	// value that is not of interface type.
	//
	// Example:
	//  var x = 1
	//  var _ = x.(float64)
	InvalidAssert

	// ImpossibleAssert occurs for a type assertion x.(T) when the value x of
	// interface cannot have dynamic type T, due to a missing or mismatching
	// method on T.
	//
	// Example:
	//  type T int
	//
	//  func (t *T) m() int { return int(*t) }
	//
	//  type I interface { m() int }
	//
	//  var x I
	//  var _ = x.(T)
	ImpossibleAssert

	/* exprs > conversion */

	// InvalidConversion occurs when the argument type cannot be converted to the
	// target.
	//
	// See https://golang.org/ref/spec#Conversions for the rules of
	// convertibility.
	//
	// Example:
	//  var x float64
	//  var _ = string(x)
	InvalidConversion

	// InvalidUntypedConversion occurs when an there is no valid implicit
	// conversion from an untyped value satisfying the type constraints of the
	// context in which it is used.
	//
	// Example:
	//  var _ = 1 + ""
	InvalidUntypedConversion

	/* offsetof */

	// BadOffsetofSyntax occurs when unsafe.Offsetof is called with an argument
	// that is not a selector expression.
	//
	// Example:
	//  import "unsafe"
	//
	//  var x int
	//  var _ = unsafe.Offsetof(x)
	BadOffsetofSyntax

	// InvalidOffsetof occurs when unsafe.Offsetof is called with a method
	// selector, rather than a field selector, or when the field is embedded via
	// a pointer.
	//
	// Per the spec:
	//
	//  "If f is an embedded field, it must be reachable without pointer
	//  indirections through fields of the struct. "
	//
	// Example:
	//  import "unsafe"
	//
	//  type T struct { f int }
	//  type S struct { *T }
	//  var s S
	//  var _ = unsafe.Offsetof(s.f)
	//
	// Example:
	//  import "unsafe"
	//
	//  type S struct{}
	//
	//  func (S) m() {}
	//
	//  var s S
	//  var _ = unsafe.Offsetof(s.m)
	InvalidOffsetof

	/* control flow > scope */

	// UnusedExpr occurs when a side-effect free expression is used as a
	// statement. Such a statement has no effect.
	//
	// Example:
	//  func f(i int) {
	//  	i*i
	//  }
	UnusedExpr

	// UnusedVar occurs when a variable is declared but unused.
	//
	// Example:
	//  func f() {
	//  	x := 1
	//  }
	UnusedVar

	// MissingReturn occurs when a function with results is missing a return
	// statement.
	//
	// Example:
	//  func f() int {}
	MissingReturn

	// WrongResultCount occurs when a return statement returns an incorrect
	// number of values.
	//
	// Example:
	//  func ReturnOne() int {
	//  	return 1, 2
	//  }
	WrongResultCount

	// OutOfScopeResult occurs when the name of a value implicitly returned by
	// an empty return statement is shadowed in a nested scope.
	//
	// Example:
	//  func factor(n int) (i int) {
	//  	for i := 2; i < n; i++ {
	//  		if n%i == 0 {
	//  			return
	//  		}
	//  	}
	//  	return 0
	//  }
	OutOfScopeResult

	/* control flow > if */

	// InvalidCond occurs when an if condition is not a boolean expression.
	//
	// Example:
	//  func checkReturn(i int) {
	//  	if i {
	//  		panic("non-zero return")
	//  	}
	//  }
	InvalidCond

	/* control flow > for */

	// InvalidPostDecl occurs when there is a declaration in a for-loop post
	// statement.
	//
	// Example:
	//  func f() {
	//  	for i := 0; i < 10; j := 0 {}
	//  }
	InvalidPostDecl

	// InvalidChanRange occurs when a send-only channel used in a range
	// expression.
	//
	// Example:
	//  func sum(c chan<- int) {
	//  	s := 0
	//  	for i := range c {
	//  		s += i
	//  	}
	//  }
	InvalidChanRange

	// InvalidIterVar occurs when two iteration variables are used while ranging
	// over a channel.
	//
	// Example:
	//  func f(c chan int) {
	//  	for k, v := range c {
	//  		println(k, v)
	//  	}
	//  }
	InvalidIterVar

	// InvalidRangeExpr occurs when the type of a range expression is not array,
	// slice, string, map, or channel.
	//
	// Example:
	//  func f(i int) {
	//  	for j := range i {
	//  		println(j)
	//  	}
	//  }
	InvalidRangeExpr

	/* control flow > switch */

	// MisplacedBreak occurs when a break statement is not within a for, switch,
	// or select statement of the innermost function definition.
	//
	// Example:
	//  func f() {
	//  	break
	//  }
	MisplacedBreak

	// MisplacedContinue occurs when a continue statement is not within a for
	// loop of the innermost function definition.
	//
	// Example:
	//  func sumeven(n int) int {
	//  	proceed := func() {
	//  		continue
	//  	}
	//  	sum := 0
	//  	for i := 1; i <= n; i++ {
	//  		if i % 2 != 0 {
	//  			proceed()
	//  		}
	//  		sum += i
	//  	}
	//  	return sum
	//  }
	MisplacedContinue

	// MisplacedFallthrough occurs when a fallthrough statement is not within an
	// expression switch.
	//
	// Example:
	//  func typename(i interface{}) string {
	//  	switch i.(type) {
	//  	case int64:
	//  		fallthrough
	//  	case int:
	//  		return "int"
	//  	}
	//  	return "unsupported"
	//  }
	MisplacedFallthrough

	// DuplicateCase occurs when a type or expression switch has duplicate
	// cases.
	//
	// Example:
	//  func printInt(i int) {
	//  	switch i {
	//  	case 1:
	//  		println("one")
	//  	case 1:
	//  		println("One")
	//  	}
	//  }
	DuplicateCase

	// DuplicateDefault occurs when a type or expression switch has multiple
	// default clauses.
	//
	// Example:
	//  func printInt(i int) {
	//  	switch i {
	//  	case 1:
	//  		println("one")
	//  	default:
	//  		println("One")
	//  	default:
	//  		println("1")
	//  	}
	//  }
	DuplicateDefault

	// BadTypeKeyword occurs when a .(type) expression is used anywhere other
	// than a type switch.
	//
	// Example:
	//  type I interface {
	//  	m()
	//  }
	//  var t I
	//  var _ = t.(type)
	BadTypeKeyword

	// InvalidTypeSwitch occurs when .(type) is used on an expression that is
	// not of interface type.
	//
	// Example:
	//  func f(i int) {
	//  	switch x := i.(type) {}
	//  }
	InvalidTypeSwitch

	// InvalidExprSwitch occurs when a switch expression is not comparable.
	//
	// Example:
	//  func _() {
	//  	var a struct{ _ func() }
	//  	switch a /* ERROR cannot switch on a */ {
	//  	}
	//  }
	InvalidExprSwitch

	/* control flow > select */

	// InvalidSelectCase occurs when a select case is not a channel send or
	// receive.
	//
	// Example:
	//  func checkChan(c <-chan int) bool {
	//  	select {
	//  	case c:
	//  		return true
	//  	default:
	//  		return false
	//  	}
	//  }
	InvalidSelectCase

	/* control flow > labels and jumps */

	// UndeclaredLabel occurs when an undeclared label is jumped to.
	//
	// Example:
	//  func f() {
	//  	goto L
	//  }
	UndeclaredLabel

	// DuplicateLabel occurs when a label is declared more than once.
	//
	// Example:
	//  func f() int {
	//  L:
	//  L:
	//  	return 1
	//  }
	DuplicateLabel

	// MisplacedLabel occurs when a break or continue label is not on a for,
	// switch, or select statement.
	//
	// Example:
	//  func f() {
	//  L:
	//  	a := []int{1,2,3}
	//  	for _, e := range a {
	//  		if e > 10 {
	//  			break L
	//  		}
	//  		println(a)
	//  	}
	//  }
	MisplacedLabel

	// UnusedLabel occurs when a label is declared but not used.
	//
	// Example:
	//  func f() {
	//  L:
	//  }
	UnusedLabel

	// JumpOverDecl occurs when a label jumps over a variable declaration.
	//
	// Example:
	//  func f() int {
	//  	goto L
	//  	x := 2
	//  L:
	//  	x++
	//  	return x
	//  }
	JumpOverDecl

	// JumpIntoBlock occurs when a forward jump goes to a label inside a nested
	// block.
	//
	// Example:
	//  func f(x int) {
	//  	goto L
	//  	if x > 0 {
	//  	L:
	//  		print("inside block")
	//  	}
	// }
	JumpIntoBlock

	/* control flow > calls */

	// InvalidMethodExpr occurs when a pointer method is called but the argument
	// is not addressable.
	//
	// Example:
	//  type T struct {}
	//
	//  func (*T) m() int { return 1 }
	//
	//  var _ = T.m(T{})
	InvalidMethodExpr

	// WrongArgCount occurs when too few or too many arguments are passed by a
	// function call.
	//
	// Example:
	//  func f(i int) {}
	//  var x = f()
	WrongArgCount

	// InvalidCall occurs when an expression is called that is not of function
	// type.
	//
	// Example:
	//  var x = "x"
	//  var y = x()
	InvalidCall

	/* control flow > suspended */

	// UnusedResults occurs when a restricted expression-only built-in function
	// is suspended via go or defer. Such a suspension discards the results of
	// these side-effect free built-in functions, and therefore is ineffectual.
	//
	// Example:
	//  func f(a []int) int {
	//  	defer len(a)
	//  	return i
	//  }
	UnusedResults

	// InvalidDefer occurs when a deferred expression is not a function call,
	// for example if the expression is a type conversion.
	//
	// Example:
	//  func f(i int) int {
	//  	defer int32(i)
	//  	return i
	//  }
	InvalidDefer

	// InvalidGo occurs when a go expression is not a function call, for example
	// if the expression is a type conversion.
	//
	// Example:
	//  func f(i int) int {
	//  	go int32(i)
	//  	return i
	//  }
	InvalidGo

	// All codes below were added in Go 1.17.

	/* decl */

	// BadDecl occurs when a declaration has invalid syntax.
	BadDecl

	// RepeatedDecl occurs when an identifier occurs more than once on the left
	// hand side of a short variable declaration.
	//
	// Example:
	//  func _() {
	//  	x, y, y := 1, 2, 3
	//  }
	RepeatedDecl

	/* unsafe */

	// InvalidUnsafeAdd occurs when unsafe.Add is called with a
	// length argument that is not of integer type.
	//
	// Example:
	//  import "unsafe"
	//
	//  var p unsafe.Pointer
	//  var _ = unsafe.Add(p, float64(1))
	InvalidUnsafeAdd

	// InvalidUnsafeSlice occurs when unsafe.Slice is called with a
	// pointer argument that is not of pointer type or a length argument
	// that is not of integer type, negative, or out of bounds.
	//
	// Example:
	//  import "unsafe"
	//
	//  var x int
	//  var _ = unsafe.Slice(x, 1)
	//
	// Example:
	//  import "unsafe"
	//
	//  var x int
	//  var _ = unsafe.Slice(&x, float64(1))
	//
	// Example:
	//  import "unsafe"
	//
	//  var x int
	//  var _ = unsafe.Slice(&x, -1)
	//
	// Example:
	//  import "unsafe"
	//
	//  var x int
	//  var _ = unsafe.Slice(&x, uint64(1) << 63)
	InvalidUnsafeSlice

	// All codes below were added in Go 1.18.

	/* features */

	// UnsupportedFeature occurs when a language feature is used that is not
	// supported at this Go version.
	UnsupportedFeature

	/* type params */

	// NotAGenericType occurs when a non-generic type is used where a generic
	// type is expected: in type or function instantiation.
	//
	// Example:
	//  type T int
	//
	//  var _ T[int]
	NotAGenericType

	// WrongTypeArgCount occurs when a type or function is instantiated with an
	// incorrect number of type arguments, including when a generic type or
	// function is used without instantiation.
	//
	// Errors involving failed type inference are assigned other error codes.
	//
	// Example:
	//  type T[p any] int
	//
	//  var _ T[int, string]
	//
	// Example:
	//  func f[T any]() {}
	//
	//  var x = f
	WrongTypeArgCount

	// CannotInferTypeArgs occurs when type or function type argument inference
	// fails to infer all type arguments.
	//
	// Example:
	//  func f[T any]() {}
	//
	//  func _() {
	//  	f()
	//  }
	//
	// Example:
	//   type N[P, Q any] struct{}
	//
	//   var _ N[int]
	CannotInferTypeArgs

	// InvalidTypeArg occurs when a type argument does not satisfy its
	// corresponding type parameter constraints.
	//
	// Example:
	//  type T[P ~int] struct{}
	//
	//  var _ T[string]
	InvalidTypeArg // arguments? InferenceFailed

	// InvalidInstanceCycle occurs when an invalid cycle is detected
	// within the instantiation graph.
	//
	// Example:
	//  func f[T any]() { f[*T]() }
	InvalidInstanceCycle

	// InvalidUnion occurs when an embedded union or approximation element is
	// not valid.
	//
	// Example:
	//  type _ interface {
	//   	~int | interface{ m() }
	//  }
	InvalidUnion

	// MisplacedConstraintIface occurs when a constraint-type interface is used
	// outside of constraint position.
	//
	// Example:
	//   type I interface { ~int }
	//
	//   var _ I
	MisplacedConstraintIface

	// InvalidMethodTypeParams occurs when methods have type parameters.
	//
	// It cannot be encountered with an AST parsed using go/parser.
	InvalidMethodTypeParams

	// MisplacedTypeParam occurs when a type parameter is used in a place where
	// it is not permitted.
	//
	// Example:
	//  type T[P any] P
	//
	// Example:
	//  type T[P any] struct{ *P }
	MisplacedTypeParam

	// InvalidUnsafeSliceData occurs when unsafe.SliceData is called with
	// an argument that is not of slice type. It also occurs if it is used
	// in a package compiled for a language version before go1.20.
	//
	// Example:
	//  import "unsafe"
	//
	//  var x int
	//  var _ = unsafe.SliceData(x)
	InvalidUnsafeSliceData

	// InvalidUnsafeString occurs when unsafe.String is called with
	// a length argument that is not of integer type, negative, or
	// out of bounds. It also occurs if it is used in a package
	// compiled for a language version before go1.20.
	//
	// Example:
	//  import "unsafe"
	//
	//  var b [10]byte
	//  var _ = unsafe.String(&b[0], -1)
	InvalidUnsafeString

	// InvalidUnsafeStringData occurs if it is used in a package
	// compiled for a language version before go1.20.
	_ // not used anymore

)
