// Copyright 2024 The Go Authors. All rights reserved.
// Use of this source code is governed by a BSD-style
// license that can be found in the LICENSE file.

package typesinternal

import (
	"go/types"
)

// ReceiverNamed returns the named type (if any) associated with the
// type of recv, which may be of the form N or *N, or aliases thereof.
// It also reports whether a Pointer was present.
//
// The named result may be nil in ill-typed code.
func ReceiverNamed(recv *types.Var) (isPtr bool, named *types.Named) {
	t := recv.Type()
	if ptr, ok := types.Unalias(t).(*types.Pointer); ok {
		isPtr = true
		t = ptr.Elem()
	}
	named, _ = types.Unalias(t).(*types.Named)
	return
}

// Unpointer returns T given *T or an alias thereof.
// For all other types it is the identity function.
// It does not look at underlying types.
// The result may be an alias.
//
// Use this function to strip off the optional pointer on a receiver
// in a field or method selection, without losing the named type
// (which is needed to compute the method set).
//
// See also [typeparams.MustDeref], which removes one level of
// indirection from the type, regardless of named types (analogous to
// a LOAD instruction).
func Unpointer(t types.Type) types.Type {
	if ptr, ok := types.Unalias(t).(*types.Pointer); ok {
		return ptr.Elem()
	}
	return t
}
