// Copyright 2024 The Go Authors. All rights reserved.
// Use of this source code is governed by a BSD-style
// license that can be found in the LICENSE file.

package typesinternal

import (
	"fmt"
	"go/ast"
	"go/token"
	"go/types"
	"strings"
)

// ZeroString returns the string representation of the zero value for any type t.
// The boolean result indicates whether the type is or contains an invalid type
// or a non-basic (constraint) interface type.
//
// Even for invalid input types, ZeroString may return a partially correct
// string representation. The caller should use the returned isValid boolean
// to determine the validity of the expression.
//
// When assigning to a wider type (such as 'any'), it's the caller's
// responsibility to handle any necessary type conversions.
//
// This string can be used on the right-hand side of an assignment where the
// left-hand side has that explicit type.
// References to named types are qualified by an appropriate (optional)
// qualifier function.
// Exception: This does not apply to tuples. Their string representation is
// informational only and cannot be used in an assignment.
//
// See [ZeroExpr] for a variant that returns an [ast.Expr].
func ZeroString(t types.Type, qual types.Qualifier) (_ string, isValid bool) {
	switch t := t.(type) {
	case *types.Basic:
		switch {
		case t.Info()&types.IsBoolean != 0:
			return "false", true
		case t.Info()&types.IsNumeric != 0:
			return "0", true
		case t.Info()&types.IsString != 0:
			return `""`, true
		case t.Kind() == types.UnsafePointer:
			fallthrough
		case t.Kind() == types.UntypedNil:
			return "nil", true
		case t.Kind() == types.Invalid:
			return "invalid", false
		default:
			panic(fmt.Sprintf("ZeroString for unexpected type %v", t))
		}

	case *types.Pointer, *types.Slice, *types.Chan, *types.Map, *types.Signature:
		return "nil", true

	case *types.Interface:
		if !t.IsMethodSet() {
			return "invalid", false
		}
		return "nil", true

	case *types.Named:
		switch under := t.Underlying().(type) {
		case *types.Struct, *types.Array:
			return types.TypeString(t, qual) + "{}", true
		default:
			return ZeroString(under, qual)
		}

	case *types.Alias:
		switch t.Underlying().(type) {
		case *types.Struct, *types.Array:
			return types.TypeString(t, qual) + "{}", true
		default:
			// A type parameter can have alias but alias type's underlying type
			// can never be a type parameter.
			// Use types.Unalias to preserve the info of type parameter instead
			// of call Underlying() going right through and get the underlying
			// type of the type parameter which is always an interface.
			return ZeroString(types.Unalias(t), qual)
		}

	case *types.Array, *types.Struct:
		return types.TypeString(t, qual) + "{}", true

	case *types.TypeParam:
		// Assumes func new is not shadowed.
		return "*new(" + types.TypeString(t, qual) + ")", true

	case *types.Tuple:
		// Tuples are not normal values.
		// We are currently format as "(t[0], ..., t[n])". Could be something else.
		isValid := true
		components := make([]string, t.Len())
		for i := 0; i < t.Len(); i++ {
			comp, ok := ZeroString(t.At(i).Type(), qual)

			components[i] = comp
			isValid = isValid && ok
		}
		return "(" + strings.Join(components, ", ") + ")", isValid

	case *types.Union:
		// Variables of these types cannot be created, so it makes
		// no sense to ask for their zero value.
		panic(fmt.Sprintf("invalid type for a variable: %v", t))

	default:
		panic(t) // unreachable.
	}
}

// ZeroExpr returns the ast.Expr representation of the zero value for any type t.
// The boolean result indicates whether the type is or contains an invalid type
// or a non-basic (constraint) interface type.
//
// Even for invalid input types, ZeroExpr may return a partially correct ast.Expr
// representation. The caller should use the returned isValid boolean to determine
// the validity of the expression.
//
// This function is designed for types suitable for variables and should not be
// used with Tuple or Union types.References to named types are qualified by an
// appropriate (optional) qualifier function.
//
// See [ZeroString] for a variant that returns a string.
func ZeroExpr(t types.Type, qual types.Qualifier) (_ ast.Expr, isValid bool) {
	switch t := t.(type) {
	case *types.Basic:
		switch {
		case t.Info()&types.IsBoolean != 0:
			return &ast.Ident{Name: "false"}, true
		case t.Info()&types.IsNumeric != 0:
			return &ast.BasicLit{Kind: token.INT, Value: "0"}, true
		case t.Info()&types.IsString != 0:
			return &ast.BasicLit{Kind: token.STRING, Value: `""`}, true
		case t.Kind() == types.UnsafePointer:
			fallthrough
		case t.Kind() == types.UntypedNil:
			return ast.NewIdent("nil"), true
		case t.Kind() == types.Invalid:
			return &ast.BasicLit{Kind: token.STRING, Value: `"invalid"`}, false
		default:
			panic(fmt.Sprintf("ZeroExpr for unexpected type %v", t))
		}

	case *types.Pointer, *types.Slice, *types.Chan, *types.Map, *types.Signature:
		return ast.NewIdent("nil"), true

	case *types.Interface:
		if !t.IsMethodSet() {
			return &ast.BasicLit{Kind: token.STRING, Value: `"invalid"`}, false
		}
		return ast.NewIdent("nil"), true

	case *types.Named:
		switch under := t.Underlying().(type) {
		case *types.Struct, *types.Array:
			return &ast.CompositeLit{
				Type: TypeExpr(t, qual),
			}, true
		default:
			return ZeroExpr(under, qual)
		}

	case *types.Alias:
		switch t.Underlying().(type) {
		case *types.Struct, *types.Array:
			return &ast.CompositeLit{
				Type: TypeExpr(t, qual),
			}, true
		default:
			return ZeroExpr(types.Unalias(t), qual)
		}

	case *types.Array, *types.Struct:
		return &ast.CompositeLit{
			Type: TypeExpr(t, qual),
		}, true

	case *types.TypeParam:
		return &ast.StarExpr{ // *new(T)
			X: &ast.CallExpr{
				// Assumes func new is not shadowed.
				Fun: ast.NewIdent("new"),
				Args: []ast.Expr{
					ast.NewIdent(t.Obj().Name()),
				},
			},
		}, true

	case *types.Tuple:
		// Unlike ZeroString, there is no ast.Expr can express tuple by
		// "(t[0], ..., t[n])".
		panic(fmt.Sprintf("invalid type for a variable: %v", t))

	case *types.Union:
		// Variables of these types cannot be created, so it makes
		// no sense to ask for their zero value.
		panic(fmt.Sprintf("invalid type for a variable: %v", t))

	default:
		panic(t) // unreachable.
	}
}

// IsZeroExpr uses simple syntactic heuristics to report whether expr
// is a obvious zero value, such as 0, "", nil, or false.
// It cannot do better without type information.
func IsZeroExpr(expr ast.Expr) bool {
	switch e := expr.(type) {
	case *ast.BasicLit:
		return e.Value == "0" || e.Value == `""`
	case *ast.Ident:
		return e.Name == "nil" || e.Name == "false"
	default:
		return false
	}
}

// TypeExpr returns syntax for the specified type. References to named types
// are qualified by an appropriate (optional) qualifier function.
// It may panic for types such as Tuple or Union.
func TypeExpr(t types.Type, qual types.Qualifier) ast.Expr {
	switch t := t.(type) {
	case *types.Basic:
		switch t.Kind() {
		case types.UnsafePointer:
			return &ast.SelectorExpr{X: ast.NewIdent(qual(types.NewPackage("unsafe", "unsafe"))), Sel: ast.NewIdent("Pointer")}
		default:
			return ast.NewIdent(t.Name())
		}

	case *types.Pointer:
		return &ast.UnaryExpr{
			Op: token.MUL,
			X:  TypeExpr(t.Elem(), qual),
		}

	case *types.Array:
		return &ast.ArrayType{
			Len: &ast.BasicLit{
				Kind:  token.INT,
				Value: fmt.Sprintf("%d", t.Len()),
			},
			Elt: TypeExpr(t.Elem(), qual),
		}

	case *types.Slice:
		return &ast.ArrayType{
			Elt: TypeExpr(t.Elem(), qual),
		}

	case *types.Map:
		return &ast.MapType{
			Key:   TypeExpr(t.Key(), qual),
			Value: TypeExpr(t.Elem(), qual),
		}

	case *types.Chan:
		dir := ast.ChanDir(t.Dir())
		if t.Dir() == types.SendRecv {
			dir = ast.SEND | ast.RECV
		}
		return &ast.ChanType{
			Dir:   dir,
			Value: TypeExpr(t.Elem(), qual),
		}

	case *types.Signature:
		var params []*ast.Field
		for i := 0; i < t.Params().Len(); i++ {
			params = append(params, &ast.Field{
				Type: TypeExpr(t.Params().At(i).Type(), qual),
				Names: []*ast.Ident{
					{
						Name: t.Params().At(i).Name(),
					},
				},
			})
		}
		if t.Variadic() {
			last := params[len(params)-1]
			last.Type = &ast.Ellipsis{Elt: last.Type.(*ast.ArrayType).Elt}
		}
		var returns []*ast.Field
		for i := 0; i < t.Results().Len(); i++ {
			returns = append(returns, &ast.Field{
				Type: TypeExpr(t.Results().At(i).Type(), qual),
			})
		}
		return &ast.FuncType{
			Params: &ast.FieldList{
				List: params,
			},
			Results: &ast.FieldList{
				List: returns,
			},
		}

	case *types.TypeParam:
		pkgName := qual(t.Obj().Pkg())
		if pkgName == "" || t.Obj().Pkg() == nil {
			return ast.NewIdent(t.Obj().Name())
		}
		return &ast.SelectorExpr{
			X:   ast.NewIdent(pkgName),
			Sel: ast.NewIdent(t.Obj().Name()),
		}

	// types.TypeParam also implements interface NamedOrAlias. To differentiate,
	// case TypeParam need to be present before case NamedOrAlias.
	// TODO(hxjiang): remove this comment once TypeArgs() is added to interface
	// NamedOrAlias.
	case NamedOrAlias:
		var expr ast.Expr = ast.NewIdent(t.Obj().Name())
		if pkgName := qual(t.Obj().Pkg()); pkgName != "." && pkgName != "" {
			expr = &ast.SelectorExpr{
				X:   ast.NewIdent(pkgName),
				Sel: expr.(*ast.Ident),
			}
		}

		// TODO(hxjiang): call t.TypeArgs after adding method TypeArgs() to
		// typesinternal.NamedOrAlias.
		if hasTypeArgs, ok := t.(interface{ TypeArgs() *types.TypeList }); ok {
			if typeArgs := hasTypeArgs.TypeArgs(); typeArgs != nil && typeArgs.Len() > 0 {
				var indices []ast.Expr
				for i := range typeArgs.Len() {
					indices = append(indices, TypeExpr(typeArgs.At(i), qual))
				}
				expr = &ast.IndexListExpr{
					X:       expr,
					Indices: indices,
				}
			}
		}

		return expr

	case *types.Struct:
		return ast.NewIdent(t.String())

	case *types.Interface:
		return ast.NewIdent(t.String())

	case *types.Union:
		if t.Len() == 0 {
			panic("Union type should have at least one term")
		}
		// Same as go/ast, the return expression will put last term in the
		// Y field at topmost level of BinaryExpr.
		// For union of type "float32 | float64 | int64", the structure looks
		// similar to:
		// {
		// 	X: {
		// 		X: float32,
		// 		Op: |
		// 		Y: float64,
		// 	}
		// 	Op: |,
		// 	Y: int64,
		// }
		var union ast.Expr
		for i := range t.Len() {
			term := t.Term(i)
			termExpr := TypeExpr(term.Type(), qual)
			if term.Tilde() {
				termExpr = &ast.UnaryExpr{
					Op: token.TILDE,
					X:  termExpr,
				}
			}
			if i == 0 {
				union = termExpr
			} else {
				union = &ast.BinaryExpr{
					X:  union,
					Op: token.OR,
					Y:  termExpr,
				}
			}
		}
		return union

	case *types.Tuple:
		panic("invalid input type types.Tuple")

	default:
		panic("unreachable")
	}
}
