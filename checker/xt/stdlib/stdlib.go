// Copyright 2022 The Go Authors. All rights reserved.
// Use of this source code is governed by a BSD-style
// license that can be found in the LICENSE file.

//go:generate go run generate.go

// Package stdlib provides a table of all exported symbols in the
// standard library, along with the version at which they first
// appeared.
package stdlib

import (
	"fmt"
	"strings"
)

type Symbol struct {
	Name    string
	Kind    Kind
	Version Version // Go version that first included the symbol
}

// A Kind indicates the kind of a symbol:
// function, variable, constant, type, and so on.
type Kind int8

const (
	Invalid Kind = iota // Example name:
	Type                // "Buffer"
	Func                // "Println"
	Var                 // "EOF"
	Const               // "Pi"
	Field               // "Point.X"
	Method              // "(*Buffer).Grow"
)

func (kind Kind) String() string {
	return [...]string{
		Invalid: "invalid",
		Type:    "type",
		Func:    "func",
		Var:     "var",
		Const:   "const",
		Field:   "field",
		Method:  "method",
	}[kind]
}

// A Version represents a version of Go of the form "go1.%d".
type Version int8

// String returns a version string of the form "go1.23", without allocating.
func (v Version) String() string { return versions[v] }

var versions [30]string // (increase constant as needed)

func init() {
	for i := range versions {
		versions[i] = fmt.Sprintf("go1.%d", i)
	}
}

// HasPackage reports whether the specified package path is part of
// the standard library's public API.
func HasPackage(path string) bool {
	_, ok := PackageSymbols[path]
	return ok
}

// SplitField splits the field symbol name into type and field
// components. It must be called only on Field symbols.
//
// Example: "File.Package" -> ("File", "Package")
func (sym *Symbol) SplitField() (typename, name string) {
	if sym.Kind != Field {
		panic("not a field")
	}
	typename, name, _ = strings.Cut(sym.Name, ".")
	return
}

// SplitMethod splits the method symbol name into pointer, receiver,
// and method components. It must be called only on Method symbols.
//
// Example: "(*Buffer).Grow" -> (true, "Buffer", "Grow")
func (sym *Symbol) SplitMethod() (ptr bool, recv, name string) {
	if sym.Kind != Method {
		panic("not a method")
	}
	recv, name, _ = strings.Cut(sym.Name, ".")
	recv = recv[len("(") : len(recv)-len(")")]
	ptr = recv[0] == '*'
	if ptr {
		recv = recv[len("*"):]
	}
	return
}
