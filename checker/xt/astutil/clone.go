// Copyright 2023 The Go Authors. All rights reserved.
// Use of this source code is governed by a BSD-style
// license that can be found in the LICENSE file.

package astutil

import (
	"go/ast"
	"reflect"
)

// CloneNode returns a deep copy of a Node.
// It omits pointers to ast.{Scope,Object} variables.
func CloneNode[T ast.Node](n T) T {
	return cloneNode(n).(T)
}

func cloneNode(n ast.Node) ast.Node {
	var clone func(x reflect.Value) reflect.Value
	set := func(dst, src reflect.Value) {
		src = clone(src)
		if src.IsValid() {
			dst.Set(src)
		}
	}
	clone = func(x reflect.Value) reflect.Value {
		switch x.Kind() {
		case reflect.Ptr:
			if x.IsNil() {
				return x
			}
			// Skip fields of types potentially involved in cycles.
			switch x.Interface().(type) {
			case *ast.Object, *ast.Scope:
				return reflect.Zero(x.Type())
			}
			y := reflect.New(x.Type().Elem())
			set(y.Elem(), x.Elem())
			return y

		case reflect.Struct:
			y := reflect.New(x.Type()).Elem()
			for i := 0; i < x.Type().NumField(); i++ {
				set(y.Field(i), x.Field(i))
			}
			return y

		case reflect.Slice:
			if x.IsNil() {
				return x
			}
			y := reflect.MakeSlice(x.Type(), x.Len(), x.Cap())
			for i := 0; i < x.Len(); i++ {
				set(y.Index(i), x.Index(i))
			}
			return y

		case reflect.Interface:
			y := reflect.New(x.Type()).Elem()
			set(y, x.Elem())
			return y

		case reflect.Array, reflect.Chan, reflect.Func, reflect.Map, reflect.UnsafePointer:
			panic(x) // unreachable in AST

		default:
			return x // bool, string, number
		}
	}
	return clone(reflect.ValueOf(n)).Interface().(ast.Node)
}
