// Copyright 2023 The Go Authors. All rights reserved.
// Use of this source code is governed by a BSD-style
// license that can be found in the LICENSE file.

package inline

import (
	"fmt"
	"go/ast"
	"go/token"
	"go/types"
)

// escape implements a simple "address-taken" escape analysis. It
// calls f for each local variable that appears on the left side of an
// assignment (escapes=false) or has its address taken (escapes=true).
// The initialization of a variable by its declaration does not count
// as an assignment.
func escape(info *types.Info, root ast.Node, f func(v *types.Var, escapes bool)) {

	// lvalue is called for each address-taken expression or LHS of assignment.
	// Supported forms are: x, (x), x[i], x.f, *x, T{}.
	var lvalue func(e ast.Expr, escapes bool)
	lvalue = func(e ast.Expr, escapes bool) {
		switch e := e.(type) {
		case *ast.Ident:
			if v, ok := info.Uses[e].(*types.Var); ok {
				if !isPkgLevel(v) {
					f(v, escapes)
				}
			}
		case *ast.ParenExpr:
			lvalue(e.X, escapes)
		case *ast.IndexExpr:
			// TODO(adonovan): support generics without assuming e.X has a core type.
			// Consider:
			//
			// func Index[T interface{ [3]int | []int }](t T, i int) *int {
			//     return &t[i]
			// }
			//
			// We must traverse the normal terms and check
			// whether any of them is an array.
			//
			// We assume TypeOf returns non-nil.
			if _, ok := info.TypeOf(e.X).Underlying().(*types.Array); ok {
				lvalue(e.X, escapes) // &a[i] on array
			}
		case *ast.SelectorExpr:
			// We assume TypeOf returns non-nil.
			if _, ok := info.TypeOf(e.X).Underlying().(*types.Struct); ok {
				lvalue(e.X, escapes) // &s.f on struct
			}
		case *ast.StarExpr:
			// *ptr indirects an existing pointer
		case *ast.CompositeLit:
			// &T{...} creates a new variable
		default:
			panic(fmt.Sprintf("&x on %T", e)) // unreachable in well-typed code
		}
	}

	// Search function body for operations &x, x.f(), x++, and x = y
	// where x is a parameter. Each of these treats x as an address.
	ast.Inspect(root, func(n ast.Node) bool {
		switch n := n.(type) {
		case *ast.UnaryExpr:
			if n.Op == token.AND {
				lvalue(n.X, true) // &x
			}

		case *ast.CallExpr:
			// implicit &x in method call x.f(),
			// where x has type T and method is (*T).f
			if sel, ok := n.Fun.(*ast.SelectorExpr); ok {
				if seln, ok := info.Selections[sel]; ok &&
					seln.Kind() == types.MethodVal &&
					isPointer(seln.Obj().Type().Underlying().(*types.Signature).Recv().Type()) {
					tArg, indirect := effectiveReceiver(seln)
					if !indirect && !isPointer(tArg) {
						lvalue(sel.X, true) // &x.f
					}
				}
			}

		case *ast.AssignStmt:
			for _, lhs := range n.Lhs {
				if id, ok := lhs.(*ast.Ident); ok &&
					info.Defs[id] != nil &&
					n.Tok == token.DEFINE {
					// declaration: doesn't count
				} else {
					lvalue(lhs, false)
				}
			}

		case *ast.IncDecStmt:
			lvalue(n.X, false)
		}
		return true
	})
}
