// Copyright 2023 The Go Authors. All rights reserved.
// Use of this source code is governed by a BSD-style
// license that can be found in the LICENSE file.

package inline

// This file defines various common helpers.

import (
	"go/ast"
	"go/constant"
	"go/token"
	"go/types"
	"reflect"
	"strings"

	"ipcheck/xt/typeparams"
)

func is[T any](x any) bool {
	_, ok := x.(T)
	return ok
}

// TODO(adonovan): use go1.21's slices.Index.
func index[T comparable](slice []T, x T) int {
	for i, elem := range slice {
		if elem == x {
			return i
		}
	}
	return -1
}

func btoi(b bool) int {
	if b {
		return 1
	} else {
		return 0
	}
}

func offsetOf(fset *token.FileSet, pos token.Pos) int {
	return fset.PositionFor(pos, false).Offset
}

// objectKind returns an object's kind (e.g. var, func, const, typename).
func objectKind(obj types.Object) string {
	return strings.TrimPrefix(strings.ToLower(reflect.TypeOf(obj).String()), "*types.")
}

// within reports whether pos is within the half-open interval [n.Pos, n.End).
func within(pos token.Pos, n ast.Node) bool {
	return n.Pos() <= pos && pos < n.End()
}

// trivialConversion reports whether it is safe to omit the implicit
// value-to-variable conversion that occurs in argument passing or
// result return. The only case currently allowed is converting from
// untyped constant to its default type (e.g. 0 to int).
//
// The reason for this check is that converting from A to B to C may
// yield a different result than converting A directly to C: consider
// 0 to int32 to any.
//
// trivialConversion under-approximates trivial conversions, as unfortunately
// go/types does not record the type of an expression *before* it is implicitly
// converted, and therefore it cannot distinguish typed constant
// expressions from untyped constant expressions. For example, in the
// expression `c + 2`, where c is a uint32 constant, trivialConversion does not
// detect that the default type of this expression is actually uint32, not untyped
// int.
//
// We could, of course, do better here by reverse engineering some of go/types'
// constant handling. That may or may not be worthwhile.
//
// Example: in func f() int32 { return 0 },
// the type recorded for 0 is int32, not untyped int;
// although it is Identical to the result var,
// the conversion is non-trivial.
func trivialConversion(fromValue constant.Value, from, to types.Type) bool {
	if fromValue != nil {
		var defaultType types.Type
		switch fromValue.Kind() {
		case constant.Bool:
			defaultType = types.Typ[types.Bool]
		case constant.String:
			defaultType = types.Typ[types.String]
		case constant.Int:
			defaultType = types.Typ[types.Int]
		case constant.Float:
			defaultType = types.Typ[types.Float64]
		case constant.Complex:
			defaultType = types.Typ[types.Complex128]
		default:
			return false
		}
		return types.Identical(defaultType, to)
	}
	return types.Identical(from, to)
}

func checkInfoFields(info *types.Info) {
	assert(info.Defs != nil, "types.Info.Defs is nil")
	assert(info.Implicits != nil, "types.Info.Implicits is nil")
	assert(info.Scopes != nil, "types.Info.Scopes is nil")
	assert(info.Selections != nil, "types.Info.Selections is nil")
	assert(info.Types != nil, "types.Info.Types is nil")
	assert(info.Uses != nil, "types.Info.Uses is nil")
}

func funcHasTypeParams(decl *ast.FuncDecl) bool {
	// generic function?
	if decl.Type.TypeParams != nil {
		return true
	}
	// method on generic type?
	if decl.Recv != nil {
		t := decl.Recv.List[0].Type
		if u, ok := t.(*ast.StarExpr); ok {
			t = u.X
		}
		return is[*ast.IndexExpr](t) || is[*ast.IndexListExpr](t)
	}
	return false
}

// intersects reports whether the maps' key sets intersect.
func intersects[K comparable, T1, T2 any](x map[K]T1, y map[K]T2) bool {
	if len(x) > len(y) {
		return intersects(y, x)
	}
	for k := range x {
		if _, ok := y[k]; ok {
			return true
		}
	}
	return false
}

// convert returns syntax for the conversion T(x).
func convert(T, x ast.Expr) *ast.CallExpr {
	// The formatter generally adds parens as needed,
	// but before go1.22 it had a bug (#63362) for
	// channel types that requires this workaround.
	if ch, ok := T.(*ast.ChanType); ok && ch.Dir == ast.RECV {
		T = &ast.ParenExpr{X: T}
	}
	return &ast.CallExpr{
		Fun:  T,
		Args: []ast.Expr{x},
	}
}

// isPointer reports whether t's core type is a pointer.
func isPointer(t types.Type) bool {
	return is[*types.Pointer](typeparams.CoreType(t))
}

// indirectSelection is like seln.Indirect() without bug #8353.
func indirectSelection(seln *types.Selection) bool {
	// Work around bug #8353 in Selection.Indirect when Kind=MethodVal.
	if seln.Kind() == types.MethodVal {
		tArg, indirect := effectiveReceiver(seln)
		if indirect {
			return true
		}

		tParam := seln.Obj().Type().Underlying().(*types.Signature).Recv().Type()
		return isPointer(tArg) && !isPointer(tParam) // implicit *
	}

	return seln.Indirect()
}

// effectiveReceiver returns the effective type of the method
// receiver after all implicit field selections (but not implicit * or
// & operations) have been applied.
//
// The boolean indicates whether any implicit field selection was indirect.
func effectiveReceiver(seln *types.Selection) (types.Type, bool) {
	assert(seln.Kind() == types.MethodVal, "not MethodVal")
	t := seln.Recv()
	indices := seln.Index()
	indirect := false
	for _, index := range indices[:len(indices)-1] {
		if isPointer(t) {
			indirect = true
			t = typeparams.MustDeref(t)
		}
		t = typeparams.CoreType(t).(*types.Struct).Field(index).Type()
	}
	return t, indirect
}
