// Copyright 2023 The Go Authors. All rights reserved.
// Use of this source code is governed by a BSD-style
// license that can be found in the LICENSE file.

package inline

// This file defines the analysis of the callee function.

import (
	"bytes"
	"encoding/gob"
	"fmt"
	"go/ast"
	"go/parser"
	"go/token"
	"go/types"
	"strings"

	"golang.org/x/tools/go/types/typeutil"
	"ipcheck/xt/typeparams"
	"ipcheck/xt/typesinternal"
)

// A Callee holds information about an inlinable function. Gob-serializable.
type Callee struct {
	impl gobCallee
}

func (callee *Callee) String() string { return callee.impl.Name }

type gobCallee struct {
	Content []byte // file content, compacted to a single func decl

	// results of type analysis (does not reach go/types data structures)
	PkgPath          string                 // package path of declaring package
	Name             string                 // user-friendly name for error messages
	Unexported       []string               // names of free objects that are unexported
	FreeRefs         []freeRef              // locations of references to free objects
	FreeObjs         []object               // descriptions of free objects
	ValidForCallStmt bool                   // function body is "return expr" where expr is f() or <-ch
	NumResults       int                    // number of results (according to type, not ast.FieldList)
	Params           []*paramInfo           // information about parameters (incl. receiver)
	Results          []*paramInfo           // information about result variables
	Effects          []int                  // order in which parameters are evaluated (see calleefx)
	HasDefer         bool                   // uses defer
	HasBareReturn    bool                   // uses bare return in non-void function
	Returns          [][]returnOperandFlags // metadata about result expressions for each return
	Labels           []string               // names of all control labels
	Falcon           falconResult           // falcon constraint system
}

// returnOperandFlags records metadata about a single result expression in a return
// statement.
type returnOperandFlags int

const (
	nonTrivialResult returnOperandFlags = 1 << iota // return operand has non-trivial conversion to result type
	untypedNilResult                                // return operand is nil literal
)

// A freeRef records a reference to a free object. Gob-serializable.
// (This means free relative to the FuncDecl as a whole, i.e. excluding parameters.)
type freeRef struct {
	Offset int // byte offset of the reference relative to the FuncDecl
	Object int // index into Callee.freeObjs
}

// An object abstracts a free types.Object referenced by the callee. Gob-serializable.
type object struct {
	Name    string // Object.Name()
	Kind    string // one of {var,func,const,type,pkgname,nil,builtin}
	PkgPath string // path of object's package (or imported package if kind="pkgname")
	PkgName string // name of object's package (or imported package if kind="pkgname")
	// TODO(rfindley): should we also track LocalPkgName here? Do we want to
	// preserve the local package name?
	ValidPos bool      // Object.Pos().IsValid()
	Shadow   shadowMap // shadowing info for the object's refs
}

// AnalyzeCallee analyzes a function that is a candidate for inlining
// and returns a Callee that describes it. The Callee object, which is
// serializable, can be passed to one or more subsequent calls to
// Inline, each with a different Caller.
//
// This design allows separate analysis of callers and callees in the
// golang.org/x/tools/go/analysis framework: the inlining information
// about a callee can be recorded as a "fact".
//
// The content should be the actual input to the compiler, not the
// apparent source file according to any //line directives that
// may be present within it.
func AnalyzeCallee(logf func(string, ...any), fset *token.FileSet, pkg *types.Package, info *types.Info, decl *ast.FuncDecl, content []byte) (*Callee, error) {
	checkInfoFields(info)

	// The client is expected to have determined that the callee
	// is a function with a declaration (not a built-in or var).
	fn := info.Defs[decl.Name].(*types.Func)
	sig := fn.Type().(*types.Signature)

	logf("analyzeCallee %v @ %v", fn, fset.PositionFor(decl.Pos(), false))

	// Create user-friendly name ("pkg.Func" or "(pkg.T).Method")
	var name string
	if sig.Recv() == nil {
		name = fmt.Sprintf("%s.%s", fn.Pkg().Name(), fn.Name())
	} else {
		name = fmt.Sprintf("(%s).%s", types.TypeString(sig.Recv().Type(), (*types.Package).Name), fn.Name())
	}

	if decl.Body == nil {
		return nil, fmt.Errorf("cannot inline function %s as it has no body", name)
	}

	// TODO(adonovan): support inlining of instantiated generic
	// functions by replacing each occurrence of a type parameter
	// T by its instantiating type argument (e.g. int). We'll need
	// to wrap the instantiating type in parens when it's not an
	// ident or qualified ident to prevent "if x == struct{}"
	// parsing ambiguity, or "T(x)" where T = "*int" or "func()"
	// from misparsing.
	if funcHasTypeParams(decl) {
		return nil, fmt.Errorf("cannot inline generic function %s: type parameters are not yet supported", name)
	}

	// Record the location of all free references in the FuncDecl.
	// (Parameters are not free by this definition.)
	var (
		fieldObjs    = fieldObjs(sig)
		freeObjIndex = make(map[types.Object]int)
		freeObjs     []object
		freeRefs     []freeRef // free refs that may need renaming
		unexported   []string  // free refs to unexported objects, for later error checks
	)
	var f func(n ast.Node) bool
	visit := func(n ast.Node) { ast.Inspect(n, f) }
	var stack []ast.Node
	stack = append(stack, decl.Type) // for scope of function itself
	f = func(n ast.Node) bool {
		if n != nil {
			stack = append(stack, n) // push
		} else {
			stack = stack[:len(stack)-1] // pop
		}
		switch n := n.(type) {
		case *ast.SelectorExpr:
			// Check selections of free fields/methods.
			if sel, ok := info.Selections[n]; ok &&
				!within(sel.Obj().Pos(), decl) &&
				!n.Sel.IsExported() {
				sym := fmt.Sprintf("(%s).%s", info.TypeOf(n.X), n.Sel.Name)
				unexported = append(unexported, sym)
			}

			// Don't recur into SelectorExpr.Sel.
			visit(n.X)
			return false

		case *ast.CompositeLit:
			// Check for struct literals that refer to unexported fields,
			// whether keyed or unkeyed. (Logic assumes well-typedness.)
			litType := typeparams.Deref(info.TypeOf(n))
			if s, ok := typeparams.CoreType(litType).(*types.Struct); ok {
				if n.Type != nil {
					visit(n.Type)
				}
				for i, elt := range n.Elts {
					var field *types.Var
					var value ast.Expr
					if kv, ok := elt.(*ast.KeyValueExpr); ok {
						field = info.Uses[kv.Key.(*ast.Ident)].(*types.Var)
						value = kv.Value
					} else {
						field = s.Field(i)
						value = elt
					}
					if !within(field.Pos(), decl) && !field.Exported() {
						sym := fmt.Sprintf("(%s).%s", litType, field.Name())
						unexported = append(unexported, sym)
					}

					// Don't recur into KeyValueExpr.Key.
					visit(value)
				}
				return false
			}

		case *ast.Ident:
			if obj, ok := info.Uses[n]; ok {
				// Methods and fields are handled by SelectorExpr and CompositeLit.
				if isField(obj) || isMethod(obj) {
					panic(obj)
				}
				// Inv: id is a lexical reference.

				// A reference to an unexported package-level declaration
				// cannot be inlined into another package.
				if !n.IsExported() &&
					obj.Pkg() != nil && obj.Parent() == obj.Pkg().Scope() {
					unexported = append(unexported, n.Name)
				}

				// Record free reference (incl. self-reference).
				if obj == fn || !within(obj.Pos(), decl) {
					objidx, ok := freeObjIndex[obj]
					if !ok {
						objidx = len(freeObjIndex)
						var pkgPath, pkgName string
						if pn, ok := obj.(*types.PkgName); ok {
							pkgPath = pn.Imported().Path()
							pkgName = pn.Imported().Name()
						} else if obj.Pkg() != nil {
							pkgPath = obj.Pkg().Path()
							pkgName = obj.Pkg().Name()
						}
						freeObjs = append(freeObjs, object{
							Name:     obj.Name(),
							Kind:     objectKind(obj),
							PkgName:  pkgName,
							PkgPath:  pkgPath,
							ValidPos: obj.Pos().IsValid(),
						})
						freeObjIndex[obj] = objidx
					}

					freeObjs[objidx].Shadow = freeObjs[objidx].Shadow.add(info, fieldObjs, obj.Name(), stack)

					freeRefs = append(freeRefs, freeRef{
						Offset: int(n.Pos() - decl.Pos()),
						Object: objidx,
					})
				}
			}
		}
		return true
	}
	visit(decl)

	// Analyze callee body for "return expr" form,
	// where expr is f() or <-ch. These forms are
	// safe to inline as a standalone statement.
	validForCallStmt := false
	if len(decl.Body.List) != 1 {
		// not just a return statement
	} else if ret, ok := decl.Body.List[0].(*ast.ReturnStmt); ok && len(ret.Results) == 1 {
		validForCallStmt = func() bool {
			switch expr := ast.Unparen(ret.Results[0]).(type) {
			case *ast.CallExpr: // f(x)
				callee := typeutil.Callee(info, expr)
				if callee == nil {
					return false // conversion T(x)
				}

				// The only non-void built-in functions that may be
				// called as a statement are copy and recover
				// (though arguably a call to recover should never
				// be inlined as that changes its behavior).
				if builtin, ok := callee.(*types.Builtin); ok {
					return builtin.Name() == "copy" ||
						builtin.Name() == "recover"
				}

				return true // ordinary call f()

			case *ast.UnaryExpr: // <-x
				return expr.Op == token.ARROW // channel receive <-ch
			}

			// No other expressions are valid statements.
			return false
		}()
	}

	// Record information about control flow in the callee
	// (but not any nested functions).
	var (
		hasDefer      = false
		hasBareReturn = false
		returnInfo    [][]returnOperandFlags
		labels        []string
	)
	ast.Inspect(decl.Body, func(n ast.Node) bool {
		switch n := n.(type) {
		case *ast.FuncLit:
			return false // prune traversal
		case *ast.DeferStmt:
			hasDefer = true
		case *ast.LabeledStmt:
			labels = append(labels, n.Label.Name)
		case *ast.ReturnStmt:

			// Are implicit assignment conversions
			// to result variables all trivial?
			var resultInfo []returnOperandFlags
			if len(n.Results) > 0 {
				argInfo := func(i int) (ast.Expr, types.Type) {
					expr := n.Results[i]
					return expr, info.TypeOf(expr)
				}
				if len(n.Results) == 1 && sig.Results().Len() > 1 {
					// Spread return: return f() where f.Results > 1.
					tuple := info.TypeOf(n.Results[0]).(*types.Tuple)
					argInfo = func(i int) (ast.Expr, types.Type) {
						return nil, tuple.At(i).Type()
					}
				}
				for i := 0; i < sig.Results().Len(); i++ {
					expr, typ := argInfo(i)
					var flags returnOperandFlags
					if typ == types.Typ[types.UntypedNil] { // untyped nil is preserved by go/types
						flags |= untypedNilResult
					}
					if !trivialConversion(info.Types[expr].Value, typ, sig.Results().At(i).Type()) {
						flags |= nonTrivialResult
					}
					resultInfo = append(resultInfo, flags)
				}
			} else if sig.Results().Len() > 0 {
				hasBareReturn = true
			}
			returnInfo = append(returnInfo, resultInfo)
		}
		return true
	})

	// Reject attempts to inline cgo-generated functions.
	for _, obj := range freeObjs {
		// There are others (iconst fconst sconst fpvar macro)
		// but this is probably sufficient.
		if strings.HasPrefix(obj.Name, "_Cfunc_") ||
			strings.HasPrefix(obj.Name, "_Ctype_") ||
			strings.HasPrefix(obj.Name, "_Cvar_") {
			return nil, fmt.Errorf("cannot inline cgo-generated functions")
		}
	}

	// Compact content to just the FuncDecl.
	//
	// As a space optimization, we don't retain the complete
	// callee file content; all we need is "package _; func f() { ... }".
	// This reduces the size of analysis facts.
	//
	// Offsets in the callee information are "relocatable"
	// since they are all relative to the FuncDecl.

	content = append([]byte("package _\n"),
		content[offsetOf(fset, decl.Pos()):offsetOf(fset, decl.End())]...)
	// Sanity check: re-parse the compacted content.
	if _, _, err := parseCompact(content); err != nil {
		return nil, err
	}

	params, results, effects, falcon := analyzeParams(logf, fset, info, decl)
	return &Callee{gobCallee{
		Content:          content,
		PkgPath:          pkg.Path(),
		Name:             name,
		Unexported:       unexported,
		FreeObjs:         freeObjs,
		FreeRefs:         freeRefs,
		ValidForCallStmt: validForCallStmt,
		NumResults:       sig.Results().Len(),
		Params:           params,
		Results:          results,
		Effects:          effects,
		HasDefer:         hasDefer,
		HasBareReturn:    hasBareReturn,
		Returns:          returnInfo,
		Labels:           labels,
		Falcon:           falcon,
	}}, nil
}

// parseCompact parses a Go source file of the form "package _\n func f() { ... }"
// and returns the sole function declaration.
func parseCompact(content []byte) (*token.FileSet, *ast.FuncDecl, error) {
	fset := token.NewFileSet()
	const mode = parser.ParseComments | parser.SkipObjectResolution | parser.AllErrors
	f, err := parser.ParseFile(fset, "callee.go", content, mode)
	if err != nil {
		return nil, nil, fmt.Errorf("internal error: cannot compact file: %v", err)
	}
	return fset, f.Decls[0].(*ast.FuncDecl), nil
}

// A paramInfo records information about a callee receiver, parameter, or result variable.
type paramInfo struct {
	Name        string    // parameter name (may be blank, or even "")
	Index       int       // index within signature
	IsResult    bool      // false for receiver or parameter, true for result variable
	IsInterface bool      // parameter has a (non-type parameter) interface type
	Assigned    bool      // parameter appears on left side of an assignment statement
	Escapes     bool      // parameter has its address taken
	Refs        []refInfo // information about references to parameter within body
	Shadow      shadowMap // shadowing info for the above refs; see [shadowMap]
	FalconType  string    // name of this parameter's type (if basic) in the falcon system
}

type refInfo struct {
	Offset           int  // FuncDecl-relative byte offset of parameter ref within body
	Assignable       bool // ref appears in context of assignment to known type
	IfaceAssignment  bool // ref is being assigned to an interface
	AffectsInference bool // ref type may affect type inference
	// IsSelectionOperand indicates whether the parameter reference is the
	// operand of a selection (param.f). If so, and param's argument is itself
	// a receiver parameter (a common case), we don't need to desugar (&v or *ptr)
	// the selection: if param.Method is a valid selection, then so is param.fieldOrMethod.
	IsSelectionOperand bool
}

// analyzeParams computes information about parameters of function fn,
// including a simple "address taken" escape analysis.
//
// It returns two new arrays, one of the receiver and parameters, and
// the other of the result variables of function fn.
//
// The input must be well-typed.
func analyzeParams(logf func(string, ...any), fset *token.FileSet, info *types.Info, decl *ast.FuncDecl) (params, results []*paramInfo, effects []int, _ falconResult) {
	fnobj, ok := info.Defs[decl.Name]
	if !ok {
		panic(fmt.Sprintf("%s: no func object for %q",
			fset.PositionFor(decl.Name.Pos(), false), decl.Name)) // ill-typed?
	}
	sig := fnobj.Type().(*types.Signature)

	paramInfos := make(map[*types.Var]*paramInfo)
	{
		newParamInfo := func(param *types.Var, isResult bool) *paramInfo {
			info := &paramInfo{
				Name:        param.Name(),
				IsResult:    isResult,
				Index:       len(paramInfos),
				IsInterface: isNonTypeParamInterface(param.Type()),
			}
			paramInfos[param] = info
			return info
		}
		if sig.Recv() != nil {
			params = append(params, newParamInfo(sig.Recv(), false))
		}
		for i := 0; i < sig.Params().Len(); i++ {
			params = append(params, newParamInfo(sig.Params().At(i), false))
		}
		for i := 0; i < sig.Results().Len(); i++ {
			results = append(results, newParamInfo(sig.Results().At(i), true))
		}
	}

	// Search function body for operations &x, x.f(), and x = y
	// where x is a parameter, and record it.
	escape(info, decl, func(v *types.Var, escapes bool) {
		if info := paramInfos[v]; info != nil {
			if escapes {
				info.Escapes = true
			} else {
				info.Assigned = true
			}
		}
	})

	// Record locations of all references to parameters.
	// And record the set of intervening definitions for each parameter.
	//
	// TODO(adonovan): combine this traversal with the one that computes
	// FreeRefs. The tricky part is that calleefx needs this one first.
	fieldObjs := fieldObjs(sig)
	var stack []ast.Node
	stack = append(stack, decl.Type) // for scope of function itself
	ast.Inspect(decl.Body, func(n ast.Node) bool {
		if n != nil {
			stack = append(stack, n) // push
		} else {
			stack = stack[:len(stack)-1] // pop
		}

		if id, ok := n.(*ast.Ident); ok {
			if v, ok := info.Uses[id].(*types.Var); ok {
				if pinfo, ok := paramInfos[v]; ok {
					// Record ref information, and any intervening (shadowing) names.
					//
					// If the parameter v has an interface type, and the reference id
					// appears in a context where assignability rules apply, there may be
					// an implicit interface-to-interface widening. In that case it is
					// not necessary to insert an explicit conversion from the argument
					// to the parameter's type.
					//
					// Contrapositively, if param is not an interface type, then the
					// assignment may lose type information, for example in the case that
					// the substituted expression is an untyped constant or unnamed type.
					assignable, ifaceAssign, affectsInference := analyzeAssignment(info, stack)
					ref := refInfo{
						Offset:             int(n.Pos() - decl.Pos()),
						Assignable:         assignable,
						IfaceAssignment:    ifaceAssign,
						AffectsInference:   affectsInference,
						IsSelectionOperand: isSelectionOperand(stack),
					}
					pinfo.Refs = append(pinfo.Refs, ref)
					pinfo.Shadow = pinfo.Shadow.add(info, fieldObjs, pinfo.Name, stack)
				}
			}
		}
		return true
	})

	// Compute subset and order of parameters that are strictly evaluated.
	// (Depends on Refs computed above.)
	effects = calleefx(info, decl.Body, paramInfos)
	logf("effects list = %v", effects)

	falcon := falcon(logf, fset, paramInfos, info, decl)

	return params, results, effects, falcon
}

// -- callee helpers --

// analyzeAssignment looks at the the given stack, and analyzes certain
// attributes of the innermost expression.
//
// In all cases we 'fail closed' when we cannot detect (or for simplicity
// choose not to detect) the condition in question, meaning we err on the side
// of the more restrictive rule. This is noted for each result below.
//
//   - assignable reports whether the expression is used in a position where
//     assignability rules apply, such as in an actual assignment, as call
//     argument, or in a send to a channel. Defaults to 'false'. If assignable
//     is false, the other two results are irrelevant.
//   - ifaceAssign reports whether that assignment is to an interface type.
//     This is important as we want to preserve the concrete type in that
//     assignment. Defaults to 'true'. Notably, if the assigned type is a type
//     parameter, we assume that it could have interface type.
//   - affectsInference is (somewhat vaguely) defined as whether or not the
//     type of the operand may affect the type of the surrounding syntax,
//     through type inference. It is infeasible to completely reverse engineer
//     type inference, so we over approximate: if the expression is an argument
//     to a call to a generic function (but not method!) that uses type
//     parameters, assume that unification of that argument may affect the
//     inferred types.
func analyzeAssignment(info *types.Info, stack []ast.Node) (assignable, ifaceAssign, affectsInference bool) {
	remaining, parent, expr := exprContext(stack)
	if parent == nil {
		return false, false, false
	}

	// TODO(golang/go#70638): simplify when types.Info records implicit conversions.

	// Types do not need to match for assignment to a variable.
	if assign, ok := parent.(*ast.AssignStmt); ok {
		for i, v := range assign.Rhs {
			if v == expr {
				if i >= len(assign.Lhs) {
					return false, false, false // ill typed
				}
				// Check to see if the assignment is to an interface type.
				if i < len(assign.Lhs) {
					// TODO: We could handle spread calls here, but in current usage expr
					// is an ident.
					if id, _ := assign.Lhs[i].(*ast.Ident); id != nil && info.Defs[id] != nil {
						// Types must match for a defining identifier in a short variable
						// declaration.
						return false, false, false
					}
					// In all other cases, types should be known.
					typ := info.TypeOf(assign.Lhs[i])
					return true, typ == nil || types.IsInterface(typ), false
				}
				// Default:
				return assign.Tok == token.ASSIGN, true, false
			}
		}
	}

	// Types do not need to match for an initializer with known type.
	if spec, ok := parent.(*ast.ValueSpec); ok && spec.Type != nil {
		for _, v := range spec.Values {
			if v == expr {
				typ := info.TypeOf(spec.Type)
				return true, typ == nil || types.IsInterface(typ), false
			}
		}
	}

	// Types do not need to match for index expresions.
	if ix, ok := parent.(*ast.IndexExpr); ok {
		if ix.Index == expr {
			typ := info.TypeOf(ix.X)
			if typ == nil {
				return true, true, false
			}
			m, _ := typeparams.CoreType(typ).(*types.Map)
			return true, m == nil || types.IsInterface(m.Key()), false
		}
	}

	// Types do not need to match for composite literal keys, values, or
	// fields.
	if kv, ok := parent.(*ast.KeyValueExpr); ok {
		var under types.Type
		if len(remaining) > 0 {
			if complit, ok := remaining[len(remaining)-1].(*ast.CompositeLit); ok {
				if typ := info.TypeOf(complit); typ != nil {
					// Unpointer to allow for pointers to slices or arrays, which are
					// permitted as the types of nested composite literals without a type
					// name.
					under = typesinternal.Unpointer(typeparams.CoreType(typ))
				}
			}
		}
		if kv.Key == expr { // M{expr: ...}: assign to map key
			m, _ := under.(*types.Map)
			return true, m == nil || types.IsInterface(m.Key()), false
		}
		if kv.Value == expr {
			switch under := under.(type) {
			case interface{ Elem() types.Type }: // T{...: expr}: assign to map/array/slice element
				return true, types.IsInterface(under.Elem()), false
			case *types.Struct: // Struct{k: expr}
				if id, _ := kv.Key.(*ast.Ident); id != nil {
					for fi := 0; fi < under.NumFields(); fi++ {
						field := under.Field(fi)
						if info.Uses[id] == field {
							return true, types.IsInterface(field.Type()), false
						}
					}
				}
			default:
				return true, true, false
			}
		}
	}
	if lit, ok := parent.(*ast.CompositeLit); ok {
		for i, v := range lit.Elts {
			if v == expr {
				typ := info.TypeOf(lit)
				if typ == nil {
					return true, true, false
				}
				// As in the KeyValueExpr case above, unpointer to handle pointers to
				// array/slice literals.
				under := typesinternal.Unpointer(typeparams.CoreType(typ))
				switch under := under.(type) {
				case interface{ Elem() types.Type }: // T{expr}: assign to map/array/slice element
					return true, types.IsInterface(under.Elem()), false
				case *types.Struct: // Struct{expr}: assign to unkeyed struct field
					if i < under.NumFields() {
						return true, types.IsInterface(under.Field(i).Type()), false
					}
				}
				return true, true, false
			}
		}
	}

	// Types do not need to match for values sent to a channel.
	if send, ok := parent.(*ast.SendStmt); ok {
		if send.Value == expr {
			typ := info.TypeOf(send.Chan)
			if typ == nil {
				return true, true, false
			}
			ch, _ := typeparams.CoreType(typ).(*types.Chan)
			return true, ch == nil || types.IsInterface(ch.Elem()), false
		}
	}

	// Types do not need to match for an argument to a call, unless the
	// corresponding parameter has type parameters, as in that case the
	// argument type may affect inference.
	if call, ok := parent.(*ast.CallExpr); ok {
		if _, ok := isConversion(info, call); ok {
			return false, false, false // redundant conversions are handled at the call site
		}
		// Ordinary call. Could be a call of a func, builtin, or function value.
		for i, arg := range call.Args {
			if arg == expr {
				typ := info.TypeOf(call.Fun)
				if typ == nil {
					return true, true, false
				}
				sig, _ := typeparams.CoreType(typ).(*types.Signature)
				if sig != nil {
					// Find the relevant parameter type, accounting for variadics.
					paramType := paramTypeAtIndex(sig, call, i)
					ifaceAssign := paramType == nil || types.IsInterface(paramType)
					affectsInference := false
					if fn := typeutil.StaticCallee(info, call); fn != nil {
						if sig2 := fn.Type().(*types.Signature); sig2.Recv() == nil {
							originParamType := paramTypeAtIndex(sig2, call, i)
							affectsInference = originParamType == nil || new(typeparams.Free).Has(originParamType)
						}
					}
					return true, ifaceAssign, affectsInference
				}
			}
		}
	}

	return false, false, false
}

// paramTypeAtIndex returns the effective parameter type at the given argument
// index in call, if valid.
func paramTypeAtIndex(sig *types.Signature, call *ast.CallExpr, index int) types.Type {
	if plen := sig.Params().Len(); sig.Variadic() && index >= plen-1 && !call.Ellipsis.IsValid() {
		if s, ok := sig.Params().At(plen - 1).Type().(*types.Slice); ok {
			return s.Elem()
		}
	} else if index < plen {
		return sig.Params().At(index).Type()
	}
	return nil // ill typed
}

// exprContext returns the innermost parent->child expression nodes for the
// given outer-to-inner stack, after stripping parentheses, along with the
// remaining stack up to the parent node.
//
// If no such context exists, returns (nil, nil).
func exprContext(stack []ast.Node) (remaining []ast.Node, parent ast.Node, expr ast.Expr) {
	expr, _ = stack[len(stack)-1].(ast.Expr)
	if expr == nil {
		return nil, nil, nil
	}
	i := len(stack) - 2
	for ; i >= 0; i-- {
		if pexpr, ok := stack[i].(*ast.ParenExpr); ok {
			expr = pexpr
		} else {
			parent = stack[i]
			break
		}
	}
	if parent == nil {
		return nil, nil, nil
	}
	// inv: i is the index of parent in the stack.
	return stack[:i], parent, expr
}

// isSelectionOperand reports whether the innermost node of stack is operand
// (x) of a selection x.f.
func isSelectionOperand(stack []ast.Node) bool {
	_, parent, expr := exprContext(stack)
	if parent == nil {
		return false
	}
	sel, ok := parent.(*ast.SelectorExpr)
	return ok && sel.X == expr
}

// A shadowMap records information about shadowing at any of the parameter's
// references within the callee decl.
//
// For each name shadowed at a reference to the parameter within the callee
// body, shadow map records the 1-based index of the callee decl parameter
// causing the shadowing, or -1, if the shadowing is not due to a callee decl.
// A value of zero (or missing) indicates no shadowing. By convention,
// self-shadowing is excluded from the map.
//
// For example, in the following callee
//
//	func f(a, b int) int {
//		c := 2 + b
//		return a + c
//	}
//
// the shadow map of a is {b: 2, c: -1}, because b is shadowed by the 2nd
// parameter. The shadow map of b is {a: 1}, because c is not shadowed at the
// use of b.
type shadowMap map[string]int

// add returns the [shadowMap] augmented by the set of names
// locally shadowed at the location of the reference in the callee
// (identified by the stack). The name of the reference itself is
// excluded.
//
// These shadowed names may not be used in a replacement expression
// for the reference.
func (s shadowMap) add(info *types.Info, paramIndexes map[types.Object]int, exclude string, stack []ast.Node) shadowMap {
	for _, n := range stack {
		if scope := scopeFor(info, n); scope != nil {
			for _, name := range scope.Names() {
				if name != exclude {
					if s == nil {
						s = make(shadowMap)
					}
					obj := scope.Lookup(name)
					if idx, ok := paramIndexes[obj]; ok {
						s[name] = idx + 1
					} else {
						s[name] = -1
					}
				}
			}
		}
	}
	return s
}

// fieldObjs returns a map of each types.Object defined by the given signature
// to its index in the parameter list. Parameters with missing or blank name
// are skipped.
func fieldObjs(sig *types.Signature) map[types.Object]int {
	m := make(map[types.Object]int)
	for i := range sig.Params().Len() {
		if p := sig.Params().At(i); p.Name() != "" && p.Name() != "_" {
			m[p] = i
		}
	}
	return m
}

func isField(obj types.Object) bool {
	if v, ok := obj.(*types.Var); ok && v.IsField() {
		return true
	}
	return false
}

func isMethod(obj types.Object) bool {
	if f, ok := obj.(*types.Func); ok && f.Type().(*types.Signature).Recv() != nil {
		return true
	}
	return false
}

// -- serialization --

var (
	_ gob.GobEncoder = (*Callee)(nil)
	_ gob.GobDecoder = (*Callee)(nil)
)

func (callee *Callee) GobEncode() ([]byte, error) {
	var out bytes.Buffer
	if err := gob.NewEncoder(&out).Encode(callee.impl); err != nil {
		return nil, err
	}
	return out.Bytes(), nil
}

func (callee *Callee) GobDecode(data []byte) error {
	return gob.NewDecoder(bytes.NewReader(data)).Decode(&callee.impl)
}
