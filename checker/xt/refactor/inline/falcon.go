// Copyright 2023 The Go Authors. All rights reserved.
// Use of this source code is governed by a BSD-style
// license that can be found in the LICENSE file.

package inline

// This file defines the callee side of the "fallible constant" analysis.

import (
	"fmt"
	"go/ast"
	"go/constant"
	"go/format"
	"go/token"
	"go/types"
	"strconv"
	"strings"

	"golang.org/x/tools/go/types/typeutil"
	"ipcheck/xt/typeparams"
)

// falconResult is the result of the analysis of the callee.
type falconResult struct {
	Types       []falconType // types for falcon constraint environment
	Constraints []string     // constraints (Go expressions) on values of fallible constants
}

// A falconType specifies the name and underlying type of a synthetic
// defined type for use in falcon constraints.
//
// Unique types from callee code are bijectively mapped onto falcon
// types so that constraints are independent of callee type
// information but preserve type equivalence classes.
//
// Fresh names are deliberately obscure to avoid shadowing even if a
// callee parameter has a nanme like "int" or "any".
type falconType struct {
	Name string
	Kind types.BasicKind // string/number/bool
}

// falcon identifies "fallible constant" expressions, which are
// expressions that may fail to compile if one or more of their
// operands is changed from non-constant to constant.
//
// Consider:
//
//	func sub(s string, i, j int) string { return s[i:j] }
//
// If parameters are replaced by constants, the compiler is
// required to perform these additional checks:
//
//   - if i is constant, 0 <= i.
//   - if s and i are constant, i <= len(s).
//   - ditto for j.
//   - if i and j are constant, i <= j.
//
// s[i:j] is thus a "fallible constant" expression dependent on {s, i,
// j}. Each falcon creates a set of conditional constraints across one
// or more parameter variables.
//
//   - When inlining a call such as sub("abc", -1, 2), the parameter i
//     cannot be eliminated by substitution as its argument value is
//     negative.
//
//   - When inlining sub("", 2, 1), all three parameters cannot be
//     simultaneously eliminated by substitution without violating i
//     <= len(s) and j <= len(s), but the parameters i and j could be
//     safely eliminated without s.
//
// Parameters that cannot be eliminated must remain non-constant,
// either in the form of a binding declaration:
//
//	{ var i int = -1; return "abc"[i:2] }
//
// or a parameter of a literalization:
//
//	func (i int) string { return "abc"[i:2] }(-1)
//
// These example expressions are obviously doomed to fail at run
// time, but in realistic cases such expressions are dominated by
// appropriate conditions that make them reachable only when safe:
//
//	if 0 <= i && i <= j && j <= len(s) { _ = s[i:j] }
//
// (In principle a more sophisticated inliner could entirely eliminate
// such unreachable blocks based on the condition being always-false
// for the given parameter substitution, but this is tricky to do safely
// because the type-checker considers only a single configuration.
// Consider: if runtime.GOOS == "linux" { ... }.)
//
// We believe this is an exhaustive list of "fallible constant" operations:
//
//   - switch z { case x: case y } 	// duplicate case values
//   - s[i], s[i:j], s[i:j:k]		// index out of bounds (0 <= i <= j <= k <= len(s))
//   - T{x: 0}				// index out of bounds, duplicate index
//   - x/y, x%y, x/=y, x%=y		// integer division by zero; minint/-1 overflow
//   - x+y, x-y, x*y			// arithmetic overflow
//   - x<<y				// shift out of range
//   - -x				// negation of minint
//   - T(x)				// value out of range
//
// The fundamental reason for this elaborate algorithm is that the
// "separate analysis" of callee and caller, as required when running
// in an environment such as unitchecker, means that there is no way
// for us to simply invoke the type checker on the combination of
// caller and callee code, as by the time we analyze the caller, we no
// longer have access to type information for the callee (and, in
// particular, any of its direct dependencies that are not direct
// dependencies of the caller). So, in effect, we are forced to map
// the problem in a neutral (callee-type-independent) constraint
// system that can be verified later.
func falcon(logf func(string, ...any), fset *token.FileSet, params map[*types.Var]*paramInfo, info *types.Info, decl *ast.FuncDecl) falconResult {

	st := &falconState{
		logf:   logf,
		fset:   fset,
		params: params,
		info:   info,
		decl:   decl,
	}

	// type mapping
	st.int = st.typename(types.Typ[types.Int])
	st.any = "interface{}" // don't use "any" as it may be shadowed
	for obj, info := range st.params {
		if isBasic(obj.Type(), types.IsConstType) {
			info.FalconType = st.typename(obj.Type())
		}
	}

	st.stmt(st.decl.Body)

	return st.result
}

type falconState struct {
	// inputs
	logf   func(string, ...any)
	fset   *token.FileSet
	params map[*types.Var]*paramInfo
	info   *types.Info
	decl   *ast.FuncDecl

	// working state
	int       string
	any       string
	typenames typeutil.Map

	result falconResult
}

// typename returns the name in the falcon constraint system
// of a given string/number/bool type t. Falcon types are
// specified directly in go/types data structures rather than
// by name, avoiding potential shadowing conflicts with
// confusing parameter names such as "int".
//
// Also, each distinct type (as determined by types.Identical)
// is mapped to a fresh type in the falcon system so that we
// can map the types in the callee code into a neutral form
// that does not depend on imports, allowing us to detect
// potential conflicts such as
//
//	map[any]{T1(1): 0, T2(1): 0}
//
// where T1=T2.
func (st *falconState) typename(t types.Type) string {
	name, ok := st.typenames.At(t).(string)
	if !ok {
		basic := t.Underlying().(*types.Basic)

		// That dot ۰ is an Arabic zero numeral U+06F0.
		// It is very unlikely to appear in a real program.
		// TODO(adonovan): use a non-heuristic solution.
		name = fmt.Sprintf("%s۰%d", basic, st.typenames.Len())
		st.typenames.Set(t, name)
		st.logf("falcon: emit type %s %s // %q", name, basic, t)
		st.result.Types = append(st.result.Types, falconType{
			Name: name,
			Kind: basic.Kind(),
		})
	}
	return name
}

// -- constraint emission --

// emit emits a Go expression that must have a legal type.
// In effect, we let the go/types constant folding algorithm
// do most of the heavy lifting (though it may be hard to
// believe from the complexity of this algorithm!).
func (st *falconState) emit(constraint ast.Expr) {
	var out strings.Builder
	if err := format.Node(&out, st.fset, constraint); err != nil {
		panic(err) // can't happen
	}
	syntax := out.String()
	st.logf("falcon: emit constraint %s", syntax)
	st.result.Constraints = append(st.result.Constraints, syntax)
}

// emitNonNegative emits an []T{}[index] constraint,
// which ensures index is non-negative if constant.
func (st *falconState) emitNonNegative(index ast.Expr) {
	st.emit(&ast.IndexExpr{
		X: &ast.CompositeLit{
			Type: &ast.ArrayType{
				Elt: makeIdent(st.int),
			},
		},
		Index: index,
	})
}

// emitMonotonic emits an []T{}[i:j] constraint,
// which ensures i <= j if both are constant.
func (st *falconState) emitMonotonic(i, j ast.Expr) {
	st.emit(&ast.SliceExpr{
		X: &ast.CompositeLit{
			Type: &ast.ArrayType{
				Elt: makeIdent(st.int),
			},
		},
		Low:  i,
		High: j,
	})
}

// emitUnique emits a T{elem1: 0, ... elemN: 0} constraint,
// which ensures that all constant elems are unique.
// T may be a map, slice, or array depending
// on the desired check semantics.
func (st *falconState) emitUnique(typ ast.Expr, elems []ast.Expr) {
	if len(elems) > 1 {
		var elts []ast.Expr
		for _, elem := range elems {
			elts = append(elts, &ast.KeyValueExpr{
				Key:   elem,
				Value: makeIntLit(0),
			})
		}
		st.emit(&ast.CompositeLit{
			Type: typ,
			Elts: elts,
		})
	}
}

// -- traversal --

// The traversal functions scan the callee body for expressions that
// are not constant but would become constant if the parameter vars
// were redeclared as constants, and emits for each one a constraint
// (a Go expression) with the property that it will not type-check
// (using types.CheckExpr) if the particular argument values are
// unsuitable.
//
// These constraints are checked by Inline with the actual
// constant argument values. Violations cause it to reject
// parameters as candidates for substitution.

func (st *falconState) stmt(s ast.Stmt) {
	ast.Inspect(s, func(n ast.Node) bool {
		switch n := n.(type) {
		case ast.Expr:
			_ = st.expr(n)
			return false // skip usual traversal

		case *ast.AssignStmt:
			switch n.Tok {
			case token.QUO_ASSIGN, token.REM_ASSIGN:
				// x /= y
				// Possible "integer division by zero"
				// Emit constraint: 1/y.
				_ = st.expr(n.Lhs[0])
				kY := st.expr(n.Rhs[0])
				if kY, ok := kY.(ast.Expr); ok {
					op := token.QUO
					if n.Tok == token.REM_ASSIGN {
						op = token.REM
					}
					st.emit(&ast.BinaryExpr{
						Op: op,
						X:  makeIntLit(1),
						Y:  kY,
					})
				}
				return false // skip usual traversal
			}

		case *ast.SwitchStmt:
			if n.Init != nil {
				st.stmt(n.Init)
			}
			tBool := types.Type(types.Typ[types.Bool])
			tagType := tBool // default: true
			if n.Tag != nil {
				st.expr(n.Tag)
				tagType = st.info.TypeOf(n.Tag)
			}

			// Possible "duplicate case value".
			// Emit constraint map[T]int{v1: 0, ..., vN:0}
			// to ensure all maybe-constant case values are unique
			// (unless switch tag is boolean, which is relaxed).
			var unique []ast.Expr
			for _, clause := range n.Body.List {
				clause := clause.(*ast.CaseClause)
				for _, caseval := range clause.List {
					if k := st.expr(caseval); k != nil {
						unique = append(unique, st.toExpr(k))
					}
				}
				for _, stmt := range clause.Body {
					st.stmt(stmt)
				}
			}
			if unique != nil && !types.Identical(tagType.Underlying(), tBool) {
				tname := st.any
				if !types.IsInterface(tagType) {
					tname = st.typename(tagType)
				}
				t := &ast.MapType{
					Key:   makeIdent(tname),
					Value: makeIdent(st.int),
				}
				st.emitUnique(t, unique)
			}
		}
		return true
	})
}

// fieldTypes visits the .Type of each field in the list.
func (st *falconState) fieldTypes(fields *ast.FieldList) {
	if fields != nil {
		for _, field := range fields.List {
			_ = st.expr(field.Type)
		}
	}
}

// expr visits the expression (or type) and returns a
// non-nil result if the expression is constant or would
// become constant if all suitable function parameters were
// redeclared as constants.
//
// If the expression is constant, st.expr returns its type
// and value (types.TypeAndValue). If the expression would
// become constant, st.expr returns an ast.Expr tree whose
// leaves are literals and parameter references, and whose
// interior nodes are operations that may become constant,
// such as -x, x+y, f(x), and T(x). We call these would-be
// constant expressions "fallible constants", since they may
// fail to type-check for some values of x, i, and j. (We
// refer to the non-nil cases collectively as "maybe
// constant", and the nil case as "definitely non-constant".)
//
// As a side effect, st.expr emits constraints for each
// fallible constant expression; this is its main purpose.
//
// Consequently, st.expr must visit the entire subtree so
// that all necessary constraints are emitted. It may not
// short-circuit the traversal when it encounters a constant
// subexpression as constants may contain arbitrary other
// syntax that may impose constraints. Consider (as always)
// this contrived but legal example of a type parameter (!)
// that contains statement syntax:
//
//	func f[T [unsafe.Sizeof(func() { stmts })]int]()
//
// There is no need to emit constraints for (e.g.) s[i] when s
// and i are already constants, because we know the expression
// is sound, but it is sometimes easier to emit these
// redundant constraints than to avoid them.
func (st *falconState) expr(e ast.Expr) (res any) { // = types.TypeAndValue | ast.Expr
	tv := st.info.Types[e]
	if tv.Value != nil {
		// A constant value overrides any other result.
		defer func() { res = tv }()
	}

	switch e := e.(type) {
	case *ast.Ident:
		if v, ok := st.info.Uses[e].(*types.Var); ok {
			if _, ok := st.params[v]; ok && isBasic(v.Type(), types.IsConstType) {
				return e // reference to constable parameter
			}
		}
		// (References to *types.Const are handled by the defer.)

	case *ast.BasicLit:
		// constant

	case *ast.ParenExpr:
		return st.expr(e.X)

	case *ast.FuncLit:
		_ = st.expr(e.Type)
		st.stmt(e.Body)
		// definitely non-constant

	case *ast.CompositeLit:
		// T{k: v, ...}, where T ∈ {array,*array,slice,map},
		// imposes a constraint that all constant k are
		// distinct and, for arrays [n]T, within range 0-n.
		//
		// Types matter, not just values. For example,
		// an interface-keyed map may contain keys
		// that are numerically equal so long as they
		// are of distinct types. For example:
		//
		//   type myint int
		//   map[any]bool{1: true, 1:        true} // error: duplicate key
		//   map[any]bool{1: true, int16(1): true} // ok
		//   map[any]bool{1: true, myint(1): true} // ok
		//
		// This can be asserted by emitting a
		// constraint of the form T{k1: 0, ..., kN: 0}.
		if e.Type != nil {
			_ = st.expr(e.Type)
		}
		t := types.Unalias(typeparams.Deref(tv.Type))
		var uniques []ast.Expr
		for _, elt := range e.Elts {
			if kv, ok := elt.(*ast.KeyValueExpr); ok {
				if !is[*types.Struct](t) {
					if k := st.expr(kv.Key); k != nil {
						uniques = append(uniques, st.toExpr(k))
					}
				}
				_ = st.expr(kv.Value)
			} else {
				_ = st.expr(elt)
			}
		}
		if uniques != nil {
			// Inv: not a struct.

			// The type T in constraint T{...} depends on the CompLit:
			// - for a basic-keyed map, use map[K]int;
			// - for an interface-keyed map, use map[any]int;
			// - for a slice, use []int;
			// - for an array or *array, use [n]int.
			// The last two entail progressively stronger index checks.
			var ct ast.Expr // type syntax for constraint
			switch t := typeparams.CoreType(t).(type) {
			case *types.Map:
				if types.IsInterface(t.Key()) {
					ct = &ast.MapType{
						Key:   makeIdent(st.any),
						Value: makeIdent(st.int),
					}
				} else {
					ct = &ast.MapType{
						Key:   makeIdent(st.typename(t.Key())),
						Value: makeIdent(st.int),
					}
				}
			case *types.Array: // or *array
				ct = &ast.ArrayType{
					Len: makeIntLit(t.Len()),
					Elt: makeIdent(st.int),
				}
			default:
				panic(fmt.Sprintf("%T: %v", t, t))
			}
			st.emitUnique(ct, uniques)
		}
		// definitely non-constant

	case *ast.SelectorExpr:
		_ = st.expr(e.X)
		_ = st.expr(e.Sel)
		// The defer is sufficient to handle
		// qualified identifiers (pkg.Const).
		// All other cases are definitely non-constant.

	case *ast.IndexExpr:
		if tv.IsType() {
			// type C[T]
			_ = st.expr(e.X)
			_ = st.expr(e.Index)
		} else {
			// term x[i]
			//
			// Constraints (if x is slice/string/array/*array, not map):
			// - i >= 0
			//     if i is a fallible constant
			// - i < len(x)
			//     if x is array/*array and
			//     i is a fallible constant;
			//  or if s is a string and both i,
			//     s are maybe-constants,
			//     but not both are constants.
			kX := st.expr(e.X)
			kI := st.expr(e.Index)
			if kI != nil && !is[*types.Map](st.info.TypeOf(e.X).Underlying()) {
				if kI, ok := kI.(ast.Expr); ok {
					st.emitNonNegative(kI)
				}
				// Emit constraint to check indices against known length.
				// TODO(adonovan): factor with SliceExpr logic.
				var x ast.Expr
				if kX != nil {
					// string
					x = st.toExpr(kX)
				} else if arr, ok := typeparams.CoreType(typeparams.Deref(st.info.TypeOf(e.X))).(*types.Array); ok {
					// array, *array
					x = &ast.CompositeLit{
						Type: &ast.ArrayType{
							Len: makeIntLit(arr.Len()),
							Elt: makeIdent(st.int),
						},
					}
				}
				if x != nil {
					st.emit(&ast.IndexExpr{
						X:     x,
						Index: st.toExpr(kI),
					})
				}
			}
		}
		// definitely non-constant

	case *ast.SliceExpr:
		// x[low:high:max]
		//
		// Emit non-negative constraints for each index,
		// plus low <= high <= max <= len(x)
		// for each pair that are maybe-constant
		// but not definitely constant.

		kX := st.expr(e.X)
		var kLow, kHigh, kMax any
		if e.Low != nil {
			kLow = st.expr(e.Low)
			if kLow != nil {
				if kLow, ok := kLow.(ast.Expr); ok {
					st.emitNonNegative(kLow)
				}
			}
		}
		if e.High != nil {
			kHigh = st.expr(e.High)
			if kHigh != nil {
				if kHigh, ok := kHigh.(ast.Expr); ok {
					st.emitNonNegative(kHigh)
				}
				if kLow != nil {
					st.emitMonotonic(st.toExpr(kLow), st.toExpr(kHigh))
				}
			}
		}
		if e.Max != nil {
			kMax = st.expr(e.Max)
			if kMax != nil {
				if kMax, ok := kMax.(ast.Expr); ok {
					st.emitNonNegative(kMax)
				}
				if kHigh != nil {
					st.emitMonotonic(st.toExpr(kHigh), st.toExpr(kMax))
				}
			}
		}

		// Emit constraint to check indices against known length.
		var x ast.Expr
		if kX != nil {
			// string
			x = st.toExpr(kX)
		} else if arr, ok := typeparams.CoreType(typeparams.Deref(st.info.TypeOf(e.X))).(*types.Array); ok {
			// array, *array
			x = &ast.CompositeLit{
				Type: &ast.ArrayType{
					Len: makeIntLit(arr.Len()),
					Elt: makeIdent(st.int),
				},
			}
		}
		if x != nil {
			// Avoid slice[::max] if kHigh is nonconstant (nil).
			high, max := st.toExpr(kHigh), st.toExpr(kMax)
			if high == nil {
				high = max // => slice[:max:max]
			}
			st.emit(&ast.SliceExpr{
				X:    x,
				Low:  st.toExpr(kLow),
				High: high,
				Max:  max,
			})
		}
		// definitely non-constant

	case *ast.TypeAssertExpr:
		_ = st.expr(e.X)
		if e.Type != nil {
			_ = st.expr(e.Type)
		}

	case *ast.CallExpr:
		_ = st.expr(e.Fun)
		if tv, ok := st.info.Types[e.Fun]; ok && tv.IsType() {
			// conversion T(x)
			//
			// Possible "value out of range".
			kX := st.expr(e.Args[0])
			if kX != nil && isBasic(tv.Type, types.IsConstType) {
				conv := convert(makeIdent(st.typename(tv.Type)), st.toExpr(kX))
				if is[ast.Expr](kX) {
					st.emit(conv)
				}
				return conv
			}
			return nil // definitely non-constant
		}

		// call f(x)

		all := true // all args are possibly-constant
		kArgs := make([]ast.Expr, len(e.Args))
		for i, arg := range e.Args {
			if kArg := st.expr(arg); kArg != nil {
				kArgs[i] = st.toExpr(kArg)
			} else {
				all = false
			}
		}

		// Calls to built-ins with fallibly constant arguments
		// may become constant. All other calls are either
		// constant or non-constant
		if id, ok := e.Fun.(*ast.Ident); ok && all && tv.Value == nil {
			if builtin, ok := st.info.Uses[id].(*types.Builtin); ok {
				switch builtin.Name() {
				case "len", "imag", "real", "complex", "min", "max":
					return &ast.CallExpr{
						Fun:      id,
						Args:     kArgs,
						Ellipsis: e.Ellipsis,
					}
				}
			}
		}

	case *ast.StarExpr: // *T, *ptr
		_ = st.expr(e.X)

	case *ast.UnaryExpr:
		// + - ! ^ & <- ~
		//
		// Possible "negation of minint".
		// Emit constraint: -x
		kX := st.expr(e.X)
		if kX != nil && !is[types.TypeAndValue](kX) {
			if e.Op == token.SUB {
				st.emit(&ast.UnaryExpr{
					Op: e.Op,
					X:  st.toExpr(kX),
				})
			}

			return &ast.UnaryExpr{
				Op: e.Op,
				X:  st.toExpr(kX),
			}
		}

	case *ast.BinaryExpr:
		kX := st.expr(e.X)
		kY := st.expr(e.Y)
		switch e.Op {
		case token.QUO, token.REM:
			// x/y, x%y
			//
			// Possible "integer division by zero" or
			// "minint / -1" overflow.
			// Emit constraint: x/y or 1/y
			if kY != nil {
				if kX == nil {
					kX = makeIntLit(1)
				}
				st.emit(&ast.BinaryExpr{
					Op: e.Op,
					X:  st.toExpr(kX),
					Y:  st.toExpr(kY),
				})
			}

		case token.ADD, token.SUB, token.MUL:
			// x+y, x-y, x*y
			//
			// Possible "arithmetic overflow".
			// Emit constraint: x+y
			if kX != nil && kY != nil {
				st.emit(&ast.BinaryExpr{
					Op: e.Op,
					X:  st.toExpr(kX),
					Y:  st.toExpr(kY),
				})
			}

		case token.SHL, token.SHR:
			// x << y, x >> y
			//
			// Possible "constant shift too large".
			// Either operand may be too large individually,
			// and they may be too large together.
			// Emit constraint:
			//    x << y (if both maybe-constant)
			//    x << 0 (if y is non-constant)
			//    1 << y (if x is non-constant)
			if kX != nil || kY != nil {
				x := st.toExpr(kX)
				if x == nil {
					x = makeIntLit(1)
				}
				y := st.toExpr(kY)
				if y == nil {
					y = makeIntLit(0)
				}
				st.emit(&ast.BinaryExpr{
					Op: e.Op,
					X:  x,
					Y:  y,
				})
			}

		case token.LSS, token.GTR, token.EQL, token.NEQ, token.LEQ, token.GEQ:
			// < > == != <= <=
			//
			// A "x cmp y" expression with constant operands x, y is
			// itself constant, but I can't see how a constant bool
			// could be fallible: the compiler doesn't reject duplicate
			// boolean cases in a switch, presumably because boolean
			// switches are less like n-way branches and more like
			// sequential if-else chains with possibly overlapping
			// conditions; and there is (sadly) no way to convert a
			// boolean constant to an int constant.
		}
		if kX != nil && kY != nil {
			return &ast.BinaryExpr{
				Op: e.Op,
				X:  st.toExpr(kX),
				Y:  st.toExpr(kY),
			}
		}

	// types
	//
	// We need to visit types (and even type parameters)
	// in order to reach all the places where things could go wrong:
	//
	// 	const (
	// 		s = ""
	// 		i = 0
	// 	)
	// 	type C[T [unsafe.Sizeof(func() { _ = s[i] })]int] bool

	case *ast.IndexListExpr:
		_ = st.expr(e.X)
		for _, expr := range e.Indices {
			_ = st.expr(expr)
		}

	case *ast.Ellipsis:
		if e.Elt != nil {
			_ = st.expr(e.Elt)
		}

	case *ast.ArrayType:
		if e.Len != nil {
			_ = st.expr(e.Len)
		}
		_ = st.expr(e.Elt)

	case *ast.StructType:
		st.fieldTypes(e.Fields)

	case *ast.FuncType:
		st.fieldTypes(e.TypeParams)
		st.fieldTypes(e.Params)
		st.fieldTypes(e.Results)

	case *ast.InterfaceType:
		st.fieldTypes(e.Methods)

	case *ast.MapType:
		_ = st.expr(e.Key)
		_ = st.expr(e.Value)

	case *ast.ChanType:
		_ = st.expr(e.Value)
	}
	return
}

// toExpr converts the result of visitExpr to a falcon expression.
// (We don't do this in visitExpr as we first need to discriminate
// constants from maybe-constants.)
func (st *falconState) toExpr(x any) ast.Expr {
	switch x := x.(type) {
	case nil:
		return nil

	case types.TypeAndValue:
		lit := makeLiteral(x.Value)
		if !isBasic(x.Type, types.IsUntyped) {
			// convert to "typed" type
			lit = &ast.CallExpr{
				Fun:  makeIdent(st.typename(x.Type)),
				Args: []ast.Expr{lit},
			}
		}
		return lit

	case ast.Expr:
		return x

	default:
		panic(x)
	}
}

func makeLiteral(v constant.Value) ast.Expr {
	switch v.Kind() {
	case constant.Bool:
		// Rather than refer to the true or false built-ins,
		// which could be shadowed by poorly chosen parameter
		// names, we use 0 == 0 for true and 0 != 0 for false.
		op := token.EQL
		if !constant.BoolVal(v) {
			op = token.NEQ
		}
		return &ast.BinaryExpr{
			Op: op,
			X:  makeIntLit(0),
			Y:  makeIntLit(0),
		}

	case constant.String:
		return &ast.BasicLit{
			Kind:  token.STRING,
			Value: v.ExactString(),
		}

	case constant.Int:
		return &ast.BasicLit{
			Kind:  token.INT,
			Value: v.ExactString(),
		}

	case constant.Float:
		return &ast.BasicLit{
			Kind:  token.FLOAT,
			Value: v.ExactString(),
		}

	case constant.Complex:
		// The components could be float or int.
		y := makeLiteral(constant.Imag(v))
		y.(*ast.BasicLit).Value += "i" // ugh
		if re := constant.Real(v); !consteq(re, kZeroInt) {
			// complex: x + yi
			y = &ast.BinaryExpr{
				Op: token.ADD,
				X:  makeLiteral(re),
				Y:  y,
			}
		}
		return y

	default:
		panic(v.Kind())
	}
}

func makeIntLit(x int64) *ast.BasicLit {
	return &ast.BasicLit{
		Kind:  token.INT,
		Value: strconv.FormatInt(x, 10),
	}
}

func isBasic(t types.Type, info types.BasicInfo) bool {
	basic, ok := t.Underlying().(*types.Basic)
	return ok && basic.Info()&info != 0
}
