// Copyright 2023 The Go Authors. All rights reserved.
// Use of this source code is governed by a BSD-style
// license that can be found in the LICENSE file.

package inline

// This file defines the analysis of callee effects.

import (
	"go/ast"
	"go/token"
	"go/types"
)

const (
	rinf = -1 //  R∞: arbitrary read from memory
	winf = -2 //  W∞: arbitrary write to memory (or unknown control)
)

// calleefx returns a list of parameter indices indicating the order
// in which parameters are first referenced during evaluation of the
// callee, relative both to each other and to other effects of the
// callee (if any), such as arbitrary reads (rinf) and arbitrary
// effects (winf), including unknown control flow. Each parameter
// that is referenced appears once in the list.
//
// For example, the effects list of this function:
//
//	func f(x, y, z int) int {
//	    return y + x + g() + z
//	}
//
// is [1 0 -2 2], indicating reads of y and x, followed by the unknown
// effects of the g() call. and finally the read of parameter z. This
// information is used during inlining to ascertain when it is safe
// for parameter references to be replaced by their corresponding
// argument expressions. Such substitutions are permitted only when
// they do not cause "write" operations (those with effects) to
// commute with "read" operations (those that have no effect but are
// not pure). Impure operations may be reordered with other impure
// operations, and pure operations may be reordered arbitrarily.
//
// The analysis ignores the effects of runtime panics, on the
// assumption that well-behaved programs shouldn't encounter them.
func calleefx(info *types.Info, body *ast.BlockStmt, paramInfos map[*types.Var]*paramInfo) []int {
	// This traversal analyzes the callee's statements (in syntax
	// form, though one could do better with SSA) to compute the
	// sequence of events of the following kinds:
	//
	// 1  read of a parameter variable.
	// 2. reads from other memory.
	// 3. writes to memory

	var effects []int // indices of parameters, or rinf/winf (-ve)
	seen := make(map[int]bool)
	effect := func(i int) {
		if !seen[i] {
			seen[i] = true
			effects = append(effects, i)
		}
	}

	// unknown is called for statements of unknown effects (or control).
	unknown := func() {
		effect(winf)

		// Ensure that all remaining parameters are "seen"
		// after we go into the unknown (unless they are
		// unreferenced by the function body). This lets us
		// not bother implementing the complete traversal into
		// control structures.
		//
		// TODO(adonovan): add them in a deterministic order.
		// (This is not a bug but determinism is good.)
		for _, pinfo := range paramInfos {
			if !pinfo.IsResult && len(pinfo.Refs) > 0 {
				effect(pinfo.Index)
			}
		}
	}

	var visitExpr func(n ast.Expr)
	var visitStmt func(n ast.Stmt) bool
	visitExpr = func(n ast.Expr) {
		switch n := n.(type) {
		case *ast.Ident:
			if v, ok := info.Uses[n].(*types.Var); ok && !v.IsField() {
				// Use of global?
				if v.Parent() == v.Pkg().Scope() {
					effect(rinf) // read global var
				}

				// Use of parameter?
				if pinfo, ok := paramInfos[v]; ok && !pinfo.IsResult {
					effect(pinfo.Index) // read parameter var
				}

				// Use of local variables is ok.
			}

		case *ast.BasicLit:
			// no effect

		case *ast.FuncLit:
			// A func literal has no read or write effect
			// until called, and (most) function calls are
			// considered to have arbitrary effects.
			// So, no effect.

		case *ast.CompositeLit:
			for _, elt := range n.Elts {
				visitExpr(elt) // note: visits KeyValueExpr
			}

		case *ast.ParenExpr:
			visitExpr(n.X)

		case *ast.SelectorExpr:
			if seln, ok := info.Selections[n]; ok {
				visitExpr(n.X)

				// See types.SelectionKind for background.
				switch seln.Kind() {
				case types.MethodExpr:
					// A method expression T.f acts like a
					// reference to a func decl,
					// so it doesn't read x until called.

				case types.MethodVal, types.FieldVal:
					// A field or method value selection x.f
					// reads x if the selection indirects a pointer.

					if indirectSelection(seln) {
						effect(rinf)
					}
				}
			} else {
				// qualified identifier: treat like unqualified
				visitExpr(n.Sel)
			}

		case *ast.IndexExpr:
			if tv := info.Types[n.Index]; tv.IsType() {
				// no effect (G[T] instantiation)
			} else {
				visitExpr(n.X)
				visitExpr(n.Index)
				switch tv.Type.Underlying().(type) {
				case *types.Slice, *types.Pointer: // []T, *[n]T (not string, [n]T)
					effect(rinf) // indirect read of slice/array element
				}
			}

		case *ast.IndexListExpr:
			// no effect (M[K,V] instantiation)

		case *ast.SliceExpr:
			visitExpr(n.X)
			visitExpr(n.Low)
			visitExpr(n.High)
			visitExpr(n.Max)

		case *ast.TypeAssertExpr:
			visitExpr(n.X)

		case *ast.CallExpr:
			if info.Types[n.Fun].IsType() {
				// conversion T(x)
				visitExpr(n.Args[0])
			} else {
				// call f(args)
				visitExpr(n.Fun)
				for i, arg := range n.Args {
					if i == 0 && info.Types[arg].IsType() {
						continue // new(T), make(T, n)
					}
					visitExpr(arg)
				}

				// The pure built-ins have no effects beyond
				// those of their operands (not even memory reads).
				// All other calls have unknown effects.
				if !callsPureBuiltin(info, n) {
					unknown() // arbitrary effects
				}
			}

		case *ast.StarExpr:
			visitExpr(n.X)
			effect(rinf) // *ptr load or store depends on state of heap

		case *ast.UnaryExpr: // + - ! ^ & ~ <-
			visitExpr(n.X)
			if n.Op == token.ARROW {
				unknown() // effect: channel receive
			}

		case *ast.BinaryExpr:
			visitExpr(n.X)
			visitExpr(n.Y)

		case *ast.KeyValueExpr:
			visitExpr(n.Key) // may be a struct field
			visitExpr(n.Value)

		case *ast.BadExpr:
			// no effect

		case nil:
			// optional subtree

		default:
			// type syntax: unreachable given traversal
			panic(n)
		}
	}

	// visitStmt's result indicates the continuation:
	// false for return, true for the next statement.
	//
	// We could treat return as an unknown, but this way
	// yields definite effects for simple sequences like
	// {S1; S2; return}, so unreferenced parameters are
	// not spuriously added to the effects list, and thus
	// not spuriously disqualified from elimination.
	visitStmt = func(n ast.Stmt) bool {
		switch n := n.(type) {
		case *ast.DeclStmt:
			decl := n.Decl.(*ast.GenDecl)
			for _, spec := range decl.Specs {
				switch spec := spec.(type) {
				case *ast.ValueSpec:
					for _, v := range spec.Values {
						visitExpr(v)
					}

				case *ast.TypeSpec:
					// no effect
				}
			}

		case *ast.LabeledStmt:
			return visitStmt(n.Stmt)

		case *ast.ExprStmt:
			visitExpr(n.X)

		case *ast.SendStmt:
			visitExpr(n.Chan)
			visitExpr(n.Value)
			unknown() // effect: channel send

		case *ast.IncDecStmt:
			visitExpr(n.X)
			unknown() // effect: variable increment

		case *ast.AssignStmt:
			for _, lhs := range n.Lhs {
				visitExpr(lhs)
			}
			for _, rhs := range n.Rhs {
				visitExpr(rhs)
			}
			for _, lhs := range n.Lhs {
				id, _ := lhs.(*ast.Ident)
				if id != nil && id.Name == "_" {
					continue // blank assign has no effect
				}
				if n.Tok == token.DEFINE && id != nil && info.Defs[id] != nil {
					continue // new var declared by := has no effect
				}
				unknown() // assignment to existing var
				break
			}

		case *ast.GoStmt:
			visitExpr(n.Call.Fun)
			for _, arg := range n.Call.Args {
				visitExpr(arg)
			}
			unknown() // effect: create goroutine

		case *ast.DeferStmt:
			visitExpr(n.Call.Fun)
			for _, arg := range n.Call.Args {
				visitExpr(arg)
			}
			unknown() // effect: push defer

		case *ast.ReturnStmt:
			for _, res := range n.Results {
				visitExpr(res)
			}
			return false

		case *ast.BlockStmt:
			for _, stmt := range n.List {
				if !visitStmt(stmt) {
					return false
				}
			}

		case *ast.BranchStmt:
			unknown() // control flow

		case *ast.IfStmt:
			visitStmt(n.Init)
			visitExpr(n.Cond)
			unknown() // control flow

		case *ast.SwitchStmt:
			visitStmt(n.Init)
			visitExpr(n.Tag)
			unknown() // control flow

		case *ast.TypeSwitchStmt:
			visitStmt(n.Init)
			visitStmt(n.Assign)
			unknown() // control flow

		case *ast.SelectStmt:
			unknown() // control flow

		case *ast.ForStmt:
			visitStmt(n.Init)
			visitExpr(n.Cond)
			unknown() // control flow

		case *ast.RangeStmt:
			visitExpr(n.X)
			unknown() // control flow

		case *ast.EmptyStmt, *ast.BadStmt:
			// no effect

		case nil:
			// optional subtree

		default:
			panic(n)
		}
		return true
	}
	visitStmt(body)

	return effects
}
